#!/bin/sh
# Build the framework from files on disk only (offline): Lean models + proofs + native driver,
# and the Rust harness against /repo's current working tree with the verif_hooks feature on.
set -e
cd "$(dirname "$0")"
export CARGO_NET_OFFLINE=true
mkdir -p .cache/tmp evidence
python3 tools/extract.py
(cd lean && lake build AnyDB anydb_driver)
cp /repo/Cargo.lock harness/Cargo.lock 2>/dev/null || true
(cd harness && cargo build --release --offline)
echo "setup ok"
