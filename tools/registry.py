import re
"""Per-property configuration and the generic property runner."""
import json, os, re, sys, time

from checklib import *  # noqa

# --------------------------------------------------------------------------------------------
# rawdb observation helpers


def rsec(body):
    """'out | R … | H … | P … | V … | F … | E …' → dict"""
    parts = body.split(" | ")
    d = {"out": parts[0]}
    for p in parts[1:]:
        d[p[:1]] = p[2:] if len(p) > 1 else ""
    return d


def proj_c01(body):
    d = rsec(body)
    regs = []
    for r in d.get("R", "").split():
        f = r.split(":")
        regs.append(f"{f[4]}:{f[2]}:{f[5]}")
    return d["out"] + " | " + " ".join(sorted(regs))


def proj_c02(body):
    d = rsec(body)
    regs = [":".join(r.split(":")[:5] + r.split(":")[6:]) for r in d.get("R", "").split()]
    return " | ".join([d["out"], " ".join(regs)] + [d.get(k, "") for k in "HPVF"])


def proj_state(body):
    d = rsec(body)
    return " | ".join([d["out"]] + [d.get(k, "") for k in "RHPVF"])


def proj_events(body):
    d = rsec(body)
    return d["out"] + " | " + d.get("E", "")


def rawdb_features(case):
    """per-case feature trace (for counting distinct non-trivial cases)"""
    trace, kinds = [], set()
    prev = {}
    prevd = None
    for op, obs in zip(case["ops"], case["impl"]):
        if op.startswith("case") or " | " not in obs:
            continue
        d = rsec(split_obs(obs)[0])
        cur = {}
        for r in d.get("R", "").split():
            f = r.split(":")
            cur[f[0]] = (f[1], f[3])
        tags = [op.split()[0], d["out"].split(":")[0] if d["out"].startswith("ok") else d["out"]]
        for i, (st, rs) in cur.items():
            if i in prev and prev[i][0] != st:
                tags.append("reloc")
            elif i in prev and prev[i][1] != rs:
                tags.append("grow")
        if prevd is not None:
            if prevd.get("P") and not d.get("P"):
                tags.append("promote")
            if len(prevd.get("H", "").split()) > len(d.get("H", "").split()) and tags[0] in ("create", "write", "write_at", "truncate_write"):
                tags.append("holefill")
        if re.search(r"(^| )p\d", d.get("E", "")):
            tags.append("punch")
        if tags[0] == "reopen":
            tags.append("reopened")
        if d["out"].startswith("err"):
            tags.append("refuse")
        kinds.update(t for t in tags if t in ("reloc", "grow", "promote", "holefill", "punch", "reopened", "refuse"))
        trace.append(",".join(tags))
        prev, prevd = cur, d
    return trace, kinds


RAWDB_RULE = (
    "histories generated from the reference state by harness/src/rawdb_engine.rs (12 region names incl. 1-byte, 1024-byte, "
    "non-ASCII and special-character ids; sizes {0,1,7,100,4095..8193,20000,70000,300000} + uniform; offsets 0/mid/len-1/len); "
    "a case is non-trivial when its branch trace contains at least two different kinds among relocation, in-place growth, "
    "pending-hole promotion, hole reuse, hole punch, reopen, refusal; distinct = distinct branch traces (sha256 of the per-request tag list)"
)


# --------------------------------------------------------------------------------------------
# vec observation helpers


def vsec(body):
    parts = body.split(" | ")
    d = {"out": parts[0]}
    for p in parts[1:]:
        d[p[:1]] = p[2:] if len(p) > 1 else ""
    return d


def proj_vec(body):
    """everything but the C20 flag; contents are not comparable while stored_len > real_stored_len"""
    d = vsec(body)
    L = d.get("L", "").split()
    items = d.get("I", "")
    if len(L) >= 3 and L[1].isdigit() and L[2].isdigit() and int(L[1]) > int(L[2]):
        items = "*"
    return " | ".join([d["out"], d.get("L", ""), d.get("H", ""), items, d.get("C", ""), d.get("P", "")])


def proj_vec_x(body):
    """C20: the comparable state plus the out-of-region flag"""
    d = vsec(body)
    return proj_vec(body) + " | X " + d.get("X", "?")


def vec_access_features(case):
    trace, kinds = vec_features(case)
    kinds = set(kinds)
    for op, obs in zip(case["ops"][1:], case["impl"][1:]):
        if op.startswith("clonereads") and " | " in obs:
            d = vsec(split_obs(obs)[0])
            L = d.get("L", "").split()
            kinds.add("clone-reads")
            if len(L) >= 3 and int(L[1]) > int(L[2]):
                kinds.add("clone-reads-expanded")
            if len(L) >= 3 and int(L[1]) < int(L[2]):
                kinds.add("clone-reads-trunc-pending")
            if d.get("H"):
                kinds.add("clone-reads-holes")
    return trace, kinds


def vec_features(case):
    trace, kinds = [], set()
    prev = None
    head = case["ops"][0] if case["ops"] else ""
    fmt = next((w[4:] for w in head.split() if w.startswith("fmt=")), "?")
    for op, obs in zip(case["ops"][1:], case["impl"][1:]):
        if " | " not in obs:
            continue
        d = vsec(split_obs(obs)[0])
        w = op.split()[0]
        tags = [w, d["out"].split(":")[0]]
        L = d.get("L", "").split()
        if len(L) >= 4:
            ln, st, real = int(L[0]), int(L[1]), int(L[2])
            if st < real:
                tags.append("trunc-pending")
            if st > real:
                tags.append("expanded")
            if ln > st:
                tags.append("buffered")
        if d.get("H"):
            tags.append("holes")
        pages = d.get("P", "").split()
        npg = len([p for p in pages if ":" in p])
        if npg >= 2:
            tags.append("multipage")
        if w in ("write", "flush", "commit", "swrite") and prev is not None and prev.get("P") != d.get("P"):
            tags.append("pages-rewritten")
        if w in ("rollback", "rollback_before") and d["out"].startswith("ok"):
            tags.append("rolled-back")
        if d["out"].startswith("err"):
            tags.append("refuse")
        if w == "reimport":
            tags.append("reimported")
        if w in ("fdel", "ftrunc", "fpatch"):
            tags.append("fault")
        kinds.update(t for t in tags[2:])
        trace.append(",".join(tags))
        prev = d
    trace.append(fmt)
    return trace, kinds



def proj_compute(body):
    return body.split(" | S ")[0]


def compute_features(case):
    head = case["ops"][0] if case["ops"] else ""
    m = next((w[2:] for w in head.split() if w.startswith("m=")), "?")
    trace, kinds = [m], set()
    n_comp = 0
    for op, obs in zip(case["ops"][1:], case["impl"][1:]):
        w = op.split()
        tag = w[0]
        if tag == "compute":
            n_comp += 1
            cap = w[2] if len(w) > 2 else "0"
            mf = w[1] if len(w) > 1 else "0"
            tag = f"compute:{'resume' if mf != '0' else 'zero'}:{'small' if cap in ('1','2','3','7') else 'big'}"
            if cap in ("1", "2", "3", "7"):
                kinds.add("multi-batch")
            if mf != "0":
                kinds.add("resume")
        elif tag == "trunc":
            kinds.add("truncate-regrow")
        elif tag == "bump":
            kinds.add("version-bump")
        elif tag == "setver":
            kinds.add("version-set")
        elif tag in ("treimport", "twrite", "tflush"):
            kinds.add("target-io")
        trace.append(tag)
    if n_comp >= 2:
        kinds.add("repeated")
    return trace, kinds


COMPUTE_RULE = (
    "one method per case (32 exact methods, two store back-ends), histories of append / truncate-and-regrow / redundant compute / target write, flush, "
    "re-import / source version bump; each compute call picks max_from ≤ first changed index and a batch capacity from {prod,1,2,3,7,64}; non-trivial = at least two of: "
    "multi-batch call, resumed call (max_from>0), truncate-and-regrow, version bump, target IO, repeated calls; distinct = distinct (method, op-tag sequence)"
)


def proj_all(body):
    return body


def codec_features(case):
    kinds = set()
    for op, obs in zip(case["ops"][1:], case["impl"][1:]):
        a = split_obs(obs)[0].split()
        kinds.add(op.split()[0] + ":" + (a[0] if a else "?"))
    return list(case["ops"][1:]), (kinds if len(kinds) >= 3 else set())


CODEC_RULE = (
    "per case 60 decoder inputs drawn from: metadata slots with fields at and around their limits and optional single-bit damage or wrong total size, "
    "little-endian integers and byte arrays of right and wrong length, and crafted metadata files with interleaved valid / zero / garbage / rule-violating slots; "
    "a case is non-trivial when it produced at least three different (request kind, answer kind) pairs; distinct = distinct input lists"
)


def import_features(case):
    kinds = set()
    for op, obs in zip(case["ops"][1:], case["impl"][1:]):
        kinds.add(split_obs(obs)[0].split(" | ")[0].split(":")[0])
    return list(case["ops"][1:]), (kinds if len(kinds) >= 2 else set())



def lazy_features(case):
    head = case["ops"][0] if case["ops"] else ""
    kinds = set()
    trace = [head.split()[-1] if head else "?"]
    for op, obs in zip(case["ops"][1:], case["impl"][1:]):
        w = op.split()
        body = split_obs(obs)[0]
        tag = w[0]
        if tag == "range" and len(w) >= 3:
            a, b = int(w[1]), int(w[2])
            tag = "range:" + ("rev" if a > b else "empty" if a == b else "huge" if b > 10**9 else "in")
            kinds.add(tag)
        elif tag == "sorted":
            kinds.add("sorted")
        elif tag == "src":
            kinds.add("source-rewritten")
        elif tag == "map":
            kinds.add("mapping")
        if body.startswith("ok _") or body == "ok none" or body == "ok -":
            kinds.add("nothing")
        trace.append(tag + ":" + body[:12])
    return trace, (kinds if len(kinds) >= 3 else set())



def crash_features(case):
    trace, kinds = rawdb_features(case)
    evs = 0
    for obs in case["impl"][1:]:
        d = rsec(split_obs(obs)[0]) if " | " in obs else {}
        evs += len(d.get("E", "").split())
    if evs > 20:
        kinds = set(kinds) | {"many-events"}
    return trace, kinds



def trace_features(case):
    kinds = set()
    trace = []
    for op in case["ops"][1:]:
        w = op.split()
        if len(w) >= 2:
            trace.append(op)
            classes = {e.split(":")[-1].split("#")[0] for e in w[2:] if e.startswith("a:")}
            nested = 0
            held = 0
            for e in w[2:]:
                if e.startswith("a:"):
                    held += 1
                    nested = max(nested, held)
                elif e.startswith("r:"):
                    held -= 1
            if nested >= 2:
                kinds.add("nested")
            if nested >= 3:
                kinds.add("nested3")
            if len(classes) >= 4:
                kinds.add("many-classes")
    return trace, kinds


VEC_RULE = (
    "histories generated by harness/src/vec_engine.rs over 14 format×type combinations (BytesVec u16/u64/u128/f32, ZeroCopyVec u32/u64, "
    "PcoVec u32/u64/i64/f64, LZ4Vec u64/u128, ZstdVec u16/u32), values incl. 0, MAX, sign boundary and random bit patterns, bulk pushes of "
    "page-1/page/page+1/2·page+3 elements; a case is non-trivial when its trace shows at least two different kinds among: buffered elements, "
    "pending truncation, expanded (stored_len > real), holes, multi-page index, page index rewritten, successful rollback, refusal, re-import, "
    "fault; distinct = distinct per-request tag traces"
)

# --------------------------------------------------------------------------------------------

TRUST_COMMON = [
    "Lean 4.33.0 kernel; axioms of every property theorem ⊆ {propext, Classical.choice, Quot.sound} (printed below)",
    "the Lean model is hand-written; it is tied to /repo only by the lock-step correspondence run (differential testing, coverage printed) and by tools/extract.py (regex extraction of constants, byte layouts and call orders)",
    "harness/driver glue: request parsing and canonicalisation on both sides",
]

ENGINES = [
    {"name": "rawdb", "path": "harness/src/rawdb_engine.rs + lean/Driver/RawdbProto.lean", "serves_properties": ["C01", "C02", "C13"],
     "kind_free_text": "generates region-operation histories, runs them on the real rawdb crate in-process and on the compiled Lean model, compares the projected state after every request; model-free oracles (reference byte vectors, extent invariants, state-unchanged-after-refusal) on the implementation"},
]

ENGINES.append({"name": "vec", "path": "harness/src/vec_engine.rs + lean/Driver/VecProto.lean", "serves_properties": ["C03", "C04", "C07", "C13", "C16"],
     "kind_free_text": "generates vector histories (plain edits, commit/rollback, damaged change records, refusals), runs them on real BytesVec/ZeroCopyVec/PcoVec/LZ4Vec/ZstdVec and on the compiled Lean model, compares length, stored/real length, stamp, deleted slots, contents hash, change directory and page index after every request; model-free oracles: reference vector, committed-state stack, page-index well-formedness, unchanged-after-refusal"})

ENGINES.append({"name": "compute", "path": "harness/src/compute_engine.rs + lean/Driver/ComputeProto.lean", "serves_properties": ["C06", "C19"],
     "kind_free_text": "32 exact EagerVec::compute_* methods over histories of source appends, truncate-and-regrow, redundant calls, target write/flush/re-import and source version bumps, with the internal batch capacity forced to 1/2/3/7/64 elements; three-way comparison: incremental result = from-scratch run of the implementation = defining formula evaluated by the Lean driver; closure evaluation log and recorded version for C19"})

ENGINES.append({"name": "codec", "path": "harness/src/codec_engine.rs + lean/Driver/CodecProto.lean", "serves_properties": ["C17"],
     "kind_free_text": "valid, boundary and mutated encodings (field values 0, page multiples ± 1, 2^32, 2^63, u64::MAX, name lengths 0/1/1023/1024/1025, invalid UTF-8 classes, wrong slot sizes, bit flips) fed to the real decoders under catch_unwind and to the Lean decoders; whole crafted metadata files opened by Database::open and compared with the model's fill"})

ENGINES.append({"name": "import", "path": "harness/src/import_engine.rs + lean/Driver/ImportProto.lean", "serves_properties": ["C14"],
     "kind_free_text": "exhaustive enumeration of (creation entry point, creation version, creation format) × (reopen entry point, version v-1/v/v+1, format) over the five formats: 300 create/flush/reopen/reopen-again experiments on real vectors compared with the Lean importVec and with the property's own expectations"})

ENGINES.append({"name": "lazy", "path": "harness/src/lazy_engine.rs + lean/Driver/LazyProto.lean", "serves_properties": ["C15"],
     "kind_free_text": "LazyVecFrom1/2/3, LazyDeltaVec<DeltaSub> and LazyAggVec<Sparse> over BytesVec sources that are rewritten and grow after construction; every range request goes through six range APIs which must agree, plus point and sorted reads; oracle = defining formula on plain vectors; canonical answers compared with the Lean model"})

ENGINES.append({"name": "crash", "path": "harness/src/crash_engine.rs (+ rawdb driver protocol)", "serves_properties": ["C05", "C12"],
     "kind_free_text": "records every effect on the two files through the guarded durability tap while a generated history runs on the real rawdb, builds crash images (sync-only, all-written, single-page deviations, random per-page mixtures of versions) at every event boundary after the first flush and runs the real Database::open on each; compares the per-request event stream with the Lean model's; checks compact's frame conditions on the real database"})

ENGINES.append({"name": "sched", "path": "harness/src/sched_engine.rs + lean/Driver/LocksProto.lean", "serves_properties": ["C11", "C09", "C10"],
     "kind_free_text": "trace mode: 48 operation × state scenarios of rawdb and vecdb run alone under the guarded lock shim, acquisition traces checked by the Lean driver against the lock order; directed schedules (C09/C10): threads stopped at lock requests / pause points while another thread runs a script"})

def proj_after_L(body):
    m = re.search(r"(?:^|\| )L (.*)$", body)
    return m.group(1).strip() if m else body


def proj_possible(body):
    """C09: the driver says whether the observation is one the model can produce; the implementation side is the observation itself"""
    return body if body.startswith(("possible", "impossible")) else "possible"


def c09_features(case):
    head = case["ops"][0] if case["ops"] else ""
    kv = dict(w.split("=", 1) for w in head.split() if "=" in w)
    kinds = {"fmt=" + kv.get("fmt", "?"), "sc=" + kv.get("sc", "?"), "mode=" + kv.get("mode", "?")}
    trace = [kv.get("fmt", "?"), kv.get("sc", "?"), kv.get("mode", "?")]
    for op, obs in zip(case["ops"][1:], case["impl"][1:]):
        ev = split_obs(obs)[0].split(" ")[0]
        trace.append(ev)
        w = op.split(" | ")[-1].split()
        if len(w) >= 4 and w[0].isdigit() and w[3].isdigit():
            kinds.add("reader-saw-" + ("new" if int(w[3]) > int(w[0]) else "old") + "-length")
        if " w=1" in obs:
            kinds.add("other-thread-had-to-wait")
    return trace, kinds


def c10_features(case):
    head = case["ops"][0] if case["ops"] else ""
    kv = dict(w.split("=", 1) for w in head.split() if "=" in w)
    kinds = set()
    trace = [kv.get("a", "?"), kv.get("b", "?"), kv.get("hold", "0")]
    for op, obs in zip(case["ops"][1:], case["impl"][1:]):
        ev = split_obs(obs)[0].split(" ")[0]
        trace.append(ev)
        if ev != "-":
            kinds.add("parked-" + ev.split(":")[0] + "-" + ev.split(":")[-1])
        if " w=1" in obs:
            kinds.add("other-thread-had-to-wait")
    kinds.add("a=" + kv.get("a", "?"))
    kinds.add("b=" + kv.get("b", "?"))
    return trace, kinds


def openlock_features(case):
    kinds = set()
    trace = []
    refs = 0
    cur = 0
    for op, obs in zip(case["ops"][1:], case["impl"][1:]):
        w = op.split()
        body = split_obs(obs)[0]
        res = body.split(" | ")[0]
        trace.append(w[0] + ":" + (w[1] if w[0] in ("probe", "ref") else "") + ":" + res.split(":")[0])
        if w[0] in ("open", "probe"):
            m = int(w[-1])
            how = w[1] if w[0] == "probe" else "thread"
            if refs > 0:
                kinds.add(f"refused-{how}-" + ("above" if m > cur else "below" if m > 0 else "plain"))
            elif res.startswith("opened"):
                kinds.add("open-free" if res.endswith(":0") else "reopen-after-flush")
                if w[0] == "open":
                    refs = 1
        elif w[0] == "ref" and res == "ok":
            kinds.add("ref-" + w[1])
            refs += 1
        elif w[0] == "drop" and res == "ok":
            refs -= 1
            if refs == 0:
                kinds.add("last-drop")
        elif w[0] == "bg" and res == "ok":
            kinds.add("bg-task")
        try:
            cur = int(body.split(" | D ")[1].split()[0])
        except Exception:
            pass
    return trace, (kinds if len(kinds) >= 3 else set())


ENGINES.append({"name": "c09", "path": "harness/src/c09_engine.rs + harness/src/dsched.rs + lean/Driver/C09Proto.lean", "serves_properties": ["C09"],
     "kind_free_text": "directed schedules of one real writer (push…; write()) against real readers on BytesVec<u64>, ZeroCopyVec<u32>, PcoVec<u64>, LZ4Vec<u64>, ZstdVec<u32>: write that fits, grows the last region, relocates, crosses a page boundary from a partial tail page, starts on a page boundary, makes the file grow; mode w: the writer is parked at EVERY lock event of its write() in turn and a reader battery runs on a read-only clone (len, collect_range, collect_one, fold, read_into, cursor, and VecReader for the raw formats); mode r: a reader is parked at every lock event of one long read — in particular between loading the shared length and creating its rawdb Reader — while the writer performs the whole write; model-free oracle: observed length is the old or the new one and never decreases, every element below it is readable and equals the pushed value, no panic, nobody blocked for good; each observation is also checked against the Lean model (is there an interleaving of the model that yields it?)"})

ENGINES.append({"name": "c10", "path": "harness/src/c10_engine.rs + harness/src/dsched.rs + lean/Driver/C10Proto.lean", "serves_properties": ["C10"],
     "kind_free_text": "directed schedules on one real database: thread A runs one operation on its region (create — also with the only hole of a full file —, write that fits / extends the last region / expands into a hole / relocates into a hole / relocates to the end / grows the file, truncate, remove, rename, flush, compact) and is parked at EVERY lock event of that operation in turn (request, acquisition, release, reported by the guarded lock shim); while it is parked thread B runs a script on its own regions (create+write, create+write+grow, grow+flush+create, compact, flush+reuse of freed extents); model-free oracle: no panic, nobody blocked for good, every region holds exactly what its own thread wrote (checked by B after each step and for all regions at the end), C02 extent invariants at the end, a Reader of A's region created before the schedule still returns A's bytes; the final layout is checked by the Lean driver with the disjointness check proved sound against the model"})

ENGINES.append({"name": "openlock", "path": "harness/src/openlock_engine.rs + lean/Driver/OpenLockProto.lean", "serves_properties": ["C18"],
     "kind_free_text": "histories of opens on one directory — kept, or dropped at once; from a fresh thread or from a child process re-executing the harness; Database::open and open_with_min_len with lengths absent, below, equal to and above the current file size — interleaved with clones, readers, region-derived database references, background tasks, drops in any order and flushed writes of the holder; model-free oracle: an attempt made while any reference is alive fails with Error::TryLock and leaves every file of the directory byte-identical, an attempt with none alive succeeds and reads the last flushed value; outcome and data-file length compared with the Lean model after every request"})

NOT_CLAIMED = {}

PROPS = {
    "C01": dict(
        lean="AnyDB.Props.C01",
        lean_extra=["AnyDB.Props.C01Run", "AnyDB.Props.C01Reopen", "AnyDB.Props.C01Total", "AnyDB.Props.C01All"],
        runs=[
            Run("rawdb", "clean", [], (240, 50), (4000, 200), proj_c01, ["C01", "panic"], rawdb_features),
            Run("rawdb", "refusals", ["--malformed"], (80, 40), (1500, 120), proj_c01, ["C01", "panic"], rawdb_features),
        ],
        rule=RAWDB_RULE,
        assumptions=["page cache coherent with the shared mapping (no crash in this property)"],
        level_text="Lean 4 REFINEMENT theorem over the executable model of rawdb, for every history (Props/C01Run.lean): the reference of the property is a list of named, independent byte vectors (refStep: create adds an empty vector, the three writes splice into one vector or are refused beyond its end, truncate cuts one, rename changes one name, remove drops one, retain drops those not kept, everything else changes nothing); C01_step: from ANY model state that shows a reference r and satisfies the invariant (C02's layout invariant + contents inside reservation and file), every request answered with a success or an API refusal leads to a state that shows refStep r op — name, length and every byte of every region, all four placement paths of write_with (fits / extend last / expand into adjacent hole / relocate with copy) reduced to one lemma because the extent AFTER the operation is apart from every other live region (linv_writeWith), hole punching hits only tails beyond ceil_page(len) and free extents; C01_run_partial lifts it by induction to every history from the empty database without reopen whose answers are successes or API refusals, and C01_history_partial weakens that hypothesis to the observable one — no request panics or answers RegionSizeOverflow — because under the invariant the internal error answers HoleTooSmall, OverlappingCopyRanges, RegionIndexMismatch, InvariantViolation cannot occur (Lemmas/RegionErrors.lean); C01_isolated: in the reference a request changes no entry but the one it names. Underneath: the byte-level laws of Props/C01.lean (read-own-write, frame, copy, growth, punching). Reopen (Props/C01Reopen.lean, Lemmas/RegionFile.lean): the invariant FInv — the regions metadata file agrees with the slot table: no image for a freed slot, the slot's metadata for every live slot that was written at least once — is preserved by every operation (C01_file_agrees), and C01_reopen_partial: after every such history ending in a state where every live region has held data or been renamed, dropping all handles and opening the directory again (any min_len) shows in every slot exactly the reference's name, length and bytes, and removed regions stay absent; Layout::from cannot panic there (reopen_ok). Panic-freedom is proved, so the hypotheses about the answers are discharged (Props/C01Total.lean, Lemmas/LayoutInFile*.lean, RegionNoPanic.lean, RegionGrowFine.lean, RegionFine.lean): C01_history — for EVERY history without reopen whose requests are well-formed (names passed to create/rename accepted by validate_id; in the reference no region grows beyond 2^39 bytes, where the doubled reservation would pass MAX_RESERVED_SIZE — both conditions on the request list alone, decidable, OKRun) no request panics, every answer is a success or a documented refusal, and the database shows exactly the reference; the proof needed the in-file invariant InF (every extent ends inside the data file and the cached file length equals the mapping size, preserved by every operation: inf_step), which makes write_to_mmap's bounds assertion, the copy slice, take_reserved and set_reserved unreachable, plus growReserved_lt / growReserved_some for the doubling loop; C01_reopen is the same across a reopen. Reopen at ANY point, any number of times (Props/C01All.lean, Lemmas/ReopenState/ReopenInv/ReopenRel/RefPad.lean): C01_history_all — for every well-formed history in which a reopen happens only when every live region has been written at least once (the property promises survival exactly for those), no request panics and after the history every slot shows exactly what the reference shows (trailing free slots do not count: after a reopen the slot table is as long as the metadata file); every invariant holds again in the state Database::open rebuilds (reopen_inv: the holes of Layout::from start at the origin or at the end of a region and end where a region starts), the reopened database shows what it showed (rel_reopen), and the reference step commutes with padding by free slots (refStep_pad).",
        level_note="Trusted: Lean kernel + {propext, Classical.choice, Quot.sound}; the hand-written model Model/Rawdb.lean (tied to /repo by the differential run and tools/extract.py); harness/driver glue; OS page cache coherent with the mapping. Modelled rather than verified: all of rawdb (no Rust line is verified directly).",
        technique="Lean 4 proof over an executable model of rawdb + lock-step correspondence with the real crate and a reference byte-vector oracle",
    ),
    "C02": dict(
        lean="AnyDB.Props.C02",
        lean_extra=["AnyDB.Props.C02Run", "AnyDB.Props.C01Reopen", "AnyDB.Props.C01Total", "AnyDB.Props.C01All"],
        runs=[
            Run("rawdb", "layout", [], (240, 60), (4000, 250), proj_c02, ["C02", "panic"], rawdb_features),
            Run("rawdb", "refusals", ["--malformed"], (80, 40), (1500, 120), proj_c02, ["C02", "panic"], rawdb_features),
            # now and then one write larger than the whole file: growth beyond doubling, relocation to the end of the file
            Run("rawdb", "huge", ["--huge"], (32, 14), (160, 30), proj_c02, ["C02", "C05", "panic"], rawdb_features),
            # refused removals (another handle alive) in the middle of a history: the layout must not have been touched
            Run("rawdb", "held", ["--held", "--held-anywhere"], (64, 50), (600, 120), proj_c02, ["C02", "C13", "panic"], rawdb_features),
        ],
        rule=RAWDB_RULE,
        assumptions=["Layout accessors pending_holes/start_to_reserved exposed by the verif_hooks feature (read-only)"],
        level_text="Lean 4 theorems, unbounded in list length and sizes, for the allocator: promotion of deferred holes keeps the free list positive, pairwise disjoint and merged, covers exactly old free bytes + promoted bytes and stays disjoint from everything the inputs were disjoint from (C02_promote); hole split (C02_split); best fit (C02_best_fit); placement reuses free space and does not grow the file whenever an adequate hole exists, for relocation and for creation (C02_place_reuses, C02_place_end, C02_create_reuses); the file growth rule (C02_growth); flush leaves no deferred hole (C02_flush_promotes). The whole-database invariant over complete histories is proved too (Props/C02Run.lean, Lemmas/Layout*.lean, AllocCnt.lean): LInv — no byte of the file in two extents (region reservations, relocation targets, holes, pending holes), all extents positive, start map = slots — is preserved by EVERY operation of the model from ANY state satisfying it (metadata/data-only operations keep the layout view; remove/retain; flush with promotion and merging; compact; the three growing paths of write_with incl. is_last_anything ⇒ nothing claimed behind, and relocation with its reservation; create), hence C02_history_partial: after every sequence of operations from the empty database without a panicking operation and without reopen, no byte belongs to two extents, everything claimed ends at or before Layout::len, and two live regions never share a byte. The accounting half is proved over the same histories (Lemmas/LayoutAcc.lean, C02_history_accounted): the claimed bytes always form an initial segment — every operation either leaves the number of extents covering each byte unchanged or adds one extent exactly on top of everything claimed (creation / relocation at Layout::len, the last region growing in place) — so every byte below Layout::len belongs to EXACTLY one region, reservation, free extent or pending free extent; with C01_run_inv every region's contents fit its reservation. Page alignment is a whole-history theorem too (Lemmas/LayoutAlign.lean, C02_history_aligned: every extent starts on a page boundary and is a whole number of pages long, and so is Layout::len). Reopen (Props/C01Reopen.lean, Lemmas/LayoutReopen.lean, C02_reopen_partial): at the end of any such history in which every live region has been written at least once, Database::open does not panic in Layout::from (the regions collected by start form a chain because live regions are pairwise apart) and the rebuilt layout has no byte in two extents, positive extents, a start map that agrees with the slots, and every byte below its end in exactly one region or free extent (the holes are exactly the gaps). 'Inside the data file' is a whole-history invariant too (Lemmas/LayoutInFile*.lean, inf_step: every extent ends at or before the size of the mapping, which equals the cached file length), and the no-panic hypothesis of all the above is discharged in Props/C01Total.lean: C02_history — after EVERY well-formed history without reopen (valid names; no region beyond 2^39 bytes in the reference; conditions on the requests only) the state satisfies the disjointness invariant, contents-inside-reservation, exact accounting, page alignment, in-file and metadata-file agreement, and no request panicked. Reopen at any point, any number of times: C02_history_all (Props/C01All.lean) — the same five invariants after every well-formed history with reopens (each in a state where every live region has been written at least once); the layout Database::open rebuilds is disjoint, fully accounted, page-aligned and inside the file (reopen_inv).",
        level_note="Trusted: Lean kernel + standard axioms; hand-written model (Model/Rawdb.lean) tied to /repo by differential run + extractor; the guarded read-only Layout accessors. Modelled rather than verified: layout.rs, region.rs write_with, lib.rs create/set_min_len/flush.",
        technique="Lean 4 proof of allocator invariants (induction over the pending-hole list) + full-layout lock-step correspondence + independent invariant checker on the real layout",
    ),
    "C03": dict(
        lean="AnyDB.Props.C03",
        lean_extra=["AnyDB.Props.C03Write", "AnyDB.Props.C03Refine", "AnyDB.Props.C03Comp"],
        runs=[
            Run("vec", "plain", ["--mode", "plain"], (168, 50), (840, 110), proj_vec, ["C03", "panic"], vec_features),
            Run("vec", "refusals", ["--mode", "refusals"], (56, 40), (280, 70), proj_vec, ["C03", "panic"], vec_features),
        ],
        rule=VEC_RULE,
        assumptions=["pco / lz4_flex / zstd round-trip every page (sampled here, never proved)", "regions behave like independent byte vectors (C01)"],
        level_text="Lean 4 theorems over the executable model of the raw and compressed vectors (Model/Vec.lean): push appends exactly one element and touches no other index; an accepted update shows the new value at its index — stored, buffered or previously deleted — and touches no other; delete hides exactly its index; truncate cuts the length to min(n, len) for both kinds; a checked push at the wrong index is refused with the state unchanged; stamps change only through stamped writes. The write step of the raw formats is proved too (Props/C03Write.lean): after a successful write() every index reads exactly what it read before — buffered elements are in the region, overlaid ones stored in place, deleted ones still deleted (C03_write_preserves, for every state whose stored length lies inside the region and whose overlay is a sorted map over stored slots; that invariant holds initially and is kept by push, update, delete, truncate: updInv_*). On top of these, the raw formats are proved as a REFINEMENT for every plain history (Props/C03Refine.lean, C03_refinement_raw): after any sequence of pushes, updates (accepted or refused), deletions, truncations and writes from the empty vector, what the vector shows at every index equals the same sequence folded over a plain list of optional values, with no hypothesis on the history (write() cannot fail under the invariant: writeRaw_ok). The compressed write() (page regimes) rests on C07's lossless theorems; reset and re-import are validated by the lock-step correspondence only: 14 real format×type vectors = compiled model = independent reference list after every request. The COMPRESSED formats have the same whole-history refinement (Props/C03Comp*.lean, C03_refinement_comp): for every sequence of pushes, truncations and write()s from the empty compressed vector, with ANY compressed page sizes reported by the compressor, items() returns exactly the reference list, no read leaves the pages, and no request is answered with an error — write() is lossless on all three paths (fast raw append, re-encoding of the partial page, fresh pages: write_refines) and cannot answer CorruptedRegion or WriteOutOfBounds because the page run stays gap-free inside the data region and the index region mirrors the in-memory index (writeComp_total_norm); only the compressor's own round trip is assumed.",
        level_note="Trusted: Lean kernel + standard axioms; hand-written model tied to /repo by the differential run; compressor libraries; harness glue. Two defects of the pinned tree found by this check were repaired by fix: commits (update of a deleted buffered element; compressed reset+write left the stored pages) — known_findings.json.",
        technique="Lean 4 proof of the per-operation laws of the vector model + lock-step correspondence against real vectors of all five formats and a reference-list oracle",
    ),
    "C04": dict(
        lean="AnyDB.Props.C04",
        lean_extra=["AnyDB.Props.C04Raw", "AnyDB.Props.C04Record", "AnyDB.Props.C04Commit", "AnyDB.Props.C04Multi", "AnyDB.Props.C04Comp"],
        runs=[
            Run("vec", "rollback", ["--mode", "rollback"], (196, 50), (900, 110), proj_vec, ["C04", "C16", "panic"], vec_features),
        ],
        rule=VEC_RULE,
        assumptions=["pco / lz4_flex / zstd round-trip every page", "the change directory is only modified by the vector itself"],
        level_text="Lean 4 theorems for ANY NUMBER of consecutive rollbacks on the raw formats (Props/C04Multi.lean): a committed state is described by a snapshot (stamp, stored length, deleted slots, the value of every stored slot); undo_shows: undoing a record that is faithful for the commit c0→c on ANY physical state that presents c — whatever is in its overlay and in the region — yields a state that presents c0 (via the entry-by-entry overlay characterisation of the undo); C04_rollbacks_raw lifts this by induction over the chain of retained records; C04_commits_then_rollbacks_raw ties it to the model's commits (record = recordOf, write = writeRaw, edits = any pushes/truncations/updates/deletions): after rolling back through all records every index reads exactly what it read in the oldest committed state, deleted slots included, with that state's stamp and length. Further: Lean 4 theorems: after any undo the restored state is the baseline of the next change record (C04_baseline: previous stored length = stored length, previous buffer = buffer, stamp = recorded stamp); for compressed formats, whatever mixture of disk and buffer currently holds the logical contents L, undoing a record yields exactly L.take(ts) ++ truncated ++ previous buffer (C04_comp_undo_logical), so consecutive undos compose, and the logical stored length never exceeds the real one afterwards; rollback reads only the record filed under the current stamp. The end-to-end statement over commit histories (all formats, retention 1/2/3/10, continuations after rollback incl. re-import) is validated by the correspondence against a stack-of-committed-states oracle. Raw formats (Props/C04Raw.lean): for every state and every record whose modifications address stored slots of the previous state, the undo succeeds, restores stamp, stored length, buffer and deleted slots and every index reads the record's value where it has one and the slot's current value elsewhere (C04_raw_undo_items); and one commit/rollback pair end to end: from a cleanly committed state p, after ANY pushes, truncations, updates and deletions, the next commit's write and a record that describes the way back, a rollback makes every index read exactly what it read in p (C04_commit_rollback_raw, with after_* and written_of_write discharging its hypotheses); the record round-trips through its bytes (C04_record_roundtrip: parse_change_data ∘ serialize_changes = the record's content, with the cursor's checked arithmetic, for every state whose numbers fit their fields), the record the commit writes describes the way back (faithful_recordOf), and all of it composes on the model's own commit and rollback: from a cleanly committed p, after any pushes, truncations, updates, deletions and a successful commit, rollback succeeds and every index reads exactly what it read in p, stamp / stored length / buffer / deleted slots are p's (C04_commit_then_rollback_raw). Several rollbacks in a row on raw vectors, take/fill among the edits and re-import in between are covered by the correspondence only. The COMPRESSED formats have the same two theorems over the model's own commit and rollback (Props/C04Comp.lean): the change record of a compressed vector round-trips through its bytes (C04_record_roundtrip_comp); C04_commit_then_rollback_comp — from a baseline (just committed or just rolled back), after any pushes and truncations, the commit succeeds whatever the compressor answers, rollback then succeeds and the vector shows exactly what it showed at the baseline, under the baseline's stamp; and C04_commits_then_rollbacks_comp — any number of such rounds, then ALL records undone newest first: no undo fails and the vector shows the baseline again (the undo is re-based on the current logical contents, so it is correct from any state that presents the newer snapshot: undo_shows_c, C04_rollbacks_comp).",
        level_note="Trusted: Lean kernel + standard axioms; hand-written model; harness. The pinned tree violated C04 in three ways (bare rollback() left a stale baseline; compressed chained rollback across a truncating commit; raw write after a rolled-back truncation failed and lost the buffer): all three repaired by fix: commits, listed as fixed in known_findings.json.",
        technique="Lean 4 proof (list algebra of the undo on the logical contents) + lock-step correspondence with a committed-state-stack oracle",
    ),
    "C06": dict(
        lean="AnyDB.Props.C06",
        runs=[
            Run("compute", "methods", [], (640, 24), (12000, 60), proj_compute, ["C06", "panic"], compute_features, clean=False),
        ],
        rule=COMPUTE_RULE,
        assumptions=["values are small usize numbers (no overflow): exact arithmetic as the property says", "hook H3 (verif_hooks) lowers MAX_CACHE_SIZE at run time so that multi-batch paths execute with small data"],
        level_text="Lean 4 theorems for the accumulator families (cumulative, cumulative_binary, cumulative_transformed_binary, cumulative_count, all_time_high — any step function f and initial state): the batch closure resuming from the last stored output extends a correct prefix to the next correct prefix (C06_batch_extends), repeat_until_complete terminates on the full formula (C06_run_correct), after ANY change of the sources from index p on with max_from ≤ p the stored result equals the from-scratch formula and is as long as the source (C06_incremental_eq_scratch), independent of the batch capacity (C06_batch_independent), idempotent under redundant calls, and reset on version change. For all 32 exact methods the defining formula is in the model (Compute.spec) and every implementation result is compared three ways: incremental = from-scratch run on a fresh vector = Lean formula. Window / lookback / index-group / multi-source incremental algorithms are not yet modelled (formula + three-way tie only).",
        level_note="Trusted: Lean kernel + standard axioms; hand-written model; harness; hook H3. Known finding F3 (all_time_low_ with exclude_default resumes from a possibly excluded output) is kept with its Lean counterexample and a replayed witness.",
        technique="Lean 4 proof (induction on fuel of repeat_until_complete; scan algebra) for accumulator families + three-way differential (incremental / from-scratch / Lean formula) for all exact methods",
    ),
    "C19": dict(
        lean="AnyDB.Props.C19",
        runs=[
            Run("compute", "versions", ["--c19"], (200, 24), (3000, 60), proj_compute, ["C19", "C06", "panic"], compute_features),
        ],
        rule=COMPUTE_RULE,
        assumptions=["the closure passed to compute_to / compute_transform records the indices it is called with; the recorded version is read from the header"],
        level_text="Lean 4 theorems on computeInit (validate_computed_version_or_reset ∘ truncate_if_needed) + runBatches: a differing version leaves nothing of the old results and the closure is evaluated on exactly [0,target) (C19_changed); an equal version keeps the first min(max_from, stored) elements verbatim and evaluates exactly [min(max_from, stored), target) (C19_unchanged); whatever was stored under another version, the result is the formula of the current sources (C19_never_mixed, via C06). Tied to the code by logging closure: evaluation indices, kept prefix, recorded version before/after each call and across write + re-import, with source version bumps in the history.",
        level_note="Trusted: Lean kernel + standard axioms; hand-written model; harness. Header persistence (the version is rewritten by the next write) is validated, not proved.",
        technique="Lean 4 proof over the compute_init model + evaluation-log correspondence",
    ),
    "C07": dict(
        lean="AnyDB.Props.C07",
        lean_extra=["AnyDB.Props.C03Comp"],
        runs=[
            Run("vec", "plain", ["--mode", "plain"], (168, 50), (700, 110), proj_vec, ["C07", "C03", "panic"], vec_features),
            Run("vec", "rollback", ["--mode", "rollback"], (70, 40), (300, 90), proj_vec, ["C07", "panic"], vec_features),
        ],
        rule=VEC_RULE,
        assumptions=["pco / lz4_flex / zstd round-trip every page bit-exactly (sampled on extreme integers and float bit patterns incl. NaN payloads, never proved)"],
        level_text="Lean 4 theorems for every page list, chunking and compressor answer: cutting values into pages loses and reorders nothing (C07_split_concat), every page but the last is full and none is empty or over-full (C07_split_sizes/_full), a page is raw exactly when it is not full and then occupies values·size bytes (C07_enc_flags), freshly laid-out pages form a gap-free run (C07_build_chained), the page list after the general and after the fast path of write() stays a gap-free run from the header (C07_write_chained, C07_fast_chained), decoding after write returns kept values ++ written values (C07_lossless_pages), and Pages::flush makes the index region equal the in-memory index (C07_flush_sync). The real page-index region is compared entry by entry with the model after every write and checked by an independent well-formedness checker; contents are compared bit-exactly. On top of these per-step lemmas the whole-history theorems of Props/C03Comp*.lean: C03_refinement_comp (after every history of pushes, truncations and writes — any compressor answers — the decoded contents are exactly the reference list and no write fails) and C07_history_index (every page decodes to as many values as its index entry says, every page but the last is full, the run is gap-free from the header and inside the data region, the index region equals the in-memory index, change_at is clear).",
        level_note="Trusted: Lean kernel + standard axioms; hand-written model; the compressed size of a full page is an input of the model (taken from the real index); compressor round trip assumed.",
        technique="Lean 4 proof of the page-index invariant (induction over chunks/pages) + lock-step comparison of the real page-index region + independent invariant checker",
    ),
    "C16": dict(
        lean="AnyDB.Props.C16",
        lean_extra=["AnyDB.Props.C16Window"],
        runs=[
            Run("vec", "faults", ["--mode", "faults"], (196, 50), (800, 110), proj_vec, ["C16", "C13", "panic"], vec_features),
            Run("vec", "rollback", ["--mode", "rollback"], (84, 50), (350, 110), proj_vec, ["C16", "panic"], vec_features),
        ],
        rule=VEC_RULE + "; the fault stream deletes the record of the current stamp, truncates it (0, 31, len-1, random offset) or overwrites one of its five length fields with an out-of-range value, then rolls back",
        assumptions=["single-file faults on the change directory only; a changed value byte inside a record is outside the fault model (no checksums)"],
        level_text="Lean 4 theorems: with retention k≥1 the directory holds at most k records after a commit, none at or above the new stamp except the new one, and only records that were there before (C16_prune_*); a rollback whose record is missing, or does not parse — truncated at ANY byte offset, counts that overflow or exceed the input — fails and leaves the ENTIRE model state unchanged (C16_missing_refused, C16_unparsable_refused, C16_parse_short, C16_count_guard: counts are checked against the remaining input before anything is read or allocated); a record whose redundant length fields disagree is refused (C16_prevStoredLen_checked). Tied to the code by the fault stream: same answer kind, same state, same directory listing on the real vectors and the model, plus oracles: err ⇒ unchanged; success over a damaged record ⇒ contents are a committed state; retention window respected. The first sentence of the property is a whole-history theorem for the compressed formats (Props/C16Window.lean over C16Dir/C16Hist/C16Linked and C04Comp): C16_window_comp — retention k ≥ 1, an empty change directory, ANY number n of rounds of pushes and truncations each followed by a commit under a strictly increasing stamp (any compressor answers), then the model's own rollback (which looks the record up by the current stamp) again and again: each of the first min(k,n) rollbacks succeeds and after t of them the vector shows exactly what it showed at the t-th last commit; the next rollback is refused with an error and changes nothing; and the directory holds exactly the last min(k,n) records (hist_dir, commit_dir). Records travel through their bytes.",
        level_note="Trusted: Lean kernel + standard axioms; hand-written model; harness. F11 (record with prev_stored_len overwritten was applied; SIGSEGV on the real code) was found here and repaired by a fix: commit.",
        technique="Lean 4 proof over the change-record parser and retention rule + fault-injection correspondence (deleted / truncated / length-field-damaged records)",
    ),
    "C17": dict(
        lean="AnyDB.Props.C17",
        runs=[
            Run("codec", "decoders", [], (160, 60), (3000, 120), proj_all, ["C17", "panic"], codec_features),
            # the change-record decoder (base/change/cursor.rs) is not public: it is driven through rollback over records whose
            # length fields were damaged on disk (values up to 2^63 and u64::MAX: size computations must refuse, not wrap or panic)
            Run("vec", "change-records", ["--mode", "faults"], (84, 50), (350, 110), proj_vec, ["C16", "C17", "panic"], vec_features),
        ],
        rule=CODEC_RULE,
        assumptions=["Rust's String::from_utf8 accepts exactly the well-formed sequences of Unicode Table 3-7 (the model's validator; differential-tested)", "Page and HeaderInner decoders are not public: their byte layout is proved here and exercised through the vec engine (C03/C07) and import (C14)"],
        level_text="Lean 4 theorems over the field layout regenerated from the Rust source on every run: every w-byte little-endian integer below 256^w decodes to itself and a slice of another length is refused (C17_le_rt, C17_le_len, C17_array_rt); every valid region-metadata entry round-trips (C17_meta_rt), whatever decodes satisfies the validity rules — aligned start, page-multiple reserve ≥ a page, len ≤ reserve, name ≤ 1024 bytes of valid UTF-8 (C17_meta_valid), any other size is refused (C17_meta_size), each slot is decoded on its own at open (C17_fill_independent); vector header, page-index entry and format byte round-trip for all values (C17_header_rt, C17_page_rt, C17_format_rt); the change-record parser's totality and count guards are C16's. Tied to the code by the codec engine: same answer (kind and fields) from the real decoders and the Lean decoders on valid, boundary and mutated inputs, panics caught, and real Database::open on crafted metadata files = model fill.",
        level_note="Trusted: Lean kernel + standard axioms; tools/extract.py (regex) for the layout constants; hand-written decoders tied by differential run. 'Never allocates beyond the input' is argued from the model (counts are compared with the remaining input before reading) and not measured on the implementation.",
        technique="Lean 4 proof of encode/decode round trips and validity of decoded values over extracted layouts + differential decoding of boundary/mutated inputs",
    ),
    "C14": dict(
        lean="AnyDB.Props.C14",
        runs=[
            Run("import", "table", ["--total-cases", "20"], (20, 0), (20, 0), proj_all, ["C14", "panic"], import_features, clean=False),
        ],
        rule="the finite space {import, forced_import}² × 5 creation formats × 5 reopen formats × reopen version ∈ {v-1, v, v+1} (300 experiments, 10 or 2500 elements, compressed ones with page index) is enumerated completely in both tiers, 15 experiments per case; a case is non-trivial when it shows at least two different outcomes; distinct = distinct experiment lists",
        assumptions=["same element type (u64) on both sides; lock and I/O errors are not provoked (the extractor pins the match arms of forced_import_with instead)"],
        level_text="Lean 4 theorems over the import decision model with the layer constants, the number of VERSION additions per entry point, the reset arms of forced_import_with and the verification order extracted from the source: same entry point + same user version + same format ⇒ contents kept (C14_same_entry_kept / C14_partial); a plain import with a differing effective version or format fails with the matching error and leaves the stored data untouched (C14_plain_mismatch_untouched); a forced import discards if and only if the stored header fails verification with DifferentVersion/DifferentFormat, and then stores an empty vector of the requested version and format (C14_forced_discards_iff, C14_forced_result_empty, C14_reset_arms); the full statement (either entry point) is refuted on the model (C14_counterexample, C14_double_add) — known finding F2. The whole finite input space is run on real vectors and compared with the model (exhaustive).",
        level_note="Trusted: Lean kernel + standard axioms; extractor; hand-written model. F2 is an on-disk compatibility decision (which entry point's stored version is canonical) and is recorded, not repaired.",
        technique="Lean 4 proof over the import decision table built from extracted constants + exhaustive differential enumeration of the finite input space",
    ),
    "C15": dict(
        lean="AnyDB.Props.C15",
        lean_extra=["AnyDB.Props.C15Range", "AnyDB.Props.C15Agg"],
        runs=[
            Run("lazy", "clean", [], (200, 40), (4000, 120), proj_all, ["C15", "panic"], lazy_features),
            Run("lazy", "open", ["--open"], (100, 40), (2000, 120), proj_all, ["C15", "panic"], lazy_features, clean=False),
        ],
        rule="one lazy vector per case (five kinds in rotation); sources are rewritten from a random prefix and grow after the vector was built; mappings are monotone (clean stream: window start ≤ index, first indexes within the source; open stream also empty windows and indexes beyond the source); requests: ranges with ends in {0, len-1, len, len+1, 2^63-1, random} incl. reversed and empty, point reads, sorted index lists with duplicates and out-of-range entries; non-trivial = at least three of: in-range / reversed / empty / huge range, sorted read, rewritten source, mapping, a request answered with nothing; distinct = distinct (kind, request, answer-prefix) traces",
        assumptions=["exact operations only: DeltaSub, DeltaChange on small-integer sources (the f64 arithmetic is exact there), integer compute functions; rate/average delta operators with inexact float results are outside the statement's exactness"],
        level_text="Lean 4 theorems for the windowed delta operators over every range (Props/C15Range.lean): C15_delta_range (DeltaSub) and C15_chg_range (DeltaChange) — bulk_try_fold's single source read plus slot arithmetic returns exactly the defining formula at every index of [from, min(to, len)), for every source and every monotone window-start mapping with windows starting at or before their index; sorted reads of the change vector are the formula at every requested index (C15_chg_sorted); the sparse aggregation's range read — slot table, one sorted read of the group ends, fill — is the formula for every range and every mapping whose non-empty groups end inside the source (Props/C15Agg.lean, C15_agg_range). Further: Lean 4 theorems over the transliterated read paths: a one-source lazy vector's range read is exactly the formula on [from, min(to,len)) (C15_from1_range); point reads of all arities are the formula and yield nothing beyond the governing length (C15_from_one, C15_from_oob, C15_from_range_oob); the delta vector's point read is source[h] - source[start-1] without panic whenever the window starts at or before h, nothing out of range (C15_delta_one, C15_delta_oob); the sparse aggregation's point read is the formula, nothing out of range (C15_agg_one, C15_agg_oob, C15_agg_range_oob). The two places where the code violates the property are kept as model counterexamples and replayed witnesses (F7, F8). The window arithmetic of the delta range path and the slot table of the aggregation range path are validated by the correspondence (six range APIs = formula = model) on clean mappings; their Lean range theorems are not done yet.",
        level_note="Trusted: Lean kernel + standard axioms; hand-written model; harness. F22 (collect_range with a huge upper bound panicked) found here, repaired by a fix: commit.",
        technique="Lean 4 proof over transliterated lazy read paths + differential run of all read APIs against the defining formula and the model",
    ),
    "C09": dict(
        lean="AnyDB.Props.C09",
        lean_extra=["AnyDB.Props.C09Pins"],
        runs=[
            Run("c09", "schedules", [], (52, 3), (52, 1), proj_possible, ["C09", "panic"], c09_features, clean=False),
        ],
        rule="cases = 5 formats × scenarios {fits, grow_last, relocate, grow_file; compressed also page_cross, page_boundary} × mode {writer parked, reader parked} = 52; per case: the schedule without parking, then the subject parked at its k-th lock event for k = 1+o, 1+o+s, … (s = 3, offset o from the seed, in the quick tier; s = 1 = every event in the thorough tier); non-trivial = at least two of: reader saw the old length, reader saw the new length, the other thread had to wait for a lock; distinct = distinct (case, parking-event sequence)",
        assumptions=["one writer; readers go through read-only clones, VecReader and cursors (the property's readers); schedules are directed at lock-event granularity on a strongly ordered machine (x86-64): reorderings below the Release/Acquire pair are not exhibited",
                     "the writer only appends (the property's scenario); truncation under concurrent readers is not part of C09"],
        level_text="Lean 4 theorems over two small-step models whose writer programs are assembled from the call orders extracted from the source (C09_programs, C09_comp_programs: Region::write_with fits/relocation paths + what raw write() does after truncate_write; both paths of compressed write(); readers load the length before they create the rawdb Reader / take the index lock; Reader::new takes start and length under one metadata guard). Raw formats, EVERY interleaving of the writer's effects (data copy, region length, relocation copy, move, publication) with a reader's steps (load length, snapshot, read): a read below the loaded length returns exactly the writer's value at that index — also from an old extent after a relocation (C09_read_prefix, via the invariant step_inv/run_inv); loaded lengths never decrease (C09_len_monotone, pub_mono); with publication first the model exhibits the failure (C09_reordered_counterexample). Compressed formats, every interleaving in which each write starts on a page boundary or extends the raw tail page: the reader's read of [0,l) is exactly the first l values (C09_comp_read_partial via phase_index/step_inv); the full statement is false: a write crossing a page boundary from a partial tail page overwrites that page before taking the index lock and a reader holding the old index decodes garbage (C09_comp_counterexample = F17, known finding, reproduced on the real crates); publication before the index update — the seeded change — is refuted too (C09_comp_reordered_counterexample). Tied to the code by the extractor and by the directed schedules: every lock event of the real write() and of a real long read, five formats, six scenarios, model-free prefix/monotonicity/readability oracle, and every real observation checked for being producible by the model.",
        level_note="Trusted: Lean kernel + standard axioms; extractor; lock shim as the source of parking points; hand-written models (program ORDER comes from the source, the meaning of each effect is written by hand). Not exhibited: weak-memory reorderings, torn element reads, truncation under concurrent readers. Blocking: in the models every reader step is enabled except rLock while the writer holds the index lock, which it releases after two more of its own steps; on the real code every schedule has a 20 s limit per thread (none reached). F17 is recorded, not repaired: taking the index lock before the data write would nest it around the region/layout locks against the order of C11 (the code comment says so).",
        technique="Lean 4 proof (invariants over all interleavings of extracted writer programs with reader steps) + directed schedules over every lock event of real writers and readers with a model-free oracle and a model-possibility check",
    ),
    "C10": dict(
        lean="AnyDB.Props.C10",
        lean_extra=["AnyDB.Props.C10Pins"],
        runs=[
            Run("c10", "schedules", [], (59, 3), (59, 1), proj_after_L, ["C10", "panic"], c10_features, clean=False),
        ],
        rule="cases = the 13 operations of thread A × 4 scripts of thread B (52 pairs) + 6 pairs with a Reader of A's region held across the whole schedule + 1 pair in which A CREATES a Reader of region 'a' and reads through it (parked at every lock event, in particular inside Reader::new) while B appends to 'a' so that it relocates; per pair: the schedule without parking, then A parked at its k-th lock event for k = 1, 1+s, 1+2s, … (s = 3 in the quick tier with a different offset per run seed, s = 1 = every event in the thorough tier); non-trivial = parked at at least two different kinds of lock event; distinct = distinct (pair, parking-event sequence)",
        assumptions=["schedules are directed at lock-event granularity: two threads, one parked at a time; effects between two lock events of one thread are atomic for the other thread only as far as the real locks make them so (that is what is being tested)",
                     "a refused Region::remove (RegionStillReferenced while another handle is alive) is a legal outcome; the region then stays as it was"],
        level_text="Lean 4 theorems over the shared layout changed by atomic sections (the code between taking and dropping the layout write lock): every section — create in a hole / at the end, grow the last region, grow into the adjacent hole, reserve a relocation target in a hole / at the end, move, remove, promote, drop a reservation — preserves 'no byte belongs to two extents' from ANY state satisfying it (createInHole_inv … dropReservation_inv, applySec_inv), hence for EVERY schedule of sections of ANY number of threads regions, in-flight targets, holes and pending holes stay pairwise disjoint (C10_extents_disjoint, C10_regions_disjoint) — at quiescence and in between; C10_sections pins, on the call orders extracted from Region::write_with and create_region_if_needed, that each claim of space is made inside the section that established the space was free (the seeded change moves set_reserved out of its section and breaks this pin); a held reader's snapshot never belongs to another region as long as no flush promotes pending holes while it is held (C10_reader_no_foreign_partial over any schedule without promote); with a flush it does (C10_reader_counterexample = F15, known finding); the executable disjointness check the driver runs on real layouts is proved sound (C10_check_sound). Tied to the code by the extractor and by the directed schedules: every lock event of every operation of A × every script of B on the real crate, contents and C02 invariants checked model-free, final layouts checked by the driver.",
        level_note="Trusted: Lean kernel + standard axioms; extractor; the lock shim (guarded hook) as the source of parking points; hand-written section model (sections are not generated from the source: C10_sections pins the order facts they rely on). F14 (region placed beyond the file when two creates race for the last hole) reproduced here and repaired by a fix: commit. Known findings: F15 (reader across relocation + flush + reuse reads foreign bytes), F16 (compact punches bytes a concurrent write has copied but not yet published in the region length; a lock-based repair would nest the metadata lock around the mapping lock against the order of C11, so it is recorded, not repaired). Byte-level isolation of writes inside one region is C01's single-region theorem; this check adds the concurrent placement.",
        technique="Lean 4 proof (per-section invariant preservation ⇒ all interleavings) + directed schedules over every lock event of the real operations with model-free oracles",
    ),
    "C18": dict(
        lean="AnyDB.Props.C18",
        runs=[
            Run("openlock", "histories", [], (64, 40), (1200, 80), proj_all, ["C18", "panic"], openlock_features),
        ],
        rule="one directory per case; requests drawn with weights that depend on whether somebody holds the directory: open (kept) / probe from a thread / probe from a child process, each with min_len absent (30%), below (20%), equal to (6%) or above (44%) the current data-file length; ref clone|reader|regiondb; bg task; drop of the k-th live reference; flushed write of a fresh value; non-trivial = at least three of: refused-{thread,child}-{plain,below,above}, reopen-after-flush, open-free, ref-{clone,reader,regiondb}, bg-task; distinct = distinct (request, outcome) traces",
        assumptions=["advisory file locks behave as documented for flock(2)/std::fs::File::try_lock: exclusive per open file description, released when it is closed",
                     "both opener kinds are cooperative users of rawdb (a process that ignores the lock is outside the property)"],
        level_text="Lean 4 theorems over the effect sequence of Database::open_with_min_len and Regions::open AS EXTRACTED from the source (C18_effects pins the extracted order: create-without-truncate, try_lock, only then set_len/sync), interpreted over two files with one exclusive lock each: with the data file locked an attempt with ANY min_len returns the lock error and leaves lengths, contents and locks of both files exactly as they were (C18_refused_pure, C18_refused_regions); with none locked it succeeds, locks both, never shrinks and grows to min_len at most (C18_opens_when_free); and for EVERY history of kept opens, probes, added references, drops and flushed writes from an empty directory: locks are held exactly while a reference is alive (run_inv), every attempt made while one is alive is refused and is a no-op on the whole directory state (C18_history_refused), a kept open succeeds only from zero references (C18_at_most_one), and once all are gone an open succeeds and sees exactly the last flushed content (C18_history_reopen). Tied to the code by the extractor (order of effects) and by the open-lock engine: real opens from threads and child processes against live holders kept alive through clones, readers, region-derived handles and background tasks, every file hashed before/after each refused attempt, outcome and file length equal to the model's after every request.",
        level_note="Trusted: Lean kernel + standard axioms; the kernel's advisory-lock semantics (assumed, exercised on the real file system by the engine); extractor; hand-written model. The reference COUNT of the model abstracts Arc strong counts; the engine checks that each reference kind really keeps the lock (a refused probe after dropping all but that reference).",
        technique="Lean 4 proof (invariant over open/drop histories on an effect model built from the extracted call order) + differential run of real opens from threads and child processes",
    ),
    "C20": dict(
        lean="AnyDB.Props.C20",
        lean_extra=["AnyDB.Props.C20Undo", "AnyDB.Props.C20Comp"],
        runs=[
            Run("vec", "access-plain", ["--mode", "plain", "--access", "--reads"], (56, 40), (280, 110), proj_vec_x, ["C20", "panic"], vec_access_features),
            Run("vec", "access-rollback", ["--mode", "rollback", "--access", "--reads"], (84, 50), (400, 110), proj_vec_x, ["C20", "panic"], vec_access_features),
            Run("vec", "access-faults", ["--mode", "faults", "--access"], (28, 40), (140, 90), proj_vec_x, ["C20", "panic"], vec_access_features),
        ],
        rule=VEC_RULE + "; the guarded access tap is on: every Reader::unchecked_read (offset, length), every pointer handed out by Reader::prefixed, every raw pointer dereference of the vecdb read sites (read_from_ptr of both raw strategies, the two bulk slices, the zero-copy reference read) and every positioned read of the file-IO sources is recorded and, after each request, compared with the start and length of the region it was made for (the reader's snapshot, and the current length for read-only requests); about one request in six is `clonereads`: every range/point/cursor/sorted API of a read-only clone plus both stored-only scan back-ends, in ANY state (expanded, truncation pending, deleted slots, dirty); one in five `reads` (the C08 battery on the read-write vector)",
        assumptions=["histories are those of C03 (plain edits and writes) and of C04 (edits, commits, rollbacks, re-imports, damaged records); a plain write()/flush() between a commit and the rollback of that commit is in neither (the retained record no longer describes the region) and is not generated — see DESIGN.md, observation O1",
                     "single-threaded: a reader's length snapshot equals the region's length at the time of the read"],
        level_text="Lean 4 theorems over the vector model in which every element fetch from a raw data region goes through diskRead (flag = slot at or beyond the end of the region) and compressed reads fetch whole page slices: read-only clones, VecReader and the stored mmap/file-IO sources address min(stored_len, elements in the region) and therefore cannot leave the region in ANY state (C20_cloneGet, C20_cloneRange, C20_cloneReads; C20_unclamped_counterexample = the F6 state shows the clamp is what makes this true); the read-write vector's point read, full logical read and take stay inside whenever every slot between the end of the region and the stored length is deleted or overlaid (Covered: C20_getAny, C20_items_raw, C20_take); Covered holds when stored_len is within the region, which every successful write() establishes from ANY state, expanded ones included (C20_writeRaw_le over the staged write, C20_after_write), and push, truncate, update, delete, take and fill preserve it (covered_*); in a gap-free page chain from the header to the end of the data region every page slice lies inside the region (C20_pages with C07_write_chained). Across a rollback (Props/C20Undo.lean): after undoing any record whose modifications address stored slots and whose truncated tail starts inside the region and reaches up to the restored stored length — which is what the matching commit writes (C04's faithful_recordOf) — Covered holds again (C20_undo_covered, via the entry-by-entry overlay characterisation undo_raw_overlay); for records outside that shape (several rollbacks in a row, damaged records) the step is validated on every rollback of the C04/C16 streams by the access oracle. Tied to the code by the access tap on the real crates under all C03/C04 histories and by comparing the out-of-region flag with the model's after every request. C20_comp_history (Props/C20Comp.lean): after EVERY history of pushes, truncations and writes on a compressed vector every page slice lies behind the header and inside the region's current length, and reading the whole vector never leaves the pages (the chain hypothesis of C20_pages is an invariant of every reachable state).",
        level_note="Trusted: Lean kernel + standard axioms; hand-written model; the access tap sites (guarded hook H6: a read site that is not tapped is not seen — the sites are listed in MANIFEST.hooks and cover every pointer/slice/file read in the anchored files); harness. F6 (read-only clones, VecReader and the stored sources read past the region after a rolled-back truncation) was reproduced with the tap and repaired by a fix: commit.",
        technique="Lean 4 proof (clamped readers unconditional; overlay-coverage invariant for the read-write vector; page-chain bound) + access-tap oracle on the real crates over C03/C04 histories with model comparison of the out-of-region flag",
    ),
    "C08": dict(
        lean="AnyDB.Props.C08",
        lean_extra=["AnyDB.Props.C08Dirty", "AnyDB.Props.C08Pages", "AnyDB.Props.C08Comp"],
        runs=[
            Run("vec", "plain-reads", ["--mode", "plain", "--reads"], (140, 50), (600, 110), proj_vec, ["C08", "panic"], vec_features),
            Run("vec", "rollback-reads", ["--mode", "rollback", "--reads"], (84, 50), (350, 100), proj_vec, ["C08", "panic"], vec_features),
            # stored ranges larger than the 512 KiB buffer of the file-IO scan (refill path), element sizes incl. a non-power-of-two;
            # oracle only (all read paths against the reference slice): the Lean driver is too slow on lists of 10^5..10^6 elements
            Run("vec", "bigscan", ["--mode", "bigscan", "--reads"], (15, 6), (60, 10), proj_vec, ["C08", "panic"], vec_features, driver=False),
        ],
        rule=VEC_RULE + "; about one request in five is `reads <seed>`: 24 ranges with ends drawn from {0, 1, stored-1, stored, stored+1, len-1, len, len+1, page-1, page, page+1, 2^63-1} or uniformly (reversed, empty and out-of-range included) and 12 point reads, each through every read API of the read-write vector, and on clean states also of its read-only clone and the two stored-only scan back-ends; cursor scripts and sorted reads on hole-free states",
        assumptions=["cursor and sorted reads address by index only on vectors without deleted slots (the chunked refill of a cursor compacts deleted slots away): they are exercised on hole-free states"],
        level_text="Lean 4 theorem for every state of a raw vector with deleted and overlaid slots (Props/C08Dirty.lean, C08_dirty_stored): the merged iteration of fold_dirty / try_fold_dirty over the stored part returns, for every disk image, every ascending list of deleted slots and every ascending overlay, exactly the non-deleted elements of the range in index order, each with its overlay value if it has one; and for the compressed formats (Props/C08Pages.lean, C08_pages_range): read_stored_pages_into over ANY number of pages equals the slice of the stored values, for every page index with full pages before the last, every page size and every from < to ≤ stored length. Further: Lean 4 theorems on the index arithmetic of the read paths, for all lists, ranges, page and chunk sizes: the clean raw path (stored slice + buffered slice, both ends clamped) returns exactly the logical contents restricted to [from,to), reversed/out-of-range ⇒ [] (C08_rawClean, sliceOf_*); a cursor's chunk-aligned refill answers get(i) with element i for every chunk size (C08_cursor_get); a compressed range inside one page reads page[from-start, to-start) (C08_pages_single); the merged dirty iteration without overlay is the disk slice (C08_dirty_no_overlay), and handles a deleted+overlaid slot (example = the F25 history). Tied to the code by running, on every `reads` request, 24 ranges × 11 range APIs + aggregates + 12 point reads + cursor scripts + sorted reads on the read-write vector, its read-only clone and both stored-scan back-ends against the reference slice (oracle) and against the model's answer hash. C08_comp_history (Props/C08Comp.lean) discharges the page-index hypothesis: after EVERY history of pushes, truncations and writes on a compressed vector (any compressor answers) the page loop over the vector's own index returns, for every range inside the stored part, exactly the slice of the reference list.",
        level_note="Trusted: Lean kernel + standard axioms; hand-written model; harness. The merged iteration with holes AND overlay (dirtyStored in full) and the multi-page window of read_stored_pages_into are validated by the correspondence only. F22, F23, F25 found here were repaired by fix: commits.",
        technique="Lean 4 proof of read-path index arithmetic + exhaustive-per-state differential run of all read APIs against the reference slice",
    ),
    "C05": dict(
        lean="AnyDB.Props.C05",
        lean_extra=["AnyDB.Props.C05History"],
        runs=[
            Run("crash", "crash-images", ["--mixes", "6"], (96, 30), (400, 50), proj_events, ["C05", "panic"], crash_features, driver_engine="rawdb"),
            # "inside the file" after a reopen, with writes larger than the whole file (no crash images: the files are several MiB)
            Run("rawdb", "huge", ["--huge"], (32, 14), (160, 30), proj_c02, ["C05", "C02", "panic"], rawdb_features),
        ],
        rule=RAWDB_RULE + "; histories are generated as for C01/C02 (files kept near 1 MiB, writes ≤ 20 kB) with a flush early in the case; after the first completed flush EVERY event boundary is a crash point; per point: sync-only image, all-written image, for every dirty metadata page three single-page deviations, and 6 (quick) random per-page mixtures of all versions since the last sync of each file; the real Database::open runs on every image",
        assumptions=["4 KiB page writes are atomic; file-length changes are durable in order; fdatasync makes every page stored through the shared mapping durable; a page not stored to since the last sync keeps its synced content (the OS contract of DESIGN.md §7)", "hook H2 (durability event tap) reports every store / set_len / sync / punch"],
        level_text="Lean 4 theorem C05_untouched over the durability model of a file (adversary stronger than the property's: a page stored to since the last sync may hold ANY content after the crash): take the file right after a sync and let any sequence of later stores, hole punches, syncs and file growth happen, none storing into the pages of [a,b): then in EVERY crash image, at every later point, the bytes of [a,b) are exactly the synced ones; a metadata slot is exactly one page, so an untouched slot is byte-identical in every crash image (C05_slot_atomic); right after a sync the only crash image is the file itself (C05_sync_exact); on the extracted call orders of Database::flush the data file is synced before the metadata file and freed extents are promoted only after a metadata sync, on both paths (C05_order). That later operations never store into an untouched flushed region's extent is C01/C02 (allocator hands out free extents only; extents become free only after the sync that made their release durable) and is validated by the crash engine: real event streams, crash images at every event boundary, real open, oracles: opens, extents disjoint and inside the file, untouched flushed regions intact; plus event-stream correspondence with the model. The reduction from the rawdb model to that theorem is proved as well (Props/C05History.lean, Lemmas/CrashKeep*.lean): keep_step — a request that does not name region j leaves j's metadata alone, and every event it appends (all four placement paths of write_with on other regions incl. the relocation copy, creation, removal, retain, flush, compaction's punching, file growth) stores nothing into the pages [start, start+ceil_page(len)) of j and never cuts the file below them; C05_history_data / C05_history — for EVERY well-formed history up to a sync, EVERY well-formed continuation that does not name the region, EVERY crash point (any number of the continuation's events, also inside a request) and EVERY crash image, the region's slot still says the same name, start, length and reservation and every byte of its data is in the image exactly as at the sync; C05_history_slot — the same for the METADATA file: no later request writes the region's slot or cuts the file below it, so the slot's 4096 bytes are the synced ones in every crash image (the region comes back with its name, start, length, reservation).",
        level_note="Trusted: Lean kernel + standard axioms; the OS contract above; hand-written models; the durability tap. F10 (no metadata sync before promoting holes when no region is dirty) found in design reading, reproduced as event order, repaired by a fix: commit. Not proved in Lean: that the metadata FILE of a crash image decodes to a disjoint layout (ordering argument C05_order + slot atomicity, checked on real images by the crash engine), and the 'sync-only' second sentence of the property (never a mixture), covered by the sync-only images of the crash engine.",
        technique="Lean 4 proof (invariant over event sequences in a page-granular durability model) + crash-image enumeration on real event streams with real recovery",
    ),
    "C12": dict(
        lean="AnyDB.Props.C12",
        lean_extra=["AnyDB.Props.C12Run"],
        runs=[
            Run("crash", "compact", ["--mixes", "3"], (64, 30), (260, 50), proj_events, ["C12", "C05", "panic"], crash_features, driver_engine="rawdb"),
            # "whatever other threads are writing meanwhile": compact as thread A parked at every lock event, and compact run by
            # thread B while A is parked inside each of its 13 operations (the directed schedules of C10, restricted to compact)
            Run("c10", "compact-schedules", ["--only", "compact"], (16, 3), (16, 1), proj_after_L, ["C10", "panic"], c10_features, clean=False),
        ],
        rule=RAWDB_RULE + "; same crash-point enumeration as C05 with compact among the requests (regions with partially used reserves, freed and coalesced extents, extents freed but not yet flushed)",
        assumptions=["FALLOC_FL_PUNCH_HOLE|KEEP_SIZE zeroes the range and keeps the length", "rayon's parallel loop over disjoint ranges behaves like the sequential loop of the model", "interleavings of compact with ONE concurrent thread are covered by directed schedules at lock-event granularity (the c10 engine restricted to compact; finding F16 is listed); more than two threads are not"],
        level_text="Lean 4 theorems on the model of compact = flush; punch_holes. For EVERY reachable state (Props/C12Run.lean, built on C01's refinement and C02's layout invariant): C12_compact_quiet — from any state of the invariant compact keeps every slot's metadata (name, start, length, reservation), does not shrink the file and keeps every byte of every live region, because the punched ranges (reserve tails beyond ceil_page(len), free extents) are apart from every region's contents; C12_compact_history — after every history (no reopen, no panic) a compact leaves what every region shows and every placement exactly as it was and re-establishes the invariant. Per-step laws: punch_holes changes no slot, no layout map and not the file length (C12_meta_unchanged, C12_compact_len); every byte range disjoint from all candidate ranges (reserve tails and free extents) reads the same before and after (C12_frame, by induction over both loops); a region's tail candidate starts at or above the end of its contents on a page boundary (C12_tail_above_data); compact flushes first and, by C05_order, extents are promoted — become candidates — only after the metadata sync that made their release durable (C12_order). On the real code the crash engine checks before/after every compact: bytes, length, placement of all live regions and the file length unchanged; every punched range inside a (coalesced) free extent or a reserve tail; crash points inside compact satisfy the C05 oracles.",
        level_note="Trusted: as C05. The race of compact against a writer extending a region into its reserve (F16 of the design reading) needs a thread schedule and is NOT decided by this check; sequential histories only.",
        technique="Lean 4 proof (frame of hole punching over the candidate loops) + before/after and crash-image validation on the real compact",
    ),
    "C11": dict(
        lean="AnyDB.Props.C11",
        runs=[
            Run("sched", "traces", ["--total-cases", "12"], (12, 0), (12, 0), proj_all, ["C11", "panic"], trace_features, clean=False, driver_engine="locks"),
        ],
        rule="the fixed list of 48 operation × state scenarios (each placement path of a region write, truncate, rename, remove, retain, region/database flush, compact inline and in the background, reader life cycle, set_min_len/regions, vector import / write in each regime / flush / commit+rollback / reset / remove, read paths of read-write vectors and read-only clones incl. the file-IO sources, EagerVec compute) is run completely in both tiers, 4 per case; a case is non-trivial when a trace nests locks (≥2 held) and touches ≥4 lock classes or nests 3; distinct = distinct traces",
        assumptions=["parking_lot RwLock is writer-preferring and guards release on drop (the model's lock semantics)", "instances of one lock class are merged in the abstract system: coarser locks only add blocking", "documented misuse (a reader kept alive across another call on the same thread) is not generated; acquisitions inside Database::open are exempt (the handle is not shared yet)"],
        level_text="Lean 4 theorem C11_progress / C11_reachable_progress: in every state reachable by ANY schedule of ANY number of threads whose programs respect one strict lock order (writer-preferring read-write locks), if some thread is unfinished then some thread is enabled — nobody blocks forever; steps preserve well-formedness; the executable per-trace check of the driver is proved equivalent to the discipline (C11_check_sound) and a system assembled from accepted traces is well formed (C11_accepted_traces_wf); the rank table is a linear order (C11_rank_strict). This reduces the property to a per-operation obligation — every acquisition trace of every public operation respects the order — which is checked on traces recorded from the real code through the guarded lock shim for every scenario. Traces that violate the order are reported with the offending held→requested pair; a schedule that deadlocks the real code is not searched for automatically (no-failing-input-found in that case).",
        level_note="Trusted: Lean kernel + standard axioms; the lock shim (thin wrapper over parking_lot reporting request/acquired/released); scenario coverage of lock-acquisition paths (listed in evidence). F12 repaired by a fix: commit; F13 (compressed read paths vs write holding the page-index lock) is a known finding.",
        technique="Lean 4 proof (lock-order discipline ⇒ progress under writer-preferring RW locks) + per-operation acquisition traces from the real code checked against the order",
    ),
    "C13": dict(
        lean="AnyDB.Props.C13",
        runs=[
            Run("rawdb", "refusals", ["--malformed"], (200, 40), (3000, 120), proj_state, ["C13", "panic"], rawdb_features),
            Run("rawdb", "held", ["--malformed", "--held"], (60, 20), (600, 60), proj_state, ["C13", "panic"], rawdb_features, clean=False),
            Run("vec", "vec-refusals", ["--mode", "refusals"], (84, 40), (400, 80), proj_vec, ["C13", "panic"], vec_features),
            Run("vec", "vec-faults", ["--mode", "faults"], (84, 40), (400, 80), proj_vec, ["C13", "panic"], vec_features),
            # refused imports (version / format mismatch, corrupted region) of every format over every format: the set of regions,
            # their extents and lengths must be exactly what they were
            Run("import", "refused-imports", ["--total-cases", "20"], (20, 0), (20, 0), proj_all, ["C13", "panic"], import_features, clean=False),
        ],
        rule=RAWDB_RULE + "; about one request in four is a refusal chosen from the current state; the 'held' stream ends each case with a removal while an extra handle is alive",
        assumptions=["reference counts are a run-time notion: the model takes `extra handle alive` as an input of remove"],
        level_text="Lean 4 theorem C13_rawdb: for every model state and every rawdb request (write, write_at, truncate_write, truncate, rename, remove, remove with a live extra handle), if the answer is one of the refusals the property lists then the ENTIRE model state (layout, slot table, metadata file image, data bytes, dirty bounds, event log) is unchanged, hence so is the outcome of every later operation; proved for all states, not only reachable ones. Tied to the code by the lock-step run with ~25% refused requests, a state-unchanged oracle evaluated on the real crate after each refusal, and random continuations. vecdb refusals (checked push, import mismatch, rollback without record) are covered by the vec engine under C03/C04/C14/C16.",
        level_note="Trusted: Lean kernel + standard axioms; hand-written model; harness. Reference counts are run-time: `extra handle alive` is an input of the model's remove. The pinned tree violated this property (F1, refused removal mutated the layout); repaired by fix: commit 33df3c8, listed as fixed in known_findings.json.",
        technique="Lean 4 proof (state equality after every refused request) over the rawdb model + refusal-heavy lock-step correspondence",
    ),
}


def run_property(ctx, cfg, replay):
    tier = ctx.tier
    known = load_known(ctx.prop)
    # 1. regenerate the generated Lean inputs from the source
    rc, out = sh([sys.executable, os.path.join(ROOT, "tools", "extract.py")])
    ctx.log(out.strip().splitlines()[-1] if out.strip() else "extract: (no output)")
    extract_broken = rc != 0
    # 2. the proof check
    proof_ok, broken, build_out = proof_check(cfg["lean"], ctx.log)
    for extra in cfg.get("lean_extra", []):
        ok2, broken2, out2 = proof_check(extra, ctx.log)
        proof_ok = proof_ok and ok2
        broken += broken2
        build_out += out2
    driver_ok = os.path.exists(DRIVER_BIN)
    if not proof_ok:
        # is the driver still buildable on its own?
        rc2, _ = sh(["lake", "build", "anydb_driver"], cwd=LEAN, timeout=3000)
        driver_ok = rc2 == 0
        for b in broken[:10]:
            ctx.log("BROKEN " + b)
    # 3. audit
    audit_ok, problems, axioms = (True, [], {})
    if proof_ok:
        audit_ok, problems, axioms = audit(cfg["lean"], ctx.log, thorough=(tier == "thorough"))
        for extra in cfg.get("lean_extra", []):
            ok2, problems2, axioms2 = audit(extra, ctx.log, thorough=(tier == "thorough"))
            audit_ok = audit_ok and ok2
            problems += problems2
            axioms.update(axioms2)
        for p in problems:
            ctx.log("AUDIT " + p)
    # 4. harness
    ok, out = build_harness(ctx.log)
    if not ok:
        # the harness is part of the machinery, but it is compiled against /repo: an API break is
        # reported as machinery failure (exit 2), never as a verdict
        raise Machinery("harness does not build against /repo:\n" + out[-1500:])

    runs = cfg["runs"]
    if not driver_ok:
        for r in runs:
            r.driver = False

    # replay mode
    if replay:
        rp = json.load(open(replay))
        run = next((r for r in runs if r.name == rp.get("run")), runs[0])
        if not rp.get("ops"):
            print(f"replay names {rp.get('theorem') or rp.get('correspondence')}: re-run ./check {ctx.prop}")
            return 0 if proof_ok and audit_ok else 1
        case = rerun_case(ctx, run, rp["ops"], tag="replay")
        f = analyse_case(run, case)
        if f:
            print(f"replay still fails: {f[0]} at request {f[1]} ({case['ops'][f[1]]}): {f[2][:300]}")
            print(f"VIOLATION property={ctx.prop} replay={replay}")
            return 1
        print("replay passes")
        return 0

    # 5a. known-finding witnesses and corpus first
    known_lines = []
    for k in known:
        if k.get("status") != "known" or not k.get("witness"):
            continue
        wp = os.path.join(ROOT, k["witness"])
        km = k["match"][0] if isinstance(k["match"], list) else k["match"]
        run = next((r for r in runs if r.engine == km.get("engine", r.engine)), runs[0])
        ops = open(wp).read().splitlines()
        case = rerun_case(ctx, run, ops, tag="known")
        f = analyse_case(run, case)
        if f and match_known([k], run, case, f):
            known_lines.append(f"KNOWN-FINDING: property={ctx.prop} {k['id']} {k['what']}")
            ctx.known_hits[k["id"]] = ctx.known_hits.get(k["id"], 0) + 1
        elif f:
            ctx.log(f"known finding {k['id']}: witness now fails differently: {f}")
            ctx.violation(f"known_{k['id']}", {"run": run.name, "engine": run.engine, "kind": f[0], "ops": case["ops"], "message": f[2], "impl": case["impl"], "model": case["model"]})
        else:
            ctx.log(f"known finding {k['id']}: witness no longer fails (repaired?)")
    corpus_dir = os.path.join(ROOT, "corpus", ctx.prop)
    corpus_cases = 0
    if os.path.isdir(corpus_dir):
        for fn in sorted(os.listdir(corpus_dir)):
            if not fn.endswith(".ops") or any(k.get("witness", "").endswith(fn) and k.get("status") == "known" for k in known):
                continue
            eng = fn.split("__")[0] if "__" in fn else runs[0].engine
            run = next((r for r in runs if r.engine == eng), runs[0])
            case = rerun_case(ctx, run, open(os.path.join(corpus_dir, fn)).read().splitlines(), tag="corpus")
            corpus_cases += 1
            f = analyse_case(run, case)
            if f:
                handle_failure(ctx, run, case, f, known, shrink_it=False, origin=f"corpus/{fn}")

    # 5b. generated streams
    evaluations = 0
    requests = 0
    distinct = set()
    nontrivial = set()
    kinds_hist = {}
    ops_hist = {}
    out_hist = {}
    samples = []
    per_stream = {}
    for run in runs:
        cases = exec_stream(ctx, run, tier)
        per_stream[run.name] = {"cases": len(cases), "requests": sum(len(c["ops"]) - 1 for c in cases), "clean_stream": run.clean}
        evaluations += len(cases)
        nfail = 0
        nnew = 0
        for c in cases:
            requests += len(c["ops"]) - 1
            if run.features:
                trace, kinds = run.features(c)
                h = hashlib.sha256("|".join(trace).encode()).hexdigest()
                distinct.add(h)
                if len(kinds) >= 2:
                    nontrivial.add(h)
                for k in kinds:
                    kinds_hist[k] = kinds_hist.get(k, 0) + 1
            for op, obs in zip(c["ops"][1:], c["impl"][1:]):
                w = op.split()[0]
                ops_hist[w] = ops_hist.get(w, 0) + 1
                o = obs.split(" | ")[0]
                o = o.split(":")[0] if o.startswith("ok") else o
                out_hist[o] = out_hist.get(o, 0) + 1
            f = analyse_case(run, c)
            if f:
                nfail += 1
                # listed findings are only counted; the first three OTHER failures are minimised and reported
                if match_known(known, run, c, f) is not None:
                    handle_failure(ctx, run, c, f, known, shrink_it=False, origin=f"stream {run.name}")
                else:
                    nnew += 1
                    if nnew <= 3:
                        handle_failure(ctx, run, c, f, known, shrink_it=True, origin=f"stream {run.name}")
        if cases and len(samples) < 3:
            c = cases[len(cases) // 2]
            samples.append({"stream": run.name, "requests": c["ops"][:12], "observations": [x[:160] for x in c["impl"][:3]]})
        ctx.log(f"stream {run.engine}/{run.name}: {len(cases)} cases, {per_stream[run.name]['requests']} requests, failures {nfail}")

    # 6. verdict
    thms = theorems_in(cfg["lean"])
    dep_mods = [m for m in lean_deps(cfg["lean"]) if ".Lemmas." in m or ".Props." in m]
    for extra in cfg.get("lean_extra", []):
        thms += theorems_in(extra)
        dep_mods += [m for m in lean_deps(extra) if (".Lemmas." in m or ".Props." in m) and m not in dep_mods]
    lemma_count = sum(len(theorems_in(m)) for m in dep_mods)
    obligations = lemma_count
    discharged = obligations if proof_ok and audit_ok else 0
    if not proof_ok or not audit_ok or extract_broken:
        # a proof obligation no longer checks: the streams above were the search for a failing input
        if not any(not nofail for _, nofail in ctx.violations):
            what = broken[:3] if broken else problems[:3] if problems else ["tools/extract.py: anchor not found: " + out.strip()[-300:]]
            ctx.violation("proof", {"theorem": what, "note": "no failing input found by the correspondence and oracle search of this run",
                                    "build_output_tail": build_out[-1500:]}, nofail=True)
    coverage = {
        "obligations": max(obligations, 1) if thms else 0,
        "discharged": discharged,
        "checker_cmd": f"cd lean && lake build {cfg['lean']} anydb_driver && lake env lean <#print axioms of every theorem>" + (" && lake env leanchecker " + cfg["lean"] if tier == "thorough" else ""),
        "trusted_base": TRUST_COMMON + cfg.get("assumptions", []),
        "theorems": {t: {"axioms": axioms.get(t, []), "statement_sha": {**statement_hashes(cfg["lean"]), **{k: v for e in cfg.get("lean_extra", []) for k, v in statement_hashes(e).items()}}.get(t.split(".")[-1], "")} for t in thms},
        "lemma_modules": dep_mods,
        "evaluations": evaluations + corpus_cases,
        "requests": requests,
        "distinct_nontrivial": len(nontrivial),
        "distinct_traces": len(distinct),
        "rule": cfg.get("rule", ""),
        "samples": samples,
        "traces_validated_against_impl": evaluations + corpus_cases,
        "streams": per_stream,
        "branch_kinds_hit": kinds_hist,
        "request_distribution": ops_hist,
        "outcome_distribution": out_hist,
        "known_findings_hit": ctx.known_hits,
        "proof_ok": proof_ok,
        "audit_ok": audit_ok,
        "driver_used": driver_ok,
    }
    if proof_ok and audit_ok and not extract_broken:
        write_evidence(ctx, "proof", coverage, cfg.get("assumptions", []))
    else:
        # a proof obligation (or the extraction it depends on) no longer checks on this tree: nothing is claimed at proof level
        # for this run — what it did was explore (the search for a failing input); the VIOLATION line carries the verdict
        coverage["explanation"] = "a proof obligation or the source extraction no longer checks on this tree; this run was the search for a failing input (see the VIOLATION line and the replay file)"
        write_evidence(ctx, "exploration", coverage, cfg.get("assumptions", []))
    for l in known_lines:
        print(l)
    for k, n in ctx.known_hits.items():
        pass
    if ctx.violations:
        for p, nofail in ctx.violations:
            print(f"VIOLATION property={ctx.prop} replay={p}" + (" no-failing-input-found" if nofail else ""))
        return 1
    ctx.log(f"OK: {len(thms)} property theorems ({obligations} obligations incl. lemmas) checked, {evaluations} cases / {requests} requests agree")
    return 0


def handle_failure(ctx, run, case, f, known, shrink_it, origin):
    kind, idx, msg = f
    k = match_known(known, run, case, f)
    if k is not None:
        ctx.known_hits[k["id"]] = ctx.known_hits.get(k["id"], 0) + 1
        return
    ctx.log(f"FAILURE ({kind}) in {origin} at request {idx} `{case['ops'][idx][:80]}`: {msg[:300]}")
    if shrink_it:
        try:
            small = shrink(ctx, run, case, kind, accept=lambda c, r: match_known(known, run, c, r) is None)
            f2 = analyse_case(run, small)
            if f2 and f2[0] == kind and match_known(known, run, small, f2) is None:
                case, f = small, f2
                kind, idx, msg = f
        except Machinery as e:
            ctx.log(f"shrink failed: {e}")
    payload = {
        "run": run.name, "engine": run.engine, "kind": kind, "origin": origin, "failing_request_index": idx,
        "message": msg, "ops": case["ops"][: idx + 1],
        "impl": [x[:2000] for x in case["impl"][: idx + 1]], "model": [x[:2000] for x in case["model"][: idx + 1]],
    }
    if kind == "oracle":
        ctx.violation(f"{run.name}_oracle", payload)
    else:
        # implementation ≠ model while the property oracle is satisfied: the proof no longer speaks
        # about this code.  Search the neighbourhood for a property-level failure.
        found = neighbourhood_search(ctx, run, known)
        if found:
            c2, f2 = found
            small = shrink(ctx, run, c2, "oracle")
            f3 = analyse_case(run, small) or f2
            ctx.violation(f"{run.name}_oracle", {"run": run.name, "engine": run.engine, "kind": "oracle", "origin": "search after model disagreement",
                                                 "message": f3[2], "ops": small["ops"], "impl": small["impl"], "model": small["model"]})
        else:
            payload["correspondence"] = f"model:{run.engine} request `{case['ops'][idx].split()[0]}` (step {idx})"
            ctx.violation(f"{run.name}_diff", payload, nofail=True)


def neighbourhood_search(ctx, run, known=()):
    """more cases with other seeds, oracle only"""
    saved = (run.quick, run.thorough, run.driver, ctx.seed)
    try:
        for extra in range(1, 4):
            ctx.seed = saved[3] * 7919 + extra
            cases = exec_stream(ctx, run, ctx.tier)
            for c in cases:
                f = analyse_case(run, c)
                if f and f[0] == "oracle" and match_known(known, run, c, f) is None:
                    return c, f
    finally:
        run.quick, run.thorough, run.driver, ctx.seed = saved
    return None
