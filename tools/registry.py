"""Per-property configuration and the generic property runner."""
import json, os, re, sys, time

from checklib import *  # noqa

# --------------------------------------------------------------------------------------------
# rawdb observation helpers


def rsec(body):
    """'out | R … | H … | P … | V … | F … | E …' → dict"""
    parts = body.split(" | ")
    d = {"out": parts[0]}
    for p in parts[1:]:
        d[p[:1]] = p[2:] if len(p) > 1 else ""
    return d


def proj_c01(body):
    d = rsec(body)
    regs = []
    for r in d.get("R", "").split():
        f = r.split(":")
        regs.append(f"{f[4]}:{f[2]}:{f[5]}")
    return d["out"] + " | " + " ".join(sorted(regs))


def proj_c02(body):
    d = rsec(body)
    regs = [":".join(r.split(":")[:5] + r.split(":")[6:]) for r in d.get("R", "").split()]
    return " | ".join([d["out"], " ".join(regs)] + [d.get(k, "") for k in "HPVF"])


def proj_state(body):
    d = rsec(body)
    return " | ".join([d["out"]] + [d.get(k, "") for k in "RHPVF"])


def proj_events(body):
    d = rsec(body)
    return d["out"] + " | " + d.get("E", "")


def rawdb_features(case):
    """per-case feature trace (for counting distinct non-trivial cases)"""
    trace, kinds = [], set()
    prev = {}
    prevd = None
    for op, obs in zip(case["ops"], case["impl"]):
        if op.startswith("case") or " | " not in obs:
            continue
        d = rsec(split_obs(obs)[0])
        cur = {}
        for r in d.get("R", "").split():
            f = r.split(":")
            cur[f[0]] = (f[1], f[3])
        tags = [op.split()[0], d["out"].split(":")[0] if d["out"].startswith("ok") else d["out"]]
        for i, (st, rs) in cur.items():
            if i in prev and prev[i][0] != st:
                tags.append("reloc")
            elif i in prev and prev[i][1] != rs:
                tags.append("grow")
        if prevd is not None:
            if prevd.get("P") and not d.get("P"):
                tags.append("promote")
            if len(prevd.get("H", "").split()) > len(d.get("H", "").split()) and tags[0] in ("create", "write", "write_at", "truncate_write"):
                tags.append("holefill")
        if re.search(r"(^| )p\d", d.get("E", "")):
            tags.append("punch")
        if tags[0] == "reopen":
            tags.append("reopened")
        if d["out"].startswith("err"):
            tags.append("refuse")
        kinds.update(t for t in tags if t in ("reloc", "grow", "promote", "holefill", "punch", "reopened", "refuse"))
        trace.append(",".join(tags))
        prev, prevd = cur, d
    return trace, kinds


RAWDB_RULE = (
    "histories generated from the reference state by harness/src/rawdb_engine.rs (12 region names incl. 1-byte, 1024-byte, "
    "non-ASCII and special-character ids; sizes {0,1,7,100,4095..8193,20000,70000,300000} + uniform; offsets 0/mid/len-1/len); "
    "a case is non-trivial when its branch trace contains at least two different kinds among relocation, in-place growth, "
    "pending-hole promotion, hole reuse, hole punch, reopen, refusal; distinct = distinct branch traces (sha256 of the per-request tag list)"
)

# --------------------------------------------------------------------------------------------

TRUST_COMMON = [
    "Lean 4.33.0 kernel; axioms of every property theorem ⊆ {propext, Classical.choice, Quot.sound} (printed below)",
    "the Lean model is hand-written; it is tied to /repo only by the lock-step correspondence run (differential testing, coverage printed) and by tools/extract.py (regex extraction of constants, byte layouts and call orders)",
    "harness/driver glue: request parsing and canonicalisation on both sides",
]

ENGINES = [
    {"name": "rawdb", "path": "harness/src/rawdb_engine.rs + lean/Driver/RawdbProto.lean", "serves_properties": ["C01", "C02", "C13"],
     "kind_free_text": "generates region-operation histories, runs them on the real rawdb crate in-process and on the compiled Lean model, compares the projected state after every request; model-free oracles (reference byte vectors, extent invariants, state-unchanged-after-refusal) on the implementation"},
]

NOT_CLAIMED = {}

PROPS = {
    "C01": dict(
        lean="AnyDB.Props.C01",
        runs=[
            Run("rawdb", "clean", [], (240, 50), (4000, 200), proj_c01, ["C01", "panic"], rawdb_features),
            Run("rawdb", "refusals", ["--malformed"], (80, 40), (1500, 120), proj_c01, ["C01", "panic"], rawdb_features),
        ],
        rule=RAWDB_RULE,
        assumptions=["page cache coherent with the shared mapping (no crash in this property)"],
        level_text="Lean 4 theorems (all offsets, sizes and payloads) for the byte-level laws every placement path of write_with is built from: read-own-write and frame of Database::write, the fits path refines the reference byte vector and is isolated from every other slot and byte, the relocation copy reproduces the source bytes, file growth and hole punching keep all other bytes, truncate/rename touch metadata only, refused writes are no-ops. The composition over whole histories (all four placement paths, remove/flush/reopen) is validated by the lock-step correspondence: real rawdb = compiled Lean model = independent reference byte vectors after every request. The single history-level theorem C01_run is not proved yet (needs C02's whole-layout invariant); stated as open in Props/C01.lean.",
        level_note="Trusted: Lean kernel + {propext, Classical.choice, Quot.sound}; the hand-written model Model/Rawdb.lean (tied to /repo by the differential run and tools/extract.py); harness/driver glue; OS page cache coherent with the mapping. Modelled rather than verified: all of rawdb (no Rust line is verified directly).",
        technique="Lean 4 proof over an executable model of rawdb + lock-step correspondence with the real crate and a reference byte-vector oracle",
    ),
    "C02": dict(
        lean="AnyDB.Props.C02",
        runs=[
            Run("rawdb", "layout", [], (240, 60), (4000, 250), proj_c02, ["C02", "panic"], rawdb_features),
            Run("rawdb", "refusals", ["--malformed"], (80, 40), (1500, 120), proj_c02, ["C02", "panic"], rawdb_features),
        ],
        rule=RAWDB_RULE,
        assumptions=["Layout accessors pending_holes/start_to_reserved exposed by the verif_hooks feature (read-only)"],
        level_text="Lean 4 theorems, unbounded in list length and sizes, for the allocator: promotion of deferred holes keeps the free list positive, pairwise disjoint and merged, covers exactly old free bytes + promoted bytes and stays disjoint from everything the inputs were disjoint from (C02_promote); hole split (C02_split); best fit (C02_best_fit); placement reuses free space and does not grow the file whenever an adequate hole exists, for relocation and for creation (C02_place_reuses, C02_place_end, C02_create_reuses); the file growth rule (C02_growth); flush leaves no deferred hole (C02_flush_promotes). The whole-database invariant over complete histories is checked on the implementation's real layout after every request by an independent checker and the model's layout is compared field by field with the real one (regions, holes, pending, reservations, file length, Layout::len); its Lean composition per placement path is the part still open.",
        level_note="Trusted: Lean kernel + standard axioms; hand-written model (Model/Rawdb.lean) tied to /repo by differential run + extractor; the guarded read-only Layout accessors. Modelled rather than verified: layout.rs, region.rs write_with, lib.rs create/set_min_len/flush.",
        technique="Lean 4 proof of allocator invariants (induction over the pending-hole list) + full-layout lock-step correspondence + independent invariant checker on the real layout",
    ),
    "C13": dict(
        lean="AnyDB.Props.C13",
        runs=[
            Run("rawdb", "refusals", ["--malformed"], (200, 40), (3000, 120), proj_state, ["C13", "panic"], rawdb_features),
            Run("rawdb", "held", ["--malformed", "--held"], (60, 20), (600, 60), proj_state, ["C13", "panic"], rawdb_features, clean=False),
        ],
        rule=RAWDB_RULE + "; about one request in four is a refusal chosen from the current state; the 'held' stream ends each case with a removal while an extra handle is alive",
        assumptions=["reference counts are a run-time notion: the model takes `extra handle alive` as an input of remove"],
        level_text="Lean 4 theorem C13_rawdb: for every model state and every rawdb request (write, write_at, truncate_write, truncate, rename, remove, remove with a live extra handle), if the answer is one of the refusals the property lists then the ENTIRE model state (layout, slot table, metadata file image, data bytes, dirty bounds, event log) is unchanged, hence so is the outcome of every later operation; proved for all states, not only reachable ones. Tied to the code by the lock-step run with ~25% refused requests, a state-unchanged oracle evaluated on the real crate after each refusal, and random continuations. vecdb refusals (checked push, import mismatch, rollback without record) are covered by the vec engine under C03/C04/C14/C16.",
        level_note="Trusted: Lean kernel + standard axioms; hand-written model; harness. Reference counts are run-time: `extra handle alive` is an input of the model's remove. The pinned tree violated this property (F1, refused removal mutated the layout); repaired by fix: commit 33df3c8, listed as fixed in known_findings.json.",
        technique="Lean 4 proof (state equality after every refused request) over the rawdb model + refusal-heavy lock-step correspondence",
    ),
}


def run_property(ctx, cfg, replay):
    tier = ctx.tier
    known = load_known(ctx.prop)
    # 1. regenerate the generated Lean inputs from the source
    rc, out = sh([sys.executable, os.path.join(ROOT, "tools", "extract.py")])
    ctx.log(out.strip().splitlines()[-1] if out.strip() else "extract: (no output)")
    extract_broken = rc != 0
    # 2. the proof check
    proof_ok, broken, build_out = proof_check(cfg["lean"], ctx.log)
    driver_ok = os.path.exists(DRIVER_BIN)
    if not proof_ok:
        # is the driver still buildable on its own?
        rc2, _ = sh(["lake", "build", "anydb_driver"], cwd=LEAN, timeout=3000)
        driver_ok = rc2 == 0
        for b in broken[:10]:
            ctx.log("BROKEN " + b)
    # 3. audit
    audit_ok, problems, axioms = (True, [], {})
    if proof_ok:
        audit_ok, problems, axioms = audit(cfg["lean"], ctx.log, thorough=(tier == "thorough"))
        for p in problems:
            ctx.log("AUDIT " + p)
    # 4. harness
    ok, out = build_harness(ctx.log)
    if not ok:
        # the harness is part of the machinery, but it is compiled against /repo: an API break is
        # reported as machinery failure (exit 2), never as a verdict
        raise Machinery("harness does not build against /repo:\n" + out[-1500:])

    runs = cfg["runs"]
    if not driver_ok:
        for r in runs:
            r.driver = False

    # replay mode
    if replay:
        rp = json.load(open(replay))
        run = next((r for r in runs if r.name == rp.get("run")), runs[0])
        if not rp.get("ops"):
            print(f"replay names {rp.get('theorem') or rp.get('correspondence')}: re-run ./check {ctx.prop}")
            return 0 if proof_ok and audit_ok else 1
        case = rerun_case(ctx, run, rp["ops"], tag="replay")
        f = analyse_case(run, case)
        if f:
            print(f"replay still fails: {f[0]} at request {f[1]} ({case['ops'][f[1]]}): {f[2][:300]}")
            print(f"VIOLATION property={ctx.prop} replay={replay}")
            return 1
        print("replay passes")
        return 0

    # 5a. known-finding witnesses and corpus first
    known_lines = []
    for k in known:
        if k.get("status") != "known" or not k.get("witness"):
            continue
        wp = os.path.join(ROOT, k["witness"])
        run = next((r for r in runs if r.engine == k["match"].get("engine", r.engine)), runs[0])
        ops = open(wp).read().splitlines()
        case = rerun_case(ctx, run, ops, tag="known")
        f = analyse_case(run, case)
        if f and match_known([k], run, case, f):
            known_lines.append(f"KNOWN-FINDING: property={ctx.prop} {k['id']} {k['what']}")
            ctx.known_hits[k["id"]] = ctx.known_hits.get(k["id"], 0) + 1
        elif f:
            ctx.log(f"known finding {k['id']}: witness now fails differently: {f}")
            ctx.violation(f"known_{k['id']}", {"run": run.name, "engine": run.engine, "kind": f[0], "ops": case["ops"], "message": f[2], "impl": case["impl"], "model": case["model"]})
        else:
            ctx.log(f"known finding {k['id']}: witness no longer fails (repaired?)")
    corpus_dir = os.path.join(ROOT, "corpus", ctx.prop)
    corpus_cases = 0
    if os.path.isdir(corpus_dir):
        for fn in sorted(os.listdir(corpus_dir)):
            if not fn.endswith(".ops") or any(k.get("witness", "").endswith(fn) for k in known):
                continue
            eng = fn.split("__")[0] if "__" in fn else runs[0].engine
            run = next((r for r in runs if r.engine == eng), runs[0])
            case = rerun_case(ctx, run, open(os.path.join(corpus_dir, fn)).read().splitlines(), tag="corpus")
            corpus_cases += 1
            f = analyse_case(run, case)
            if f:
                handle_failure(ctx, run, case, f, known, shrink_it=False, origin=f"corpus/{fn}")

    # 5b. generated streams
    evaluations = 0
    requests = 0
    distinct = set()
    nontrivial = set()
    kinds_hist = {}
    ops_hist = {}
    out_hist = {}
    samples = []
    per_stream = {}
    for run in runs:
        cases = exec_stream(ctx, run, tier)
        per_stream[run.name] = {"cases": len(cases), "requests": sum(len(c["ops"]) - 1 for c in cases), "clean_stream": run.clean}
        evaluations += len(cases)
        nfail = 0
        for c in cases:
            requests += len(c["ops"]) - 1
            if run.features:
                trace, kinds = run.features(c)
                h = hashlib.sha256("|".join(trace).encode()).hexdigest()
                distinct.add(h)
                if len(kinds) >= 2:
                    nontrivial.add(h)
                for k in kinds:
                    kinds_hist[k] = kinds_hist.get(k, 0) + 1
            for op, obs in zip(c["ops"][1:], c["impl"][1:]):
                w = op.split()[0]
                ops_hist[w] = ops_hist.get(w, 0) + 1
                o = obs.split(" | ")[0]
                o = o.split(":")[0] if o.startswith("ok") else o
                out_hist[o] = out_hist.get(o, 0) + 1
            f = analyse_case(run, c)
            if f:
                nfail += 1
                if nfail <= 3:
                    handle_failure(ctx, run, c, f, known, shrink_it=True, origin=f"stream {run.name}")
        if cases and len(samples) < 3:
            c = cases[len(cases) // 2]
            samples.append({"stream": run.name, "requests": c["ops"][:12], "observations": [x[:160] for x in c["impl"][:3]]})
        ctx.log(f"stream {run.engine}/{run.name}: {len(cases)} cases, {per_stream[run.name]['requests']} requests, failures {nfail}")

    # 6. verdict
    thms = theorems_in(cfg["lean"])
    dep_mods = [m for m in lean_deps(cfg["lean"]) if ".Lemmas." in m or ".Props." in m]
    lemma_count = sum(len(theorems_in(m)) for m in dep_mods)
    obligations = lemma_count
    discharged = obligations if proof_ok and audit_ok else 0
    if not proof_ok or not audit_ok or extract_broken:
        # a proof obligation no longer checks: the streams above were the search for a failing input
        if not any(not nofail for _, nofail in ctx.violations):
            what = broken[:3] if broken else problems[:3] if problems else ["tools/extract.py: anchor not found: " + out.strip()[-300:]]
            ctx.violation("proof", {"theorem": what, "note": "no failing input found by the correspondence and oracle search of this run",
                                    "build_output_tail": build_out[-1500:]}, nofail=True)
    coverage = {
        "obligations": max(obligations, 1) if thms else 0,
        "discharged": discharged,
        "checker_cmd": f"cd lean && lake build {cfg['lean']} anydb_driver && lake env lean <#print axioms of every theorem>" + (" && lake env leanchecker " + cfg["lean"] if tier == "thorough" else ""),
        "trusted_base": TRUST_COMMON + cfg.get("assumptions", []),
        "theorems": {t: {"axioms": axioms.get(t, []), "statement_sha": statement_hashes(cfg["lean"]).get(t.split(".")[-1], "")} for t in thms},
        "lemma_modules": dep_mods,
        "evaluations": evaluations + corpus_cases,
        "requests": requests,
        "distinct_nontrivial": len(nontrivial),
        "distinct_traces": len(distinct),
        "rule": cfg.get("rule", ""),
        "samples": samples,
        "traces_validated_against_impl": evaluations + corpus_cases,
        "streams": per_stream,
        "branch_kinds_hit": kinds_hist,
        "request_distribution": ops_hist,
        "outcome_distribution": out_hist,
        "known_findings_hit": ctx.known_hits,
        "proof_ok": proof_ok,
        "audit_ok": audit_ok,
        "driver_used": driver_ok,
    }
    write_evidence(ctx, "proof", coverage, cfg.get("assumptions", []))
    for l in known_lines:
        print(l)
    for k, n in ctx.known_hits.items():
        pass
    if ctx.violations:
        for p, nofail in ctx.violations:
            print(f"VIOLATION property={ctx.prop} replay={p}" + (" no-failing-input-found" if nofail else ""))
        return 1
    ctx.log(f"OK: {len(thms)} property theorems ({obligations} obligations incl. lemmas) checked, {evaluations} cases / {requests} requests agree")
    return 0


def handle_failure(ctx, run, case, f, known, shrink_it, origin):
    kind, idx, msg = f
    k = match_known(known, run, case, f)
    if k is not None:
        ctx.known_hits[k["id"]] = ctx.known_hits.get(k["id"], 0) + 1
        return
    ctx.log(f"FAILURE ({kind}) in {origin} at request {idx} `{case['ops'][idx][:80]}`: {msg[:300]}")
    if shrink_it:
        try:
            small = shrink(ctx, run, case, kind)
            f2 = analyse_case(run, small)
            if f2 and f2[0] == kind:
                case, f = small, f2
                kind, idx, msg = f
                k = match_known(known, run, case, f)
                if k is not None:
                    ctx.known_hits[k["id"]] = ctx.known_hits.get(k["id"], 0) + 1
                    return
        except Machinery as e:
            ctx.log(f"shrink failed: {e}")
    payload = {
        "run": run.name, "engine": run.engine, "kind": kind, "origin": origin, "failing_request_index": idx,
        "message": msg, "ops": case["ops"][: idx + 1],
        "impl": [x[:2000] for x in case["impl"][: idx + 1]], "model": [x[:2000] for x in case["model"][: idx + 1]],
    }
    if kind == "oracle":
        ctx.violation(f"{run.name}_oracle", payload)
    else:
        # implementation ≠ model while the property oracle is satisfied: the proof no longer speaks
        # about this code.  Search the neighbourhood for a property-level failure.
        found = neighbourhood_search(ctx, run)
        if found:
            c2, f2 = found
            small = shrink(ctx, run, c2, "oracle")
            f3 = analyse_case(run, small) or f2
            ctx.violation(f"{run.name}_oracle", {"run": run.name, "engine": run.engine, "kind": "oracle", "origin": "search after model disagreement",
                                                 "message": f3[2], "ops": small["ops"], "impl": small["impl"], "model": small["model"]})
        else:
            payload["correspondence"] = f"model:{run.engine} request `{case['ops'][idx].split()[0]}` (step {idx})"
            ctx.violation(f"{run.name}_diff", payload, nofail=True)


def neighbourhood_search(ctx, run):
    """more cases with other seeds, oracle only"""
    saved = (run.quick, run.thorough, run.driver, ctx.seed)
    try:
        for extra in range(1, 4):
            ctx.seed = saved[3] * 7919 + extra
            cases = exec_stream(ctx, run, ctx.tier)
            for c in cases:
                f = analyse_case(run, c)
                if f and f[0] == "oracle":
                    return c, f
    finally:
        run.quick, run.thorough, run.driver, ctx.seed = saved
    return None
