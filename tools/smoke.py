#!/usr/bin/env python3
"""dev helper: smoke.py <engine> <gen-args…> — run a stream and print first diffs / oracle failures"""
import subprocess, sys, os
eng = sys.argv[1]; extra = sys.argv[2:]
os.makedirs("/verif/.cache/t", exist_ok=True); os.chdir("/verif/.cache/t")
subprocess.run(["/verif/.cache/target/release/harness", eng, "gen", "--ops", "s_ops.txt", "--out", "s_impl.txt"] + extra, check=True)
with open("s_ops.txt") as fi, open("s_model.txt", "w") as fo:
    subprocess.run(["/verif/lean/.lake/build/bin/anydb_driver", eng], stdin=fi, stdout=fo, check=True)
ops = open('s_ops.txt').read().splitlines(); im = open('s_impl.txt').read().splitlines(); mo = open('s_model.txt').read().splitlines()
nd = no = 0; case = None; start = 0; seen = set(); oseen = set()
from collections import Counter
oc = Counter()
for i, (o, a, b) in enumerate(zip(ops, im, mo)):
    if o.startswith('case'):
        case = o; start = i; continue
    body, orc = (a.rsplit(' | O ', 1) + ['ok'])[:2]
    if orc != 'ok':
        oc[orc[:70]] += 1
        if case not in oseen:
            no += 1; oseen.add(case)
            if no < 5: print('ORACLE', case, '\n  ', ' ; '.join(ops[start+1:i+1])[-400:], '\n  ', orc[:300])
    if b != 'unmodelled' and body != b and case not in seen:
        nd += 1; seen.add(case)
        if nd < 6: print('DIFF', case, '\n  ', ' ; '.join(ops[start+1:i+1])[-400:], '\n  impl ', body[:300], '\n  model', b[:300])
print('lines', len(ops), 'cases with diffs', nd, 'cases with oracle fails', no)
for k, v in oc.most_common(8): print('  ', v, k)
