#!/usr/bin/env python3
"""dev helper: run a vec stream and print the first diffs / oracle failures"""
import subprocess, sys, os
mode = sys.argv[1] if len(sys.argv) > 1 else "plain"
cases = sys.argv[2] if len(sys.argv) > 2 else "28"
ln = sys.argv[3] if len(sys.argv) > 3 else "40"
seed = sys.argv[4] if len(sys.argv) > 4 else "1"
os.makedirs("/verif/.cache/t", exist_ok=True)
os.chdir("/verif/.cache/t")
subprocess.run(["/verif/.cache/target/release/harness", "vec", "gen", "--seed", seed, "--cases", cases, "--len", ln, "--mode", mode, "--ops", "ops.txt", "--out", "impl.txt"] + sys.argv[5:], check=True)
with open("ops.txt") as fi, open("model.txt", "w") as fo:
    subprocess.run(["/verif/lean/.lake/build/bin/anydb_driver", "vec"], stdin=fi, stdout=fo, check=True)
ops = open('ops.txt').read().splitlines(); im = open('impl.txt').read().splitlines(); mo = open('model.txt').read().splitlines()
def proj(body):
    parts = body.rsplit(' | X', 1)[0].split(' | ')
    for k, p in enumerate(parts):
        if p.startswith('L '):
            f = p.split()
            if len(f) >= 4 and int(f[2]) > int(f[3]):
                parts = [q if not q.startswith('I ') else 'I *' for q in parts]
    return ' | '.join(parts)
nd = no = 0
case = None; start = 0
seen = set(); oseen = set()
for i, (o, a, b) in enumerate(zip(ops, im, mo)):
    if o.startswith('case'):
        case = o; start = i; continue
    body, orc = (a.rsplit(' | O ', 1) + ['ok'])[:2]
    pa = proj(body); pb = proj(b)
    if orc != 'ok' and case not in oseen and case not in seen:
        no += 1; oseen.add(case)
        if no < 6: print('ORACLE', case, '\n  ', ' ; '.join(ops[start+1:i+1])[-400:], '\n  ', orc[:400])
    if pa != pb and case not in seen:
        nd += 1; seen.add(case)
        if nd < 6: print('DIFF', case, '\n  ', ' ; '.join(ops[start+1:i+1])[-500:], '\n  impl ', pa[:330], '\n  model', pb[:330])
print('lines', len(ops), 'cases with diffs', nd, 'cases with oracle fails', no)
