#!/usr/bin/env python3
"""Writes /verif/seeded/<id>/meta.json from notes.md, patch.diff and seeded/results.json (try_seed outcomes)."""
import json, os, re, sys

ROOT = os.path.dirname(os.path.dirname(os.path.abspath(__file__)))
SD = os.path.join(ROOT, "seeded")
results = {}
rp = os.path.join(SD, "results.json")
if os.path.exists(rp):
    results = json.load(open(rp))
for d in sorted(os.listdir(SD)):
    p = os.path.join(SD, d)
    if not os.path.isdir(p) or not os.path.exists(os.path.join(p, "patch.diff")):
        continue
    notes = open(os.path.join(p, "notes.md")).read() if os.path.exists(os.path.join(p, "notes.md")) else ""
    title = notes.splitlines()[0].lstrip("# ").strip() if notes else d
    paras = [x.strip() for x in re.split(r"\n\s*\n", notes)]
    def para(*keys):
        for x in paras:
            low = x.lower()
            if any(low.startswith(k) or low.startswith("**" + k) for k in keys):
                return re.sub(r"\s+", " ", x.replace("**", ""))
        return ""
    files = re.findall(r"^diff --git a/(\S+)", open(os.path.join(p, "patch.diff")).read(), re.M)
    prop = d.split("_")[0]
    meta = {
        "property": prop,
        "title": title,
        "files_changed": files,
        "what_changes": para("change"),
        "why_it_breaks_the_property": para("why"),
        "needs_to_manifest": para("condition", "needs", "trigger"),
        "demonstration": "seeded_demo.rs (an integration test placed in the crate's tests/ directory)",
        "origin": "written by a fresh sub-agent that was given only the text of the property and a scratch git worktree of /repo; nothing from /verif",
        "confirmed_by_me": {
            "how": "tools/confirm_seed.sh in the sub-agent's scratch worktree (since removed): git apply --check; demo without the change; demo with the change; whole workspace suite with the change",
            "demo_passes_without_change": True,
            "demo_fails_with_change": True,
            "suite_passes_with_change": True,
        },
        "checks_run_against_it": results.get(d, {}),
        "apply": f"git -C /repo apply /verif/seeded/{d}/patch.diff ; <run checks> ; git -C /repo checkout -- .",
    }
    json.dump(meta, open(os.path.join(p, "meta.json"), "w"), indent=1)
    print(d, "->", len(meta["checks_run_against_it"]), "check results")
