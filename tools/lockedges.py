#!/usr/bin/env python3
"""dev helper: held→requested edge set of a trace file"""
import sys
from collections import defaultdict
edges = defaultdict(set); same = set()
for l in open(sys.argv[1]):
    ws = l.split()
    if not ws or ws[0] != 'trace' or ws[-1] == 'PANIC': continue
    held = []
    for ev in ws[2:]:
        if ev == '-': continue
        if ev.startswith('a:'):
            _, m, ci = ev.split(':', 2); c, i = ci.split('#')
            for (hc, hi, hm) in held:
                edges[(hc, c)].add(ws[1])
                if hc == c: same.add((c, ws[1]))
            held.append((c, i, m))
        else:
            c, i = ev[2:].split('#')
            for k in range(len(held) - 1, -1, -1):
                if held[k][0] == c and held[k][1] == i: held.pop(k); break
    if held: print('LEFT HELD', ws[1], held)
cls = sorted({a for a, b in edges} | {b for a, b in edges})
print(cls)
for (a, b), s in sorted(edges.items()): print(f'{a:16} -> {b:16} {len(s):3} e.g. {sorted(s)[0]}')
print('same-class nesting:', same)
for a, b in edges:
    if (b, a) in edges and a < b: print('CYCLE', a, b, sorted(edges[(a, b)])[:2], sorted(edges[(b, a)])[:2])
