"""Shared machinery of ./check — see DESIGN.md §2, §4, §6."""
import concurrent.futures as cf
import hashlib, json, os, re, shutil, subprocess, sys, time

ROOT = os.path.dirname(os.path.dirname(os.path.abspath(__file__)))
LEAN = os.path.join(ROOT, "lean")
CACHE = os.path.join(ROOT, ".cache")
HARNESS_BIN = os.path.join(CACHE, "target", "release", "harness")
DRIVER_BIN = os.path.join(LEAN, ".lake", "build", "bin", "anydb_driver")
STD_AXIOMS = {"propext", "Classical.choice", "Quot.sound"}
FORBIDDEN = re.compile(r"\b(sorry|admit|native_decide|bv_decide|implemented_by|unsafe)\b|^\s*axiom\s|maxHeartbeats\s+0\b")
NCPU = min(16, os.cpu_count() or 4)


def sh(cmd, cwd=None, timeout=None, env=None, stdin=None):
    e = dict(os.environ)
    e.update({"CARGO_NET_OFFLINE": "true"})
    if env:
        e.update(env)
    p = subprocess.run(cmd, cwd=cwd, env=e, stdin=stdin, stdout=subprocess.PIPE, stderr=subprocess.STDOUT, timeout=timeout, text=True)
    return p.returncode, p.stdout


# --------------------------------------------------------------------------------------------
# Lean side


def strip_lean_comments(text):
    out, i, depth = [], 0, 0
    n = len(text)
    while i < n:
        if text.startswith("/-", i):
            depth += 1
            i += 2
        elif depth and text.startswith("-/", i):
            depth -= 1
            i += 2
        elif depth:
            if text[i] == "\n":
                out.append("\n")
            i += 1
        elif text.startswith("--", i):
            while i < n and text[i] != "\n":
                i += 1
        else:
            out.append(text[i])
            i += 1
    return "".join(out)


def lean_module_path(mod):
    return os.path.join(LEAN, *mod.split(".")) + ".lean"


def lean_deps(mod, seen=None):
    """AnyDB.* modules imported (transitively) by mod."""
    seen = seen if seen is not None else []
    if mod in seen:
        return seen
    seen.append(mod)
    p = lean_module_path(mod)
    if not os.path.exists(p):
        return seen
    for m in re.finditer(r"^import\s+(AnyDB\.[\w.]+)", open(p).read(), re.M):
        lean_deps(m.group(1), seen)
    return seen


def theorems_in(mod):
    p = lean_module_path(mod)
    if not os.path.exists(p):
        return []
    text = strip_lean_comments(open(p).read())
    ns = []
    names = []
    for line in text.splitlines():
        m = re.match(r"\s*namespace\s+([\w.]+)", line)
        if m:
            ns.append(m.group(1))
            continue
        m = re.match(r"\s*end\s+([\w.]+)\s*$", line)
        if m and ns and ns[-1] == m.group(1):
            ns.pop()
            continue
        m = re.match(r"\s*(?:@\[[^\]]*\]\s*)*(?:private\s+|protected\s+)?(theorem|lemma)\s+([\w.'?!]+)", line)
        if m:
            names.append(".".join(ns + [m.group(2)]))
    return names


def statement_hashes(mod):
    """hash of every `theorem name … :=` statement text in a Props file (so weakening is visible)"""
    p = lean_module_path(mod)
    text = strip_lean_comments(open(p).read())
    out = {}
    for m in re.finditer(r"(?:theorem|lemma)\s+([\w.'?!]+)(.*?):=", text, re.S):
        out[m.group(1)] = hashlib.sha256(re.sub(r"\s+", " ", m.group(2)).encode()).hexdigest()[:12]
    return out


def proof_check(prop_mod, log):
    """lake build the property module and the driver.  Returns (ok, broken_names, output)"""
    t0 = time.time()
    rc, out = sh(["lake", "build", prop_mod, "anydb_driver"], cwd=LEAN, timeout=3000)
    log(f"lake build {prop_mod} anydb_driver: rc={rc} ({time.time()-t0:.1f}s)")
    broken = []
    if rc != 0:
        for m in re.finditer(r"error: ([\w/]+\.lean):(\d+):(\d+): (.*)", out):
            f, ln = m.group(1), int(m.group(2))
            name = enclosing_decl(os.path.join(LEAN, f), ln)
            broken.append(f"{f}:{ln} {name}: {m.group(4)[:160]}")
    return rc == 0, broken, out


def enclosing_decl(path, line):
    try:
        lines = open(path).read().splitlines()
    except OSError:
        return "?"
    for i in range(min(line, len(lines)) - 1, -1, -1):
        m = re.match(r"\s*(?:private\s+)?(theorem|lemma|def|example|instance|structure|inductive)\s*([\w.']*)", lines[i])
        if m:
            return f"{m.group(1)} {m.group(2)}".strip()
    return "?"


def audit(prop_mod, log, thorough=False):
    """forbidden tokens + #print axioms.  Returns (ok, problems, axioms_by_theorem)"""
    problems = []
    mods = lean_deps(prop_mod)
    for mod in mods:
        p = lean_module_path(mod)
        if not os.path.exists(p):
            continue
        text = strip_lean_comments(open(p).read())
        for i, line in enumerate(text.splitlines(), 1):
            if FORBIDDEN.search(line):
                problems.append(f"forbidden token in {mod}:{i}: {line.strip()[:100]}")
    thms = theorems_in(prop_mod)
    axioms = {}
    if thms:
        tmp = os.path.join(CACHE, "audit", prop_mod.replace(".", "_") + ".lean")
        os.makedirs(os.path.dirname(tmp), exist_ok=True)
        with open(tmp, "w") as f:
            f.write(f"import {prop_mod}\n" + "".join(f"#print axioms {t}\n" for t in thms))
        rc, out = sh(["lake", "env", "lean", tmp], cwd=LEAN, timeout=1200)
        if rc != 0:
            problems.append("axiom audit failed to run: " + out[:400])
        cur = None
        for m in re.finditer(r"'([^']+)' (does not depend on any axioms|depends on axioms: \[([^\]]*)\])", out.replace("\n", " ")):
            name = m.group(1)
            ax = set(a.strip() for a in (m.group(3) or "").split(",") if a.strip())
            axioms[name] = sorted(ax)
            extra = ax - STD_AXIOMS
            if extra:
                problems.append(f"theorem {name} depends on non-standard axioms {sorted(extra)}")
        missing = [t for t in thms if t not in axioms]
        if missing:
            problems.append(f"no axiom report for {missing[:5]}")
    if thorough:
        rc, out = sh(["lake", "env", "leanchecker", prop_mod], cwd=LEAN, timeout=3000)
        log(f"leanchecker {prop_mod}: rc={rc}")
        if rc != 0:
            problems.append("leanchecker rejected the module: " + out[-400:])
    return not problems, problems, axioms


# --------------------------------------------------------------------------------------------
# Rust side


def build_harness(log):
    os.makedirs(CACHE, exist_ok=True)
    lock_src, lock_dst = "/repo/Cargo.lock", os.path.join(ROOT, "harness", "Cargo.lock")
    # the harness resolves against /repo's lock file; keep a stale copy only if /repo has none
    if os.path.exists(lock_src):
        want = open(lock_src).read()
        have = open(lock_dst).read() if os.path.exists(lock_dst) else ""
        if "name = \"harness\"" not in have or not _same_lock(want, have):
            shutil.copy(lock_src, lock_dst)
    t0 = time.time()
    rc, out = sh(["cargo", "build", "--release", "--offline"], cwd=os.path.join(ROOT, "harness"), timeout=3000)
    log(f"cargo build harness: rc={rc} ({time.time()-t0:.1f}s)")
    return rc == 0, out


def _same_lock(repo_lock, harness_lock):
    pk = lambda t: set(re.findall(r'name = "([^"]+)"\nversion = "([^"]+)"', t))
    return pk(repo_lock) - {("rawdb", "0.10.3")} <= pk(harness_lock) | {("vecdb_bench", "0.10.3")} or pk(repo_lock) <= pk(harness_lock)


def run_harness(engine, args, stdout_path=None, timeout=6000):
    cmd = [HARNESS_BIN, engine] + args
    if stdout_path:
        with open(stdout_path, "w") as f:
            p = subprocess.run(cmd, stdout=f, stderr=subprocess.PIPE, text=True, timeout=timeout)
        return p.returncode, p.stderr
    p = subprocess.run(cmd, stdout=subprocess.PIPE, stderr=subprocess.PIPE, text=True, timeout=timeout)
    return p.returncode, p.stdout + p.stderr


def run_driver(engine, ops_path, out_path, timeout=6000):
    with open(ops_path) as fi, open(out_path, "w") as fo:
        p = subprocess.run([DRIVER_BIN, engine], stdin=fi, stdout=fo, stderr=subprocess.PIPE, text=True, timeout=timeout)
    return p.returncode, p.stderr


# --------------------------------------------------------------------------------------------
# correspondence runs


def split_cases(ops, impl, model):
    """group parallel line lists by `case` lines"""
    cases, cur = [], None
    for i, op in enumerate(ops):
        if op.startswith("case"):
            cur = {"ops": [], "impl": [], "model": []}
            cases.append(cur)
        if cur is None:
            cur = {"ops": [], "impl": [], "model": []}
            cases.append(cur)
        cur["ops"].append(op)
        cur["impl"].append(impl[i] if i < len(impl) else "<missing>")
        cur["model"].append(model[i] if i < len(model) else "<missing>")
    return cases


def split_obs(line):
    """observation line → (body, oracle)"""
    if " | O " in line:
        body, o = line.rsplit(" | O ", 1)
        return body, o
    return line, "ok"


class Run:
    """One generated stream of one engine for one property."""

    def __init__(self, engine, name, flags, quick, thorough, project, tags, features=None, known=None, driver=True, clean=True, driver_engine=None):
        self.engine, self.name, self.flags = engine, name, flags
        self.quick, self.thorough = quick, thorough  # (cases, len)
        self.project = project  # observation body → comparable string (None ⇒ whole body)
        self.tags = tags  # oracle tags that belong to this property
        self.features = features
        self.driver = driver
        self.driver_engine = driver_engine or engine  # protocol the Lean driver speaks for this stream
        self.clean = clean  # clean stream: any failure is an alarm; open stream: classified by known findings


def relevant_oracle(o, tags):
    if o == "ok":
        return None
    msgs = [m.strip() for m in o[len("fail:"):].split(";") if m.strip()]
    rel = [m for m in msgs if any(m.startswith(t) for t in tags) or (m == "panic" or m.startswith("crash:")) and "panic" in tags]
    return "; ".join(rel) if rel else None


def crashed_shard(ctx, run, length, job, sig):
    """re-run a shard case by case; a case whose process dies again becomes a synthetic failing case"""
    first, n, ops_p, impl_p, model_p = job
    ops_all, impl_all, model_all = [], [], []
    for c in range(first, first + n):
        o, i, m = (f"{x}.case{c}" for x in (ops_p, impl_p, model_p))
        args = ["gen", "--seed", str(ctx.seed), "--cases", "1", "--len", str(length), "--first-case", str(c),
                "--ops", o, "--out", i, "--tmp", os.path.join(CACHE, "tmp")] + run.flags
        rc, err = run_harness(run.engine, args)
        if rc == 0:
            if run.driver:
                rc2, err2 = run_driver(run.driver_engine, o, m)
                if rc2 != 0:
                    return ("driver", rc2, err2)
            ops_all += open(o).read().splitlines()
            impl_all += open(i).read().splitlines()
            model_all += open(m).read().splitlines() if run.driver else []
        elif rc < 0:
            head = f"case {c} (process killed by signal {-rc})"
            cmd = "harness " + run.engine + " " + " ".join(args[:10] + run.flags)
            line = f"crashed | O fail:crash: the process running this case against the real crates was killed by signal {-rc} (memory fault or abort inside the library) - rerun with: {cmd}"
            ops_all += [head, f"crashcase seed={ctx.seed} case={c} len={length}"]
            impl_all += [head, line]
            if run.driver:
                model_all += [head, line]
        else:
            return ("harness", rc, err)
    for path, lines in ((ops_p, ops_all), (impl_p, impl_all)) + (((model_p, model_all),) if run.driver else ()):
        with open(path, "w") as f:
            f.write("\n".join(lines) + "\n")
    return None


def exec_stream(ctx, run, tier):
    cases, length = run.quick if tier == "quick" else run.thorough
    shards = min(NCPU, max(1, cases // 4))
    per = (cases + shards - 1) // shards
    wd = os.path.join(CACHE, "run", ctx.prop, run.name)
    shutil.rmtree(wd, ignore_errors=True)
    os.makedirs(wd)
    jobs = []
    for s in range(shards):
        first = s * per
        n = min(per, cases - first)
        if n <= 0:
            continue
        ops_p, impl_p, model_p = (os.path.join(wd, f"{k}{s}.txt") for k in ("ops", "impl", "model"))
        jobs.append((first, n, ops_p, impl_p, model_p))

    def one(job):
        first, n, ops_p, impl_p, model_p = job
        rc, err = run_harness(
            run.engine,
            ["gen", "--seed", str(ctx.seed), "--cases", str(n), "--len", str(length), "--first-case", str(first),
             "--ops", ops_p, "--out", impl_p, "--tmp", os.path.join(CACHE, "tmp")] + run.flags,
        )
        if rc < 0:
            # the harness process was killed by a signal while it ran the real crates (memory fault, abort): that is an
            # observation about the implementation, not a machinery error — find the case(s) and report them
            return crashed_shard(ctx, run, length, job, -rc)
        if rc != 0:
            return ("harness", rc, err)
        if run.driver:
            rc, err = run_driver(run.driver_engine, ops_p, model_p)
            if rc != 0:
                return ("driver", rc, err)
        return None

    with cf.ThreadPoolExecutor(NCPU) as ex:
        errs = [e for e in ex.map(one, jobs) if e]
    if errs:
        raise Machinery(f"{run.engine}/{run.name}: {errs[0][0]} failed rc={errs[0][1]}: {errs[0][2][-800:]}")
    all_cases = []
    for first, n, ops_p, impl_p, model_p in jobs:
        ops = open(ops_p).read().splitlines()
        impl = open(impl_p).read().splitlines()
        model = open(model_p).read().splitlines() if run.driver else impl
        all_cases += split_cases(ops, impl, model)
    return all_cases


class Machinery(Exception):
    pass


def analyse_case(run, case):
    """failure of a case: ('oracle', idx, msg) | ('diff', idx, msg) | None.
    A model-free oracle failure anywhere in the case is a concrete violation on the real code and wins
    over an earlier model/implementation disagreement (which only says the correspondence broke)."""
    first_diff = None
    for i, (op, a, b) in enumerate(zip(case["ops"], case["impl"], case["model"])):
        body, o = split_obs(a)
        rel = relevant_oracle(o, run.tags)
        if rel:
            return ("oracle", i, rel)
        if run.driver and first_diff is None:
            pa = run.project(body) if run.project else body
            pb = run.project(split_obs(b)[0]) if run.project else split_obs(b)[0]
            if pa != pb:
                first_diff = ("diff", i, f"impl: {pa[:400]} | model: {pb[:400]}")
    return first_diff


def rerun_case(ctx, run, ops, tag="shrink"):
    wd = os.path.join(CACHE, "run", ctx.prop, tag)
    os.makedirs(wd, exist_ok=True)
    ops_p, impl_p, model_p = (os.path.join(wd, f"{k}.txt") for k in ("ops", "impl", "model"))
    with open(ops_p, "w") as f:
        f.write("\n".join(ops) + "\n")
    rc, err = run_harness(run.engine, ["run", "--ops", ops_p, "--tmp", os.path.join(CACHE, "tmp")] + run.flags, stdout_path=impl_p)
    if rc != 0:
        raise Machinery(f"harness run failed rc={rc}: {err[-400:]}")
    impl = open(impl_p).read().splitlines()
    if run.driver:
        rc, err = run_driver(run.driver_engine, ops_p, model_p)
        if rc != 0:
            raise Machinery(f"driver failed rc={rc}: {err[-400:]}")
        model = open(model_p).read().splitlines()
    else:
        model = impl
    return {"ops": ops, "impl": impl, "model": model}


def skeleton(msg):
    """failure message with the concrete values removed: two failures with the same skeleton are the same failure"""
    return re.sub(r"[0-9_,\- ]+", "#", msg)[:60]


def shrink(ctx, run, case, kind, budget=45, accept=None):
    """delta debugging on the request list (first line `case …` is kept); the same failure (kind and message
    skeleton) must persist and `accept(case, failure)` must hold (used to keep a shrink from drifting into a
    listed known finding)"""
    ops = case["ops"]
    head, body = ops[:1], ops[1:]
    fail_at = analyse_case(run, case)
    if fail_at:
        body = body[: fail_at[1]]  # drop everything after the failing request
    t0 = time.time()

    skel = skeleton(fail_at[2]) if fail_at else None

    def still(b):
        c = rerun_case(ctx, run, head + b)
        r = analyse_case(run, c)
        if r is None or r[0] != kind:
            return False
        if kind == "oracle" and skel is not None and skeleton(r[2]) != skel:
            return False
        return accept(c, r) if accept else True

    n = 2
    while len(body) >= 2 and time.time() - t0 < budget:
        chunk = max(1, len(body) // n)
        reduced = False
        for i in range(0, len(body), chunk):
            cand = body[:i] + body[i + chunk :]
            if cand and still(cand):
                body = cand
                n = max(n - 1, 2)
                reduced = True
                break
        if not reduced:
            if chunk == 1:
                break
            n = min(n * 2, len(body))
    return rerun_case(ctx, run, head + body, tag="shrunk")


# --------------------------------------------------------------------------------------------
# context, evidence, verdicts


class Ctx:
    def __init__(self, prop, tier, seed):
        self.prop, self.tier, self.seed = prop, tier, seed
        self.t0 = time.time()
        self.lines = []
        self.violations = []  # (replay_path, suffix)
        self.known_hits = {}
        self.cov = {}

    def log(self, msg):
        print(f"[{self.prop} {time.time()-self.t0:6.1f}s] {msg}", flush=True)

    def replay_path(self, tag):
        d = os.path.join(ROOT, "replays")
        os.makedirs(d, exist_ok=True)
        return os.path.join(d, f"{self.prop}_{tag}_{self.seed}.json")

    def violation(self, tag, payload, nofail=False):
        # one replay file per reported failure: a second failure of the same stream/kind gets a suffix
        n = sum(1 for q, _ in self.violations if os.path.basename(q).startswith(f"{self.prop}_{tag}_"))
        p = self.replay_path(tag if n == 0 else f"{tag}_{n + 1}")
        payload = dict(payload, property=self.prop, seed=self.seed, tier=self.tier)
        with open(p, "w") as f:
            json.dump(payload, f, indent=1)
        self.violations.append((p, nofail))


def load_known(prop):
    p = os.path.join(ROOT, "known_findings.json")
    if not os.path.exists(p):
        return []
    return [k for k in json.load(open(p)).get("findings", []) if k["property"] == prop or prop in k.get("also", [])]


def match_known(known, run, case, failure):
    """a failure is a listed finding iff the failing request and the oracle message match its pattern"""
    kind, idx, msg = failure
    op = case["ops"][idx] if idx < len(case["ops"]) else ""
    for k in known:
        if k.get("status") != "known":
            continue
        ms = k.get("match", {})
        for m in (ms if isinstance(ms, list) else [ms]):
            if m.get("engine") and m["engine"] != run.engine:
                continue
            if m.get("kind") and m["kind"] != kind:
                continue
            if m.get("op") and not re.match(m["op"], op):
                continue
            if m.get("msg") and not re.search(m["msg"], msg):
                continue
            if m.get("history") and not re.search(m["history"], "\n".join(case["ops"][: idx + 1])):
                continue
            return k
    return None


def write_evidence(ctx, level, coverage, assumptions):
    os.makedirs(os.path.join(ROOT, "evidence"), exist_ok=True)
    ev = {
        "property_id": ctx.prop,
        "tier": ctx.tier,
        "seed": ctx.seed,
        "level": level,
        "coverage": coverage,
        "assumptions": assumptions,
        "wall_s": round(time.time() - ctx.t0, 2),
        "violations": len(ctx.violations),
    }
    with open(os.path.join(ROOT, "evidence", f"{ctx.prop}.json"), "w") as f:
        json.dump(ev, f, indent=1)


def main(argv):
    import registry

    if not argv:
        print(__doc__)
        return 2
    prop = argv[0]
    tier = os.environ.get("VERIF_TIER", "quick")
    replay = None
    i = 1
    while i < len(argv):
        if argv[i] == "--tier":
            tier = argv[i + 1]
            i += 2
        elif argv[i] == "--replay":
            replay = argv[i + 1]
            i += 2
        else:
            i += 1
    seed = int(os.environ.get("VERIF_SEED", "1"))
    if prop not in registry.PROPS:
        print(f"unknown property {prop}")
        return 2
    ctx = Ctx(prop, tier, seed)
    try:
        return registry.run_property(ctx, registry.PROPS[prop], replay)
    except Machinery as e:
        ctx.log(f"MACHINERY-ERROR {e}")
        return 2
