#!/bin/bash
# usage: try_seed.sh <seed-name> <prop> [<prop>...] — apply /verif/seeded/<seed>/patch.diff to /repo, run the quick checks,
# undo, record the outcome in /verif/seeded/results.json (consumed by tools/mkmeta.py).
S=$1; shift
cd /repo && git apply /verif/seeded/$S/patch.diff || { echo "patch does not apply"; exit 2; }
for p in "$@"; do
  t0=$(date +%s)
  out=$(cd /verif && timeout 1500 ./check $p --tier quick 2>&1)
  rc=$?
  t1=$(date +%s)
  echo "== seed $S check $p rc=$rc ($((t1-t0)) s)"
  echo "$out" | grep -E "VIOLATION|KNOWN-FINDING|FAILURE|BROKEN|MACHINERY" | cut -c1-400 | head -6
  python3 - "$S" "$p" "$rc" "$((t1-t0))" <<PY
import json, os, sys
s, p, rc, secs = sys.argv[1], sys.argv[2], int(sys.argv[3]), int(sys.argv[4])
out = """$(echo "$out" | grep -E "VIOLATION|FAILURE|BROKEN" | cut -c1-300 | head -4 | sed 's/\\/\\\\/g; s/"""/'"'"''"'"''"'"'/g')"""
path = "/verif/seeded/results.json"
d = json.load(open(path)) if os.path.exists(path) else {}
d.setdefault(s, {})[p] = {"exit_code": rc, "caught": rc == 1, "seconds": secs, "first_lines": [l for l in out.splitlines() if l.strip()][:4]}
json.dump(d, open(path, "w"), indent=1)
PY
done
cd /repo && git checkout -- .
# the harness binary was built against the changed tree: rebuild it against the restored one
(cd /verif/harness && CARGO_NET_OFFLINE=true cargo build --release --offline >/dev/null 2>&1)
# … and the generated Lean inputs were extracted from the changed tree: regenerate them
python3 /verif/tools/extract.py >/dev/null 2>&1
