#!/bin/bash
# usage: try_seed.sh <seed-name> <prop> [<prop>...] — apply /verif/seeded/<seed>/patch.diff to /repo, run the quick checks, undo.
S=$1; shift
cd /repo && git apply /verif/seeded/$S/patch.diff || { echo "patch does not apply"; exit 2; }
for p in "$@"; do
  out=$(cd /verif && ./check $p --tier quick 2>&1)
  rc=$?
  echo "== seed $S check $p rc=$rc"
  echo "$out" | grep -E "VIOLATION|KNOWN-FINDING|FAILURE|BROKEN|MACHINERY" | cut -c1-400 | head -8
done
cd /repo && git checkout -- . 
