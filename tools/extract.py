#!/usr/bin/env python3
"""Source extractor: regenerates lean/AnyDB/Generated/*.lean from /repo's current working tree.

Deliberately dumb: regular expressions over the Rust text, failing loudly (exit 2) when an
anchor is not found.  Everything with control flow is hand-modelled and tied to the code by
the correspondence harness; this tool only carries constants, byte layouts and call orders,
so that the theorems which mention them are re-checked against what the code says *now*.
"""
import os, re, sys

REPO = os.environ.get("VERIF_REPO", "/repo")
OUT = os.path.join(os.path.dirname(os.path.abspath(__file__)), "..", "lean", "AnyDB", "Generated")


class Missing(Exception):
    pass


def src(rel):
    with open(os.path.join(REPO, rel), encoding="utf-8") as f:
        return f.read()


def find(pattern, text, what, flags=re.S):
    m = re.search(pattern, text, flags)
    if not m:
        raise Missing(f"anchor not found: {what} (/{pattern}/)")
    return m


def const_expr(text, name, what=None):
    m = find(r"const\s+" + re.escape(name) + r"\s*:\s*\w+\s*=\s*([^;]+);", text, what or name)
    return m.group(1).strip()


def eval_expr(e, env):
    e = re.sub(r"\b(\d+)_?(usize|u64|u32|u8|i64)\b", r"\1", e)
    e = e.replace("std::mem::size_of::<u64>()", "8")
    e = e.replace("_", "_")
    try:
        return int(eval(e, {"__builtins__": {}}, env))
    except Exception as ex:  # pragma: no cover
        raise Missing(f"cannot evaluate constant expression {e!r}: {ex}")


def body_of(text, header_regex, what):
    """Return the brace-balanced body of the first item whose header matches."""
    m = find(header_regex, text, what)
    i = text.index("{", m.end() - 1) if text[m.end() - 1] != "{" else m.end() - 1
    depth = 0
    for j in range(i, len(text)):
        if text[j] == "{":
            depth += 1
        elif text[j] == "}":
            depth -= 1
            if depth == 0:
                return text[i + 1 : j]
    raise Missing(f"unbalanced braces in {what}")


def strip_comments(t):
    t = re.sub(r"//[^\n]*", "", t)
    return t


def order_of(body, table, what):
    """Positions of the listed call patterns inside body, in textual order.
    table: list of (label, regex).  Every occurrence is reported."""
    hits = []
    b = strip_comments(body)
    for label, rx in table:
        for m in re.finditer(rx, b):
            hits.append((m.start(), label))
    hits.sort()
    return [h[1] for h in hits]


def lean_list_str(xs):
    return "[" + ", ".join('"' + x + '"' for x in xs) + "]"


def main():
    env = {}
    rawlib = src("crates/rawdb/src/lib.rs")
    meta = src("crates/rawdb/src/region_metadata.rs")
    regions = src("crates/rawdb/src/regions.rs")
    region = src("crates/rawdb/src/region.rs")
    state = src("crates/rawdb/src/region_state.rs")

    env["PAGE_SIZE"] = eval_expr(const_expr(rawlib, "PAGE_SIZE"), env)
    env["GiB"] = eval_expr(const_expr(rawlib, "GiB"), env)
    env["SIZE_OF_REGION_METADATA"] = eval_expr(const_expr(meta, "SIZE_OF_REGION_METADATA"), env)
    env["SIZE_OF_U64"] = eval_expr(const_expr(meta, "SIZE_OF_U64"), env)
    env["MAX_REGION_ID_LEN"] = eval_expr(const_expr(meta, "MAX_REGION_ID_LEN"), env)
    env["MAX_RESERVED_SIZE"] = eval_expr(const_expr(meta, "MAX_RESERVED_SIZE"), env)

    # set_min_len growth rule:  len.max(current_len * 2).max(1024 * 1024)
    m = find(r"len\.max\(current_len\s*\*\s*(\d+)\)\.max\(([^)]+)\)", rawlib, "set_min_len growth rule")
    grow_factor = int(m.group(1))
    grow_floor = eval_expr(m.group(2), env)

    st = {}
    for nm in ("IS_CLEAN", "NEEDS_FLUSH", "NEEDS_WRITE"):
        st[nm] = eval_expr(const_expr(state, nm), env)

    # RegionMetadata::from_bytes field slices
    fb = body_of(meta, r"pub fn from_bytes\(bytes: &\[u8\]\) -> Result<Self>\s*\{", "RegionMetadata::from_bytes")
    fields = []
    for nm in ("start", "len", "reserved", "id_len"):
        mm = find(r"let\s+" + nm + r"\s*=\s*u64::from_le_bytes\(bytes\[(\d+)\.\.(\d+)\]", fb, f"from_bytes field {nm}")
        fields.append((nm, int(mm.group(1)), int(mm.group(2)) - int(mm.group(1))))
    mm = find(r"bytes\[(\d+)\.\.(\d+)\s*\+\s*id_len\]", fb, "from_bytes id slice")
    id_off = int(mm.group(1))
    # to_bytes: order of the fields written sequentially
    tb = body_of(meta, r"fn to_bytes\(&self\) -> \[u8; SIZE_OF_REGION_METADATA\]\s*\{", "RegionMetadata::to_bytes")
    to_order = re.findall(r"copy_from_slice\(&\((?:self\.)?(\w+) as u64\)\.to_le_bytes\(\)\)", tb)
    if to_order != ["start", "len", "reserved", "id_len"]:
        raise Missing(f"to_bytes field order changed: {to_order}")
    # from_bytes validation guards, in textual order
    guards = order_of(
        fb,
        [
            ("sizeCheck", r"bytes\.len\(\)\s*!=\s*SIZE_OF_REGION_METADATA"),
            ("emptyCheck", r"start == 0 && len == 0 && reserved == 0 && id_len == 0"),
            ("idLenMax", r"id_len\s*>\s*MAX_REGION_ID_LEN"),
            ("idLenFits", r"32 \+ id_len\s*>\s*SIZE_OF_REGION_METADATA"),
            ("utf8", r"String::from_utf8"),
            ("startAligned", r"!start\.is_multiple_of\(PAGE_SIZE\)"),
            ("reservedMin", r"reserved\s*<\s*PAGE_SIZE"),
            ("reservedAligned", r"!reserved\.is_multiple_of\(PAGE_SIZE\)"),
            ("lenLeReserved", r"len\s*>\s*reserved"),
        ],
        "from_bytes guards",
    )

    # --- call orders -------------------------------------------------------------------------
    flush_body = body_of(rawlib, r"pub fn flush\(&self\) -> Result<usize>\s*\{", "Database::flush")
    # split at the early-return branch
    idx = flush_body.find("dirty_regions.is_empty()")
    if idx < 0:
        raise Missing("Database::flush: dirty_regions.is_empty() branch")
    early = body_of(flush_body[idx:], r"dirty_regions\.is_empty\(\)\s*\{", "Database::flush early branch")
    rest = flush_body[idx + len(early) :]
    flush_tbl = [
        ("dataFlushAsync", r"mmap\.flush_async_range\("),
        ("regionsFlushAsync", r"self\.regions\(\)\.flush\(\)"),
        ("dataSync", r"self\.file\(\)\.sync_data\(\)"),
        ("regionsSync", r"self\.regions\(\)\.sync_data\(\)"),
        ("markClean", r"mark_clean\(\)"),
        ("promote", r"promote_pending_holes\("),
    ]
    flush_early_order = order_of(early, flush_tbl, "flush early")
    flush_order = order_of(rest, flush_tbl, "flush main")

    rflush_body = body_of(region, r"pub fn flush\(&self\) -> Result<bool>\s*\{", "Region::flush")
    rflush_order = order_of(
        rflush_body,
        [
            ("takeDirty", r"take_dirty_bounds\(\)"),
            ("dataFlushAsync", r"mmap\.flush_async_range\("),
            ("metaFlush", r"meta\.flush\("),
            ("dataSync", r"db\.file\(\)\.sync_data\(\)"),
            ("regionsSync", r"regions\.sync_data\(\)"),
        ],
        "Region::flush",
    )

    open_body = body_of(rawlib, r"pub fn open_with_min_len\(path: &Path, min_len: usize\) -> Result<Self>\s*\{", "open_with_min_len")
    open_tbl = [
        ("createDirAll", r"fs::create_dir_all\("),
        ("openCreate", r"\.create\(true\)"),
        ("openTruncateFalse", r"\.truncate\(false\)"),
        ("openTruncateTrue", r"\.truncate\(true\)"),
        ("tryLock", r"\.try_lock\(\)"),
        ("setLen", r"\.set_len\("),
        ("syncAll", r"\.sync_all\(\)"),
        ("regionsOpen", r"Regions::open\("),
        ("createMmap", r"create_mmap\("),
        ("fill", r"\.fill\("),
        ("layoutFrom", r"Layout::from\("),
    ]
    open_order = order_of(open_body, open_tbl, "open_with_min_len")
    ropen_body = body_of(regions, r"pub fn open\(parent: &Path\) -> Result<Self>\s*\{", "Regions::open")
    ropen_order = order_of(ropen_body, open_tbl, "Regions::open")

    compact_body = body_of(rawlib, r"pub fn compact\(&self\) -> Result<\(\)>\s*\{", "Database::compact")
    compact_order = order_of(compact_body, [("flush", r"self\.flush\(\)"), ("punchHoles", r"self\.punch_holes\(\)")], "compact")

    # validation-before-mutation orders (C13)
    trunc_body = body_of(region, r"pub fn truncate\(&self, from: usize\) -> Result<\(\)>\s*\{", "Region::truncate")
    trunc_order = order_of(
        trunc_body,
        [("checkEq", r"from == len"), ("checkGt", r"from > len"), ("errTruncateInvalid", r"Error::TruncateInvalid"),
         ("setLen", r"meta\.set_len\("), ("writeIfDirty", r"write_if_dirty\(")],
        "truncate",
    )
    ww_body = body_of(region, r"fn write_with\(&self, data: &\[u8\], at: Option<usize>, truncate: bool\) -> Result<\(\)>\s*\{", "write_with")
    ww_order = order_of(
        ww_body,
        [("checkAtGtLen", r"at_val > len"), ("errWriteOutOfBounds", r"Error::WriteOutOfBounds"),
         ("dbWrite", r"db\.write\("), ("setLen", r"meta\.set_len\("), ("setReserved", r"meta\.set_reserved\("),
         ("layoutMut", r"db\.layout_mut\(\)"), ("dbCopy", r"db\.copy\(")],
        "write_with",
    )
    rename_body = body_of(regions, r"pub\(crate\) fn rename\(&mut self, old_id: &str, new_id: &str\) -> Result<\(\)>\s*\{", "Regions::rename")
    rename_order = order_of(
        rename_body,
        [("lookupOld", r"\.get\(old_id\)"), ("errNotFound", r"Error::RegionNotFound"),
         ("checkNew", r"contains_key\(new_id\)"), ("errExists", r"Error::RegionAlreadyExists"),
         ("removeOld", r"id_to_index\.remove\(old_id\)"), ("insertNew", r"id_to_index\.insert\(new_id")],
        "Regions::rename",
    )
    rremove_body = body_of(region, r"pub fn remove\(self\) -> Result<\(\)>\s*\{", "Region::remove")
    rremove_order = order_of(
        rremove_body,
        [("layoutRemoveRegion", r"layout\.remove_region\("), ("regionsRemove", r"regions\.remove\(")],
        "Region::remove",
    )
    regsremove_body = body_of(regions, r"pub\(crate\) fn remove\(&mut self, region: &Region\) -> Result<\(\)>\s*\{", "Regions::remove")
    regsremove_order = order_of(
        regsremove_body,
        [("checkRefCount", r"ref_count > 2"), ("errStillReferenced", r"Error::RegionStillReferenced"),
         ("takeSlot", r"Option::take"), ("removeId", r"id_to_index\.remove\("), ("zeroSlot", r"self\.write_at\(")],
        "Regions::remove",
    )
    lock_comment = re.findall(r"Lock order:\s*([^\n]+)", region)

    os.makedirs(OUT, exist_ok=True)
    consts = f"""/- GENERATED by tools/extract.py from {REPO} — do not edit. -/
namespace AnyDB.Gen

def PAGE_SIZE : Nat := {env['PAGE_SIZE']}
def GiB : Nat := {env['GiB']}
def SIZE_OF_REGION_METADATA : Nat := {env['SIZE_OF_REGION_METADATA']}
def SIZE_OF_U64 : Nat := {env['SIZE_OF_U64']}
def MAX_REGION_ID_LEN : Nat := {env['MAX_REGION_ID_LEN']}
def MAX_RESERVED_SIZE : Nat := {env['MAX_RESERVED_SIZE']}
def GROW_FACTOR : Nat := {grow_factor}
def GROW_FLOOR : Nat := {grow_floor}
def STATE_IS_CLEAN : Nat := {st['IS_CLEAN']}
def STATE_NEEDS_FLUSH : Nat := {st['NEEDS_FLUSH']}
def STATE_NEEDS_WRITE : Nat := {st['NEEDS_WRITE']}

/-- `(field, offset, width)` of the fixed part of a region-metadata slot (`from_bytes`). -/
def metaFields : List (String × Nat × Nat) :=
  [{", ".join(f'("{n}", {o}, {w})' for n, o, w in fields)}]
def metaIdOffset : Nat := {id_off}
/-- validation guards of `RegionMetadata::from_bytes`, in textual order -/
def metaGuards : List String := {lean_list_str(guards)}

end AnyDB.Gen
"""
    orders = f"""/- GENERATED by tools/extract.py from {REPO} — do not edit. -/
namespace AnyDB.Gen

/-- durability-relevant calls of `Database::flush`, main path, in textual order -/
def flushOrder : List String := {lean_list_str(flush_order)}
/-- the same for the early-return branch (no dirty region) -/
def flushEarlyOrder : List String := {lean_list_str(flush_early_order)}
def regionFlushOrder : List String := {lean_list_str(rflush_order)}
def compactOrder : List String := {lean_list_str(compact_order)}
def openOrder : List String := {lean_list_str(open_order)}
def regionsOpenOrder : List String := {lean_list_str(ropen_order)}
def truncateOrder : List String := {lean_list_str(trunc_order)}
def writeWithOrder : List String := {lean_list_str(ww_order)}
def regionsRenameOrder : List String := {lean_list_str(rename_order)}
def regionRemoveOrder : List String := {lean_list_str(rremove_order)}
def regionsRemoveOrder : List String := {lean_list_str(regsremove_order)}
def lockOrderComments : List String := {lean_list_str([c.strip().replace('"', "'") for c in lock_comment])}

end AnyDB.Gen
"""
    changed = []
    for name, text in (("Consts.lean", consts), ("Orders.lean", orders)):
        p = os.path.join(OUT, name)
        old = open(p).read() if os.path.exists(p) else None
        if old != text:
            with open(p, "w") as f:
                f.write(text)
            changed.append(name)
    # vecdb part is generated by extract_vec (same file, below) once those anchors exist
    import extract_vec  # type: ignore

    try:
        changed += extract_vec.generate(REPO, OUT)
    except extract_vec.Missing as e:
        raise Missing(str(e))
    import extract_conc  # type: ignore

    try:
        changed += extract_conc.generate(REPO, OUT)
    except extract_conc.Missing as e:
        raise Missing(str(e))
    print("extract: ok" + (f" (updated {', '.join(changed)})" if changed else " (unchanged)"))


if __name__ == "__main__":
    sys.path.insert(0, os.path.dirname(os.path.abspath(__file__)))
    try:
        main()
    except Missing as e:
        print(f"extract: ANCHOR-MISSING {e}")
        sys.exit(3)
