#!/bin/bash
# usage: confirm_seed.sh <Cxx> [name]   — confirm a seeded change delivered in /tmp/mut/<Cxx>_out using the scratch worktree /tmp/mut/<Cxx>
# checks: patch applies; whole suite passes with it; demo fails with it; demo passes without it.  Result → /verif/seeded/<name>/
set -u
P=$1; NAME=${2:-$P}; MUT=${MUT:-/tmp/mut}; WT=$MUT/$P; OUT=$MUT/${P}_out; DST=/verif/seeded/$NAME
export CARGO_NET_OFFLINE=true CARGO_TARGET_DIR=$WT/target
cd $WT || exit 2
git checkout -q -- . ; git clean -fdq crates
DEMO=$(ls $OUT/*.rs | head -1)
CRATE=$(grep -ho "crates/[a-z_]*/tests" $OUT/notes.md | head -1); CRATE=${CRATE:-crates/vecdb/tests}
PKG=$(echo $CRATE | cut -d/ -f2)
FEAT="--features verif_hooks"; [ "$PKG" = "vecdb" ] && FEAT="--features pco,lz4,zstd,zerocopy,derive,verif_hooks"
cp $DEMO $CRATE/seeded_demo.rs
git apply --check $OUT/patch.diff || { echo "PATCH-DOES-NOT-APPLY"; exit 1; }
# without the change: demo passes
cargo test -p $PKG $FEAT --test seeded_demo --offline > $OUT/demo_without.log 2>&1; W=$?
git apply $OUT/patch.diff
cargo test -p $PKG $FEAT --test seeded_demo --offline > $OUT/demo_with.log 2>&1; D=$?
rm $CRATE/seeded_demo.rs
cargo test --workspace --no-fail-fast --offline > $OUT/suite_with.log 2>&1; S=$?
if [ $S -ne 0 ]; then
  # the timing-sensitive stress test fails spuriously under load: accept if it is the only failure and passes alone
  NF=$(grep -c "^test [^ ]* \.\.\. FAILED" $OUT/suite_with.log)
  if [ "$NF" = "1" ] && grep -q "test_length_data_consistency_stress ... FAILED" $OUT/suite_with.log; then
    cargo test -p vecdb --test concurrent_rw --offline > $OUT/suite_retry.log 2>&1 && S=0
  fi
fi
NPASS=$(grep -h "^test result" $OUT/suite_with.log | awk '{s+=$4} END{print s}')
git checkout -q -- . ; git clean -fdq crates
echo "demo_without_rc=$W demo_with_rc=$D suite_with_rc=$S suite_passed=$NPASS"
if [ $W -eq 0 ] && [ $D -ne 0 ] && [ $S -eq 0 ]; then
  mkdir -p $DST; cp $OUT/patch.diff $DST/; cp $DEMO $DST/; cp $OUT/notes.md $DST/notes.md
  echo "CONFIRMED $NAME"
else
  echo "NOT-CONFIRMED $NAME"
fi
