#!/bin/bash
# runs the thorough tier of every property sequentially; summary in .cache/thorough_summary.txt
: > /verif/.cache/thorough_summary.txt
for p in ${@:-C14 C19 C11 C17 C18 C15 C09 C10 C06 C13 C16 C08 C12 C03 C20 C07 C04 C01 C02 C05}; do
  t0=$(date +%s)
  timeout 7200 /verif/check $p --tier thorough > /verif/.cache/thorough_$p.log 2>&1
  rc=$?
  echo "$p rc=$rc $(( $(date +%s) - t0 ))s $(grep -c '^VIOLATION' /verif/.cache/thorough_$p.log) violations; $(tail -1 /verif/.cache/thorough_$p.log | cut -c1-140)" >> /verif/.cache/thorough_summary.txt
done
echo THOROUGH-DONE >> /verif/.cache/thorough_summary.txt
