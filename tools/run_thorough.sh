#!/bin/bash
# runs the thorough tier of every property sequentially; summary in .cache/thorough_summary.txt
: > /verif/.cache/thorough_summary.txt
for p in C11 C14 C17 C18 C19 C09 C10 C06 C15 C01 C02 C05 C12 C03 C04 C07 C08 C13 C16 C20; do
  t0=$(date +%s)
  timeout 7200 /verif/check $p --tier thorough > /verif/.cache/thorough_$p.log 2>&1
  rc=$?
  echo "$p rc=$rc $(( $(date +%s) - t0 ))s $(grep -c '^VIOLATION' /verif/.cache/thorough_$p.log) violations; $(tail -1 /verif/.cache/thorough_$p.log | cut -c1-140)" >> /verif/.cache/thorough_summary.txt
done
echo THOROUGH-DONE >> /verif/.cache/thorough_summary.txt
