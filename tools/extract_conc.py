"""Call orders of the concurrent paths (C09, C10) → lean/AnyDB/Generated/ConcOrders.lean"""
import os, re


class Missing(Exception):
    pass


def _strip(t):
    return re.sub(r"//[^\n]*", "", t)


def _body_at(text, start_idx, what):
    """brace-balanced body starting at the first `{` at or after start_idx; returns (body, end_index)"""
    i = text.find("{", start_idx)
    if i < 0:
        raise Missing(f"no body for {what}")
    depth = 0
    for j in range(i, len(text)):
        if text[j] == "{":
            depth += 1
        elif text[j] == "}":
            depth -= 1
            if depth == 0:
                return text[i + 1 : j], j + 1
    raise Missing(f"unbalanced braces in {what}")


def _find(rx, text, what):
    m = re.search(rx, text, re.S)
    if not m:
        raise Missing(f"anchor not found: {what} (/{rx}/)")
    return m


def _order(body, table, what, dedupe=False):
    hits = []
    for label, rx in table:
        for m in re.finditer(rx, body):
            hits.append((m.start(), label))
    hits.sort()
    out = [l for _, l in hits]
    if dedupe:
        out = [l for i, l in enumerate(out) if i == 0 or out[i - 1] != l]
    if not out:
        raise Missing(f"no call of the table found in {what}")
    return out


WW = [
    ("dbWrite", r"db\.write\("), ("dbCopy", r"db\.copy\("), ("setLen", r"meta\.set_len\("), ("setReserved", r"meta\.set_reserved\("),
    ("setStart", r"meta\.set_start\("), ("dropLayout", r"drop\(layout\)"), ("layoutMut", r"db\.layout_mut\(\)"),
    ("setMinLen", r"db\.set_min_len\("), ("reserve", r"layout\.reserve\("), ("takeReserved", r"layout\.take_reserved\("),
    ("moveRegion", r"layout\.move_region\("), ("removeOrCompressHole", r"layout\.remove_or_compress_hole\("),
    ("findHole", r"find_smallest_adequate_hole\("), ("layoutLen", r"layout\.len\(\)"),
]


def generate(repo, out):
    def src(rel):
        return _strip(open(os.path.join(repo, rel), encoding="utf-8").read())

    region = src("crates/rawdb/src/region.rs")
    rawlib = src("crates/rawdb/src/lib.rs")
    reader = src("crates/rawdb/src/reader.rs")
    rawvec = src("crates/vecdb/src/variants/raw/inner/read_write/any_stored_vec.rs")
    compvec = src("crates/vecdb/src/variants/compressed/inner/read_write/any_stored_vec.rs")
    ro_raw = src("crates/vecdb/src/variants/raw/inner/read_only/readable.rs")
    ro_comp = src("crates/vecdb/src/variants/compressed/inner/read_only/readable.rs")
    vreader = src("crates/vecdb/src/variants/raw/sources/reader.rs")

    # ---- Region::write_with, path by path ---------------------------------------------------------
    m = _find(r"fn write_with\(&self, data: &\[u8\], at: Option<usize>, truncate: bool\) -> Result<\(\)>\s*\{", region, "write_with")
    ww, _ = _body_at(region, m.end() - 1, "write_with")
    m = _find(r"if new_len <= reserved\s*\{", ww, "write_with: fits branch")
    fits, _ = _body_at(ww, m.end() - 1, "fits branch")
    m = _find(r"if layout\.is_last_anything\(self\)\s*\{", ww, "write_with: extend-last branch")
    ext, _ = _body_at(ww, m.end() - 1, "extend-last branch")
    m = _find(r"if layout\s*\.get_hole\(hole_start\)\s*\.is_some_and\([^)]*\)\s*\{", ww, "write_with: adjacent-hole branch")
    hole, hole_end = _body_at(ww, m.end() - 1, "adjacent-hole branch")
    reloc = ww[hole_end:]
    ww_fits = _order(fits, WW, "fits")
    ww_ext = _order(ext, WW, "extend-last")
    ww_hole = _order(hole, WW, "adjacent-hole")
    ww_reloc = _order(reloc, WW, "relocate")

    # ---- Reader::new: start/len snapshot under the metadata lock, then the mapping guard ---------------
    m = _find(r"pub\(crate\) fn new\(region: &Region\) -> Self\s*\{", reader, "Reader::new")
    rnew, _ = _body_at(reader, m.end() - 1, "Reader::new")
    reader_new = _order(rnew, [("meta", r"region\.meta\(\)"), ("start", r"meta\.start\(\)"), ("len", r"meta\.len\(\)"),
                               ("dropMeta", r"drop\(meta\)"), ("mmap", r"db\.mmap\(\)")], "Reader::new")

    # ---- create_region_if_needed ----------------------------------------------------------------------
    m = _find(r"pub fn create_region_if_needed\(&self, id: &str\) -> Result<Region>\s*\{", rawlib, "create_region_if_needed")
    cr, _ = _body_at(rawlib, m.end() - 1, "create_region_if_needed")
    create = _order(cr, [("layoutRead", r"self\.layout\(\)"), ("findHole", r"find_smallest_adequate_hole\("), ("layoutLen", r"layout\.len\(\)"),
                         ("dropLayout", r"drop\(layout\)"), ("setMinLen", r"self\.set_min_len\("), ("fileLen", r"self\.file_len\(\)"), ("layoutMut", r"self\.layout_mut\(\)"),
                         ("regionsMut", r"self\.regions_mut\(\)"), ("removeOrCompressHole", r"remove_or_compress_hole\("),
                         ("regionsCreate", r"regions\.create\("), ("insertRegion", r"layout\.insert_region\("), ("retry", r"self\.create_region_if_needed\(id\)")], "create_region_if_needed")

    # ---- raw vec write(): the append block -----------------------------------------------------------
    m = _find(r"fn write\(&mut self\) -> Result<bool>\s*\{", rawvec, "raw write()")
    rw, _ = _body_at(rawvec, m.end() - 1, "raw write()")
    m = _find(r"if has_new_data\s*\{", rw, "raw write(): has_new_data block")
    app, _ = _body_at(rw, m.end() - 1, "has_new_data block")
    VT = [("truncateWrite", r"truncate_write\("), ("updateStoredLen", r"update_stored_len\("), ("pause", r"verif::pause\(")]
    raw_append = _order(app, [t for t in VT if t[0] != "pause"], "raw append block", dedupe=True)

    # ---- compressed write(): fast path and slow path ---------------------------------------------------
    m = _find(r"fn write\(&mut self\) -> Result<bool>\s*\{", compvec, "compressed write()")
    cw, _ = _body_at(compvec, m.end() - 1, "compressed write()")
    CT = [("truncateWrite", r"truncate_write\("), ("pagesWrite", r"self\.pages\.write\(\)"), ("pagesTruncate", r"pages\.truncate\("),
          ("pagesPush", r"pages\.checked_push\("), ("updateStoredLen", r"update_stored_len\("), ("pagesFlush", r"pages\.flush\(\)")]
    m = _find(r"&& partial_len \+ pushed_len < Self::PER_PAGE\s*\{", cw, "compressed write(): fast path")
    fast, fast_end = _body_at(cw, m.end() - 1, "fast path")
    comp_fast = _order(fast, CT, "compressed fast path", dedupe=True)
    comp_slow = _order(cw[fast_end:], CT, "compressed slow path", dedupe=True)

    # ---- readers: the shared length is loaded before the rawdb Reader / the index lock ------------------
    RT = [("loadLen", r"self\.base\.len\(\)"), ("createReader", r"create_reader\(\)"), ("pagesRead", r"self\.pages\.read\(\)")]
    m = _find(r"fn collect_one_at\(&self, index: usize\) -> Option<T>\s*\{", ro_raw, "ReadOnlyRawVec::collect_one_at")
    b, _ = _body_at(ro_raw, m.end() - 1, "ReadOnlyRawVec::collect_one_at")
    ro_raw_one = _order(b, RT, "ReadOnlyRawVec::collect_one_at")
    m = _find(r"fn read_into_at\(&self, from: usize, to: usize, buf: &mut Vec<T>\)\s*\{", ro_raw, "ReadOnlyRawVec::read_into_at")
    b, _ = _body_at(ro_raw, m.end() - 1, "ReadOnlyRawVec::read_into_at")
    ro_raw_into = _order(b, RT, "ReadOnlyRawVec::read_into_at")
    m = _find(r"fn read_into_at\(&self, from: usize, to: usize, buf: &mut Vec<T>\)\s*\{", ro_comp, "ReadOnlyCompressedVec::read_into_at")
    b, _ = _body_at(ro_comp, m.end() - 1, "ReadOnlyCompressedVec::read_into_at")
    ro_comp_into = _order(b, RT, "ReadOnlyCompressedVec::read_into_at")
    # VecReader: the length is a parameter (loaded by the caller before the Reader exists)
    m = _find(r"pub\(crate\) fn from_region\(region: &Region, stored_len: usize\) -> Self\s*\{", vreader, "VecReader::from_region(region, stored_len)")
    b, _ = _body_at(vreader, m.end() - 1, "VecReader::from_region")
    vreader_order = ["lenParam"] + _order(b, [("createReader", r"create_reader\(\)")], "VecReader::from_region")
    for fn in ("from_read_write", "from_read_only"):
        _find(r"fn " + fn + r"\([^)]*\) -> Self\s*where\s*I: VecIndex,\s*\{\s*Self::from_region\(vec\.region\(\), vec\.stored_len\(\)\)", vreader, f"VecReader::{fn} passes stored_len() to from_region")

    def ls(xs):
        return "[" + ", ".join('"' + x + '"' for x in xs) + "]"

    text = f"""/- GENERATED by tools/extract.py (extract_conc) from {repo} — do not edit. -/
namespace AnyDB.Gen

/-- `Region::write_with`, path by path: calls in textual order (`dropLayout` = the layout write lock is released) -/
def wwFitsOrder : List String := {ls(ww_fits)}
def wwExtendLastOrder : List String := {ls(ww_ext)}
def wwHoleOrder : List String := {ls(ww_hole)}
def wwRelocateOrder : List String := {ls(ww_reloc)}
/-- `Reader::new`: start and length under ONE metadata read guard, then the mapping guard -/
def readerNewOrder : List String := {ls(reader_new)}
def createRegionOrder : List String := {ls(create)}
/-- raw `write()`, the append block (both serialisation branches write, then the length is published) -/
def rawVecAppendOrder : List String := {ls(raw_append)}
/-- compressed `write()`: fast path (raw tail page extended) and slow path -/
def compWriteFastOrder : List String := {ls(comp_fast)}
def compWriteSlowOrder : List String := {ls(comp_slow)}
/-- readers: where the shared length is loaded relative to the rawdb Reader and the index lock -/
def roRawOneOrder : List String := {ls(ro_raw_one)}
def roRawIntoOrder : List String := {ls(ro_raw_into)}
def roCompIntoOrder : List String := {ls(ro_comp_into)}
def vecReaderOrder : List String := {ls(vreader_order)}

end AnyDB.Gen
"""
    p = os.path.join(out, "ConcOrders.lean")
    old = open(p).read() if os.path.exists(p) else None
    if old != text:
        with open(p, "w") as f:
            f.write(text)
        return ["ConcOrders.lean"]
    return []


if __name__ == "__main__":
    import sys
    print(generate(sys.argv[1] if len(sys.argv) > 1 else "/repo", sys.argv[2] if len(sys.argv) > 2 else "/verif/lean/AnyDB/Generated"))
