#!/usr/bin/env python3
"""Regenerates /verif/MANIFEST.json from tools/registry.py (single source of truth)."""
import json, os, subprocess, sys

sys.path.insert(0, os.path.dirname(os.path.abspath(__file__)))
import registry

ROOT = os.path.dirname(os.path.dirname(os.path.abspath(__file__)))
all_ids = [json.loads(l)["id"] for l in open(os.path.join(ROOT, "properties.jsonl")) if l.strip()]

hook_commits = subprocess.run(["git", "-C", "/repo", "log", "--format=%h %s", "--grep=^verif:"], capture_output=True, text=True).stdout.strip().splitlines()

checks = []
for pid in all_ids:
    cfg = registry.PROPS.get(pid)
    if not cfg:
        continue
    checks.append({
        "property_id": pid,
        "quick_cmd": f"./check {pid} --tier quick",
        "thorough_cmd": f"./check {pid} --tier thorough",
        "evidence_file": f"evidence/{pid}.json",
        "replay_cmd_template": f"./check {pid} --replay {{path}}",
        "engine": cfg.get("engine", cfg["runs"][0].engine if cfg.get("runs") else "lean"),
        "level_claimed": {"category": "proof", "text": cfg["level_text"], "design_ref": cfg.get("design_ref", "DESIGN.md §9 " + pid)},
        "level_note": cfg["level_note"],
        "technique": cfg.get("technique", "Lean 4 theorems over a hand-written executable model + lock-step correspondence (differential run of the real crates against the compiled model)"),
    })
na = [{"property_id": pid, "reason": registry.NOT_CLAIMED.get(pid, "no check registered yet")} for pid in all_ids if pid not in registry.PROPS]

manifest = {
    "version": 1,
    "setup_cmd": "./setup.sh",
    "hooks": {
        "guard": "cargo feature verif_hooks (crates rawdb and vecdb; vecdb/verif_hooks enables rawdb/verif_hooks)",
        "enable": "the harness crate depends on /repo/crates/{rawdb,vecdb} by path with features = [\"verif_hooks\"]; ./check rebuilds it against /repo's working tree on every run",
        "baseline_off_cmd": "cd /repo && cargo test --workspace --no-fail-fast --offline",
        "source_commits": [c.split()[0] for c in hook_commits],
        "add_only": True,
    },
    "engines": registry.ENGINES,
    "checks": checks,
    "not_applicable": na,
    "notes": "Technique family: machine-checked proof in Lean 4 over executable models, tied to /repo by a correspondence run and a source extractor on every check. See DESIGN.md. Genuine defects: known_findings.json.",
}
with open(os.path.join(ROOT, "MANIFEST.json"), "w") as f:
    json.dump(manifest, f, indent=1)
print(f"MANIFEST.json: {len(checks)} checks, {len(na)} not claimed")
