#!/bin/bash
# runs every seed against its own property's check (sequentially: they share /repo)
for s in "$@"; do
  p=${s%%_*}
  /verif/tools/try_seed.sh $s $p
done
echo BATCH-DONE
