import AnyDB.Generated.Consts

/-!
# M3 — durability semantics of one file (the OS contract of DESIGN.md §7; no Rust counterpart)

A file is seen through a shared mapping.  Stores dirty whole pages; `fdatasync` makes everything
stored so far durable; length changes are durable in order; a crash keeps, for every page dirtied
since the last sync, ANY content (the adversary is stronger than "any version the page had"),
and for every other page exactly its content as of the last sync.
Core Lean only.
-/
namespace AnyDB.Durable
open Gen

inductive Ev
  | write (off : Nat) (data : List UInt8)
  | setLen (n : Nat)
  | sync
  | punch (off len : Nat)
  | flushAsync
deriving Repr

structure FileD where
  durable : List UInt8      -- contents as of the last sync (zero-extended by later length changes)
  dirty : List Nat          -- pages stored to since the last sync
  volatile : List UInt8     -- what the mapping shows now

def pagesOf (off len : Nat) : List Nat :=
  if len = 0 then [] else (List.range ((off + len - 1) / PAGE_SIZE + 1 - off / PAGE_SIZE)).map (· + off / PAGE_SIZE)

/-- a store through the mapping: bytes inside the file are replaced, nothing moves -/
def writeList (l : List UInt8) (off : Nat) (d : List UInt8) : List UInt8 :=
  l.mapIdx (fun i x => if off ≤ i ∧ i < off + d.length then d.getD (i - off) x else x)

def resize (l : List UInt8) (n : Nat) : List UInt8 := l.take n ++ List.replicate (n - l.length) 0

def FileD.apply (f : FileD) : Ev → FileD
  | .write off d => { f with volatile := writeList f.volatile off d, dirty := f.dirty ++ pagesOf off d.length }
  | .setLen n => { f with durable := resize f.durable n, volatile := resize f.volatile n }
  | .sync => { durable := f.volatile, dirty := [], volatile := f.volatile }
  | .punch off len => { f with volatile := writeList f.volatile off (List.replicate len 0), dirty := f.dirty ++ pagesOf off len }
  | .flushAsync => f

def FileD.run (f : FileD) (evs : List Ev) : FileD := evs.foldl FileD.apply f

/-- `img` is a possible content of the file after a crash -/
def CrashImage (f : FileD) (img : List UInt8) : Prop :=
  img.length = f.durable.length ∧ ∀ i, i / PAGE_SIZE ∉ f.dirty → img[i]? = f.durable[i]?

/-- an event stores nothing into the pages of `[a, b)` -/
def Ev.avoids (a b : Nat) : Ev → Prop
  | .write off d => ∀ p ∈ pagesOf off d.length, p < a / PAGE_SIZE ∨ (b + PAGE_SIZE - 1) / PAGE_SIZE ≤ p
  | .punch off len => ∀ p ∈ pagesOf off len, p < a / PAGE_SIZE ∨ (b + PAGE_SIZE - 1) / PAGE_SIZE ≤ p
  | .setLen n => b ≤ n          -- the file only grows (or at least keeps the range)
  | _ => True

end AnyDB.Durable
