import AnyDB.Generated.Consts
import AnyDB.Model.Mem

/-!
# M2 — rawdb: regions, layout (allocator), metadata state machine, flush / compact / reopen

A branch-for-branch transliteration of
`rawdb/src/{lib,region,regions,layout,region_metadata,region_state}.rs` as pure functions
`Db → … → Db × Out`.  `&mut`/interior mutability becomes state-in/state-out.

Representation choices (see DESIGN.md §3):
* `BTreeMap<usize, _>` whose *iteration order* matters (`pending_holes`) → list kept sorted by key;
  maps only ever searched (`start_to_region`, `start_to_reserved`) → association lists;
* the pair `start_to_hole` / `hole_to_starts` → ONE list of `(start,size)` in insertion order;
  best fit = smallest adequate size, first inserted among equals (what `range(min..).next()` on
  the size map followed by `SmallVec::first()` computes);
* `id_to_index` is a derived view of the slot table (they are updated together under one lock);
* the `regions` file is a list of slot images, each `some meta` (= `to_bytes meta`, a valid
  encoding by C17) or `none` (zeros / invalid);
* every durability-relevant effect is appended to `log` (consumed by C05/C12, ignored elsewhere).

Not modelled (asserted unreachable under the C02 invariant, checked by the correspondence):
the alignment assertions of `RegionMetadata::{new,set_start,set_reserved}` other than the
`MAX_RESERVED_SIZE` one, `insert_region`'s duplicate assertion, `Layout::reserve`'s `unreachable!`.
-/
namespace AnyDB
open Gen

/-- region names are UTF-8 byte strings (kept as bytes so that statements about concrete
    histories reduce in the kernel) -/
abbrev RegionId := List UInt8

structure Meta where
  start : Nat
  len : Nat
  reserved : Nat
  id : RegionId
deriving DecidableEq, Repr, Inhabited

inductive MState | clean | needsFlush | needsWrite
deriving DecidableEq, Repr, Inhabited

/-- `(usize::MAX, 0)` is the clean value of `dirty_bounds` -/
def USIZE_MAX : Nat := 2 ^ 64 - 1

structure Slot where
  md : Meta
  st : MState
  dmin : Nat
  dmax : Nat
deriving DecidableEq, Repr, Inhabited

inductive FileId | data | regions
deriving DecidableEq, Repr, Inhabited

inductive Event
  | dataWrite (off : Nat) (bytes : List UInt8)
  | metaWrite (idx : Nat) (m : Option Meta)
  | setLen (f : FileId) (n : Nat)
  | flushAsync (f : FileId) (off len : Nat)
  | flushAsyncAll (f : FileId)
  | sync (f : FileId)
  | punch (off len : Nat)
deriving DecidableEq, Repr, Inhabited

inductive ErrKind
  | writeOutOfBounds | truncateInvalid | regionAlreadyExists | regionNotFound
  | regionStillReferenced | regionIndexMismatch | regionMetadataUnwritten
  | regionSizeOverflow | holeTooSmall | overlappingCopyRanges | invariantViolation
  | noSuchRegion   -- harness-level: the request names a region that does not exist (nothing is called)
deriving DecidableEq, Repr, Inhabited

inductive Out
  | ok
  | okN (n : Nat)
  | err (k : ErrKind)
  | panic (site : String)
deriving DecidableEq, Repr, Inhabited

structure Db where
  fileLen : Nat                       -- cached_file_len (= length of the data file)
  mem : Mem                           -- the data mmap
  slots : List (Option Slot)          -- Regions::index_to_region
  rfile : List (Option Meta)          -- the `regions` file, one image per 4096-byte slot
  regions : List (Nat × Nat)          -- Layout::start_to_region   start ↦ slot index
  holes : List (Nat × Nat)            -- Layout::start_to_hole + hole_to_starts (insertion order)
  reserved : List (Nat × Nat)         -- Layout::start_to_reserved
  pending : List (Nat × Nat)          -- Layout::pending_holes, sorted by start
  log : List Event

def ceilPage (n : Nat) : Nat := (n + (PAGE_SIZE - 1)) / PAGE_SIZE * PAGE_SIZE

/-! ## association-list helpers -/

def alGet (l : List (Nat × Nat)) (k : Nat) : Option Nat := (l.find? (·.1 == k)).map (·.2)
def alErase (l : List (Nat × Nat)) (k : Nat) : List (Nat × Nat) := l.filter (·.1 != k)

/-- `BTreeMap::insert` into a list sorted by key (replaces an existing key) -/
def sortedInsert : List (Nat × Nat) → Nat → Nat → List (Nat × Nat)
  | [], k, v => [(k, v)]
  | (a, b) :: t, k, v =>
    if k < a then (k, v) :: (a, b) :: t
    else if k = a then (k, v) :: t
    else (a, b) :: sortedInsert t k v

/-- entry with the greatest key (`last_key_value`) -/
def lastOf : List (Nat × Nat) → Option (Nat × Nat)
  | [] => none
  | x :: t =>
    match lastOf t with
    | none => some x
    | some y => if y.1 > x.1 then some y else some x

/-! ## Layout -/

/-- `find_smallest_adequate_hole`: least size ≥ `need`; among equal sizes the first inserted -/
def bestFitStep (need : Nat) (acc : Option (Nat × Nat)) (h : Nat × Nat) : Option (Nat × Nat) :=
  if h.2 < need then acc
  else match acc with
    | none => some h
    | some b => if h.2 < b.2 then some h else some b

def bestFit (holes : List (Nat × Nat)) (need : Nat) : Option Nat :=
  (holes.foldl (bestFitStep need) none).map (·.1)

/-- `remove_or_compress_hole` on the hole list -/
def removeOrCompress (holes : List (Nat × Nat)) (start by_ : Nat) : Except ErrKind (List (Nat × Nat)) :=
  match alGet holes start with
  | none => .ok holes
  | some size =>
    let holes' := alErase holes start
    if size = by_ then .ok holes'
    else if size > by_ then .ok (holes' ++ [(start + by_, size - by_)])
    else .error .holeTooSmall

/-- hole with the greatest start strictly below `s` (`range(..s).next_back()`) -/
def prevHole : List (Nat × Nat) → Nat → Option (Nat × Nat)
  | [], _ => none
  | h :: t, s =>
    match prevHole t s with
    | none => if h.1 < s then some h else none
    | some a => if h.1 < s ∧ a.1 < h.1 then some h else some a

/-- one iteration of the loop body of `promote_pending_holes` -/
def promoteOne (hs : List (Nat × Nat)) (p : Nat × Nat) : List (Nat × Nat) :=
  let r1 : List (Nat × Nat) × Nat × Nat :=
    match prevHole hs p.1 with
    | some h => if h.1 + h.2 = p.1 then (alErase hs h.1, h.1, p.2 + h.2) else (hs, p.1, p.2)
    | none => (hs, p.1, p.2)
  let r2 : List (Nat × Nat) × Nat :=
    match alGet r1.1 (r1.2.1 + r1.2.2) with
    | some a => (alErase r1.1 (r1.2.1 + r1.2.2), r1.2.2 + a)
    | none => (r1.1, r1.2.2)
  r2.1 ++ [(r1.2.1, r2.2)]

def promote (hs : List (Nat × Nat)) (pending : List (Nat × Nat)) : List (Nat × Nat) :=
  pending.foldl promoteOne hs

namespace Db

def init : Db :=
  { fileLen := 0, mem := Mem.empty, slots := [], rfile := [], regions := [], holes := [],
    reserved := [], pending := [], log := [] }

def slot? (s : Db) (idx : Nat) : Option Slot := (s.slots[idx]?).join

def findId (s : Db) (id : RegionId) : Option Nat :=
  s.slots.findIdx? (fun o => match o with | some sl => sl.md.id == id | none => false)

def setSlot (s : Db) (idx : Nat) (sl : Option Slot) : Db :=
  { s with slots := s.slots.set idx sl }

def emit (s : Db) (e : Event) : Db := { s with log := s.log ++ [e] }

/-- reserved size of the region registered at layout key `start` (through its handle) -/
def reservedOfIdx (s : Db) (idx : Nat) : Nat :=
  match s.slot? idx with
  | some sl => sl.md.reserved
  | none => 0

/-- `Layout::len` -/
def layoutLen (s : Db) : Nat :=
  let a := match lastOf s.reserved with | some (st, r) => st + r | none => 0
  let b := match lastOf s.holes with | some (st, g) => st + g | none => 0
  let c := match lastOf s.pending with | some (st, g) => st + g | none => 0
  let d := match lastOf s.regions with | some (st, idx) => st + s.reservedOfIdx idx | none => 0
  max (max (max a b) c) d

/-- `Layout::is_last_anything` -/
def isLastAnything (s : Db) (idx : Nat) : Bool :=
  match lastOf s.regions with
  | none => false
  | some (ls, li) =>
    li == idx
    && (match lastOf s.holes with | none => true | some (hs, _) => ls > hs)
    && (match lastOf s.reserved with | none => true | some (rs, _) => ls > rs)
    && (match lastOf s.pending with | none => true | some (ps, _) => ls > ps)

/-- `Database::set_min_len` -/
def setMinLen (s : Db) (len : Nat) : Db :=
  let len := ceilPage len
  if s.fileLen ≥ len then s
  else
    let target := ceilPage (max (max len (s.fileLen * GROW_FACTOR)) GROW_FLOOR)
    { s with fileLen := target, mem := s.mem.grow target, log := s.log ++ [.setLen .data target] }

/-- `Regions::set_min_len`, in slots -/
def regionsSetMinSlots (s : Db) (n : Nat) : Db :=
  if s.rfile.length < n then
    { s with rfile := s.rfile ++ List.replicate (n - s.rfile.length) none,
             log := s.log ++ [.setLen .regions (n * SIZE_OF_REGION_METADATA)] }
  else s

/-- `Database::write` → `write_to_mmap` -/
def dataWrite (s : Db) (off : Nat) (d : List UInt8) : Option Db :=
  match s.mem.writeAt off d with
  | some m => some { s with mem := m, log := s.log ++ [.dataWrite off d] }
  | none => none

/-! ### metadata setters (`update_value_if_different`) and `write_if_dirty` -/

def metaSetLen (sl : Slot) (n : Nat) : Slot :=
  if sl.md.len = n then sl else { sl with md := { sl.md with len := n }, st := .needsWrite }
def metaSetStart (sl : Slot) (n : Nat) : Slot :=
  if sl.md.start = n then sl else { sl with md := { sl.md with start := n }, st := .needsWrite }
def metaSetReserved (sl : Slot) (n : Nat) : Slot :=
  if sl.md.reserved = n then sl else { sl with md := { sl.md with reserved := n }, st := .needsWrite }
def metaSetId (sl : Slot) (id : RegionId) : Slot :=
  if sl.md.id = id then sl else { sl with md := { sl.md with id := id }, st := .needsWrite }

/-- `mark_dirty(offset, len)` -/
def markDirty (sl : Slot) (off len : Nat) : Slot :=
  { sl with dmin := min sl.dmin off, dmax := max sl.dmax (off + len) }

/-- `RegionMetadata::write_if_dirty` followed by storing the slot -/
def writeIfDirty (s : Db) (idx : Nat) (sl : Slot) : Db :=
  if sl.st = .needsWrite then
    { s with slots := s.slots.set idx (some { sl with st := .needsFlush }),
             rfile := s.rfile.set idx (some sl.md),
             log := s.log ++ [.metaWrite idx (some sl.md)] }
  else s.setSlot idx (some sl)

/-- `char::is_control` (category Cc: U+0000–U+001F, U+007F–U+009F) on the UTF-8 bytes -/
def hasControl : List UInt8 → Bool
  | [] => false
  | b :: t =>
    if b < 32 || b == 127 then true
    else match t with
      | c :: _ => if b == 0xC2 && 0x80 ≤ c && c ≤ 0x9F then true else hasControl t
      | [] => false

/-- `RegionMetadata::validate_id` (violations are assertion failures) -/
def idValid (id : RegionId) : Bool :=
  !id.isEmpty && id.length ≤ MAX_REGION_ID_LEN && !hasControl id

/-- `Database::create_region_if_needed` -/
def create (s : Db) (id : RegionId) : Db × Out :=
  match s.findId id with
  | some idx => (s, .okN idx)
  | none =>
    -- unlocked pre-check: grow the file when no hole can take a page
    let s := if (bestFit s.holes PAGE_SIZE).isNone then s.setMinLen (s.layoutLen + PAGE_SIZE) else s
    -- under layout(W) + regions(W)
    let placed : Except ErrKind (Db × Nat) :=
      match bestFit s.holes PAGE_SIZE with
      | some hstart =>
        match removeOrCompress s.holes hstart PAGE_SIZE with
        | .ok hs => .ok ({ s with holes := hs }, hstart)
        | .error e => .error e
      | none => .ok (s, s.layoutLen)
    match placed with
    | .error e => (s, .err e)
    | .ok (s, start) =>
      if !idValid id then (s, .panic "validate_id") else
      let idx := match s.slots.findIdx? (·.isNone) with | some i => i | none => s.slots.length
      let s := s.regionsSetMinSlots (idx + 1)
      let sl : Slot := { md := { start := start, len := 0, reserved := PAGE_SIZE, id := id },
                         st := .needsWrite, dmin := USIZE_MAX, dmax := 0 }
      let s := if idx < s.slots.length then s.setSlot idx (some sl) else { s with slots := s.slots ++ [some sl] }
      ({ s with regions := s.regions ++ [(start, idx)] }, .okN idx)

/-- the doubling loop of `write_with` (`checked_mul(2)`), fuel = 64 suffices below 2^64 -/
def growReserved : Nat → Nat → Nat → Option Nat
  | 0, _, _ => none
  | fuel + 1, cur, need =>
    if need > cur then
      if cur * 2 ≥ 2 ^ 64 then none else growReserved fuel (cur * 2) need
    else some cur

/-- `Database::copy` -/
def dataCopy (s : Db) (src dst len : Nat) : Except Out Db :=
  if len = 0 then .ok s
  else if !(src + len ≤ dst || dst + len ≤ src) then .error (.err .overlappingCopyRanges)
  else if src + len > s.mem.size then .error (.panic "copy:slice")
  else match s.dataWrite dst (s.mem.slice src len) with
    | some s' => .ok s'
    | none => .error (.panic "write_to_mmap")

/-- the common tail `mark_dirty_abs; set_len; write_if_dirty` -/
def finishWrite (s : Db) (idx : Nat) (sl : Slot) (writeOffset dataLen newLen : Nat) : Db :=
  let sl := markDirty sl writeOffset dataLen
  let sl := metaSetLen sl newLen
  s.writeIfDirty idx sl

/-- `Layout::remove_region` for slot `idx` whose metadata says `(start,reserved)` -/
def layoutRemoveRegion (s : Db) (idx start reserved : Nat) : Db × Bool :=
  let removed := alGet s.regions start
  let s := { s with regions := alErase s.regions start }
  match removed with
  | some i => if i = idx then ({ s with pending := sortedInsert s.pending start reserved }, true) else (s, false)
  | none => (s, false)

/-- `write_with`, path 1: the new length fits in the reserved space -/
def writeFits (s : Db) (idx : Nat) (sl : Slot) (data : List UInt8) (writeOffset newLen : Nat) : Db × Out :=
  match s.dataWrite (sl.md.start + writeOffset) data with
  | none => (s, .panic "write_to_mmap")
  | some s =>
    let sl := markDirty sl writeOffset data.length
    if newLen ≠ sl.md.len then
      (s.writeIfDirty idx (metaSetLen sl newLen), .ok)
    else (s.setSlot idx (some sl), .ok)

/-- `write_with`, path 2: the region is the last thing in the file — grow it in place -/
def writeExtendLast (s : Db) (idx : Nat) (sl : Slot) (data : List UInt8)
    (writeOffset newLen newReserved : Nat) : Db × Out :=
  if newReserved > MAX_RESERVED_SIZE then (s, .panic "set_reserved") else
  let sl := metaSetReserved sl newReserved
  let s := s.setSlot idx (some sl)
  let s := s.setMinLen (sl.md.start + newReserved)
  match s.dataWrite (sl.md.start + writeOffset) data with
  | none => (s, .panic "write_to_mmap")
  | some s => (s.finishWrite idx sl writeOffset data.length newLen, .ok)

/-- `write_with`, path 3: expand into the adjacent hole (caller checked it is large enough) -/
def writeExpand (s : Db) (idx : Nat) (sl : Slot) (data : List UInt8)
    (writeOffset newLen newReserved : Nat) : Db × Out :=
  match removeOrCompress s.holes (sl.md.start + sl.md.reserved) (newReserved - sl.md.reserved) with
  | .error e => (s, .err e)
  | .ok hs =>
    let s := { s with holes := hs }
    if newReserved > MAX_RESERVED_SIZE then (s, .panic "set_reserved") else
    let sl := metaSetReserved sl newReserved
    let s := s.setSlot idx (some sl)
    match s.dataWrite (sl.md.start + writeOffset) data with
    | none => (s, .panic "write_to_mmap")
    | some s => (s.finishWrite idx sl writeOffset data.length newLen, .ok)

/-- `write_with`, path 4a: choose the new extent — best-fitting hole, else the end of the
    allocated area (growing the file); the extent is recorded as a reservation -/
def placeRelocation (s : Db) (newReserved : Nat) : Except ErrKind (Db × Nat) :=
  match bestFit s.holes newReserved with
  | some hstart =>
    match removeOrCompress s.holes hstart newReserved with
    | .error e => .error e
    | .ok hs => .ok ({ s with holes := hs, reserved := s.reserved ++ [(hstart, newReserved)] }, hstart)
  | none =>
    let newStart := s.layoutLen
    let s := { s with reserved := s.reserved ++ [(newStart, newReserved)] }
    .ok (s.setMinLen (newStart + newReserved), newStart)

/-- `write_with`, path 4b: copy, write, move the region in the layout, update the metadata -/
def writeRelocate (s : Db) (idx : Nat) (sl : Slot) (data : List UInt8)
    (writeOffset newLen newReserved copyLen newStart : Nat) : Db × Out :=
  match s.dataCopy sl.md.start newStart copyLen with
  | .error o => (s, o)
  | .ok s =>
    match s.dataWrite (newStart + writeOffset) data with
    | none => (s, .panic "write_to_mmap")
    | some s =>
      -- layout.move_region (remove_region + insert_region), take_reserved
      let r := s.layoutRemoveRegion idx sl.md.start sl.md.reserved
      if !r.2 then (r.1, .err .regionIndexMismatch) else
      let s := { r.1 with regions := r.1.regions ++ [(newStart, idx)] }
      if alGet s.reserved newStart != some newReserved then
        ({ s with reserved := alErase s.reserved newStart }, .panic "take_reserved")
      else
      let s := { s with reserved := alErase s.reserved newStart }
      let sl := markDirty sl 0 newLen
      let sl := metaSetStart sl newStart
      if newReserved > MAX_RESERVED_SIZE then (s, .panic "set_reserved") else
      let sl := metaSetReserved sl newReserved
      let sl := metaSetLen sl newLen
      (s.writeIfDirty idx sl, .ok)

/-- is there a hole right behind the region that can take the added reserve? -/
def canExpand (s : Db) (sl : Slot) (newReserved : Nat) : Bool :=
  match alGet s.holes (sl.md.start + sl.md.reserved) with
  | some gap => decide (gap ≥ newReserved - sl.md.reserved)
  | none => false

/-- `write_with` when the new length exceeds the reserved space: grow in place, expand into the
    adjacent hole, or relocate -/
def writeGrow (s : Db) (idx : Nat) (sl : Slot) (data : List UInt8) (writeOffset newLen copyLen : Nat) : Db × Out :=
  let reserved := sl.md.reserved
  if reserved = 0 then (s, .err .invariantViolation)
  else
  match growReserved 64 reserved newLen with
  | none => (s, .err .regionSizeOverflow)
  | some newReserved =>
    if s.isLastAnything idx then s.writeExtendLast idx sl data writeOffset newLen newReserved
    else if s.canExpand sl newReserved then
      s.writeExpand idx sl data writeOffset newLen newReserved
    else
      match s.placeRelocation newReserved with
      | .error e => (s, .err e)
      | .ok (s', newStart) => s'.writeRelocate idx sl data writeOffset newLen newReserved copyLen newStart

/-- `at > len` -/
def outOfBounds (at_ : Option Nat) (len : Nat) : Bool :=
  match at_ with | some a => decide (a > len) | none => false

/-- the length after the write -/
def newLenOf (at_ : Option Nat) (trunc : Bool) (len dataLen : Nat) : Nat :=
  match at_ with
  | none => len + dataLen
  | some a => if trunc then a + dataLen else max (a + dataLen) len

/-- `Region::write_with` -/
def writeWith (s : Db) (idx : Nat) (data : List UInt8) (at_ : Option Nat) (trunc : Bool) : Db × Out :=
  match s.slot? idx with
  | none => (s, .err .noSuchRegion)
  | some sl =>
    let len := sl.md.len
    if outOfBounds at_ len then (s, .err .writeOutOfBounds) else
    let writeOffset := at_.getD len
    let newLen := newLenOf at_ trunc len data.length
    if newLen ≤ sl.md.reserved then s.writeFits idx sl data writeOffset newLen
    else s.writeGrow idx sl data writeOffset newLen (if trunc then writeOffset else len)

/-- `Region::truncate` -/
def truncate (s : Db) (idx : Nat) (from_ : Nat) : Db × Out :=
  match s.slot? idx with
  | none => (s, .err .noSuchRegion)
  | some sl =>
    if from_ = sl.md.len then (s, .ok)
    else if from_ > sl.md.len then (s, .err .truncateInvalid)
    else (s.writeIfDirty idx (metaSetLen sl from_), .ok)

/-- `Region::rename` (→ `Regions::rename`, `set_id`, `write_if_dirty`) -/
def rename (s : Db) (idx : Nat) (newId : RegionId) : Db × Out :=
  match s.slot? idx with
  | none => (s, .err .noSuchRegion)
  | some sl =>
    -- Regions::rename: old id must be registered (it is: id_to_index is the derived view)
    if (s.findId newId).isSome then (s, .err .regionAlreadyExists)
    else if !idValid newId then (s, .panic "validate_id")
    else (s.writeIfDirty idx (metaSetId sl newId), .ok)

/-- `Region::remove`; `extraRefs` = some other clone of the handle is alive -/
def remove (s : Db) (idx : Nat) (extraRefs : Bool) : Db × Out :=
  match s.slot? idx with
  | none => (s, .err .regionNotFound)
  | some sl =>
    -- the reference count is tested before anything is touched (fix: of F1)
    if extraRefs then (s, .err .regionStillReferenced) else
    let r := s.layoutRemoveRegion idx sl.md.start sl.md.reserved
    if !r.2 then (r.1, .err .regionIndexMismatch) else
    -- Regions::remove
    let s := r.1.setSlot idx none
    ({ s with rfile := s.rfile.set idx none, log := s.log ++ [.metaWrite idx none] }, .ok)

/-- `Database::remove_region(id)` -/
def removeId (s : Db) (id : RegionId) (extraRefs : Bool) : Db × Out :=
  match s.findId id with
  | none => (s, .err .regionNotFound)
  | some idx => s.remove idx extraRefs

/-- `Database::retain_regions` (removal order is the hash map's; the result does not depend on it) -/
def retain (s : Db) (keep : List RegionId) : Db × Out :=
  let victims := (List.range s.slots.length).filter (fun i =>
    match s.slot? i with | some sl => !keep.contains sl.md.id | none => false)
  victims.foldl (fun (acc : Db × Out) i =>
    match acc.2 with
    | .ok => acc.1.remove i false
    | _ => acc) (s, .ok)

/-- live slots selected by `Database::flush`, with the bounds taken -/
def flushCandidates (s : Db) : List (Nat × Slot × Option (Nat × Nat)) :=
  (List.range s.slots.length).filterMap (fun i =>
    match s.slot? i with
    | none => none
    | some sl =>
      let bounds := if sl.dmin < sl.dmax then some (sl.dmin, sl.dmax) else none
      if bounds.isSome || sl.st == .needsFlush then some (i, sl, bounds) else none)

/-- `take_dirty_bounds` on every live slot (bounds are reset only when `min < max`) -/
def takeAllDirty (s : Db) : Db :=
  { s with slots := s.slots.map (fun o => o.map (fun sl =>
      if sl.dmin < sl.dmax then { sl with dmin := USIZE_MAX, dmax := 0 } else sl)) }

/-- `mark_clean` on one selected region -/
def markCleanStep (s : Db) (x : Nat × Slot × Option (Nat × Nat)) : Db :=
  match s.slot? x.1 with
  | some sl => s.setSlot x.1 (some { sl with st := .clean })
  | none => s

/-- `Database::flush` -/
def flush (s : Db) : Db × Out :=
  let dirty := s.flushCandidates
  let s := s.takeAllDirty
  if dirty.isEmpty then
    -- freed extents become reusable below: the metadata writes that released them are synced first (fix: of F10)
    let s := if s.pending.isEmpty then s else (s.emit (.flushAsyncAll .regions)).emit (.sync .regions)
    ({ s with holes := promote s.holes s.pending, pending := [] }, .okN 0)
  else
    let (fs, fe) := dirty.foldl (fun (acc : Nat × Nat) (x : Nat × Slot × Option (Nat × Nat)) =>
      match x.2.2 with
      | some (mn, mx) => (min acc.1 (x.2.1.md.start + mn), max acc.2 (x.2.1.md.start + mx))
      | none => acc) (USIZE_MAX, 0)
    let s := if fs < fe then s.emit (.flushAsync .data fs (fe - fs)) else s
    let s := s.emit (.flushAsyncAll .regions)
    let s := s.emit (.sync .data)
    let s := s.emit (.sync .regions)
    -- mark_clean on every selected region
    let s := dirty.foldl markCleanStep s
    ({ s with holes := promote s.holes s.pending, pending := [] }, .okN dirty.length)

/-- `Region::flush` -/
def regionFlush (s : Db) (idx : Nat) : Db × Out :=
  match s.slot? idx with
  | none => (s, .err .noSuchRegion)
  | some sl =>
    let bounds := if sl.dmin < sl.dmax then some (sl.dmin, sl.dmax) else none
    let sl := if bounds.isSome then { sl with dmin := USIZE_MAX, dmax := 0 } else sl
    let s := s.setSlot idx (some sl)
    let s := match bounds with
      | some (mn, mx) => s.emit (.flushAsync .data (sl.md.start + mn) (mx - mn))
      | none => s
    match sl.st with
    | .needsWrite => (s, .err .regionMetadataUnwritten)
    | .clean =>
      if bounds.isSome then ((s.emit (.sync .data)).emit (.sync .regions), .okN 1) else (s, .okN 0)
    | .needsFlush =>
      let s := s.emit (.flushAsync .regions (idx * SIZE_OF_REGION_METADATA) SIZE_OF_REGION_METADATA)
      let s := s.setSlot idx (some { sl with st := .clean })
      ((s.emit (.sync .data)).emit (.sync .regions), .okN 1)

/-- `approx_has_punchable_data`: samples the first and last byte of the first page, of the last
    page and of every GiB boundary page -/
def approxHasData (m : Mem) (start len : Nat) : Bool :=
  let nz (i : Nat) : Bool := match m.get? i with | some b => b != 0 | none => false
  let checkPage (p : Nat) : Bool := nz p || nz (p + PAGE_SIZE - 1)
  if checkPage start then true
  else
    let lastPage := start + len - PAGE_SIZE
    if lastPage != start && checkPage lastPage then true
    else if len > GiB then
      (List.range (len / GiB)).any (fun i => i ≥ 1 && checkPage (start + i * GiB))
    else false

def punchIfData (s : Db × Nat) (start len : Nat) : Db × Nat :=
  if approxHasData s.1.mem start len then
    ({ s.1 with mem := s.1.mem.punch start len, log := s.1.log ++ [.punch start len] }, s.2 + 1)
  else s

/-- `Database::punch_holes` (rayon's parallel loop over disjoint holes = a sequential loop) -/
def punchHoles (s : Db) : Db :=
  let acc : Db × Nat := (List.range s.slots.length).foldl (fun acc i =>
    match acc.1.slot? i with
    | none => acc
    | some sl =>
      let ceilLen := ceilPage sl.md.len
      if ceilLen < sl.md.reserved then
        punchIfData acc (sl.md.start + ceilLen) (sl.md.reserved - ceilLen)
      else acc) (s, 0)
  let holesSorted := s.holes.foldl (fun l h => sortedInsert l h.1 h.2) []
  let acc := holesSorted.foldl (fun acc h => punchIfData acc h.1 h.2) acc
  if acc.2 > 0 then acc.1.emit (.sync .data) else acc.1

/-- `Database::compact` -/
def compact (s : Db) : Db × Out :=
  let (s, o) := s.flush
  match o with
  | .okN _ => (s.punchHoles, .ok)
  | o => (s, o)

/-- validity rules of `RegionMetadata::from_bytes` on an already-decoded slot -/
def metaValid (m : Meta) : Bool :=
  m.id.length ≤ MAX_REGION_ID_LEN && m.start % PAGE_SIZE == 0 && m.reserved ≥ PAGE_SIZE
    && m.reserved % PAGE_SIZE == 0 && m.len ≤ m.reserved

/-- `Layout::from(&Regions)`: regions in start order, a hole for every gap, nothing else.
    `none` = the subtraction `start - prev_end` underflows (overlapping extents: panic in checked builds) -/
def layoutFromSorted : List (Nat × Nat × Nat) → Nat → List (Nat × Nat) → Option (List (Nat × Nat))
  | [], _, holes => some holes
  | (start, _, reserved) :: t, prevEnd, holes =>
    if prevEnd = start then layoutFromSorted t (start + reserved) holes
    else if prevEnd > start then none
    else layoutFromSorted t (start + reserved) (holes ++ [(prevEnd, start - prevEnd)])

def insertByStart : List (Nat × Nat × Nat) → (Nat × Nat × Nat) → List (Nat × Nat × Nat)
  | [], x => [x]
  | a :: t, x => if x.1 < a.1 then x :: a :: t else if x.1 = a.1 then x :: t else a :: insertByStart t x

/-- drop every handle and `Database::open` the same directory again (no crash: the page cache
    is coherent with the maps) -/
def reopen (s : Db) (minLen : Nat) : Db × Out :=
  let s := if s.fileLen < minLen then
      { s with fileLen := minLen, mem := s.mem.grow minLen,
               log := s.log ++ [.setLen .data minLen, .sync .data] }
    else s
  let slots : List (Option Slot) := s.rfile.map (fun o =>
    match o with
    | some m => if metaValid m then some { md := m, st := .clean, dmin := USIZE_MAX, dmax := 0 } else none
    | none => none)
  -- BTreeMap collect: start ↦ region (a later slot with the same start replaces an earlier one)
  let triples : List (Nat × Nat × Nat) :=
    (List.range slots.length).foldl (fun acc i =>
      match (slots[i]?).join with
      | some sl => insertByStart acc (sl.md.start, i, sl.md.reserved)
      | none => acc) []
  match layoutFromSorted triples 0 [] with
  | none => (s, .panic "Layout::from")
  | some holes =>
    ({ s with slots := slots, regions := triples.map (fun t => (t.1, t.2.1)), holes := holes,
              reserved := [], pending := [] }, .ok)

/-- `Database::set_min_regions` -/
def setMinRegions (s : Db) (n : Nat) : Db :=
  (s.regionsSetMinSlots n).setMinLen (n * PAGE_SIZE)

end Db

/-! ## operations addressed by region name (the harness protocol) -/

inductive Op
  | create (id : RegionId)
  | write (id : RegionId) (data : List UInt8)
  | writeAt (id : RegionId) (at_ : Nat) (data : List UInt8)
  | truncate (id : RegionId) (from_ : Nat)
  | truncateWrite (id : RegionId) (at_ : Nat) (data : List UInt8)
  | rename (id : RegionId) (newId : RegionId)
  | remove (id : RegionId)
  | removeHeld (id : RegionId)
  | retain (ids : List RegionId)
  | flush
  | regionFlush (id : RegionId)
  | compact
  | reopen (minLen : Nat)
  | setMinLen (n : Nat)
  | setMinRegions (n : Nat)
deriving Repr, Inhabited

def Db.withRegion (s : Db) (id : RegionId) (f : Nat → Db × Out) : Db × Out :=
  match s.findId id with
  | none => (s, .err .noSuchRegion)
  | some idx => f idx

def step (s : Db) : Op → Db × Out
  | .create id => s.create id
  | .write id d => s.withRegion id (fun i => s.writeWith i d none false)
  | .writeAt id a d => s.withRegion id (fun i => s.writeWith i d (some a) false)
  | .truncate id n => s.withRegion id (fun i => s.truncate i n)
  | .truncateWrite id a d => s.withRegion id (fun i => s.writeWith i d (some a) true)
  | .rename id n => s.withRegion id (fun i => s.rename i n)
  | .remove id => s.removeId id false
  | .removeHeld id => s.removeId id true
  | .retain ids => s.retain ids
  | .flush => s.flush
  | .regionFlush id => s.withRegion id (fun i => s.regionFlush i)
  | .compact => s.compact
  | .reopen n => s.reopen n
  | .setMinLen n => (s.setMinLen n, .ok)
  | .setMinRegions n => (s.setMinRegions n, .ok)

def run (s : Db) (ops : List Op) : Db := ops.foldl (fun s op => (step s op).1) s

end AnyDB
