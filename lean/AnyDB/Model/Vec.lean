/-!
# M5/M6 — vecdb stored vectors: raw (Bytes / ZeroCopy) and compressed (Pco / LZ4 / Zstd)

Branch-for-branch transliteration of
`vecdb/src/base/{read_write,rollback,with_prev}`, `base/change/cursor.rs`, `base/header`,
`variants/raw/inner/read_write/{mod,any_stored_vec,writable,rollback}.rs`,
`variants/compressed/inner/{pages,read_write/{mod,any_stored_vec,writable,rollback}}.rs`
and the shared `traits/writable.rs` (`rollback_before`, `checked_push`).

Conventions
* element values are `Nat` below `2^(8·sz)`; `sz` = `size_of::<T>()`; the on-disk element encoding
  is little endian on `sz` bytes (C17 proves the round trip); floats travel as their bit patterns;
* the data region of a raw vector is `disk : List Nat` (region length = 32 + sz·|disk|); by C01 a
  region behaves like its own byte vector, so the allocator is not carried here;
* a read of an element slot at or beyond `disk.length` is a read outside the region's valid data
  (C20): the model returns the sentinel `garbage` and raises the `oob` flag of the state;
* compressed pages carry their decoded `content`; the byte size of a *compressed* page is the
  output of the real compressor and is an input of `write` (`csizes`, the oracle answers taken
  from the implementation's page index); everything else about the page index is computed;
* the change directory is a map stamp ↦ record bytes, sorted by stamp; records are modelled
  byte for byte (`serialize…`/`parse…` with the cursor's checked arithmetic);
* outcomes: `ok`, `okB b` (write returned `b`), `okS stamp`, `err kind`, `panic`.
Core Lean only (linked into the native driver).
-/
namespace AnyDB.VecM

def HEADER : Nat := 32
def MAX_PAGE : Nat := 16 * 1024
def U64 : Nat := 2 ^ 64
def garbage : Nat := 0xDEADDEADDEADDEAD

inductive Kind | raw | comp
deriving DecidableEq, Repr, Inhabited

inductive EK
  | writeOutOfBounds | truncateInvalid | indexTooHigh | unexpectedIndex | io | wrongLength
  | overflow | underflow | stampMismatch | corruptedRegion | expectVecToHaveIndex
  | differentVersion | differentFormat | other
deriving DecidableEq, Repr, Inhabited

inductive Out
  | ok | okB (b : Bool) | okS (s : Nat) | okV (v : Option Nat) | okI (i : Nat) | err (k : EK) | panic
deriving DecidableEq, Repr, Inhabited

structure Page where
  start : Nat
  bytes : Nat
  values : Nat
  raw : Bool
  content : List Nat
deriving DecidableEq, Repr, Inhabited

def Page.stop (p : Page) : Nat := p.start + p.bytes
/-- the 16-byte index entry (content is not part of it) -/
def Page.entry (p : Page) : Nat × Nat × Nat × Bool := (p.start, p.bytes, p.values, p.raw)

structure V where
  kind : Kind
  sz : Nat
  -- header
  stamp : Nat
  hdrModified : Bool
  diskStamp : Nat
  -- base
  storedLen : Nat
  prevStoredLen : Nat
  pushed : List Nat
  prevPushed : List Nat
  keep : Nat
  changes : List (Nat × List UInt8)
  dirExists : Bool
  -- raw
  disk : List Nat
  holes : List Nat
  prevHoles : List Nat
  updated : List (Nat × Nat)
  prevUpdated : List (Nat × Nat)
  hasStoredHoles : Bool
  holesDisk : List Nat
  -- compressed
  pages : List Page
  changeAt : Option Nat
  pagesDisk : List (Nat × Nat × Nat × Bool)
  dataPages : List Page          -- what physically lies in the data region
  dataLen : Nat                  -- length of the data region (compressed)
  pagesRegionExists : Bool
  -- C20
  oob : Bool
deriving Repr, Inhabited

def V.init (k : Kind) (sz keep : Nat) : V :=
  { kind := k, sz := sz, stamp := 0, hdrModified := false, diskStamp := 0, storedLen := 0,
    prevStoredLen := 0, pushed := [], prevPushed := [], keep := keep, changes := [], dirExists := false, disk := [],
    holes := [], prevHoles := [], updated := [], prevUpdated := [], hasStoredHoles := false,
    holesDisk := [], pages := [], changeAt := none, pagesDisk := [], dataPages := [],
    dataLen := HEADER, pagesRegionExists := (k == .comp), oob := false }

/-! ## sorted sets / maps (BTreeSet<usize>, BTreeMap<usize,T>) -/

def setInsert : List Nat → Nat → List Nat
  | [], x => [x]
  | a :: t, x => if x < a then x :: a :: t else if x = a then a :: t else a :: setInsert t x

def mapInsert : List (Nat × Nat) → Nat → Nat → List (Nat × Nat)
  | [], k, v => [(k, v)]
  | (a, b) :: t, k, v =>
    if k < a then (k, v) :: (a, b) :: t else if k = a then (k, v) :: t else (a, b) :: mapInsert t k v

def mapGet (m : List (Nat × Nat)) (k : Nat) : Option Nat := (m.find? (·.1 == k)).map (·.2)
def mapErase (m : List (Nat × Nat)) (k : Nat) : List (Nat × Nat) := m.filter (·.1 != k)

/-! ## little-endian bytes -/

def leBytes : Nat → Nat → List UInt8
  | 0, _ => []
  | w + 1, n => UInt8.ofNat (n % 256) :: leBytes w (n / 256)

def leVal : List UInt8 → Nat
  | [] => 0
  | b :: t => b.toNat + 256 * leVal t

def u64b (n : Nat) : List UInt8 := leBytes 8 n

namespace V

def perPage (s : V) : Nat := MAX_PAGE / s.sz
def len (s : V) : Nat := s.storedLen + s.pushed.length

def pagesStoredLen (pages : List Page) (pp : Nat) : Nat :=
  match pages.getLast? with
  | some l => (pages.length - 1) * pp + l.values
  | none => 0

def nextStart (pages : List Page) : Nat :=
  match pages.getLast? with
  | some l => l.stop
  | none => HEADER

def realStoredLen (s : V) : Nat :=
  match s.kind with
  | .raw => s.disk.length
  | .comp => pagesStoredLen s.pages s.perPage

/-- raw element slot `i` of the data region (`unchecked_read_at`) -/
def diskRead (s : V) (i : Nat) : Nat × Bool :=
  match s.disk[i]? with
  | some v => (v, false)
  | none => (garbage, true)

/-! ## header -/

def updateStamp (s : V) (st : Nat) : V :=
  if s.stamp = st then s else { s with stamp := st, hdrModified := true }

def writeHeaderIfNeeded (s : V) : V :=
  if s.hdrModified then { s with diskStamp := s.stamp, hdrModified := false } else s

/-! ## plain edits -/

def push (s : V) (v : Nat) : V := { s with pushed := s.pushed ++ [v] }

/-- `truncate_dirty_at` -/
def truncateDirtyAt (s : V) (index : Nat) : V :=
  { s with holes := s.holes.filter (· < index), updated := s.updated.filter (·.1 < index) }

/-- `truncate_pushed` + `update_stored_len` -/
def truncatePushed (s : V) (index : Nat) : V :=
  if index ≥ s.len then s
  else
    let s1 := if index ≤ s.storedLen then { s with pushed := [] }
              else { s with pushed := s.pushed.take (index - s.storedLen) }
    if index < s.storedLen then { s1 with storedLen := index } else s1

/-- `truncate_if_needed_at` -/
def truncate (s : V) (index : Nat) : V :=
  match s.kind with
  | .raw => (s.truncateDirtyAt index).truncatePushed index
  | .comp => s.truncatePushed index

/-- `update_at` -/
def updateAt (s : V) (index v : Nat) : V × Out :=
  if index ≥ s.storedLen then
    if index - s.storedLen < s.pushed.length then
      ({ s with pushed := s.pushed.set (index - s.storedLen) v, holes := s.holes.filter (· != index) }, .ok)
    else (s, .err .indexTooHigh)
  else
    ({ s with holes := s.holes.filter (· != index), updated := mapInsert s.updated index v }, .ok)

def uncheckedDeleteAt (s : V) (index : Nat) : V :=
  { s with updated := mapErase s.updated index, holes := setInsert s.holes index }

/-- `delete_at` -/
def deleteAt (s : V) (index : Nat) : V := if index < s.len then s.uncheckedDeleteAt index else s

/-- `get_any_or_read_at` : value (or nothing) and whether the read left the region -/
def getAny (s : V) (index : Nat) : Option Nat × Bool :=
  if index ∈ s.holes then (none, false)
  else if index ≥ s.storedLen then (s.pushed[index - s.storedLen]?, false)
  else match mapGet s.updated index with
    | some v => (some v, false)
    | none => let r := s.diskRead index; (some r.1, r.2)

/-- `take_at` -/
def takeAt (s : V) (index : Nat) : V × Out :=
  let r := s.getAny index
  let s := { s with oob := s.oob || r.2 }
  match r.1 with
  | some v => (s.uncheckedDeleteAt index, .okV (some v))
  | none => (s, .okV none)

/-- `fill_first_hole_or_push` -/
def fillFirstHoleOrPush (s : V) (v : Nat) : V × Out :=
  match s.holes with
  | h :: rest =>
    let r := ({ s with holes := rest }).updateAt h v
    match r.2 with
    | .ok => (r.1, .okI h)
    | o => (r.1, o)
  | [] => let s' := s.push v; (s', .okI (s'.len - 1))

/-- `checked_push_at` -/
def checkedPushAt (s : V) (index v : Nat) : V × Out :=
  if index ≠ s.len then (s, .err .unexpectedIndex) else (s.push v, .ok)

/-! ## compressed: decoded contents -/

/-- elements `[from, to)` of the pages (`collect_stored_range`, `to` clamped to the real length) -/
def pagesValues (pages : List Page) : List Nat := pages.flatMap (·.content)

def collectStoredComp (s : V) (from_ to : Nat) : List Nat :=
  let real := pagesStoredLen s.pages s.perPage
  let to := min to real
  if from_ ≥ to then [] else ((pagesValues s.pages).drop from_).take (to - from_)

/-- raw `collect_stored_range` (uses `prev_updated`, then the disk) -/
def collectStoredRaw (s : V) (from_ to : Nat) : List Nat × Bool :=
  (List.range (to - from_)).foldl (fun (acc : List Nat × Bool) k =>
    let i := from_ + k
    match mapGet s.prevUpdated i with
    | some v => (acc.1 ++ [v], acc.2)
    | none => let r := s.diskRead i; (acc.1 ++ [r.1], acc.2 || r.2)) ([], false)

/-! ## `write()` -/

/-- region `write_at` on the element list of a raw vector, one element at slot `i` -/
def diskWriteAt (d : List Nat) (i v : Nat) : Option (List Nat) :=
  if i > d.length then none else if i = d.length then some (d ++ [v]) else some (d.set i v)

/-- stage 0 of raw `write()`: after a rolled-back truncation the region is first extended (zero filled)
to the logical stored length (fix: of F5), so the writes below are in bounds -/
def wrExtend (s : V) : V :=
  if s.storedLen > s.disk.length then { s with disk := s.disk ++ List.replicate (s.storedLen - s.disk.length) 0 } else s

/-- stage 1: new data / truncation (`truncated` was decided before stage 0) -/
def wrData (s : V) (truncated : Bool) : Except EK V :=
  if !s.pushed.isEmpty then
    let taken := s.pushed
    if s.storedLen > s.disk.length then .error .writeOutOfBounds     -- truncate_write(at > len); the taken buffer is dropped
    else .ok { s with pushed := [], disk := s.disk.take s.storedLen ++ taken, storedLen := s.storedLen + taken.length }
  else if truncated then .ok { s with disk := s.disk.take s.storedLen }
  else .ok s

/-- overlay entries written with the region's checked `write_at` (expanded case) -/
def wrOverlayAt (upd : List (Nat × Nat)) (s : V) : Except Out V :=
  upd.foldl (fun (acc : Except Out V) (kv : Nat × Nat) =>
    match acc with
    | .error e => .error e
    | .ok s => match diskWriteAt s.disk kv.1 kv.2 with
      | some d => .ok { s with disk := d }
      | none => .error (.err .writeOutOfBounds)) (.ok s)

/-- overlay entries written in place through the mapping -/
def wrOverlaySet (upd : List (Nat × Nat)) (s : V) : Except Out V :=
  upd.foldl (fun (acc : Except Out V) (kv : Nat × Nat) =>
    match acc with
    | .error e => .error e
    | .ok s => if kv.1 < s.disk.length then .ok { s with disk := s.disk.set kv.1 kv.2 }
               else .error .panic) (.ok s)

/-- stage 2: the overlay -/
def wrOverlay (s : V) (expanded : Bool) : Except Out V :=
  if !s.updated.isEmpty then
    if expanded then wrOverlayAt s.updated { s with updated := [] }
    else wrOverlaySet s.updated { s with updated := [] }
  else .ok s

/-- stage 3: deleted slots -/
def wrHoles (s : V) (hasHoles hadHoles : Bool) : V × Out :=
  if hasHoles then ({ s with hasStoredHoles := true, holesDisk := s.holes }, .okB true)
  else if hadHoles then ({ s with hasStoredHoles := false, holesDisk := [] }, .okB true)
  else (s, .okB true)

def writeRaw (s : V) : V × Out :=
  let s := s.writeHeaderIfNeeded
  let truncated := decide (s.storedLen < s.disk.length)
  let expanded := decide (s.storedLen > s.disk.length)
  let hasNew := !s.pushed.isEmpty
  let hasUpd := !s.updated.isEmpty
  let hasHoles := !s.holes.isEmpty
  let hadHoles := s.hasStoredHoles
  if !truncated && !expanded && !hasNew && !hasUpd && !hasHoles && !hadHoles then (s, .okB false)
  else
    match s.wrExtend.wrData truncated with
    | .error e => ({ s.wrExtend with pushed := [] }, .err e)
    | .ok s1 =>
      match s1.wrOverlay expanded with
      | .error o => ({ s1 with updated := [] }, o)
      | .ok s2 => s2.wrHoles hasHoles hadHoles

def splitChunks : Nat → Nat → List Nat → List (List Nat)
  | 0, _, _ => []
  | _, 0, _ => []
  | fuel + 1, n, l => if l.isEmpty then [] else l.take n :: splitChunks fuel n (l.drop n)

/-- `Pages::set_changed_at` -/
def setChangedAt (c : Option Nat) (i : Nat) : Option Nat :=
  match c with
  | none => some i
  | some p => if p > i then some i else some p

/-- `Pages::flush` -/
def pagesFlush (s : V) : V × Bool :=
  match s.changeAt with
  | none => (s, true)
  | some c =>
    if c > s.pagesDisk.length then ({ s with changeAt := none }, false)   -- truncate_write beyond the region
    else ({ s with changeAt := none, pagesDisk := s.pagesDisk.take c ++ (s.pages.drop c).map Page.entry }, true)

/-- encode the chunks: a full chunk is compressed (its byte size is the next oracle answer),
    a shorter one is stored raw: (byte length, values, raw, content) -/
def encChunks (pp sz : Nat) : List (List Nat) → List Nat → List (Nat × Nat × Bool × List Nat)
  | [], _ => []
  | ch :: rest, cs =>
    if ch.length = pp then
      match cs with
      | c :: cs' => (c, ch.length, false, ch) :: encChunks pp sz rest cs'
      | [] => (0, ch.length, false, ch) :: encChunks pp sz rest []
    else (ch.length * sz, ch.length, true, ch) :: encChunks pp sz rest cs

/-- lay the encoded pages out one after the other from `start` (`Pages::next_start` + `checked_push`) -/
def buildPages (start : Nat) : List (Nat × Nat × Bool × List Nat) → List Page
  | [] => []
  | e :: rest =>
    { start := start, bytes := e.1, values := e.2.1, raw := e.2.2.1, content := e.2.2.2 } :: buildPages (start + e.1) rest

def writeComp (s : V) (csizes : List Nat) : V × Out :=
  let s := s.writeHeaderIfNeeded
  let pp := s.perPage
  let storedLen := s.storedLen
  let pushedLen := s.pushed.length
  let real := pagesStoredLen s.pages pp
  if storedLen > real then (s, .err .corruptedRegion)
  else if pushedLen = 0 ∧ storedLen = real ∧ s.changeAt.isNone then (s, .okB false)
  else
    let spi := storedLen / pp
    if spi > s.pages.length then (s, .err .corruptedRegion)
    else
      let sel : Nat × Option (Page × Nat) :=
        match s.pages[spi]? with
        | some page =>
          let partialLen := storedLen % pp
          (page.start, if partialLen ≠ 0 then some (page, partialLen) else none)
        | none => (nextStart s.pages, none)
      let truncateAt := sel.1
      let fast : Option (Page × Nat) :=
        match sel.2 with
        | some (page, pl) => if page.raw ∧ pl = page.values ∧ pl + pushedLen < pp then some (page, pl) else none
        | none => none
      match fast with
      | some (page, pl) =>
        let taken := s.pushed
        let s := { s with pushed := [] }
        let rawLen := taken.length * s.sz
        if page.stop > s.dataLen then (s, .err .writeOutOfBounds)
        else
          let np : Page := { start := page.start, bytes := page.bytes + rawLen, values := pl + pushedLen,
                             raw := true, content := page.content ++ taken }
          let s := { s with dataLen := page.stop + rawLen,
                            dataPages := (s.dataPages.filter (fun (p : Page) => p.start < page.start)) ++ [np],
                            pages := s.pages.take spi ++ [np],
                            changeAt := setChangedAt s.changeAt spi,
                            storedLen := storedLen + pushedLen }
          let r := s.pagesFlush
          if r.2 then (r.1, .okB true) else (r.1, .err .writeOutOfBounds)
      | none =>
        let values0 : List Nat := match sel.2 with
          | some (page, pl) => page.content.take pl
          | none => []
        let values := values0 ++ s.pushed
        let s := { s with pushed := [] }
        let chunks := splitChunks (values.length + 1) pp values
        -- (byte length, values, raw, content); compressed sizes come from the oracle list
        let enc := encChunks pp s.sz chunks csizes
        let total := (enc.map (·.1)).foldl (· + ·) 0
        if truncateAt > s.dataLen then (s, .err .writeOutOfBounds)
        else
          let kept := s.pages.take spi
          let newPages := buildPages (nextStart kept) enc
          let s := { s with dataLen := truncateAt + total,
                            dataPages := (s.dataPages.filter (fun (p : Page) => p.start < truncateAt)) ++ newPages,
                            pages := kept ++ newPages,
                            changeAt := setChangedAt s.changeAt spi,
                            storedLen := storedLen + pushedLen }
          let r := s.pagesFlush
          if r.2 then (r.1, .okB true) else (r.1, .err .writeOutOfBounds)

def write (s : V) (csizes : List Nat) : V × Out :=
  match s.kind with
  | .raw => s.writeRaw
  | .comp => s.writeComp csizes

/-! ## change records -/

def encVals (sz : Nat) (vs : List Nat) : List UInt8 := vs.flatMap (leBytes sz)

/-- `ReadWriteBaseVec::serialize_changes` (+ the raw part) ; second component: a read left the region -/
def serializeChanges (s : V) : List UInt8 × Bool :=
  let truncated := s.prevStoredLen - s.storedLen
  let tv : List Nat × Bool :=
    if truncated > 0 then
      match s.kind with
      | .raw => s.collectStoredRaw s.storedLen s.prevStoredLen
      | .comp => (s.collectStoredComp s.storedLen s.prevStoredLen, false)
    else ([], false)
  let base := u64b s.stamp ++ u64b s.prevStoredLen ++ u64b s.storedLen ++ u64b truncated
    ++ encVals s.sz tv.1
    ++ u64b s.prevPushed.length ++ encVals s.sz s.prevPushed
    ++ u64b s.pushed.length ++ encVals s.sz s.pushed
  match s.kind with
  | .comp => (base, tv.2)
  | .raw =>
    let keys : List Nat := (s.updated.map (·.1) ++ s.prevUpdated.map (·.1)).foldl setInsert []
    let vals : List Nat × Bool := keys.foldl (fun (acc : List Nat × Bool) i =>
      match mapGet s.prevUpdated i with
      | some v => (acc.1 ++ [v], acc.2)
      | none => let r := s.diskRead i; (acc.1 ++ [r.1], acc.2 || r.2)) ([], tv.2)
    (base ++ u64b keys.length ++ keys.flatMap u64b ++ encVals s.sz vals.1
      ++ u64b s.prevHoles.length ++ s.prevHoles.flatMap u64b, vals.2)

/-- `save_change_file`: drop records ≥ stamp, prune to `keep-1`, add the new one -/
def saveChangeFile (s : V) (stamp : Nat) (data : List UInt8) : V :=
  let files := s.changes.filter (·.1 < stamp)
  let excess := files.length - (s.keep - 1)
  let files := files.drop excess
  { s with changes := files ++ [(stamp, data)], dirExists := true }

/-! ### the cursor (`ChangeCursor`) -/

structure Cur where
  bytes : List UInt8
  pos : Nat

def Cur.check (c : Cur) (n : Nat) : Except EK Unit :=
  if c.pos + n ≥ U64 then .error .overflow
  else if c.pos + n > c.bytes.length then .error .wrongLength
  else .ok ()

def Cur.readU64 (c : Cur) : Except EK (Nat × Cur) :=
  match c.check 8 with
  | .error e => .error e
  | .ok _ => .ok (leVal ((c.bytes.drop c.pos).take 8), { c with pos := c.pos + 8 })

def Cur.skip (c : Cur) (n : Nat) : Except EK Cur :=
  match c.check n with
  | .error e => .error e
  | .ok _ => .ok { c with pos := c.pos + n }

def chunkVals : Nat → Nat → List UInt8 → List Nat
  | 0, _, _ => []
  | k + 1, sz, l => leVal (l.take sz) :: chunkVals k sz (l.drop sz)

def Cur.readValues (c : Cur) (count sz : Nat) : Except EK (List Nat × Cur) :=
  if sz * count ≥ U64 then .error .overflow
  else match c.check (sz * count) with
    | .error e => .error e
    | .ok _ => .ok (chunkVals count sz ((c.bytes.drop c.pos).take (sz * count)), { c with pos := c.pos + sz * count })

structure Change where
  prevStamp : Nat
  prevStoredLen : Nat
  truncatedStart : Nat
  truncatedValues : List Nat
  prevPushed : List Nat
  mods : List (Nat × Nat)
  prevHoles : List Nat
deriving Repr

/-- `parse_change_data` (+ `parse_raw_change_data` for raw vectors) -/
def parseChange (kind : Kind) (sz : Nat) (bytes : List UInt8) : Except EK Change :=
  let c : Cur := { bytes := bytes, pos := 0 }
  match c.readU64 with
  | .error e => .error e
  | .ok (prevStamp, c) =>
  match c.readU64 with
  | .error e => .error e
  | .ok (prevStoredLen, c) =>
  match c.readU64 with
  | .error e => .error e
  | .ok (storedLenField, c) =>
  match c.readU64 with
  | .error e => .error e
  | .ok (truncCount, c) =>
  -- the three length fields are redundant; a record in which they disagree is refused (fix: of F11)
  if truncCount ≠ prevStoredLen - storedLenField then .error .wrongLength else
  if truncCount > prevStoredLen then .error .underflow else
  match c.readValues truncCount sz with
  | .error e => .error e
  | .ok (tvals, c) =>
  match c.readU64 with
  | .error e => .error e
  | .ok (ppLen, c) =>
  match c.readValues ppLen sz with
  | .error e => .error e
  | .ok (pp, c) =>
  match c.readU64 with
  | .error e => .error e
  | .ok (pushedLen, c) =>
  if sz * pushedLen ≥ U64 then .error .overflow else
  match c.skip (sz * pushedLen) with
  | .error e => .error e
  | .ok c =>
  let base : Change := { prevStamp := prevStamp, prevStoredLen := prevStoredLen,
                         truncatedStart := prevStoredLen - truncCount, truncatedValues := tvals,
                         prevPushed := pp, mods := [], prevHoles := [] }
  match kind with
  | .comp => .ok base
  | .raw =>
    match c.readU64 with
    | .error e => .error e
    | .ok (modLen, c) =>
    match c.readValues modLen 8 with
    | .error e => .error e
    | .ok (idxs, c) =>
    match c.readValues modLen sz with
    | .error e => .error e
    | .ok (vals, c) =>
    match c.readU64 with
    | .error e => .error e
    | .ok (phLen, c) =>
    match c.readValues phLen 8 with
    | .error e => .error e
    | .ok (ph, _) =>
    .ok { base with mods := idxs.zip vals, prevHoles := ph.foldl setInsert [] }

/-- `apply_rollback` -/
def applyRollback (s : V) (stamp storedLen : Nat) (pushed : List Nat) : V :=
  let s := s.updateStamp stamp
  { s with storedLen := storedLen, prevStoredLen := storedLen, pushed := pushed, prevPushed := pushed }

/-- `deserialize_then_undo_changes` -/
def undo (s : V) (bytes : List UInt8) : V × Out :=
  match parseChange s.kind s.sz bytes with
  | .error e => (s, .err e)
  | .ok ch =>
    match s.kind with
    | .comp =>
      -- re-based on the current logical contents `disk[..storedLen] ++ pushed` (fix: of F4)
      let sl := min (min ch.truncatedStart s.storedLen) s.realStoredLen
      let kept := min (ch.truncatedStart - sl) s.pushed.length
      (s.applyRollback ch.prevStamp sl (s.pushed.take kept ++ ch.truncatedValues ++ ch.prevPushed), .ok)
    | .raw =>
      let s := if ch.prevStoredLen < s.storedLen then s.truncateDirtyAt ch.prevStoredLen else s
      let s := s.applyRollback ch.prevStamp ch.prevStoredLen ch.prevPushed
      let s := (List.range ch.truncatedValues.length).foldl (fun (s : V) i =>
        { s with updated := mapInsert s.updated (ch.truncatedStart + i) (ch.truncatedValues.getD i 0) }) s
      let r : V × Out := ch.mods.foldl (fun (acc : V × Out) (kv : Nat × Nat) =>
        match acc.2 with
        | .ok => acc.1.updateAt kv.1 kv.2
        | _ => acc) (s, .ok)
      match r.2 with
      | .ok =>
        let s := r.1
        let s := if !ch.prevHoles.isEmpty || !s.holes.isEmpty || !s.prevHoles.isEmpty
                 then { s with holes := ch.prevHoles, prevHoles := ch.prevHoles } else s
        ({ s with prevUpdated := s.updated }, .ok)
      | o => (r.1, o)

/-- `rollback` -/
def rollback (s : V) : V × Out :=
  match (s.changes.find? (·.1 == s.stamp)) with
  | none => (s, .err .io)
  | some (_, bytes) => s.undo bytes

/-- `save_rollback_state` -/
def saveRollbackState (s : V) : V :=
  let s := { s with prevStoredLen := s.storedLen, prevPushed := s.pushed }
  match s.kind with
  | .raw => { s with prevHoles := s.holes, prevUpdated := s.updated }
  | .comp => s

/-- `rollback_before` (the candidate list is fixed at entry) -/
def rollbackBefore (s : V) (stamp : Nat) : V × Out :=
  if !s.dirExists then (s, .err .io) else
  let files := ((s.changes.map (·.1)).filter (· ≤ s.stamp)).reverse
  let r : V × Option Out × Bool := files.foldl (fun (acc : V × Option Out × Bool) fs =>
    match acc.2.1, acc.2.2 with
    | some _, _ => acc
    | none, true => acc
    | none, false =>
      let cur := acc.1.stamp
      if cur < stamp then (acc.1, none, true)
      else if fs ≠ cur then (acc.1, some (.err .stampMismatch), false)
      else
        let r := acc.1.rollback
        match r.2 with
        | .ok => (r.1, none, false)
        | o => (r.1, some o, false)) (s, none, false)
  match r.2.1 with
  | some o => (r.1, o)
  | none => let s := r.1.saveRollbackState; (s, .okS s.stamp)

/-- `stamped_write` -/
def stampedWrite (s : V) (stamp : Nat) (cs : List Nat) : V × Out :=
  (s.updateStamp stamp).write cs

/-- `stamped_write_with_changes` -/
def commit (s : V) (stamp : Nat) (cs : List Nat) : V × Out :=
  if s.keep = 0 then s.stampedWrite stamp cs
  else
    let d := s.serializeChanges
    let s := { s with oob := s.oob || d.2 }
    let s := s.saveChangeFile stamp d.1
    let r := s.stampedWrite stamp cs
    match r.2 with
    | .okB _ =>
      let s := r.1
      let s := { s with prevStoredLen := s.storedLen, prevPushed := [] }
      match s.kind with
      | .raw => ({ s with prevHoles := s.holes, prevUpdated := [] }, r.2)
      | .comp => (s, r.2)
    | o => (r.1, o)

/-- `reset_base` -/
def resetBase (s : V) : V :=
  let s := { s with pushed := [], prevPushed := [], storedLen := 0, prevStoredLen := 0 }
  let s := s.updateStamp 0
  { s with changes := [], dirExists := false }

/-- `reset` -/
def reset (s : V) : V :=
  match s.kind with
  | .raw =>
    let s := { s with holes := [], prevHoles := [], updated := [], prevUpdated := [] }
    (s.truncate 0).resetBase
  | .comp =>
    let s := { s with pages := [], changeAt := setChangedAt s.changeAt 0 }
    (s.truncate 0).resetBase

/-- `reset_unsaved` -/
def resetUnsaved (s : V) : V :=
  match s.kind with
  | .raw => { s with pushed := [], holes := [], prevHoles := [], updated := [], prevUpdated := [] }
  | .comp => { s with pushed := [] }

/-- look a disk index entry up among the pages physically present in the data region -/
def findBlob (dp : List Page) (e : Nat × Nat × Nat × Bool) : Option Page := dp.find? (fun p => p.entry == e)

/-- drop the vector (and everything in memory) and `import_with` it again with the same
    version, format and retention -/
def reimport (s : V) : V :=
  match s.kind with
  | .raw =>
    let hs := if s.hasStoredHoles then s.holesDisk.foldl setInsert [] else []
    { s with stamp := s.diskStamp, hdrModified := false, storedLen := s.disk.length,
             prevStoredLen := s.disk.length, pushed := [], prevPushed := [], holes := hs,
             prevHoles := hs, updated := [], prevUpdated := [] }
  | .comp =>
    let r : List Page × Bool := s.pagesDisk.foldl (fun (acc : List Page × Bool) e =>
      match findBlob s.dataPages e with
      | some p => (acc.1 ++ [p], acc.2)
      | none => (acc.1 ++ [{ start := e.1, bytes := e.2.1, values := e.2.2.1, raw := e.2.2.2, content := List.replicate e.2.2.1 garbage }], true)) ([], false)
    let real := pagesStoredLen r.1 s.perPage
    { s with stamp := s.diskStamp, hdrModified := false, pages := r.1, changeAt := none,
             storedLen := real, prevStoredLen := real, pushed := [], prevPushed := [],
             oob := s.oob || r.2 }

/-- logical contents (`collect_holed` on raw vectors, `collect` on compressed ones) -/
def items (s : V) : List (Option Nat) × Bool :=
  match s.kind with
  | .raw =>
    (List.range s.len).foldl (fun (acc : List (Option Nat) × Bool) i =>
      let r := s.getAny i; (acc.1 ++ [r.1], acc.2 || r.2)) ([], false)
  | .comp =>
    let stored := (pagesValues s.pages).take s.storedLen
    let pad := List.replicate (s.storedLen - stored.length) garbage
    ((stored ++ pad ++ s.pushed).map some, decide (stored.length < s.storedLen))

/-! ## read-only clones, `VecReader` and the stored-only sources (C20) -/

/-- number of elements of a raw vector that a read-only clone, a `VecReader` or a stored mmap / file-IO
source can address: the shared stored length, clamped to what the region physically holds
(`stored_len.min((reader.len() - HEADER_OFFSET) / SIZE_OF_T)`, fix: of F6) -/
def addressable (s : V) : Nat := min s.storedLen s.disk.length

/-- `ReadOnlyRawVec::collect_one_at`, `VecReader::try_get` -/
def cloneGet (s : V) (i : Nat) : Option Nat × Bool :=
  if i < s.addressable then (some (s.diskRead i).1, (s.diskRead i).2) else (none, false)

/-- range reads of a clone and the stored sources: elements `[min from n, min to n)`, `n = addressable` -/
def cloneRange (s : V) (from_ to : Nat) : List Nat × Bool :=
  (List.range (min to s.addressable - min from_ s.addressable)).foldl (fun (acc : List Nat × Bool) k =>
    let r := s.diskRead (min from_ s.addressable + k); (acc.1 ++ [r.1], acc.2 || r.2)) ([], false)

/-- what a whole battery of clone reads reports for the C20 flag -/
def cloneReadsOob (s : V) : Bool :=
  match s.kind with
  | .raw => (s.cloneRange 0 (s.len + 1)).2
  | .comp => false      -- page slices lie inside the region by the chain invariant (C20_pages)

end V

/-! ## requests -/

inductive Op
  | push (v : Nat) | pushMany (n : Nat) (seed : Nat)
  | truncate (n : Nat) | update (i v : Nat) | delete (i : Nat) | take (i : Nat) | fill (v : Nat)
  | checkedPush (i v : Nat)
  | write (cs : List Nat) | stampedWrite (s : Nat) (cs : List Nat) | commit (s : Nat) (cs : List Nat)
  | rollback | rollbackBefore (s : Nat) | reset | resetUnsaved | reimport
  | faultDelete (s : Nat) | faultTruncate (s n : Nat) | faultPatch (s off : Nat) (v : Nat)
deriving Repr, Inhabited

/-- deterministic value stream shared with the harness: splitmix64 -/
def mix (x : Nat) : Nat :=
  let x := (x + 0x9E3779B97F4A7C15) % U64
  let z := x
  let z := ((z ^^^ (z >>> 30)) * 0xBF58476D1CE4E5B9) % U64
  let z := ((z ^^^ (z >>> 27)) * 0x94D049BB133111EB) % U64
  z ^^^ (z >>> 31)

def genVal (sz seed k : Nat) : Nat := mix (seed * 1000003 + k) % (2 ^ (8 * min sz 8))

def patchBytes (l : List UInt8) (off : Nat) (p : List UInt8) : List UInt8 :=
  l.take off ++ p ++ l.drop (off + p.length)

def step (s : V) : Op → V × Out
  | .push v => (s.push v, .ok)
  | .pushMany n seed => ({ s with pushed := s.pushed ++ (List.range n).map (genVal s.sz seed) }, .ok)
  | .truncate n => (s.truncate n, .ok)
  | .update i v => match s.kind with | .raw => s.updateAt i v | .comp => (s, .err .other)
  | .delete i => match s.kind with | .raw => (s.deleteAt i, .ok) | .comp => (s, .err .other)
  | .take i => match s.kind with | .raw => s.takeAt i | .comp => (s, .err .other)
  | .fill v => match s.kind with | .raw => s.fillFirstHoleOrPush v | .comp => (s, .err .other)
  | .checkedPush i v => s.checkedPushAt i v
  | .write cs => s.write cs
  | .stampedWrite st cs => s.stampedWrite st cs
  | .commit st cs => s.commit st cs
  | .rollback => s.rollback
  | .rollbackBefore st => s.rollbackBefore st
  | .reset => (s.reset, .ok)
  | .resetUnsaved => (s.resetUnsaved, .ok)
  | .reimport => (s.reimport, .ok)
  | .faultDelete st => ({ s with changes := s.changes.filter (·.1 != st) }, .ok)
  | .faultTruncate st n => ({ s with changes := s.changes.map (fun c => if c.1 == st then (c.1, c.2.take n) else c) }, .ok)
  | .faultPatch st off v => ({ s with changes := s.changes.map (fun c => if c.1 == st then (c.1, patchBytes c.2 off (u64b v)) else c) }, .ok)

end AnyDB.VecM
