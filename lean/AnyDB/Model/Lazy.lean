/-!
# M10 — lazily computed vectors (vecdb/src/variants/lazy/{from1,from2,from3,delta,agg})

Sources are plain lists (an abstract `ReadableVec`: `len`, range collect clamped to `len`,
`collect_one_at`, `read_sorted_at` that skips out-of-range indices).  Every read path of the lazy
vectors is transliterated with its clamps, buffers and index arithmetic; `panic` is an explicit
outcome (slice index out of range, `usize` underflow in checked builds).
Core Lean only.
-/
namespace AnyDB.Lazy

inductive R (α : Type) | ok (v : α) | panic
deriving Repr, DecidableEq

/-! ## abstract readable source -/

def collectRange (s : List Nat) (from_ to : Nat) : List Nat := (s.drop from_).take (min to s.length - from_)
def collectOne (s : List Nat) (i : Nat) : Option Nat := s[i]?
def readSorted (s : List Nat) (idx : List Nat) : List Nat := idx.filterMap (fun i => s[i]?)

/-! ## LazyVecFrom1/2/3 with the harness's compute functions -/

def f1 (i a : Nat) : Nat := a * 2 + i
def f2 (i a b : Nat) : Nat := a + 3 * b + i
def f3 (i a b c : Nat) : Nat := a + 3 * b + 5 * c + i

def lenN (srcs : List (List Nat)) : Nat := (srcs.map List.length).foldl min (srcs.headD []).length

/-- the defining formula at index `i` (`none` beyond the governing length) -/
def fromFormula (srcs : List (List Nat)) (i : Nat) : Option Nat :=
  if i ≥ lenN srcs then none else
  match srcs with
  | [a] => some (f1 i (a.getD i 0))
  | [a, b] => some (f2 i (a.getD i 0) (b.getD i 0))
  | [a, b, c] => some (f3 i (a.getD i 0) (b.getD i 0) (c.getD i 0))
  | _ => none

/-- `for_each_range_dyn_at` / `read_into_at` / `try_fold_range_at`: per-source range collect, zip, compute -/
def fromRange (srcs : List (List Nat)) (from_ to : Nat) : List Nat :=
  let to := min to (lenN srcs)
  let bufs := srcs.map (fun s => collectRange s from_ to)
  match bufs with
  | [a] => (List.range a.length).map (fun k => f1 (from_ + k) (a.getD k 0))
  | [a, b] => (List.range (min a.length b.length)).map (fun k => f2 (from_ + k) (a.getD k 0) (b.getD k 0))
  | [a, b, c] => (List.range (min (min a.length b.length) c.length)).map (fun k => f3 (from_ + k) (a.getD k 0) (b.getD k 0) (c.getD k 0))
  | _ => []

def fromOne (srcs : List (List Nat)) (i : Nat) : Option Nat := fromFormula srcs i

/-- `read_sorted_into_at`: each source skips the indices beyond ITS length, then the value lists are zipped
    with the index list -/
def fromSorted (srcs : List (List Nat)) (idx : List Nat) : List Nat :=
  let vals := srcs.map (fun s => readSorted s idx)
  match vals with
  | [a] => (List.range (min idx.length a.length)).map (fun k => f1 (idx.getD k 0) (a.getD k 0))
  | [a, b] => (List.range (min idx.length (min a.length b.length))).map (fun k => f2 (idx.getD k 0) (a.getD k 0) (b.getD k 0))
  | [a, b, c] => (List.range (min idx.length (min (min a.length b.length) c.length))).map (fun k => f3 (idx.getD k 0) (a.getD k 0) (b.getD k 0) (c.getD k 0))
  | _ => []

/-! ## LazyDeltaVec<DeltaSub> -/

/-- the defining formula: `source[h] - source[start-1]` (0 when `start = 0`; saturating) -/
def deltaFormula (s starts : List Nat) (h : Nat) : Option Nat :=
  if h ≥ s.length ∨ h ≥ starts.length then none else
  let start := starts.getD h 0
  let ago := if start = 0 then 0 else s.getD (start - 1) 0
  some (s.getD h 0 - ago)

/-- `collect_one_at` -/
def deltaOne (s starts : List Nat) (h : Nat) : R (Option Nat) :=
  if h ≥ s.length then .ok none else
  if h ≥ starts.length then .ok none else
  let start := starts.getD h 0
  match (if start = 0 then some 0 else s[start - 1]?) with
  | none => .ok none
  | some ago => if start > h then .panic else .ok (some (s.getD h 0 - ago))     -- `h - start + 1` underflows

/-- `bulk_try_fold` behind every range path -/
def deltaRange (s starts : List Nat) (from_ to : Nat) : R (List Nat) :=
  let to := min (min to s.length) starts.length
  if from_ ≥ to then .ok [] else
  let s0 := starts.getD from_ 0
  let readFrom := min (if s0 = 0 then 0 else s0 - 1) from_
  let data := collectRange s readFrom to
  (List.range (to - from_)).foldl (fun (acc : R (List Nat)) k =>
    match acc with
    | .panic => .panic
    | .ok l =>
      let i := from_ + k
      let start := starts.getD i 0
      match data[i - readFrom]? with
      | none => .panic
      | some cur =>
        let ago : Option Nat := if start = 0 then some 0 else
          if start - 1 < readFrom then none else data[start - 1 - readFrom]?
        match ago with
        | none => .panic
        | some a => if start > i then .panic else .ok (l ++ [cur - a])) (.ok [])

/-- `read_sorted_into_at` (merge, dedup and slot bookkeeping collapse to per-index lookups when the
    requested indices are sorted; the count is evaluated for every in-range request) -/
def deltaSorted (s starts : List Nat) (idx : List Nat) : R (List Nat) :=
  let len := min s.length starts.length
  idx.foldl (fun (acc : R (List Nat)) h =>
    match acc with
    | .panic => .panic
    | .ok l =>
      if h ≥ len then .ok l else
      let start := starts.getD h 0
      let ago : Option Nat := if start = 0 then some 0 else s[start - 1]?
      match ago with
      | none => .panic       -- the value list is shorter than the slot table: index out of bounds
      | some a => if start > h then .panic else .ok (l ++ [s.getD h 0 - a])) (.ok [])

/-! ## LazyDeltaVec<DeltaChange> (lookback = the window start itself, `count = h - start`; source values are small integers,
so the `f64` arithmetic of the operator is exact; a negative difference shows as 0 — the harness casts with saturation) -/

/-- the defining formula: `source[h] - source[start]` -/
def chgFormula (s starts : List Nat) (h : Nat) : Option Nat :=
  if h ≥ s.length ∨ h ≥ starts.length then none else
  let start := starts.getD h 0
  match s[start]? with
  | none => none
  | some ago => some (s.getD h 0 - ago)

/-- `collect_one_at` -/
def chgOne (s starts : List Nat) (h : Nat) : R (Option Nat) :=
  if h ≥ s.length then .ok none else
  if h ≥ starts.length then .ok none else
  let start := starts.getD h 0
  match s[start]? with
  | none => .ok none
  | some ago => if start > h then .panic else .ok (some (s.getD h 0 - ago))     -- `h - start` underflows

/-- `bulk_try_fold` behind every range path -/
def chgRange (s starts : List Nat) (from_ to : Nat) : R (List Nat) :=
  let to := min (min to s.length) starts.length
  if from_ ≥ to then .ok [] else
  let readFrom := min (starts.getD from_ 0) from_
  let data := collectRange s readFrom to
  (List.range (to - from_)).foldl (fun (acc : R (List Nat)) k =>
    match acc with
    | .panic => .panic
    | .ok l =>
      let i := from_ + k
      let start := starts.getD i 0
      match data[i - readFrom]? with
      | none => .panic
      | some cur =>
        let ago : Option Nat := if start < readFrom then none else data[start - readFrom]?
        match ago with
        | none => .panic
        | some a => if start > i then .panic else .ok (l ++ [cur - a])) (.ok [])

/-- `read_sorted_into_at` -/
def chgSorted (s starts : List Nat) (idx : List Nat) : R (List Nat) :=
  let len := min s.length starts.length
  idx.foldl (fun (acc : R (List Nat)) h =>
    match acc with
    | .panic => .panic
    | .ok l =>
      if h ≥ len then .ok l else
      let start := starts.getD h 0
      match s[start]? with
      | none => .panic       -- the value list is shorter than the slot table: index out of bounds
      | some a => if start > h then .panic else .ok (l ++ [s.getD h 0 - a])) (.ok [])

/-! ## LazyAggVec<Sparse> -/

/-- the defining formula: the last element of group `i`, nothing for an empty group -/
def aggFormula (s mapping : List Nat) (i : Nat) : Option (Option Nat) :=
  if i ≥ mapping.length then none else
  let cur := mapping.getD i 0
  let next := if i + 1 < mapping.length then mapping.getD (i + 1) 0 else s.length
  if next = 0 ∨ cur ≥ next then some none else some (s[next - 1]?)

/-- `Sparse::collect_one` -/
def aggOne (s mapping : List Nat) (i : Nat) : Option (Option Nat) := aggFormula s mapping i

/-- `Sparse::try_fold`: one sorted read of the group ends, then a slot table into the values read -/
def aggRange (s mapping : List Nat) (from_ to : Nat) : R (List (Option Nat)) :=
  let to := min to mapping.length
  if from_ ≥ to then .ok [] else
  let slots : List (Option Nat) × List Nat := (List.range (to - from_)).foldl (fun acc k =>
    let i := from_ + k
    let cur := mapping.getD i 0
    let next := if i + 1 < mapping.length then mapping.getD (i + 1) 0 else s.length
    if next = 0 ∨ cur ≥ next then (acc.1 ++ [none], acc.2)
    else (acc.1 ++ [some acc.2.length], acc.2 ++ [next - 1])) ([], [])
  let values := readSorted s slots.2
  slots.1.foldl (fun (acc : R (List (Option Nat))) sl =>
    match acc with
    | .panic => .panic
    | .ok l =>
      match sl with
      | none => .ok (l ++ [none])
      | some vi => match values[vi]? with
        | some v => .ok (l ++ [some v])
        | none => .panic) (.ok [])

end AnyDB.Lazy
