/-!
# M8 — EagerVec computations (vecdb/src/variants/eager/*, traits/writable.rs)

Two layers:

* `spec m w f srcs` — the *defining formula* of each exact `compute_*` method, written without any
  running state (what a from-scratch evaluation over the sources' current contents yields);
  the driver prints it and the harness compares it with the implementation's incremental result;
* `batchScan` / `runBatches` — the *incremental algorithm* of the accumulator families
  (`compute_cumulative*`, `compute_all_time_high`, `compute_cumulative_count*`, …): one invocation
  of the closure handed to `compute_init` resumes from the LAST STORED OUTPUT, processes at most
  `cap` elements (`batch_end`), and `repeat_until_complete` iterates it.  `Props/C06.lean` proves
  incremental = spec for every batch capacity, resume point and history.

Values are `Nat` (the harness uses `usize` vectors with small values: no overflow).
Core Lean only.
-/
namespace AnyDB.Compute

/-! ## accumulator families -/

/-- running fold: `[f acc x0, f (f acc x0) x1, …]` -/
def scanF (f : Nat → Nat → Nat) (acc : Nat) : List Nat → List Nat
  | [] => []
  | x :: xs => f acc x :: scanF f (f acc x) xs

/-- one invocation of the batch closure of an accumulator family: resume from the last stored
    output (or `init` when nothing is stored), process `[skip, min (skip+cap) len)` -/
def batchScan (f : Nat → Nat → Nat) (init cap : Nat) (src out : List Nat) : List Nat :=
  let skip := out.length
  let stop := min (skip + cap) src.length
  if skip ≥ stop then out
  else
    let start : Nat := if skip > 0 then out.getD (skip - 1) init else init
    out ++ scanF f start ((src.drop skip).take (stop - skip))

/-- `repeat_until_complete`: iterate the batch closure until it adds nothing -/
def runBatches (batch : List Nat → List Nat) : Nat → List Nat → List Nat
  | 0, out => out
  | fuel + 1, out =>
    let out' := batch out
    if out'.length = out.length then out' else runBatches batch fuel out'

/-- `compute_init`: a changed version discards everything, then truncate to `maxFrom`, then run -/
def computeInit (versionChanged : Bool) (maxFrom : Nat) (old : List Nat) : List Nat :=
  (if versionChanged then [] else old).take maxFrom

/-! ## defining formulas -/

def zip2 (f : Nat → Nat → Nat) : List Nat → List Nat → List Nat
  | a :: as, b :: bs => f a b :: zip2 f as bs
  | _, _ => []

def windowLo (i w : Nat) : Nat := min i (if i ≥ w then i - w + 1 else 0)

def slice (l : List Nat) (lo hi : Nat) : List Nat := (l.drop lo).take (hi - lo)   -- [lo, hi)

def sumL (l : List Nat) : Nat := l.foldl (· + ·) 0
def maxL (l : List Nat) : Nat := l.foldl max 0
def minL : List Nat → Nat
  | [] => 0
  | x :: xs => xs.foldl min x
def countP (p : Nat → Bool) (l : List Nat) : Nat := (l.filter p).length

def even (n : Nat) : Bool := n % 2 == 0
def mod3 (n : Nat) : Bool := n % 3 == 0

/-- the all-time-low family keeps `prev` (first element at index 0) -/
def scanLow : Option Nat → List Nat → List Nat
  | _, [] => []
  | none, x :: xs => x :: scanLow (some x) xs
  | some p, x :: xs => min p x :: scanLow (some (min p x)) xs

/-- `compute_all_time_low_(exclude_default = true)`, evaluated from scratch: the state keeps the
    last non-default candidate -/
def scanLowExcl : Option Nat → List Nat → List Nat
  | _, [] => []
  | st, x :: xs =>
    let prev := st.getD x
    let extreme := min prev x
    let next := if extreme != 0 then extreme else if x != 0 then x else prev
    extreme :: scanLowExcl (some next) xs

def getS (srcs : List (List Nat)) (k : Nat) : List Nat := srcs.getD k []

/-- from-scratch result of method `m` with window `w`, start index `f` over the sources -/
def spec (m : String) (w f : Nat) (srcs : List (List Nat)) : Option (List Nat) :=
  let a := getS srcs 0
  let b := getS srcs 1
  let c := getS srcs 2
  let d := getS srcs 3
  let idx := List.range a.length
  match m with
  | "to" => some (idx.map (fun i => i * 3 + 1))
  | "transform" => some (a.map (fun x => x * 2 + 1))
  | "add" => some (zip2 (· + ·) a b)
  | "subtract" => some (zip2 (· - ·) a b)
  | "multiply" => some (zip2 (· * ·) a b)
  | "divide" => some (zip2 (· / ·) a b)
  | "transform3" => some (zip2 (· + ·) (zip2 (fun x y => x + 2 * y) a b) (c.map (3 * ·)) )
  | "transform4" => some (zip2 (· + ·) (zip2 (· + ·) a (zip2 (· * ·) b c)) d)
  | "cumulative" => some (scanF (· + ·) 0 a)
  | "cumulative_binary" => some (scanF (· + ·) 0 (zip2 (· + ·) a b))
  | "cumulative_tbinary" => some (scanF (· + ·) 0 (zip2 (fun x y => x * y + 1) a b))
  | "cumulative_count" => some (scanF (fun acc x => if even x then acc + 1 else acc) 0 a)
  | "cumulative_count_from" =>
    some (idx.map (fun i => countP mod3 (slice a f (i + 1))))
  | "rolling_count" =>
    some (idx.map (fun i => if w = 0 then 0 else countP even (slice a (i + 1 - min w (i + 1)) (i + 1))))
  | "change" => some (idx.map (fun i => if i < w then 0 else a.getD i 0 - a.getD (i - w) 0))
  | "max" => some (idx.map (fun i => maxL (slice a (windowLo i w) (i + 1))))
  | "min" => some (idx.map (fun i => minL (slice a (windowLo i w) (i + 1))))
  | "sum" => some (idx.map (fun i => sumL (slice a (i + 1 - min w (i + 1)) (i + 1))))
  | "rolling_sum" =>
    some ((List.range (min a.length b.length)).map (fun i => sumL (slice b (a.getD i 0) (i + 1))))
  | "rolling_max_from_starts" =>
    some ((List.range (min a.length b.length)).map (fun i => maxL (slice b (min (a.getD i 0) i) (i + 1))))
  | "rolling_min_from_starts" =>
    some ((List.range (min a.length b.length)).map (fun i => minL (slice b (min (a.getD i 0) i) (i + 1))))
  | "all_time_high" => some (scanF max 0 a)
  | "all_time_low" => some (scanLow none a)
  | "all_time_low_excl" => some (scanLowExcl none a)
  | "all_time_high_from" => some (idx.map (fun i => maxL (slice a f (i + 1))))
  | "all_time_low_from" => some (idx.map (fun i => if i ≥ f then 0 else 0))
  | "lookback" => some ((List.range (min a.length b.length)).map (fun i => b.getD (a.getD i 0) 0))
  | "sum_of_others" => some (zip2 (· + ·) (zip2 (· + ·) a b) c)
  | "min_of_others" => some (zip2 min (zip2 min a b) c)
  | "max_of_others" => some (zip2 max (zip2 max a b) c)
  | "count_from_indexes" =>
    some (idx.map (fun i => (if i + 1 < a.length then a.getD (i + 1) 0 else b.length) - a.getD i 0))
  | "indirect_sequential" => some (a.map (fun k => b.getD k 0))
  | _ => none

end AnyDB.Compute
