import AnyDB.Model.Codec
import AnyDB.Generated.VecConsts

/-!
# M11 — import of a stored vector (vecdb `import_with` / `forced_import_with`, `ReadWriteBaseVec::import`,
`HeaderInner::import_and_verify`)

`Stored` is what the data region holds (nothing, or a header with its effective version and
format, plus the element count); a request names the entry point, the user version and the format.
The layer constants (`VERSION` of the raw and of the compressed layer) are the source's.
Core Lean only.
-/
namespace AnyDB.Import
open Codec

inductive Entry | plain | forced
deriving DecidableEq, Repr, Inhabited

def isRaw : Format → Bool
  | .bytes | .zeroCopy => true
  | _ => false

/-- `const VERSION` of the layer implementing the format (raw: `Version::ONE`, compressed: `Version::new(3)`) -/
def layerVersion (f : Format) : Nat := if isRaw f then Gen.RAW_LAYER_VERSION else Gen.COMPRESSED_LAYER_VERSION

/-- how often the layer version is added on the plain path / in total on the forced path (extracted) -/
def plainAdds (f : Format) : Nat := if isRaw f then Gen.rawPlainAdds else Gen.compPlainAdds
def forcedAdds (f : Format) : Nat := (if isRaw f then Gen.rawForcedAdds else Gen.compForcedAdds) + plainAdds f

/-- the version `import_and_verify` compares with the stored one: `import_with` adds the layer
    version once, `forced_import_with` adds it and then calls `import_with`, which adds it again -/
def effectiveVersion (e : Entry) (f : Format) (user : Nat) : Nat :=
  match e with
  | .plain => user + plainAdds f * layerVersion f
  | .forced => user + forcedAdds f * layerVersion f

structure Stored where
  version : Nat
  format : Format
  len : Nat
  /-- the data region's length is not `header + k·size_of(T)` (stray bytes): raw formats refuse with `CorruptedRegion` -/
  corrupt : Bool := false
deriving DecidableEq, Repr, Inhabited

inductive Outcome
  | kept (len : Nat)          -- the stored contents are returned
  | fresh                     -- nothing was stored: a new empty vector
  | discarded                 -- the stored data was removed, an empty vector is returned
  | errVersion | errFormat    -- refused, data untouched
  | errCorrupt                -- header matches but the region length is impossible: refused, data untouched
deriving DecidableEq, Repr, Inhabited

inductive VerifyErr | differentVersion | differentFormat
deriving DecidableEq, Repr, Inhabited

/-- `HeaderInner::import_and_verify` (header version is a constant and always matches) -/
def verify (s : Stored) (version : Nat) (f : Format) : Except VerifyErr Unit :=
  if s.version ≠ version then .error .differentVersion
  else if s.format ≠ f then .error .differentFormat
  else .ok ()

/-- one import: outcome and what is stored afterwards -/
def importVec (stored : Option Stored) (e : Entry) (user : Nat) (f : Format) : Outcome × Option Stored :=
  let v := effectiveVersion e f user
  match stored with
  | none => (.fresh, some { version := v, format := f, len := 0 })
  | some s =>
    match verify s v f with
    | .ok _ => if s.corrupt && isRaw f then (.errCorrupt, some s) else (.kept s.len, some s)
    | .error err =>
      match e with
      | .plain => ((match err with | .differentVersion => .errVersion | .differentFormat => .errFormat), some s)
      | .forced => (.discarded, some { version := v, format := f, len := 0 })

end AnyDB.Import
