import AnyDB.Generated.Orders

/-!
# M11b — opening a database directory (rawdb `Database::open_with_min_len`, `Regions::open`)

A directory holds two files, each with one exclusive advisory lock (held by an open file
description until it is closed).  An open attempt is the EXTRACTED sequence of file effects of
`open_with_min_len` (`Gen.openOrder`), with `regionsOpen` expanded to the extracted sequence of
`Regions::open` (`Gen.regionsOpenOrder`), interpreted over this tiny file system.
Core Lean only.
-/
namespace AnyDB.OpenLock
open Gen

structure FileS where
  len : Nat
  ver : Nat              -- content token: what the last holder flushed (0 = nothing yet)
  locked : Bool          -- by a live open file description of another opener
deriving DecidableEq, Repr

structure Fs where
  data : FileS
  regions : FileS
deriving DecidableEq, Repr

inductive Res | opened | tryLockError
deriving DecidableEq, Repr

/-- the effects of one attempt, each tagged with the file it acts on (`true` = data file) -/
def effects : List (Bool × String) :=
  openOrder.flatMap (fun e => if e == "regionsOpen" then regionsOpenOrder.map (fun x => (false, x)) else [(true, e)])

def effect (fs : Fs) (minLen : Nat) (e : Bool × String) : Except Res Fs :=
  let f := if e.1 then fs.data else fs.regions
  let put (f' : FileS) : Fs := if e.1 then { fs with data := f' } else { fs with regions := f' }
  if e.2 == "openTruncateTrue" then .ok (put { f with len := 0, ver := 0 })          -- would destroy the holder's data
  else if e.2 == "tryLock" then (if f.locked then .error .tryLockError else .ok (put { f with locked := true }))
  else if e.2 == "setLen" then .ok (put { f with len := max f.len minLen })
  else .ok fs        -- createDirAll, openCreate (existing file), openTruncateFalse, syncAll, createMmap, fill, layoutFrom

def runEffects (fs : Fs) (minLen : Nat) : List (Bool × String) → Fs × Res
  | [] => (fs, .opened)
  | e :: rest =>
    match effect fs minLen e with
    | .error r => (fs, r)
    | .ok fs' => runEffects fs' minLen rest

/-- one open attempt on the directory -/
def openAttempt (fs : Fs) (minLen : Nat) : Fs × Res := runEffects fs minLen effects

/-! ## histories of opens, references and drops on one directory -/

/-- the directory plus the number of strong references (handles, clones, readers, region-derived
database references) that keep the current holder's `DatabaseInner` — and with it both locked file
descriptions — alive -/
structure Dir where
  fs : Fs
  holders : Nat
deriving DecidableEq, Repr

def Dir.init : Dir := { fs := { data := { len := 0, ver := 0, locked := false }, regions := { len := 0, ver := 0, locked := false } }, holders := 0 }

inductive Op
  | openKeep (minLen : Nat)     -- an opener that keeps the Database if it gets one
  | probe (minLen : Nat)        -- an opener (thread or process) that drops it again at once
  | addRef                      -- clone / reader / region.db() of the holder
  | dropRef                     -- one of them goes away
  | touch (v : Nat)             -- the holder writes `v` into its region and flushes
deriving DecidableEq, Repr

inductive Out
  | opened (sees : Nat) | refused | ok | na
deriving DecidableEq, Repr

def unlock (fs : Fs) : Fs := { data := { fs.data with locked := false }, regions := { fs.regions with locked := false } }

/-- file growth of `Database::set_min_len` for the holder's one-page region -/
def growFor (len need : Nat) : Nat :=
  if len ≥ need then len else max (max need (len * 2)) 1048576

def step (d : Dir) : Op → Dir × Out
  | .openKeep m =>
    match openAttempt d.fs m with
    | (fs', .opened) => ({ fs := fs', holders := 1 }, .opened fs'.data.ver)
    | (fs', .tryLockError) => ({ d with fs := fs' }, .refused)
  | .probe m =>
    match openAttempt d.fs m with
    | (fs', .opened) => ({ d with fs := unlock fs' }, .opened fs'.data.ver)
    | (fs', .tryLockError) => ({ d with fs := fs' }, .refused)
  | .addRef => if d.holders > 0 then ({ d with holders := d.holders + 1 }, .ok) else (d, .na)
  | .dropRef =>
    if d.holders = 0 then (d, .na)
    else if d.holders = 1 then ({ fs := unlock d.fs, holders := 0 }, .ok)
    else ({ d with holders := d.holders - 1 }, .ok)
  | .touch v =>
    if d.holders > 0 then
      ({ d with fs := { d.fs with data := { d.fs.data with ver := v, len := growFor d.fs.data.len 4096 } } }, .ok)
    else (d, .na)

def run (d : Dir) : List Op → Dir
  | [] => d
  | o :: os => run (step d o).1 os

end AnyDB.OpenLock
