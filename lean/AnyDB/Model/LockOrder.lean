import AnyDB.Lemmas.Locks

/-!
# M4 — the lock order of rawdb + vecdb and the executable per-trace check

Lock classes are the types protected by the `RwLock`/`Mutex` values of the two crates (reported by the
guarded lock shim as `type_name` of the protected value).  `rank` is the order every acquisition
trace of every public operation has to respect: a lock may be requested only while every lock held
ranks strictly below it (so two instances of one class are never held together either).

The order extends the one documented in the source (`layout → regions`, `regions -> metadata`) by the
file-level locks and by vecdb's page index and header locks; it is the unique linear order compatible
with all traces recorded on the repaired tree except the two reader edges of finding F13.
-/
namespace AnyDB.LockOrder
open Locks

def rank : String → Option Nat
  | "ExitLock" => some 0
  | "BgTasks" => some 1
  | "BgSync" => some 2
  | "HeaderInner" => some 3
  | "Pages" => some 4
  | "Layout" => some 5
  | "Regions" => some 6
  | "MmapMut" => some 7
  | "File" => some 8
  | "RegionMetadata" => some 9
  | "DirtyBounds" => some 10
  | _ => none

inductive TEv
  | acq (cls : String) (inst : Nat) (write : Bool)
  | rel (cls : String) (inst : Nat)
deriving Repr, DecidableEq

inductive Verdict
  | ok
  | violation (held req : String)
  | unknownClass (c : String)
  | leftHeld (c : String)
  | badRelease (c : String)
deriving Repr, DecidableEq

/-- walk a trace with the stack of held `(class, instance)` -/
def checkFrom : List (String × Nat) → List TEv → Verdict
  | [], [] => .ok
  | (c, _) :: _, [] => .leftHeld c
  | held, .acq c i _ :: rest =>
    match rank c with
    | none => .unknownClass c
    | some r =>
      match held.find? (fun h => match rank h.1 with | some rh => decide (rh ≥ r) | none => true) with
      | some h => .violation h.1 c
      | none => checkFrom ((c, i) :: held) rest
  | held, .rel c i :: rest =>
    if held.any (fun h => h.1 == c && h.2 == i) then checkFrom (held.filter (fun h => !(h.1 == c && h.2 == i))) rest
    else .badRelease c

def respectsOrder (tr : List TEv) : Bool := checkFrom [] tr == .ok

/-- the abstract program of a trace: lock = rank of its class (instances of a class are merged: coarser
    locks only add blocking, so progress of the abstract system implies progress of the real one) -/
def progOf : List TEv → List Act
  | [] => []
  | .acq c _ w :: rest => Act.acq ((rank c).getD 0) (if w then Mode.W else Mode.R) :: progOf rest
  | .rel c _ :: rest => Act.rel ((rank c).getD 0) :: progOf rest

end AnyDB.LockOrder
