import AnyDB.Model.Vec

/-!
# M7 — read paths (vecdb/src/traits/readable.rs, cursor.rs, variants/*/readable.rs, sources/*)

The arithmetic of the read paths, transliterated over the logical element lists of M5/M6:

* `rawCleanRead`   — `ReadWriteRawVec::read_into_at` / `fold_range_at` on a vector without overlay:
                      clamp both ends to `len`, stored part `[from, min to stored)`, then the buffered
                      part `pushed[max from stored - stored, min (to - stored) |pushed|)`;
* `pagesRead`      — `read_stored_pages_into`: for every page touched, `local_from = from -. page_start`,
                      `local_to = min (to - page_start) values`, slices appended in page order;
* `cursorGet`      — `Cursor::get` → `ensure_buffered_at`: refill aligned to the chunk size, answer
                      `buf[at - aligned]`;
* `dirtyRead`      — `fold_dirty` (merged iteration over deleted slots, overlay and disk, then the
                      buffered part) as repaired by the two `fix:` commits of C08.
Core Lean only.
-/
namespace AnyDB.ReadPaths
open VecM

/-- raw vector without deleted or updated slots -/
def rawCleanRead (disk pushed : List Nat) (stored from_ to : Nat) : List Nat :=
  let len := stored + pushed.length
  let from_ := min from_ len
  let to := min to len
  if from_ ≥ to then []
  else
    let a := if from_ < stored then (disk.drop from_).take (min to stored - from_) else []
    let b := if to > stored then
        let start := max from_ stored - stored
        let stop := min (to - stored) pushed.length
        (pushed.drop start).take (stop - start)
      else []
    a ++ b

/-- compressed: pages of `pp` values each (the last may be shorter), range inside the stored part -/
def pagesRead (pages : List (List Nat)) (pp from_ to : Nat) : List Nat :=
  if from_ ≥ to then [] else
  let startPage := from_ / pp
  let endPage := (to - 1) / pp
  (List.range (endPage + 1 - startPage)).flatMap (fun k =>
    let pi := startPage + k
    let page := pages.getD pi []
    let pageStart := pi * pp
    let localFrom := from_ - pageStart
    let localTo := min (to - pageStart) page.length
    (page.drop localFrom).take (localTo - localFrom))

/-- `Cursor::get(at)` over a hole-free source of `l.length` elements with chunk size `chunk` -/
def cursorGet (l : List Nat) (chunk at_ : Nat) : Option Nat :=
  if at_ ≥ l.length then none
  else
    let aligned := (at_ / chunk) * chunk
    let stop := min (aligned + chunk) l.length
    let buf := (l.drop aligned).take (stop - aligned)
    if buf.isEmpty then none else buf[at_ - aligned]?

/-- `fold_dirty` over the stored part: `i` runs over `[i, i+n)`, `hs` / `us` are what is left of the
    hole and overlay iterators (both ascending) -/
def dirtyStored (disk : List Nat) : Nat → Nat → List Nat → List (Nat × Nat) → List Nat
  | _, 0, _, _ => []
  | i, n + 1, hs, us =>
    match hs with
    | h :: hs' =>
      if h = i then
        -- deleted: skip, and keep the overlay in step (fix: F25)
        let us' := match us with
          | (k, v) :: u' => if k = i then u' else (k, v) :: u'
          | [] => []
        dirtyStored disk (i + 1) n hs' us'
      else
        match us with
        | (k, v) :: u' => if k = i then v :: dirtyStored disk (i + 1) n (h :: hs') u'
                          else disk.getD i garbage :: dirtyStored disk (i + 1) n (h :: hs') ((k, v) :: u')
        | [] => disk.getD i garbage :: dirtyStored disk (i + 1) n (h :: hs') []
    | [] =>
      match us with
      | (k, v) :: u' => if k = i then v :: dirtyStored disk (i + 1) n [] u'
                        else disk.getD i garbage :: dirtyStored disk (i + 1) n [] ((k, v) :: u')
      | [] => disk.getD i garbage :: dirtyStored disk (i + 1) n [] []

end AnyDB.ReadPaths
