/-!
# M9 — one writer appending to a raw vector, readers reading through clones / VecReader (C09)

Small-step model at the granularity of the writer's internal effects:

* in place  : `copy` (data bytes stored beyond the region length), `setLen` (region metadata),
              `publish` (SharedLen, Release store);
* relocating: `relocCopy` (old contents copied to the new extent), `copy` (batch stored there),
              `move` (start and length of the region switched under ONE metadata write lock),
              `publish`.

The two programs are not written here: `Props/C09.lean` assembles them from the call orders that
`tools/extract_vec.py` / `tools/extract.py` read off the source (`Gen.rawVecWriteOrder`,
`Gen.wwFitsOrder`, `Gen.wwRelocateOrder`), so a reordering in the source changes the program.

A reader first loads the shared length (`rLoad`, Acquire), then creates the rawdb `Reader`
(`rSnap`: placement and region length under the metadata read lock), then reads elements (`rRead i`)
from the extent it snapshotted.  Extents are addressed by a placement number: a relocation switches
to a fresh placement and never touches an old one (until a flush frees it — that is C10's concern).
Core Lean only.
-/
namespace AnyDB.Publish

inductive Eff | copy | setLen | relocCopy | move | publish
deriving DecidableEq, Repr

structure Sys where
  ext : Nat → List Nat     -- element slots of every placement (slots beyond the region length included)
  cur : Nat                -- current placement  (metadata `start`)
  rlen : Nat               -- region length in elements (metadata `len`)
  pub : Nat                -- SharedLen
  seq : List Nat           -- ghost: the writer's sequence, as far as it has been stored anywhere
  prog : List Eff          -- what is left of the running `write()`; `[]` = no write in progress
  batch : List Nat
  reloc : Bool
  rL : Option Nat          -- reader: the length it loaded
  rP : Option (Nat × Nat)  -- reader: placement and region length of its rawdb Reader

def Sys.init : Sys :=
  { ext := fun _ => [], cur := 0, rlen := 0, pub := 0, seq := [], prog := [], batch := [], reloc := false, rL := none, rP := none }

def setExt (f : Nat → List Nat) (p : Nat) (l : List Nat) : Nat → List Nat := fun q => if q = p then l else f q

inductive Act
  | wStart (b : List Nat) (reloc : Bool) (prog : List Eff)   -- the writer takes a batch and one of the two programs
  | wStep                                                    -- the writer performs its next effect
  | rLoad | rSnap | rRead (i : Nat) | rDone
deriving Repr

/-- target placement of the data of the running write -/
def Sys.target (s : Sys) : Nat := if s.reloc then s.cur + 1 else s.cur

def eff (s : Sys) : Eff → Sys
  | .relocCopy => { s with ext := setExt s.ext (s.cur + 1) ((s.ext s.cur).take s.pub) }
  | .copy => { s with ext := setExt s.ext s.target ((s.ext s.target).take s.pub ++ s.batch), seq := s.seq.take s.pub ++ s.batch }
  | .setLen => { s with rlen := s.pub + s.batch.length }
  | .move => { s with cur := s.cur + 1, rlen := s.pub + s.batch.length, reloc := false }
  | .publish => { s with pub := s.pub + s.batch.length }

/-- one step of the system; the second component is what a reader's `rRead` returned -/
def step (s : Sys) : Act → Sys × Option (Option Nat)
  | .wStart b r p => if s.prog = [] ∧ b ≠ [] then ({ s with prog := p, batch := b, reloc := r }, none) else (s, none)
  | .wStep => match s.prog with
    | [] => (s, none)
    | e :: rest => ({ eff s e with prog := rest }, none)
  | .rLoad => ({ s with rL := some s.pub, rP := none }, none)
  | .rSnap => match s.rL with
    | some _ => ({ s with rP := some (s.cur, s.rlen) }, none)
    | none => (s, none)
  | .rRead i => match s.rL, s.rP with
    | some l, some (p, _) => if i < l then (s, some ((s.ext p)[i]?)) else (s, some none)
    | _, _ => (s, none)
  | .rDone => ({ s with rL := none, rP := none }, none)

def run (s : Sys) : List Act → Sys
  | [] => s
  | a :: as => run (step s a).1 as

end AnyDB.Publish
