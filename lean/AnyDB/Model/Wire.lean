/-!
# Wire helpers shared by every driver sub-protocol (hex, filler bytes, FNV-1a, number parsing).
Core Lean only.
-/
namespace AnyDB.Wire

def hexVal (c : Char) : Option Nat :=
  if '0' ≤ c ∧ c ≤ '9' then some (c.toNat - '0'.toNat)
  else if 'a' ≤ c ∧ c ≤ 'f' then some (c.toNat - 'a'.toNat + 10)
  else none

def unhexBytes : List Char → Option (List UInt8)
  | [] => some []
  | [_] => none
  | a :: b :: t =>
    match hexVal a, hexVal b, unhexBytes t with
    | some x, some y, some r => some (UInt8.ofNat (x * 16 + y) :: r)
    | _, _, _ => none

def hexDigit (n : Nat) : Char := if n < 10 then Char.ofNat (48 + n) else Char.ofNat (87 + n)

def hexBytes (bs : List UInt8) : String :=
  String.ofList (bs.flatMap (fun b => [hexDigit (b.toNat / 16), hexDigit (b.toNat % 16)]))

/-- "-" encodes the empty byte string -/
def unhex (s : String) : Option (List UInt8) :=
  if s == "-" then some [] else unhexBytes s.toList

def unhexString (s : String) : Option String :=
  match unhex s with
  | some bs => String.fromUTF8? (ByteArray.mk bs.toArray)
  | none => none

def hexString (s : String) : String :=
  if s.isEmpty then "-" else hexBytes s.toUTF8.toList

/-- deterministic filler: byte `i` of the payload with the given seed -/
def fillerByte (seed i : Nat) : UInt8 := UInt8.ofNat ((seed * 7 + i * 13 + i / 256) % 256)
def filler (n seed : Nat) : List UInt8 := (List.range n).map (fillerByte seed)

def fnvStep (h : UInt64) (b : UInt8) : UInt64 := (h ^^^ b.toUInt64) * 0x100000001b3
def fnvInit : UInt64 := 0xcbf29ce484222325
def fnvList (bs : List UInt8) : UInt64 := bs.foldl fnvStep fnvInit
def fnvArrayRange (a : Array UInt8) (off len : Nat) : UInt64 := Id.run do
  let mut h := fnvInit
  for i in [off : off + len] do
    h := fnvStep h (a.getD i 0)
  return h

def words (line : String) : List String :=
  (line.trimAscii.toString.splitOn " ").filter (· ≠ "")

end AnyDB.Wire
