/-!
# M1 — the data file as the memory map shows it

`Mem` is the byte image of the `data` file (rawdb/src/mmap.rs, `Database::{write,copy}`,
`set_min_len` growth, hole punching).  All functions are total; the assertion of
`write_to_mmap` (`end <= mmap.len()`) is the `none` result of `writeAt`.
Core Lean only (this file is linked into the native driver).
-/
namespace AnyDB

structure Mem where
  bytes : Array UInt8

namespace Mem

def size (m : Mem) : Nat := m.bytes.size
def get? (m : Mem) (i : Nat) : Option UInt8 := m.bytes[i]?

def writeList (a : Array UInt8) (off : Nat) : List UInt8 → Array UInt8
  | [] => a
  | b :: bs => writeList (a.setIfInBounds off b) (off + 1) bs

/-- `write_to_mmap`: asserts `off + len ≤ size` (none = the assertion fails ⇒ panic) -/
def writeAt (m : Mem) (off : Nat) (d : List UInt8) : Option Mem :=
  if off + d.length ≤ m.size then some ⟨writeList m.bytes off d⟩ else none

/-- bytes `[off, off+len)`; positions beyond the file read as nothing (the slice would panic:
    callers check `off + len ≤ size` first where the code does) -/
def slice (m : Mem) (off len : Nat) : List UInt8 := (m.bytes.extract off (off + len)).toList

/-- `set_len` growth: the file is extended with zeros (sparse) -/
def grow (m : Mem) (n : Nat) : Mem := ⟨m.bytes ++ Array.replicate (n - m.size) 0⟩

/-- `fallocate(PUNCH_HOLE|KEEP_SIZE)`: the range reads back as zeros, length unchanged -/
def punch (m : Mem) (off len : Nat) : Mem :=
  ⟨writeList m.bytes off (List.replicate (min len (m.size - off)) 0)⟩

def empty : Mem := ⟨#[]⟩

end Mem
end AnyDB
