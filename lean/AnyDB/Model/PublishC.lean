/-!
# M9c — one writer appending to a compressed vector, readers reading through read-only clones (C09)

The data region is seen page by page (`Cell`: encoding and decoded content of the bytes at one page position),
the shared page index entry by entry (`Ent`).  The writer's `write()` is the extracted effect sequence
`dataWrite, lockIndex, indexUpdate, publish, unlockIndex` (`Props/C09.lean` pins it to `Gen.compWriteFastOrder`
/ `Gen.compWriteSlowOrder`); a reader loads the shared length, takes the index read lock, and decodes the pages
its index names.  Three kinds of write: new pages behind the last one (`append`), raw bytes behind the raw tail
page (`extendTail`, the fast path), and the slow path over a partial tail page, which OVERWRITES that page's bytes
before it takes the index lock (`rewriteTail`).  Core Lean only.
-/
namespace AnyDB.PublishC

/-- what lies in the data region at the position of one page -/
structure Cell where
  raw : Bool
  vals : List Nat
deriving DecidableEq, Repr

/-- a page-index entry; `vals` is ghost: the content that was indexed -/
structure Ent where
  raw : Bool
  count : Nat
  vals : List Nat
deriving DecidableEq, Repr

def entOf (c : Cell) : Ent := { raw := c.raw, count := c.vals.length, vals := c.vals }

/-- decoding the bytes at a page position through an index entry: the encoding must be the one the entry
names and must hold at least the values the entry counts; anything else decodes to garbage -/
def readCell (c : Cell) (e : Ent) : Option (List Nat) :=
  if c.raw = e.raw ∧ (if c.raw then e.count ≤ c.vals.length else e.count = c.vals.length) then some (c.vals.take e.count) else none

inductive WKind
  | append (cells : List Cell)        -- the stored length is on a page boundary: new pages after the last one
  | extendTail (b : List Nat)         -- fast path: raw bytes appended to the raw tail page
  | rewriteTail (cells : List Cell)   -- slow path over a partial tail page: its bytes are overwritten
deriving Repr

inductive Eff | dataWrite | lockIndex | indexUpdate | publish | unlockIndex
deriving DecidableEq, Repr

structure Sys where
  phys : List Cell
  index : List Ent
  pub : Nat
  seq : List Nat
  prog : List Eff
  kind : WKind
  wLocked : Bool
  rLocked : Bool
  rL : Option Nat
  rIdx : Option (List Ent)

def Sys.init : Sys :=
  { phys := [], index := [], pub := 0, seq := [], prog := [], kind := .append [], wLocked := false, rLocked := false, rL := none, rIdx := none }

def flat (cs : List Cell) : List Nat := cs.flatMap (·.vals)
def flatE (es : List Ent) : List Nat := es.flatMap (·.vals)
def tailVals (phys : List Cell) : List Nat := match phys.getLast? with | some c => c.vals | none => []

def physAfter (phys : List Cell) : WKind → List Cell
  | .append cs => phys ++ cs
  | .extendTail b => phys.dropLast ++ [{ raw := true, vals := tailVals phys ++ b }]
  | .rewriteTail cs => phys.dropLast ++ cs

def newVals (phys : List Cell) : WKind → List Nat
  | .append cs => flat cs
  | .extendTail b => b
  | .rewriteTail cs => (flat cs).drop (tailVals phys).length

def indexAfter (phys : List Cell) (index : List Ent) : WKind → List Ent
  | .append cs => index ++ cs.map entOf
  | .extendTail _ => index.dropLast ++ (match phys.getLast? with | some c => [entOf c] | none => [])
  | .rewriteTail cs => index.dropLast ++ cs.map entOf

def eff (s : Sys) : Eff → Sys
  | .dataWrite => { s with phys := physAfter s.phys s.kind, seq := s.seq ++ newVals s.phys s.kind }
  | .lockIndex => { s with wLocked := true }
  | .indexUpdate => { s with index := indexAfter s.phys s.index s.kind }
  | .publish => { s with pub := s.seq.length }
  | .unlockIndex => { s with wLocked := false }

inductive Act
  | wStart (k : WKind) (prog : List Eff)
  | wStep
  | rLoad | rLock | rReadAll | rUnlock
deriving Repr

/-- the whole stored range as a reader sees it through the index it holds -/
def readPages : List Cell → List Ent → Option (List Nat)
  | _, [] => some []
  | [], _ :: _ => none
  | c :: cs, e :: es =>
    match readCell c e, readPages cs es with
    | some v, some r => some (v ++ r)
    | _, _ => none

def readAll (phys : List Cell) (idx : List Ent) (l : Nat) : Option (List Nat) :=
  match readPages phys idx with
  | some vals => if l ≤ vals.length then some (vals.take l) else none
  | none => none

def step (s : Sys) : Act → Sys × Option (Option (List Nat))
  | .wStart k p => if s.prog = [] then ({ s with prog := p, kind := k }, none) else (s, none)
  | .wStep => match s.prog with
    | [] => (s, none)
    | .lockIndex :: rest => if s.rLocked then (s, none) else ({ eff s .lockIndex with prog := rest }, none)   -- blocked by a reader
    | e :: rest => ({ eff s e with prog := rest }, none)
  | .rLoad => if s.rLocked then (s, none) else ({ s with rL := some s.pub, rIdx := none }, none)
  | .rLock => match s.rL with
    | some _ => if s.wLocked ∨ s.rLocked then (s, none) else ({ s with rLocked := true, rIdx := some s.index }, none)   -- blocked by the writer
    | none => (s, none)
  | .rReadAll => match s.rL, s.rIdx with
    | some l, some idx => (s, some (readAll s.phys idx l))
    | _, _ => (s, none)
  | .rUnlock => ({ s with rLocked := false, rIdx := none, rL := none }, none)

def run (s : Sys) : List Act → Sys
  | [] => s
  | a :: as => run (step s a).1 as

def prog : List Eff := [.dataWrite, .lockIndex, .indexUpdate, .publish, .unlockIndex]

end AnyDB.PublishC
