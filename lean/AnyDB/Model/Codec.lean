import AnyDB.Generated.Consts

/-!
# M9 — on-disk codecs (rawdb/src/region_metadata.rs, regions.rs `fill`;
vecdb/src/base/header/inner.rs, base/format/bytes.rs, variants/compressed/inner/page/bytes.rs,
bytes/numeric.rs, bytes/array.rs)

Byte-for-byte models over `List UInt8`.  The field offsets and limits of the metadata slot come
from `Generated/Consts.lean` (regenerated from the Rust source on every run), so an edit to an
offset, a width, `MAX_REGION_ID_LEN` or a guard re-opens the proofs of `Props/C17.lean`.
Core Lean only.
-/
namespace AnyDB.Codec
open Gen

/-! ## little-endian integers (`to_le_bytes` / `from_le_bytes`) -/

def leBytes : Nat → Nat → List UInt8
  | 0, _ => []
  | w + 1, n => UInt8.ofNat (n % 256) :: leBytes w (n / 256)

def leVal : List UInt8 → Nat
  | [] => 0
  | b :: t => b.toNat + 256 * leVal t

/-- `T::from_bytes` for a `w`-byte little-endian integer: the slice must have exactly `w` bytes -/
def decLE (w : Nat) (bs : List UInt8) : Option Nat := if bs.length = w then some (leVal bs) else none

/-- `[u8; n]::from_bytes` -/
def decArray (n : Nat) (bs : List UInt8) : Option (List UInt8) := if bs.length = n then some bs else none

/-! ## UTF-8 (`String::from_utf8`) -/

def cont (b : UInt8) : Bool := 0x80 ≤ b && b ≤ 0xBF

/-- Unicode Table 3-7 (well-formed UTF-8 byte sequences): no overlongs, no surrogates, ≤ U+10FFFF -/
def validUtf8 : List UInt8 → Bool
  | [] => true
  | b0 :: t =>
    if b0 ≤ 0x7F then validUtf8 t
    else if 0xC2 ≤ b0 && b0 ≤ 0xDF then
      match t with
      | b1 :: t' => cont b1 && validUtf8 t'
      | _ => false
    else if 0xE0 ≤ b0 && b0 ≤ 0xEF then
      match t with
      | b1 :: b2 :: t' =>
        (if b0 == 0xE0 then 0xA0 ≤ b1 && b1 ≤ 0xBF
         else if b0 == 0xED then 0x80 ≤ b1 && b1 ≤ 0x9F
         else cont b1) && cont b2 && validUtf8 t'
      | _ => false
    else if 0xF0 ≤ b0 && b0 ≤ 0xF4 then
      match t with
      | b1 :: b2 :: b3 :: t' =>
        (if b0 == 0xF0 then 0x90 ≤ b1 && b1 ≤ 0xBF
         else if b0 == 0xF4 then 0x80 ≤ b1 && b1 ≤ 0x8F
         else cont b1) && cont b2 && cont b3 && validUtf8 t'
      | _ => false
    else false

/-! ## region metadata slot -/

structure Meta where
  start : Nat
  len : Nat
  reserved : Nat
  id : List UInt8
deriving DecidableEq, Repr, Inhabited

inductive MetaErr
  | invalidSize | empty | idLenMax | idLenFits | invalidId | startAlign | reservedMin | reservedAlign | lenExceeds
deriving DecidableEq, Repr, Inhabited

def field (bs : List UInt8) (off w : Nat) : Nat := leVal ((bs.drop off).take w)

/-- `RegionMetadata::to_bytes` -/
def encMeta (m : Meta) : List UInt8 :=
  let fixed := leBytes 8 m.start ++ leBytes 8 m.len ++ leBytes 8 m.reserved ++ leBytes 8 m.id.length ++ m.id
  fixed ++ List.replicate (SIZE_OF_REGION_METADATA - fixed.length) 0

/-- `RegionMetadata::from_bytes`, guard for guard -/
def decMeta (bs : List UInt8) : Except MetaErr Meta :=
  if bs.length ≠ SIZE_OF_REGION_METADATA then .error .invalidSize else
  let start := field bs 0 8
  let len := field bs 8 8
  let reserved := field bs 16 8
  let idLen := field bs 24 8
  if start = 0 ∧ len = 0 ∧ reserved = 0 ∧ idLen = 0 then .error .empty else
  if idLen > MAX_REGION_ID_LEN then .error .idLenMax else
  if metaIdOffset + idLen > SIZE_OF_REGION_METADATA then .error .idLenFits else
  let id := (bs.drop metaIdOffset).take idLen
  if !validUtf8 id then .error .invalidId else
  if start % PAGE_SIZE ≠ 0 then .error .startAlign else
  if reserved < PAGE_SIZE then .error .reservedMin else
  if reserved % PAGE_SIZE ≠ 0 then .error .reservedAlign else
  if len > reserved then .error .lenExceeds else
  .ok { start := start, len := len, reserved := reserved, id := id }

/-- `Regions::fill`: every slot is decoded on its own; a slot that fails is skipped -/
def fill (slots : List (List UInt8)) : List (Option Meta) :=
  slots.map (fun s => match decMeta s with | .ok m => some m | .error _ => none)

/-! ## vector header (32 bytes) -/

inductive Format | bytes | zeroCopy | pco | lz4 | zstd
deriving DecidableEq, Repr, Inhabited

def encFormat : Format → UInt8
  | .bytes => 0 | .zeroCopy => 1 | .pco => 64 | .lz4 => 65 | .zstd => 66

def decFormat (b : UInt8) : Option Format :=
  if b == 0 then some .bytes else if b == 1 then some .zeroCopy else if b == 64 then some .pco
  else if b == 65 then some .lz4 else if b == 66 then some .zstd else none

structure Header where
  headerVersion : Nat
  vecVersion : Nat
  computedVersion : Nat
  stamp : Nat
  format : Format
deriving DecidableEq, Repr, Inhabited

def HEADER_OFFSET : Nat := 32

def encHeader (h : Header) : List UInt8 :=
  leBytes 4 h.headerVersion ++ leBytes 4 h.vecVersion ++ leBytes 4 h.computedVersion ++ leBytes 8 h.stamp
    ++ [encFormat h.format] ++ List.replicate 11 0

inductive HdrErr | wrongLength | invalidFormat
deriving DecidableEq, Repr, Inhabited

def decHeader (bs : List UInt8) : Except HdrErr Header :=
  if bs.length < HEADER_OFFSET then .error .wrongLength else
  match decFormat ((bs.drop 20).headD 0) with
  | none => .error .invalidFormat
  | some f => .ok { headerVersion := field bs 0 4, vecVersion := field bs 4 4, computedVersion := field bs 8 4,
                    stamp := field bs 12 8, format := f }

/-! ## page-index entry (16 bytes) -/

def RAW_FLAG : Nat := 2 ^ 31

structure PageE where
  start : Nat
  bytes : Nat
  values : Nat     -- value count, flag stripped
  raw : Bool
deriving DecidableEq, Repr, Inhabited

def encPage (p : PageE) : List UInt8 :=
  leBytes 8 p.start ++ leBytes 4 p.bytes ++ leBytes 4 (p.values + if p.raw then RAW_FLAG else 0)

def decPage (bs : List UInt8) : Option PageE :=
  if bs.length < 16 then none else
  let v := field bs 12 4
  some { start := field bs 0 8, bytes := field bs 8 4, values := v % RAW_FLAG, raw := decide (v ≥ RAW_FLAG) }

end AnyDB.Codec
