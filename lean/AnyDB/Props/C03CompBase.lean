import AnyDB.Props.C07
namespace AnyDB.C03c
open AnyDB VecM VecM.V C07

/-- what a compressed vector shows: the first `storedLen` decoded values, then the pushed ones -/
def shown (s : V) : List Nat := (pagesValues s.pages).take s.storedLen ++ s.pushed

/-- every page decodes to as many values as its index entry says; every page but the last is full -/
def PagesWF (pp : Nat) : List Page → Prop
  | [] => True
  | [p] => p.content.length = p.values ∧ p.values ≤ pp
  | p :: q :: t => (p.content.length = p.values ∧ p.values = pp) ∧ PagesWF pp (q :: t)

def AllFull (pp : Nat) (l : List Page) : Prop := ∀ p ∈ l, p.content.length = p.values ∧ p.values = pp

theorem wf_cons (pp : Nat) (p : Page) (t : List Page) (h : PagesWF pp (p :: t)) :
    p.content.length = p.values ∧ p.values ≤ pp ∧ (t ≠ [] → p.values = pp) ∧ PagesWF pp t := by
  cases t with
  | nil => exact ⟨h.1, h.2, fun hn => absurd rfl hn, trivial⟩
  | cons q t => exact ⟨h.1.1, by rw [h.1.2]; exact Nat.le_refl _, fun _ => h.1.2, h.2⟩

theorem wf_append_full (pp : Nat) (a b : List Page) (ha : AllFull pp a) (hb : PagesWF pp b) : PagesWF pp (a ++ b) := by
  induction a with
  | nil => exact hb
  | cons p t ih =>
    have iht := ih (fun x hx => ha x (List.mem_cons_of_mem _ hx))
    have hp := ha p (List.mem_cons_self ..)
    cases hl : t ++ b with
    | nil => rw [List.cons_append, hl]; exact ⟨hp.1, by rw [hp.2]; exact Nat.le_refl _⟩
    | cons q r => rw [List.cons_append, hl]; rw [hl] at iht; exact ⟨hp, iht⟩

theorem wf_of_full (pp : Nat) (a : List Page) (ha : AllFull pp a) : PagesWF pp a := by
  have := wf_append_full pp a [] ha trivial
  simpa using this

theorem full_take (pp : Nat) (l : List Page) (k : Nat) (h : PagesWF pp l) (hk : k < l.length) : AllFull pp (l.take k) := by
  induction l generalizing k with
  | nil => simp at hk
  | cons p t ih =>
    cases k with
    | zero => intro x hx; simp at hx
    | succ j =>
      obtain ⟨h1, _, h3, h4⟩ := wf_cons pp p t h
      have hj : j < t.length := by simp at hk; omega
      have hne : t ≠ [] := by intro he; rw [he] at hj; simp at hj
      intro x hx
      simp only [List.take_succ_cons, List.mem_cons] at hx
      rcases hx with rfl | hx
      · exact ⟨h1, h3 hne⟩
      · exact ih j h4 hj x hx

theorem pv_cons (p : Page) (t : List Page) : pagesValues (p :: t) = p.content ++ pagesValues t := by
  simp [pagesValues]
theorem pv_append (a b : List Page) : pagesValues (a ++ b) = pagesValues a ++ pagesValues b := by
  simp [pagesValues]
theorem pv_nil : pagesValues [] = [] := rfl

theorem pv_full_length (pp : Nat) (l : List Page) (h : AllFull pp l) : (pagesValues l).length = l.length * pp := by
  induction l with
  | nil => simp [pagesValues]
  | cons p t ih =>
    have hp := h p (List.mem_cons_self ..)
    rw [pv_cons, List.length_append, ih (fun x hx => h x (List.mem_cons_of_mem _ hx)), hp.1, hp.2, List.length_cons, Nat.add_mul]
    omega

theorem pv_length_le (pp : Nat) (l : List Page) (h : PagesWF pp l) : (pagesValues l).length ≤ l.length * pp := by
  induction l with
  | nil => simp [pagesValues]
  | cons p t ih =>
    obtain ⟨h1, h2, _, h4⟩ := wf_cons pp p t h
    rw [pv_cons, List.length_append, h1, List.length_cons, Nat.add_mul]
    have := ih h4; omega

/-- `Pages::stored_len` is the number of decoded values -/
theorem pagesStoredLen_eq (pp : Nat) (l : List Page) (h : PagesWF pp l) : pagesStoredLen l pp = (pagesValues l).length := by
  induction l with
  | nil => rfl
  | cons p t ih =>
    obtain ⟨h1, h2, h3, h4⟩ := wf_cons pp p t h
    cases t with
    | nil => simp [pagesStoredLen, pagesValues, h1]
    | cons q r =>
      have := ih h4
      have hp := h3 (by simp)
      rw [pv_cons, List.length_append, ← this, h1, hp]
      unfold pagesStoredLen
      simp only [List.getLast?_cons_cons, List.length_cons]
      cases hl : (q :: r).getLast? with
      | none => simp at hl
      | some l => simp only [Nat.add_sub_cancel]; rw [Nat.add_mul]; omega

/-- all pages are full when the decoded length reaches `length · pp` -/
theorem full_of_length (pp : Nat) (l : List Page) (h : PagesWF pp l) (hl : l.length * pp ≤ (pagesValues l).length) : AllFull pp l := by
  induction l with
  | nil => intro x hx; simp at hx
  | cons p t ih =>
    obtain ⟨h1, h2, _, h4⟩ := wf_cons pp p t h
    have ht := pv_length_le pp t h4
    rw [pv_cons, List.length_append, h1, List.length_cons, Nat.add_mul] at hl
    intro x hx
    simp only [List.mem_cons] at hx
    rcases hx with rfl | hx
    · exact ⟨h1, by omega⟩
    · exact ih h4 (by omega) x hx

/-- the decoded values split around page `k` -/
theorem pv_split (l : List Page) (k : Nat) (p : Page) (h : l[k]? = some p) :
    pagesValues l = pagesValues (l.take k) ++ p.content ++ pagesValues (l.drop (k + 1)) := by
  have hk : k < l.length := by rw [List.getElem?_eq_some_iff] at h; exact h.1
  have : l = l.take k ++ p :: l.drop (k + 1) := by
    have hd : l.drop k = p :: l.drop (k + 1) := by
      rw [List.drop_eq_getElem_cons hk]
      rw [List.getElem?_eq_getElem hk] at h; cases h; rfl
    rw [← hd, List.take_append_drop]
  conv => lhs; rw [this]
  rw [pv_append, pv_cons, List.append_assoc]

end AnyDB.C03c
