import AnyDB.Props.C09

/-!
# C09 — the tie to the source: the writer and reader programs of the two models ARE the extracted call orders

Kept apart from `Props/C09.lean` so that only the C09 check depends on these pins (the protocol driver imports the
models and programs, not the pins): a change of the extracted orders breaks exactly these two theorems.
-/
namespace AnyDB.C09
open AnyDB Publish

/-- the two writer programs of the raw model ARE what the extractor read off `Region::write_with` (fits path,
relocation path) followed by what raw `write()` does after `truncate_write`; a reader loads the length before it
creates its rawdb Reader, and `Reader::new` takes start and length under one metadata guard -/
theorem C09_programs :
    Gen.wwFitsOrder.filterMap effInPlace ++ vecTail Gen.rawVecAppendOrder = progInPlace ∧
    Gen.wwRelocateOrder.filterMap effReloc ++ vecTail Gen.rawVecAppendOrder = progReloc ∧
    Gen.rawVecAppendOrder.head? = some "truncateWrite" ∧
    Gen.roRawOneOrder = ["loadLen", "createReader"] ∧ Gen.roRawIntoOrder = ["loadLen", "createReader"] ∧
    Gen.vecReaderOrder = ["lenParam", "createReader"] ∧
    Gen.readerNewOrder = ["meta", "start", "len", "dropMeta", "mmap"] := by
  decide

end AnyDB.C09

namespace AnyDB.PublishC

/-- both paths of compressed `write()` are: data, index lock, index update, publication, unlock — and a read-only
clone loads the length before it takes the index read lock -/
theorem C09_comp_programs :
    Gen.compWriteFastOrder.filterMap effComp = prog ∧ Gen.compWriteSlowOrder.filterMap effComp = prog ∧
    Gen.roCompIntoOrder = ["loadLen", "createReader", "pagesRead"] := by
  decide

end AnyDB.PublishC
