import AnyDB.Props.C16Hist
namespace AnyDB.C16w
open AnyDB VecM VecM.V C03c C04c C07

/-- every entry's record leads from the snapshot above it to the snapshot it left behind; stamps fall strictly -/
def Linked (sz : Nat) : SnapC → List Entry → Prop
  | _, [] => True
  | top, e :: t => top.stamp = e.stamp ∧ FaithfulC e.before top e.ch ∧ parseChange .comp sz e.bytes = .ok e.ch ∧
      e.before.stamp < e.stamp ∧ Linked sz e.before t

/-- the snapshot below all the entries -/
def bottomE : SnapC → List Entry → SnapC
  | top, [] => top
  | _, e :: t => bottomE e.before t

theorem linked_append (sz : Nat) (top : SnapC) (A B : List Entry) (hA : Linked sz top A) (hB : Linked sz (bottomE top A) B) :
    Linked sz top (A ++ B) := by
  induction A generalizing top with
  | nil => exact hB
  | cons e t ih => exact ⟨hA.1, hA.2.1, hA.2.2.1, hA.2.2.2.1, ih e.before hA.2.2.2.2 hB⟩

theorem bottomE_append (top : SnapC) (A B : List Entry) : bottomE top (A ++ B) = bottomE (bottomE top A) B := by
  induction A generalizing top with
  | nil => rfl
  | cons e t ih => exact ih e.before

theorem linked_take (sz : Nat) (top : SnapC) (H : List Entry) (m : Nat) (h : Linked sz top H) : Linked sz top (H.take m) := by
  induction H generalizing top m with
  | nil => simp [Linked]
  | cons e t ih =>
    cases m with
    | zero => simp [Linked]
    | succ j => exact ⟨h.1, h.2.1, h.2.2.1, h.2.2.2.1, ih e.before j h.2.2.2.2⟩

/-- the stamp at the bottom is below every stamp of the chain -/
theorem bottom_lt (sz : Nat) (top : SnapC) (H : List Entry) (h : Linked sz top H) : ∀ e ∈ H, (bottomE top H).stamp < e.stamp := by
  induction H generalizing top with
  | nil => intro e he; cases he
  | cons a t ih =>
    intro e he
    have hle : (bottomE a.before t).stamp ≤ a.before.stamp := by
      cases t with
      | nil => exact Nat.le_refl _
      | cons b u =>
        have := ih a.before h.2.2.2.2 b (List.mem_cons_self ..)
        have h2 := h.2.2.2.2.1
        simp only [bottomE] at this ⊢
        omega
    simp only [List.mem_cons] at he
    rcases he with rfl | he
    · have := h.2.2.2.1; simp only [bottomE]; omega
    · exact ih a.before h.2.2.2.2 e he

/-- the stamps of a chain are pairwise different -/
theorem linked_distinct (sz : Nat) (top : SnapC) (H : List Entry) (h : Linked sz top H) : (H.map Entry.pair).Pairwise (fun a b => a.1 ≠ b.1) := by
  induction H generalizing top with
  | nil => simp
  | cons a t ih =>
    simp only [List.map_cons, List.pairwise_cons]
    refine ⟨?_, ih a.before h.2.2.2.2⟩
    intro x hx
    obtain ⟨e, he, rfl⟩ := List.mem_map.mp hx
    -- every later entry has a stamp at most the stamp left behind by `a`, which is below `a`'s
    have key : ∀ (top' : SnapC) (L : List Entry), Linked sz top' L → ∀ e ∈ L, e.stamp ≤ top'.stamp := by
      intro top' L
      induction L generalizing top' with
      | nil => intro _ e he; cases he
      | cons b u ihu =>
        intro hl e he
        simp only [List.mem_cons] at he
        rcases he with rfl | he
        · rw [hl.1]; exact Nat.le_refl _
        · have := ihu b.before hl.2.2.2.2 e he
          have h1 := hl.2.2.2.1
          rw [hl.1]; omega
    have := key a.before t h.2.2.2.2 e he
    have h1 := h.2.2.2.1
    simp only [Entry.pair]
    omega

theorem find_of_distinct {β : Type} (l : List (Nat × β)) (x : Nat × β) (hd : l.Pairwise (fun a b => a.1 ≠ b.1)) (hx : x ∈ l) :
    l.find? (·.1 == x.1) = some x := by
  induction l with
  | nil => cases hx
  | cons a t ih =>
    simp only [List.pairwise_cons] at hd
    simp only [List.mem_cons] at hx
    rcases hx with rfl | hx
    · simp
    · have hne : a.1 ≠ x.1 := hd.1 x hx
      rw [List.find?_cons_of_neg (by simpa using hne)]
      exact ih hd.2 hx

end AnyDB.C16w
