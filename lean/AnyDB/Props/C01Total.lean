import AnyDB.Lemmas.RegionFine
import AnyDB.Props.C01Reopen
namespace AnyDB.C01r
open AnyDB Conc Db C02r Mem

/-! # C01 / C02 for every well-formed history — no hypothesis about the answers

`C01_history_partial` and the C02 history theorems assume that no request of the history panics or
answers `RegionSizeOverflow`.  Here that assumption is *proved* from conditions on the requests
alone:

* the names given to `create_region` and `rename` are valid (`validate_id` accepts them — the code
  panics otherwise, which is its documented contract), and
* in the **reference** (one independent byte vector per region, `refStep`) no region grows beyond
  `MAX_LEN` = 2^39 bytes (512 GiB; beyond it the doubled reservation would exceed the code's
  `MAX_RESERVED_SIZE` of 1 TiB, where `set_reserved` asserts).

Both are conditions on the list of requests only — `refStep` never looks at the database.  What had
to be shown for this: every extent ends inside the data file (`InF`, `inf_step`), so that no write,
copy or relocation can miss the mapping (`write_to_mmap`'s bounds assertion); the reservation taken
for a relocation is still there when it is claimed (`take_reserved`); the doubling loop ends below
twice the need (`growReserved_lt`) and does find a size (`growReserved_some`).
-/

/-- the write keeps the region at most `MAX_LEN` long (stated on the model state) -/
def WFits (s : Db) (id : RegionId) (at_ : Option Nat) (tr : Bool) (d : List UInt8) : Prop :=
  ∀ idx sl, s.findId id = some idx → s.slot? idx = some sl → Db.outOfBounds at_ sl.md.len = false →
    Db.newLenOf at_ tr sl.md.len d.length ≤ MAX_LEN

def OpFits (s : Db) : Op → Prop
  | .create id => idValid id = true
  | .rename _ n => idValid n = true
  | .write id d => WFits s id none false d
  | .writeAt id a d => WFits s id (some a) false d
  | .truncateWrite id a d => WFits s id (some a) true d
  | _ => True

/-- under the invariants a well-formed request neither panics nor answers `RegionSizeOverflow` -/
theorem fine_step (s : Db) (op : Op) (hinv : RInv s) (hi : InF s) (hno : ∀ n, op ≠ .reopen n) (hfit : OpFits s op) :
    Fine (step s op).2 := by
  cases op with
  | create id => exact create_fine s hinv.lay id hfit
  | write id d => exact withRegion_fine s id _ (fun idx hf => writeWith_fine s hinv hi idx d none false (fun sl hs ho => hfit idx sl hf hs ho))
  | writeAt id a d => exact withRegion_fine s id _ (fun idx hf => writeWith_fine s hinv hi idx d (some a) false (fun sl hs ho => hfit idx sl hf hs ho))
  | truncateWrite id a d => exact withRegion_fine s id _ (fun idx hf => writeWith_fine s hinv hi idx d (some a) true (fun sl hs ho => hfit idx sl hf hs ho))
  | truncate id n => exact withRegion_fine s id _ (fun idx _ => truncate_fine s idx n)
  | rename id n => exact withRegion_fine s id _ (fun idx _ => rename_fine s idx n hfit)
  | remove id => exact removeId_fine s id false
  | removeHeld id => exact removeId_fine s id true
  | retain ids => exact retain_fine s ids
  | flush => exact flush_fine s
  | regionFlush id => exact withRegion_fine s id _ (fun idx _ => regionFlush_fine s idx)
  | compact => exact compact_fine s
  | reopen n => exact absurd rfl (hno n)
  | setMinLen n => exact fine_ok
  | setMinRegions n => exact fine_ok

/-! ## the same conditions, on the requests and the reference only -/

/-- no region of the reference is longer than `MAX_LEN` -/
def Small (r : Ref) : Prop :=
  r.all (fun o => match o with | some e => decide (e.2.length ≤ MAX_LEN) | none => true) = true

theorem small_get (r : Ref) (h : Small r) (idx : Nat) (e : RegionId × List UInt8) (he : r[idx]?.join = some e) : e.2.length ≤ MAX_LEN := by
  unfold Small at h
  rw [List.all_eq_true] at h
  cases hr : r[idx]? with
  | none => simp [hr] at he
  | some o =>
    simp [hr] at he
    have := h o (List.mem_of_getElem? hr)
    rw [he] at this
    simpa using this

/-- the names a request introduces are valid -/
def NamesValid : Op → Prop
  | .create id => idValid id = true
  | .rename _ n => idValid n = true
  | _ => True

/-- a well-formed history: valid names, and the reference never holds a region beyond `MAX_LEN` -/
def OKRun (r : Ref) : List Op → Prop
  | [] => True
  | op :: t => NamesValid op ∧ Small (refStep r op) ∧ OKRun (refStep r op) t

instance (r : Ref) : Decidable (Small r) := by unfold Small; exact inferInstance
instance (op : Op) : Decidable (NamesValid op) := by cases op <;> unfold NamesValid <;> exact inferInstance
def decOKRun : (r : Ref) → (ops : List Op) → Decidable (OKRun r ops)
  | _, [] => isTrue trivial
  | r, op :: t => by
    unfold OKRun
    exact @instDecidableAnd _ _ _ (@instDecidableAnd _ _ _ (decOKRun (refStep r op) t))
instance (r : Ref) (ops : List Op) : Decidable (OKRun r ops) := decOKRun r ops

theorem wfits_of_small (s : Db) (r : Ref) (hrel : Rel s r) (id : RegionId) (at_ : Option Nat) (tr : Bool) (d : List UInt8)
    (hsm : Small (refOn r id (refWriteE at_ tr d))) : WFits s id at_ tr d := by
  intro idx sl hf hs hoob
  obtain ⟨e, he, _, e2, _⟩ := rel_get s r idx sl hrel hs
  have hfind := rel_findId s r hrel id
  rw [refOn_some _ _ _ idx e (by rw [← hfind, hf]) he] at hsm
  unfold refWriteE at hsm
  rw [e2, hoob] at hsm
  simp only [Bool.false_eq_true, if_false] at hsm
  have hlt : idx < r.length := by
    cases hr : r[idx]? with
    | none => simp [hr] at he
    | some o => rw [List.getElem?_eq_some_iff] at hr; exact hr.1
  have := small_get _ hsm idx (e.1, refWrite e.2 at_ tr d) (by rw [List.getElem?_set_self hlt]; rfl)
  simp only at this
  rw [refWrite_length e.2 at_ tr d (by rw [e2]; exact hoob), e2] at this
  exact this

theorem opFits_of_ok (s : Db) (r : Ref) (op : Op) (hrel : Rel s r) (hn : NamesValid op) (hsm : Small (refStep r op)) : OpFits s op := by
  cases op with
  | create id => exact hn
  | rename id n => exact hn
  | write id d => exact wfits_of_small s r hrel id none false d hsm
  | writeAt id a d => exact wfits_of_small s r hrel id (some a) false d hsm
  | truncateWrite id a d => exact wfits_of_small s r hrel id (some a) true d hsm
  | truncate id n => trivial
  | remove id => trivial
  | removeHeld id => trivial
  | retain ids => trivial
  | flush => trivial
  | regionFlush id => trivial
  | compact => trivial
  | reopen n => trivial
  | setMinLen n => trivial
  | setMinRegions n => trivial

/-- a well-formed history never panics and never answers `RegionSizeOverflow` -/
theorem fineRun_of_ok (s : Db) (r : Ref) (ops : List Op) (hrel : Rel s r) (hinv : RInv s) (hi : InF s) (hr : NoReopen ops)
    (hok : OKRun r ops) : FineRun s ops := by
  induction ops generalizing s r with
  | nil => trivial
  | cons op t ih =>
    have hno := hr op (List.mem_cons_self ..)
    have hf := fine_step s op hinv hi hno (opFits_of_ok s r op hrel hok.1 hok.2.1)
    have hn := normal_of_fine s op hinv hf
    obtain ⟨h1, h2⟩ := rel_step s r op hrel hinv hno hn
    exact ⟨hf, ih _ _ h1 h2 (inf_step s op hinv.lay hi hno) (fun o ho => hr o (List.mem_cons_of_mem _ ho)) hok.2.2⟩

theorem inf_run (s : Db) (ops : List Op) (h : LInv s) (hi : InF s) (hr : NoReopen ops) (hp : NoPanic s ops) : InF (run s ops) := by
  induction ops generalizing s with
  | nil => exact hi
  | cons op t ih =>
    have hno := hr op (List.mem_cons_self ..)
    have : run s (op :: t) = run (step s op).1 t := rfl
    rw [this]
    rcases linv_step s op h hno with hpn | hl
    · exact absurd hpn hp.1
    · exact ih _ hl (inf_step s op h hi hno) (fun o ho => hr o (List.mem_cons_of_mem _ ho)) hp.2

/-- **C01 for every well-formed history without `reopen`**: no request panics; every answer is a
success or a documented refusal; and the database shows exactly the reference — names, lengths,
bytes.  The hypotheses speak about the requests only. -/
theorem C01_history (ops : List Op) (hr : NoReopen ops) (hok : OKRun [] ops) :
    NoPanic Db.init ops ∧ NormalRun Db.init ops ∧ view (run Db.init ops) = (refRun ops).map (Option.map liftE) := by
  have hf := fineRun_of_ok Db.init [] ops rel_init.1 rel_init.2 inf_init hr hok
  obtain ⟨hv, hn, _⟩ := C01_history_partial ops hr hf
  exact ⟨noPanic_of_fine Db.init ops hf, hn, hv⟩

/-- **C02 for every well-formed history without `reopen`**: extents are pairwise disjoint, every
byte below `Layout::len()` is claimed exactly once, everything is page-aligned, every extent ends
inside the data file, and every region's contents lie inside its reservation. -/
theorem C02_history (ops : List Op) (hr : NoReopen ops) (hok : OKRun [] ops) :
    RInv (run Db.init ops) ∧ Acc (run Db.init ops) ∧ Al (run Db.init ops) ∧ InF (run Db.init ops) ∧ FInv (run Db.init ops) := by
  have hf := fineRun_of_ok Db.init [] ops rel_init.1 rel_init.2 inf_init hr hok
  have hnp := noPanic_of_fine Db.init ops hf
  obtain ⟨_, _, hinv⟩ := C01_history_partial ops hr hf
  exact ⟨hinv, acc_run Db.init ops linv_init acc_init hr hnp, al_run Db.init ops linv_init al_init hr hnp,
    inf_run Db.init ops linv_init inf_init hr hnp, finv_run Db.init ops finv_init hr hnp⟩

/-- … and across a reopen (every live region written at least once): the open succeeds and shows the reference -/
theorem C01_reopen (ops : List Op) (n : Nat) (hr : NoReopen ops) (hok : OKRun [] ops)
    (hw : ∀ idx sl, (run Db.init ops).slot? idx = some sl → sl.st ≠ .needsWrite) :
    ((run Db.init ops).reopen n).2 = .ok ∧
    ∀ idx, viewAt ((run Db.init ops).reopen n).1 idx = ((refRun ops)[idx]?.join).map liftE :=
  C01_reopen_partial ops n hr (fineRun_of_ok Db.init [] ops rel_init.1 rel_init.2 inf_init hr hok) hw

/-- the conditions are satisfiable and decidable on a concrete history -/
example : OKRun [] [.create [97], .write [97] [1, 2, 3], .create [98], .write [97] (List.replicate 50 7), .rename [97] [99], .remove [98], .flush, .compact] := by
  decide

end AnyDB.C01r
