import AnyDB.Props.C08
/-!
# C08 — `fold_dirty` on raw vectors with deleted and overlaid slots, for every state

`C08_dirty_stored`: the merged iteration of `ReadWriteRawVec::fold_dirty` / `try_fold_dirty` over the stored part
(model: `ReadPaths.dirtyStored`, with the two `fix:` repairs F23/F25) returns, for EVERY disk image, EVERY ascending list of
deleted slots and EVERY ascending overlay at or above the start index — as the B-tree iterators `range(from..)` deliver
them —, exactly the non-deleted elements of `[i, i+n)` in index order, each with its overlay value if it has one
(`dirtySpec`).  This is the clause of C08 about raw vectors with deleted slots; the buffered part behind the stored one
is `C08_rawClean`'s second half.
-/
namespace AnyDB.C08
open AnyDB VecM ReadPaths

/-! ## `fold_dirty` for every state: deleted slots are skipped, overlaid slots show the overlay, the rest the disk -/

/-- what index `j` shows in the stored part of a raw vector with deleted slots `hs` and overlay `us` -/
def slotOf (disk : List Nat) (hs : List Nat) (us : List (Nat × Nat)) (j : Nat) : Option Nat :=
  if j ∈ hs then none else some ((mapGet us j).getD (disk.getD j garbage))

/-- the reference restricted to `[i, i+n)`: the non-deleted elements in index order -/
def dirtySpec (disk : List Nat) (hs : List Nat) (us : List (Nat × Nat)) (i n : Nat) : List Nat :=
  (List.range n).filterMap (fun k => slotOf disk hs us (i + k))

theorem dirtySpec_succ (disk : List Nat) (hs : List Nat) (us : List (Nat × Nat)) (i n : Nat) :
    dirtySpec disk hs us i (n + 1) = (slotOf disk hs us i).toList ++ dirtySpec disk hs us (i + 1) n := by
  unfold dirtySpec
  rw [List.range_succ_eq_map, List.filterMap_cons, List.filterMap_map]
  have : ((fun k => slotOf disk hs us (i + k)) ∘ Nat.succ) = (fun k => slotOf disk hs us (i + 1 + k)) := by
    funext k; simp only [Function.comp]; congr 1; omega
  rw [this]
  simp only [Nat.add_zero]
  cases slotOf disk hs us i <;> rfl

/-- entries above `i` do not matter at `i`, and dropping an entry at `i` does not matter above `i` -/
theorem slotOf_congr (disk : List Nat) (hs hs' : List Nat) (us us' : List (Nat × Nat)) (j : Nat)
    (h1 : j ∈ hs ↔ j ∈ hs') (h2 : mapGet us j = mapGet us' j) : slotOf disk hs us j = slotOf disk hs' us' j := by
  unfold slotOf; rw [h2]
  by_cases h : j ∈ hs
  · rw [if_pos h, if_pos (h1.mp h)]
  · rw [if_neg h, if_neg (fun hh => h (h1.mpr hh))]

theorem filterMap_congr_pointwise {α β : Type} (l : List α) (f g : α → Option β) (h : ∀ x ∈ l, f x = g x) : l.filterMap f = l.filterMap g := by
  induction l with
  | nil => rfl
  | cons a t ih =>
    simp only [List.filterMap_cons, h a (List.mem_cons_self ..)]
    rw [ih (fun x hx => h x (List.mem_cons_of_mem _ hx))]

theorem dirtySpec_congr (disk : List Nat) (hs hs' : List Nat) (us us' : List (Nat × Nat)) (i n : Nat)
    (h1 : ∀ j, i ≤ j → (j ∈ hs ↔ j ∈ hs')) (h2 : ∀ j, i ≤ j → mapGet us j = mapGet us' j) :
    dirtySpec disk hs us i n = dirtySpec disk hs' us' i n := by
  unfold dirtySpec
  apply filterMap_congr_pointwise
  intro k _
  exact slotOf_congr disk hs hs' us us' (i + k) (h1 _ (by omega)) (h2 _ (by omega))

theorem mapGet_cons_ne (k v j : Nat) (t : List (Nat × Nat)) (h : k ≠ j) : mapGet ((k, v) :: t) j = mapGet t j := by
  unfold mapGet
  rw [List.find?_cons_of_neg (by simpa using h)]

theorem mapGet_cons_eq (k v : Nat) (t : List (Nat × Nat)) : mapGet ((k, v) :: t) k = some v := by
  unfold mapGet; simp

theorem mapGet_none_of_gt (us : List (Nat × Nat)) (j : Nat) (h : ∀ kv ∈ us, j < kv.1) : mapGet us j = none := by
  unfold mapGet
  rw [List.find?_eq_none.mpr (fun kv hkv => by have := h kv hkv; simp; omega)]
  rfl

/-- C08, raw vectors with deleted and overlaid slots: the merged iteration of `fold_dirty` over the stored part returns
exactly the non-deleted elements of `[i, i+n)` in index order, each with its overlay value if it has one — for EVERY
ascending hole list and overlay (as the B-tree iterators deliver them from `range(from..)`) -/
theorem C08_dirty_stored (disk : List Nat) (i n : Nat) (hs : List Nat) (us : List (Nat × Nat))
    (hh : hs.Pairwise (· < ·)) (hhi : ∀ h ∈ hs, i ≤ h)
    (hu : (us.map (·.1)).Pairwise (· < ·)) (hui : ∀ kv ∈ us, i ≤ kv.1) :
    dirtyStored disk i n hs us = dirtySpec disk hs us i n := by
  induction n generalizing i hs us with
  | zero => simp [dirtyStored, dirtySpec]
  | succ n ih =>
    rw [dirtySpec_succ]
    -- facts about the heads of the two iterators
    have hs_tail : ∀ h t, hs = h :: t → t.Pairwise (· < ·) ∧ (∀ x ∈ t, h < x) := by
      intro h t e; subst e; exact ⟨(List.pairwise_cons.mp hh).2, (List.pairwise_cons.mp hh).1⟩
    have us_tail : ∀ k v t, us = (k, v) :: t → (t.map (·.1)).Pairwise (· < ·) ∧ (∀ kv ∈ t, k < kv.1) := by
      intro k v t e; subst e
      simp only [List.map_cons, List.pairwise_cons] at hu
      exact ⟨hu.2, fun kv hkv => hu.1 kv.1 (List.mem_map_of_mem hkv)⟩
    cases hs with
    | nil =>
      cases us with
      | nil =>
        simp only [dirtyStored]
        rw [ih (i + 1) [] [] List.Pairwise.nil (by simp) (by simp) (by simp)]
        simp [slotOf, mapGet]
      | cons kv t =>
        obtain ⟨k, v⟩ := kv
        obtain ⟨ut1, ut2⟩ := us_tail k v t rfl
        simp only [dirtyStored]
        split
        · rename_i hk
          subst hk
          rw [ih (k + 1) [] t List.Pairwise.nil (by simp) ut1 (fun kv hkv => by have := ut2 kv hkv; omega)]
          have e1 : slotOf disk [] ((k, v) :: t) k = some v := by simp [slotOf, mapGet_cons_eq]
          rw [e1]
          have := dirtySpec_congr disk [] [] t ((k, v) :: t) (k + 1) n (fun _ _ => Iff.rfl)
            (fun j hj => (mapGet_cons_ne k v j t (by omega)).symm)
          rw [this]; rfl
        · rename_i hk
          have hki : i < k := by have := hui (k, v) (List.mem_cons_self ..); simp only at this; omega
          rw [ih (i + 1) [] ((k, v) :: t) List.Pairwise.nil (by simp) hu (fun kv hkv => by
            rcases List.mem_cons.mp hkv with h | h
            · rw [h]; simp only; omega
            · have := ut2 kv h; omega)]
          have e1 : slotOf disk [] ((k, v) :: t) i = some (disk.getD i garbage) := by
            unfold slotOf
            rw [mapGet_none_of_gt ((k, v) :: t) i (fun kv hkv => by
              rcases List.mem_cons.mp hkv with h | h
              · rw [h]; exact hki
              · have := ut2 kv h; omega)]
            simp
          rw [e1]; rfl
    | cons h ht =>
      obtain ⟨ht1, ht2⟩ := hs_tail h ht rfl
      simp only [dirtyStored]
      split
      · -- the slot is deleted
        rename_i hhi'
        subst hhi'
        have e1 : slotOf disk (h :: ht) us h = none := by simp [slotOf]
        rw [e1]
        simp only [Option.toList, List.nil_append]
        have hmem : ∀ j, h + 1 ≤ j → (j ∈ ht ↔ j ∈ h :: ht) := by
          intro j hj; simp only [List.mem_cons]; constructor
          · exact Or.inr
          · rintro (e | e)
            · omega
            · exact e
        cases us with
        | nil =>
          simp only
          rw [ih (h + 1) ht [] ht1 (fun x hx => by have := ht2 x hx; omega) (by simp) (by simp)]
          exact dirtySpec_congr disk ht (h :: ht) [] [] (h + 1) n hmem (fun _ _ => rfl)
        | cons kv t =>
          obtain ⟨k, v⟩ := kv
          obtain ⟨ut1, ut2⟩ := us_tail k v t rfl
          simp only
          split
          · rename_i hk
            subst hk
            rw [ih (k + 1) ht t ht1 (fun x hx => by have := ht2 x hx; omega) ut1 (fun kv hkv => by have := ut2 kv hkv; omega)]
            exact dirtySpec_congr disk ht (k :: ht) t ((k, v) :: t) (k + 1) n hmem
              (fun j hj => (mapGet_cons_ne k v j t (by omega)).symm)
          · rename_i hk
            have hki : h < k := by have := hui (k, v) (List.mem_cons_self ..); simp only at this; omega
            rw [ih (h + 1) ht ((k, v) :: t) ht1 (fun x hx => by have := ht2 x hx; omega) hu (fun kv hkv => by
              rcases List.mem_cons.mp hkv with e | e
              · rw [e]; simp only; omega
              · have := ut2 kv e; omega)]
            exact dirtySpec_congr disk ht (h :: ht) _ _ (h + 1) n hmem (fun _ _ => rfl)
      · -- the slot is live
        rename_i hne
        have hih : i < h := by have := hhi h (List.mem_cons_self ..); omega
        have hnot : i ∉ h :: ht := by
          intro hm
          rcases List.mem_cons.mp hm with e | e
          · omega
          · have := ht2 i e; omega
        have hhs' : ∀ x ∈ h :: ht, i + 1 ≤ x := by
          intro x hx
          rcases List.mem_cons.mp hx with e | e
          · omega
          · have := ht2 x e; omega
        cases us with
        | nil =>
          simp only
          rw [ih (i + 1) (h :: ht) [] hh hhs' (by simp) (by simp)]
          have e1 : slotOf disk (h :: ht) [] i = some (disk.getD i garbage) := by
            unfold slotOf; rw [if_neg hnot]; simp [mapGet]
          rw [e1]; rfl
        | cons kv t =>
          obtain ⟨k, v⟩ := kv
          obtain ⟨ut1, ut2⟩ := us_tail k v t rfl
          simp only
          split
          · rename_i hk
            subst hk
            rw [ih (k + 1) (h :: ht) t hh hhs' ut1 (fun kv hkv => by have := ut2 kv hkv; omega)]
            have e1 : slotOf disk (h :: ht) ((k, v) :: t) k = some v := by
              unfold slotOf; rw [if_neg hnot, mapGet_cons_eq]; rfl
            rw [e1]
            have := dirtySpec_congr disk (h :: ht) (h :: ht) t ((k, v) :: t) (k + 1) n (fun _ _ => Iff.rfl)
              (fun j hj => (mapGet_cons_ne k v j t (by omega)).symm)
            rw [this]; rfl
          · rename_i hk
            have hki : i < k := by have := hui (k, v) (List.mem_cons_self ..); simp only at this; omega
            rw [ih (i + 1) (h :: ht) ((k, v) :: t) hh hhs' hu (fun kv hkv => by
              rcases List.mem_cons.mp hkv with e | e
              · rw [e]; simp only; omega
              · have := ut2 kv e; omega)]
            have e1 : slotOf disk (h :: ht) ((k, v) :: t) i = some (disk.getD i garbage) := by
              unfold slotOf
              rw [if_neg hnot, mapGet_none_of_gt ((k, v) :: t) i (fun kv hkv => by
                rcases List.mem_cons.mp hkv with e | e
                · rw [e]; exact hki
                · have := ut2 kv e; omega)]
              simp
            rw [e1]; rfl

end AnyDB.C08
