import AnyDB.Lemmas.RegionFile

/-!
# C01 — reopen: every region that ever held data or was renamed survives with identical name, length and bytes

`FInv` (`Lemmas/RegionFile.lean`): the `regions` metadata file agrees with the slot table — a freed slot has no image, a live
slot's image is its metadata unless the slot was created and never written (`needsWrite`: no data, no rename, no dirty bounds);
preserved by every operation of the model (the file is written exactly by `write_if_dirty` and by removal; `flush` marks clean
only slots that have been written).

`C01_reopen_partial`: after EVERY history (no earlier `reopen`, no panic, no `RegionSizeOverflow`) that ends in a state in
which every live region has been written at least once, dropping all handles and opening the directory again — with any
`min_len`, if the open does not panic in `Layout::from` — shows in every slot exactly what the reference byte vectors hold:
same name, same length, same bytes; a removed region stays absent.  (A region that was created and never given data or a
new name has no image in the metadata file; the property does not promise it survives.)

Not proved: that `Layout::from` cannot panic (sortedness and disjointness of the extents read back), and the layout invariant
of the reopened state — so histories that CONTINUE after a reopen are covered by the correspondence only.
-/
namespace AnyDB.C01r
open AnyDB Conc Db C02r Mem

theorem C01_reopen_partial (ops : List Op) (n : Nat) (hr : NoReopen ops) (hf : FineRun Db.init ops)
    (hw : ∀ idx sl, (run Db.init ops).slot? idx = some sl → sl.st ≠ .needsWrite)
    (hok : ((run Db.init ops).reopen n).2 = .ok) :
    ∀ idx, viewAt ((run Db.init ops).reopen n).1 idx = ((refRun ops)[idx]?.join).map liftE := by
  obtain ⟨_, hn, hinv⟩ := C01_history_partial ops hr hf
  have hrel := (rel_run Db.init [] ops rel_init.1 rel_init.2 hr hn).1
  have hnp := noPanic_of_fine Db.init ops hf
  have hfinv := finv_run Db.init ops finv_init hr hnp
  have hal := al_run Db.init ops linv_init al_init hr hnp
  intro idx
  rw [reopen_view _ n hfinv hinv hal hw hok idx]
  exact hrel.2 idx

/-- the metadata file agrees with the slots after every such history -/
theorem C01_file_agrees (ops : List Op) (hr : NoReopen ops) (hf : FineRun Db.init ops) : FInv (run Db.init ops) :=
  finv_run Db.init ops finv_init hr (noPanic_of_fine Db.init ops hf)

end AnyDB.C01r
