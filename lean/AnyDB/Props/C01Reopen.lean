import AnyDB.Lemmas.LayoutReopen

/-!
# C01 — reopen: every region that ever held data or was renamed survives with identical name, length and bytes

`FInv` (`Lemmas/RegionFile.lean`): the `regions` metadata file agrees with the slot table — a freed slot has no image, a live
slot's image is its metadata unless the slot was created and never written (`needsWrite`: no data, no rename, no dirty bounds);
preserved by every operation of the model (the file is written exactly by `write_if_dirty` and by removal; `flush` marks clean
only slots that have been written).

`C01_reopen_partial`: after EVERY history (no earlier `reopen`, no panic, no `RegionSizeOverflow`) that ends in a state in
which every live region has been written at least once, dropping all handles and opening the directory again — with any
`min_len` — succeeds (`Layout::from` cannot panic: `reopen_ok`) and shows in every slot exactly what the reference byte vectors hold:
same name, same length, same bytes; a removed region stays absent.  (A region that was created and never given data or a
new name has no image in the metadata file; the property does not promise it survives.)

`C02_reopen_partial`: the layout rebuilt by that reopen has no byte in two extents, positive extents, a start map that agrees
with the slots, and every byte below its end in exactly one region or free extent (the holes ARE the gaps).
Not proved: histories that CONTINUE after a reopen (the reference would have to know the length of the metadata file to
number new slots identically; alignment, bounds and `FInv` of the reopened state are not re-derived) — covered by the correspondence.
-/
namespace AnyDB.C01r
open AnyDB Conc Db C02r Mem

theorem C01_reopen_partial (ops : List Op) (n : Nat) (hr : NoReopen ops) (hf : FineRun Db.init ops)
    (hw : ∀ idx sl, (run Db.init ops).slot? idx = some sl → sl.st ≠ .needsWrite) :
    ((run Db.init ops).reopen n).2 = .ok ∧
    ∀ idx, viewAt ((run Db.init ops).reopen n).1 idx = ((refRun ops)[idx]?.join).map liftE := by
  obtain ⟨_, hn, hinv⟩ := C01_history_partial ops hr hf
  have hrel := (rel_run Db.init [] ops rel_init.1 rel_init.2 hr hn).1
  have hnp := noPanic_of_fine Db.init ops hf
  have hfinv := finv_run Db.init ops finv_init hr hnp
  have hal := al_run Db.init ops linv_init al_init hr hnp
  have hok := (reopen_ok _ n hfinv hinv hal hw).1
  refine ⟨hok, fun idx => ?_⟩
  rw [reopen_view _ n hfinv hinv hal hw hok idx]
  exact hrel.2 idx

/-- C02 across a reopen at the end of any such history: the rebuilt layout is disjoint, positive, consistent with the slots, and
fully accounted -/
theorem C02_reopen_partial (ops : List Op) (n : Nat) (hr : NoReopen ops) (hf : FineRun Db.init ops)
    (hw : ∀ idx sl, (run Db.init ops).slot? idx = some sl → sl.st ≠ .needsWrite) :
    LInv ((run Db.init ops).reopen n).1 ∧
    (∀ x, x < ((run Db.init ops).reopen n).1.layoutLen → cnt (claimedDb ((run Db.init ops).reopen n).1) x = 1) := by
  obtain ⟨_, hn, hinv⟩ := C01_history_partial ops hr hf
  have hnp := noPanic_of_fine Db.init ops hf
  have hfinv := finv_run Db.init ops finv_init hr hnp
  have hal := al_run Db.init ops linv_init al_init hr hnp
  obtain ⟨_, hl, hacc⟩ := reopen_ok _ n hfinv hinv hal hw
  refine ⟨hl, fun x hx => ?_⟩
  have h1 := hl.one x
  rcases layoutLen_attained _ hl with h0 | hlast
  · omega
  · have := hacc x (((run Db.init ops).reopen n).1.layoutLen - 1) (by omega) hlast
    omega

/-- the metadata file agrees with the slots after every such history -/
theorem C01_file_agrees (ops : List Op) (hr : NoReopen ops) (hf : FineRun Db.init ops) : FInv (run Db.init ops) :=
  finv_run Db.init ops finv_init hr (noPanic_of_fine Db.init ops hf)

end AnyDB.C01r
