import AnyDB.Props.C10

/-!
# C10 — the tie to the source: the atomic sections of the model are the extracted lock sections

Kept apart from `Props/C10.lean` so that only the C10 check depends on this pin (the protocol driver imports the model,
not the pin).
-/
namespace AnyDB.Conc

/-- C10, the tie to the source: in every path of `Region::write_with` that claims space, the claim
(`set_reserved` on the region, `reserve` for a relocation target) is made in the section that established that the
space is free — before the layout lock is dropped; the relocation's `move_region` / `take_reserved` run after the lock
was taken again; `create_region_if_needed` re-checks the hole and the file length under the write lock and inserts
the region before releasing it -/
theorem C10_sections :
    firstSection Gen.wwExtendLastOrder = ["setReserved"] ∧
    firstSection Gen.wwHoleOrder = ["removeOrCompressHole", "setReserved"] ∧
    Gen.wwRelocateOrder = ["findHole", "removeOrCompressHole", "reserve", "dropLayout", "layoutLen", "reserve", "dropLayout",
      "setMinLen", "layoutMut", "takeReserved", "dbCopy", "dbWrite", "layoutMut", "moveRegion", "takeReserved", "setStart",
      "setReserved", "setLen"] ∧
    Gen.wwFitsOrder = ["dbWrite", "setLen"] ∧
    Gen.createRegionOrder = ["layoutRead", "findHole", "layoutLen", "dropLayout", "setMinLen", "dropLayout", "layoutMut",
      "regionsMut", "findHole", "removeOrCompressHole", "layoutLen", "fileLen", "dropLayout", "setMinLen", "retry", "regionsCreate", "insertRegion"] := by
  decide
end AnyDB.Conc
