import AnyDB.Props.C03Comp
import AnyDB.Props.C20
/-!
# C20 for compressed vectors in every reachable state

`C20_comp_history`: after EVERY history of pushes, truncations and writes on a compressed vector (any compressor answers)
every page slice `[start, stop)` — the only bytes of the data region a compressed read fetches — lies behind the header and
inside the region's current length, and reading the whole vector (`items`) never leaves the pages.  The hypothesis of
`C20_pages` (gap-free chain from the header, inside the data region) is the invariant `CSync` of `C03Comp`.
-/
namespace AnyDB.C20
open AnyDB VecM VecM.V C07 C03c

theorem C20_comp_history (es : List CEdit) (sz keep : Nat) (h1 : 0 < sz) (h2 : sz ≤ MAX_PAGE) :
    (∀ p ∈ (runC (V.init .comp sz keep) es).1.pages, HEADER ≤ p.start ∧ p.stop ≤ (runC (V.init .comp sz keep) es).1.dataLen) ∧
    (runC (V.init .comp sz keep) es).1.items.2 = false := by
  obtain ⟨hi, hs⟩ := cinv_init sz keep h1 h2
  obtain ⟨_, _, r3, r4⟩ := run_refines _ es hi hs
  refine ⟨?_, by rw [items_eq_shown _ r3]⟩
  intro p hp
  have hb := (chained_bounds HEADER _ r4.chain).2 p hp
  have hd := r4.data
  rw [nextStart_eq_chainEnd] at hd
  exact ⟨hb.1, Nat.le_trans hb.2 hd⟩

end AnyDB.C20
