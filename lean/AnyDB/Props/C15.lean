import AnyDB.Model.Lazy

/-!
# C15 — lazy vectors equal their defining formula through every read path

Model: `AnyDB/Model/Lazy.lean` — `LazyVecFrom1/2/3` (per-source range collect + zip + compute, point
read, sorted read), `LazyDeltaVec<DeltaSub>` (`bulk_try_fold` with its `read_from` window, point read,
sorted read), `LazyAggVec<Sparse>` (slot table + one sorted read, point read).

* `C15_from1_range`     — a range read of a one-source lazy vector returns exactly the formula on
                           `[from, min to len)`, in order, for every source and range;
* `C15_from_one`        — the point read IS the formula (all arities), and yields nothing beyond the
                           governing length (`C15_from_oob`);
* `C15_from_range_oob`  — a range that starts at or beyond the length yields nothing;
* `C15_delta_one`       — for a window that starts at or before its index the point read of the delta
                           vector is the formula `source[h] - source[start-1]` and does not panic;
* `C15_delta_oob`, `C15_agg_oob`, `C15_agg_one` — out-of-range requests yield nothing; the sparse
                           aggregation's point read is the formula;
* known findings, kept with their model witnesses:
  `C15_delta_emptyWindow_counterexample` (F8: `start = h+1` ⇒ `h - start + 1` underflows ⇒ panic in
  checked builds) and `C15_agg_pastEnd_counterexample` (F7: a first index beyond the source makes the
  range read index past the values it fetched ⇒ panic, while the point read answers `some none`).

The range paths of the delta and aggregation vectors (window arithmetic, slot table) are tied by
the correspondence: all six range APIs must agree with each other, with the formula (oracle) and with
the model, on monotone mappings incl. mappings shorter/longer than the source and sources that grow
after construction.
-/
namespace AnyDB.C15
open AnyDB Lazy

theorem lenN_one (s : List Nat) : lenN [s] = s.length := by simp [lenN]

theorem collectRange_length (s : List Nat) (a b : Nat) : (collectRange s a b).length = min b s.length - a := by
  unfold collectRange; simp; omega

theorem collectRange_getD (s : List Nat) (a b k : Nat) (hk : k < min b s.length - a) :
    (collectRange s a b).getD k 0 = s.getD (a + k) 0 := by
  unfold collectRange
  simp only [List.getD_eq_getElem?_getD, List.getElem?_take, List.getElem?_drop]
  simp [hk]

/-- one-source lazy vector: a range read is the formula on the clamped range -/
theorem C15_from1_range (s : List Nat) (a b : Nat) :
    fromRange [s] a b = (List.range (min b s.length - a)).map (fun k => f1 (a + k) (s.getD (a + k) 0)) := by
  unfold fromRange
  simp only [lenN_one, List.map_cons, List.map_nil]
  have hl : (collectRange s a (min b s.length)).length = min b s.length - a := by
    rw [collectRange_length]; congr 1; omega
  rw [hl]
  apply List.map_congr_left
  intro k hk
  simp only [List.mem_range] at hk
  rw [collectRange_getD s a (min b s.length) k (by omega)]

theorem C15_from_one (srcs : List (List Nat)) (i : Nat) : fromOne srcs i = fromFormula srcs i := rfl

theorem C15_from_oob (srcs : List (List Nat)) (i : Nat) (h : lenN srcs ≤ i) : fromOne srcs i = none := by
  unfold fromOne fromFormula; simp [h]

theorem C15_from_range_oob (s : List Nat) (a b : Nat) (h : s.length ≤ a) : fromRange [s] a b = [] := by
  rw [C15_from1_range]
  have : min b s.length - a = 0 := by omega
  simp [this]

/-- delta vector, point read: the formula, without panic, whenever the window starts at or before `h` -/
theorem C15_delta_one (s starts : List Nat) (h : Nat) (hh : h < s.length) (hs : h < starts.length)
    (hw : starts.getD h 0 ≤ h) : deltaOne s starts h = .ok (deltaFormula s starts h) := by
  unfold deltaOne deltaFormula
  have h1 : ¬ h ≥ s.length := by omega
  have h2 : ¬ h ≥ starts.length := by omega
  simp only [h1, h2, if_false, or_self]
  generalize starts.getD h 0 = st at hw
  by_cases h0 : st = 0
  · subst h0
    simp only [if_true]
    have : ¬ 0 > h := by omega
    simp only [this, if_false]
  · simp only [h0, if_false]
    have hlt : st - 1 < s.length := by omega
    have e : s[st - 1]? = some (s.getD (st - 1) 0) := by
      rw [List.getElem?_eq_getElem hlt, List.getD_eq_getElem?_getD, List.getElem?_eq_getElem hlt]; rfl
    rw [e]
    have : ¬ st > h := by omega
    simp only [this, if_false]

theorem C15_delta_oob (s starts : List Nat) (h : Nat) (hh : s.length ≤ h ∨ starts.length ≤ h) :
    deltaOne s starts h = .ok none := by
  unfold deltaOne
  by_cases h1 : h ≥ s.length
  · simp [h1]
  · have : h ≥ starts.length := by omega
    simp [h1, this]

/-- change-since-window-start vector (`DeltaChange`), point read: the formula, without panic, whenever the window starts at or before `h` -/
theorem C15_chg_one (s starts : List Nat) (h : Nat) (hh : h < s.length) (hs : h < starts.length)
    (hw : starts.getD h 0 ≤ h) : chgOne s starts h = .ok (chgFormula s starts h) := by
  unfold chgOne chgFormula
  have h1 : ¬ h ≥ s.length := by omega
  have h2 : ¬ h ≥ starts.length := by omega
  simp only [h1, h2, if_false, or_self]
  generalize starts.getD h 0 = st at hw
  have hlt : st < s.length := by omega
  rw [List.getElem?_eq_getElem hlt]
  have : ¬ st > h := by omega
  simp only [this, if_false]

theorem C15_chg_oob (s starts : List Nat) (h : Nat) (hh : s.length ≤ h ∨ starts.length ≤ h) :
    chgOne s starts h = .ok none := by
  unfold chgOne
  by_cases h1 : h ≥ s.length
  · simp [h1]
  · have : h ≥ starts.length := by omega
    simp [h1, this]

/-- sorted reads of the change vector: exactly the formula at every requested in-range index, in request order, nothing for
the others — whenever every window starts at or before its index (so also when the lookback IS the index itself) -/
theorem C15_chg_sorted (s starts idx : List Nat) (hw : ∀ h, h < min s.length starts.length → starts.getD h 0 ≤ h) :
    chgSorted s starts idx = .ok (idx.filterMap (chgFormula s starts)) := by
  unfold chgSorted
  suffices hh : ∀ (acc : List Nat), idx.foldl (fun (acc : R (List Nat)) h =>
      match acc with
      | .panic => .panic
      | .ok l =>
        if h ≥ min s.length starts.length then .ok l else
        let start := starts.getD h 0
        match s[start]? with
        | none => .panic
        | some a => if start > h then .panic else .ok (l ++ [s.getD h 0 - a])) (.ok acc) = .ok (acc ++ idx.filterMap (chgFormula s starts)) by
    have := hh []
    rw [List.nil_append] at this
    exact this
  induction idx with
  | nil => intro acc; simp
  | cons h t ih =>
    intro acc
    simp only [List.foldl_cons, List.filterMap_cons]
    by_cases hb : h ≥ min s.length starts.length
    · have hf : chgFormula s starts h = none := by
        unfold chgFormula
        have : h ≥ s.length ∨ h ≥ starts.length := by omega
        simp [this]
      simp only [hb, if_true, hf]
      exact ih acc
    · have hst := hw h (by omega)
      have hlt : starts.getD h 0 < s.length := by omega
      have hf : chgFormula s starts h = some (s.getD h 0 - s[starts.getD h 0]) := by
        unfold chgFormula
        have : ¬(h ≥ s.length ∨ h ≥ starts.length) := by omega
        simp only [this, if_false]
        rw [List.getElem?_eq_getElem hlt]
      have hng : ¬ starts.getD h 0 > h := by omega
      simp only [hb, if_false, List.getElem?_eq_getElem hlt, hng, hf]
      rw [ih]
      simp

theorem C15_agg_one (s mapping : List Nat) (i : Nat) : aggOne s mapping i = aggFormula s mapping i := rfl

theorem C15_agg_oob (s mapping : List Nat) (i : Nat) (h : mapping.length ≤ i) : aggOne s mapping i = none := by
  unfold aggOne aggFormula; simp [h]

theorem C15_agg_range_oob (s mapping : List Nat) (a b : Nat) (h : mapping.length ≤ a) : aggRange s mapping a b = .ok [] := by
  unfold aggRange
  have : a ≥ min b mapping.length := by omega
  simp [this]

/-- F8: an empty window (`start = h + 1`) makes the element count underflow -/
theorem C15_delta_emptyWindow_counterexample :
    deltaOne [1, 2, 3] [0, 1, 3] 2 = .panic ∧ deltaRange [1, 2, 3] [0, 1, 3] 0 3 = .panic ∧
    deltaFormula [1, 2, 3] [0, 1, 3] 2 = some 0 := by decide

/-- F7: a first index beyond the source: the range read panics, the point read says `some none` -/
theorem C15_agg_pastEnd_counterexample :
    aggRange [5, 6] [0, 1, 4] 0 3 = .panic ∧ aggOne [5, 6] [0, 1, 4] 1 = some none := by decide

/-- non-vacuity: a delta vector over a growing source with a sliding 2-element window -/
example : deltaRange [1, 3, 6, 10, 15] [0, 0, 1, 2, 3] 1 5 = .ok [3, 5, 7, 9] := by decide
example : aggRange [10, 11, 12, 13, 14] [0, 2, 2, 5] 0 4 = .ok [some 11, none, some 14, none] := by decide

end AnyDB.C15
