import AnyDB.Props.C03CompChunks
namespace AnyDB.C03c
open AnyDB VecM VecM.V C07

theorem hdr_idem (s : V) : s.writeHeaderIfNeeded.writeHeaderIfNeeded = s.writeHeaderIfNeeded := by
  unfold writeHeaderIfNeeded; split <;> simp_all

theorem writeComp_norm (s : V) (cs : List Nat) : s.writeComp cs = s.writeHeaderIfNeeded.writeComp cs := by
  unfold writeComp; rw [hdr_idem]

theorem pagesFlush_fields (s : V) : (s.pagesFlush).1.pages = s.pages ∧ (s.pagesFlush).1.pushed = s.pushed ∧
    (s.pagesFlush).1.storedLen = s.storedLen ∧ (s.pagesFlush).1.kind = s.kind ∧ (s.pagesFlush).1.sz = s.sz ∧
    (s.pagesFlush).1.dataLen = s.dataLen := by
  unfold pagesFlush
  split
  · exact ⟨rfl, rfl, rfl, rfl, rfl, rfl⟩
  · split <;> exact ⟨rfl, rfl, rfl, rfl, rfl, rfl⟩

/-- what a successful compressed `write()` leaves behind -/
theorem writeComp_shape (s : V) (cs : List Nat) (b : Bool) (hn : s.writeHeaderIfNeeded = s) (hok : (s.writeComp cs).2 = .okB b) :
    ((s.writeComp cs).1.kind = s.kind ∧ (s.writeComp cs).1.sz = s.sz) ∧
    (((s.writeComp cs).1.pages = s.pages ∧ (s.writeComp cs).1.pushed = s.pushed ∧ (s.writeComp cs).1.storedLen = s.storedLen ∧
        s.pushed.length = 0 ∧ s.storedLen = pagesStoredLen s.pages s.perPage) ∨
     ((s.writeComp cs).1.pushed = [] ∧ (s.writeComp cs).1.storedLen = s.storedLen + s.pushed.length ∧
       ((∃ page, s.pages[s.storedLen / s.perPage]? = some page ∧ s.storedLen % s.perPage = page.values ∧
            s.storedLen % s.perPage + s.pushed.length < s.perPage ∧
            (s.writeComp cs).1.pages = s.pages.take (s.storedLen / s.perPage) ++
              [{ start := page.start, bytes := page.bytes + s.pushed.length * s.sz, values := s.storedLen % s.perPage + s.pushed.length,
                 raw := true, content := page.content ++ s.pushed }]) ∨
        (∃ values0, values0 = (match s.pages[s.storedLen / s.perPage]? with
              | some page => page.content.take (s.storedLen % s.perPage) | none => []) ∧
            (s.writeComp cs).1.pages = s.pages.take (s.storedLen / s.perPage) ++
              buildPages (nextStart (s.pages.take (s.storedLen / s.perPage)))
                (encChunks s.perPage s.sz (splitChunks ((values0 ++ s.pushed).length + 1) s.perPage (values0 ++ s.pushed)) cs))))) := by
  unfold writeComp at hok ⊢
  rw [hn] at hok ⊢
  simp only [] at hok ⊢
  by_cases c1 : s.storedLen > pagesStoredLen s.pages s.perPage
  · simp [c1] at hok
  · rw [if_neg c1] at hok ⊢
    by_cases c2 : s.pushed.length = 0 ∧ s.storedLen = pagesStoredLen s.pages s.perPage ∧ s.changeAt.isNone = true
    · rw [if_pos c2] at hok ⊢
      exact ⟨⟨rfl, rfl⟩, Or.inl ⟨rfl, rfl, rfl, c2.1, c2.2.1⟩⟩
    · rw [if_neg c2] at hok ⊢
      by_cases c3 : s.storedLen / s.perPage > s.pages.length
      · simp [c3] at hok
      · rw [if_neg c3] at hok ⊢
        have hfl := fun t => pagesFlush_fields t
        cases hp : s.pages[s.storedLen / s.perPage]? with
        | none =>
          simp only [hp] at hok ⊢
          split
          · rename_i hc; rw [if_pos hc] at hok; cases hok
          · rename_i hc; rw [if_neg hc] at hok
            split
            · rename_i hf
              refine ⟨⟨(hfl _).2.2.2.1, (hfl _).2.2.2.2.1⟩, Or.inr ⟨(hfl _).2.1, (hfl _).2.2.1, Or.inr ⟨[], rfl, (hfl _).1⟩⟩⟩
            · rename_i hf; rw [if_neg hf] at hok; cases hok
        | some page =>
          simp only [hp] at hok ⊢
          by_cases hpl : s.storedLen % s.perPage ≠ 0
          · rw [if_pos hpl] at hok ⊢
            simp only [] at hok ⊢
            by_cases hfast : page.raw = true ∧ s.storedLen % s.perPage = page.values ∧ s.storedLen % s.perPage + s.pushed.length < s.perPage
            · rw [if_pos hfast] at hok ⊢
              simp only [] at hok ⊢
              split
              · rename_i hc; rw [if_pos hc] at hok; cases hok
              · rename_i hc; rw [if_neg hc] at hok
                split
                · rename_i hf
                  refine ⟨⟨(hfl _).2.2.2.1, (hfl _).2.2.2.2.1⟩, Or.inr ⟨(hfl _).2.1, (hfl _).2.2.1, Or.inl ⟨page, rfl, hfast.2.1, hfast.2.2, ?_⟩⟩⟩
                  rw [(hfl _).1]
                · rename_i hf; rw [if_neg hf] at hok; cases hok
            · rw [if_neg hfast] at hok ⊢
              simp only [] at hok ⊢
              split
              · rename_i hc; rw [if_pos hc] at hok; cases hok
              · rename_i hc; rw [if_neg hc] at hok
                split
                · rename_i hf
                  refine ⟨⟨(hfl _).2.2.2.1, (hfl _).2.2.2.2.1⟩, Or.inr ⟨(hfl _).2.1, (hfl _).2.2.1, Or.inr ⟨_, rfl, (hfl _).1⟩⟩⟩
                · rename_i hf; rw [if_neg hf] at hok; cases hok
          · rw [if_neg hpl] at hok ⊢
            simp only [] at hok ⊢
            have hz : s.storedLen % s.perPage = 0 := by omega
            split
            · rename_i hc; rw [if_pos hc] at hok; cases hok
            · rename_i hc; rw [if_neg hc] at hok
              split
              · rename_i hf
                refine ⟨⟨(hfl _).2.2.2.1, (hfl _).2.2.2.2.1⟩, Or.inr ⟨(hfl _).2.1, (hfl _).2.2.1, Or.inr ⟨[], by rw [hz]; rfl, (hfl _).1⟩⟩⟩
              · rename_i hf; rw [if_neg hf] at hok; cases hok

end AnyDB.C03c
