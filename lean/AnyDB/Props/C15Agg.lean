import AnyDB.Props.C15
/-!
# C15 — range reads of the sparse aggregation equal the formula, for every range

`C15_agg_range`: `Sparse::try_fold` — a first loop that builds a slot table and the sorted list of group-end positions, ONE sorted
read of the source, a second loop that fills the slots — returns exactly the defining formula (the last element of each non-empty
group, nothing for an empty group) at every index of `[from, min(to, |mapping|))`, for every source and every first-index mapping
whose non-empty groups end inside the source (beyond that is finding F7).
-/
namespace AnyDB.C15
open AnyDB Lazy

/-! ## range reads of the sparse aggregation -/

def aCur (mapping : List Nat) (i : Nat) : Nat := mapping.getD i 0
def aNext (s mapping : List Nat) (i : Nat) : Nat := if i + 1 < mapping.length then mapping.getD (i + 1) 0 else s.length
def aEmpty (s mapping : List Nat) (i : Nat) : Prop := aNext s mapping i = 0 ∨ aCur mapping i ≥ aNext s mapping i
instance (s mapping : List Nat) (i : Nat) : Decidable (aEmpty s mapping i) := by unfold aEmpty; infer_instance

/-- the first loop of `Sparse::try_fold`: slot table and the sorted positions to read -/
def aggStep (s mapping : List Nat) (from_ : Nat) (acc : List (Option Nat) × List Nat) (k : Nat) : List (Option Nat) × List Nat :=
  let i := from_ + k
  let cur := mapping.getD i 0
  let next := if i + 1 < mapping.length then mapping.getD (i + 1) 0 else s.length
  if next = 0 ∨ cur ≥ next then (acc.1 ++ [none], acc.2) else (acc.1 ++ [some acc.2.length], acc.2 ++ [next - 1])

def aggSlots (s mapping : List Nat) (from_ n : Nat) : List (Option Nat) × List Nat :=
  (List.range n).foldl (aggStep s mapping from_) ([], [])

theorem aggSlots_succ (s mapping : List Nat) (from_ n : Nat) :
    aggSlots s mapping from_ (n + 1) = aggStep s mapping from_ (aggSlots s mapping from_ n) n := by
  unfold aggSlots
  rw [List.range_succ, List.foldl_append]; rfl

/-- what the slot table and the position list contain after `n` groups -/
theorem aggSlots_spec (s mapping : List Nat) (from_ n : Nat) :
    (aggSlots s mapping from_ n).1.length = n ∧
    (∀ k, k < n → (aEmpty s mapping (from_ + k) → (aggSlots s mapping from_ n).1[k]? = some none) ∧
      (¬aEmpty s mapping (from_ + k) → ∃ vi, (aggSlots s mapping from_ n).1[k]? = some (some vi) ∧
        (aggSlots s mapping from_ n).2[vi]? = some (aNext s mapping (from_ + k) - 1))) ∧
    (∀ p ∈ (aggSlots s mapping from_ n).2, ∃ k, k < n ∧ ¬aEmpty s mapping (from_ + k) ∧ p = aNext s mapping (from_ + k) - 1) := by
  induction n with
  | zero => exact ⟨rfl, fun k hk => by omega, fun p hp => by simp [aggSlots] at hp⟩
  | succ n ih =>
    obtain ⟨i1, i2, i3⟩ := ih
    rw [aggSlots_succ]
    generalize aggSlots s mapping from_ n = acc at i1 i2 i3
    unfold aggStep
    simp only []
    by_cases he : aEmpty s mapping (from_ + n)
    · have he' : (if from_ + n + 1 < mapping.length then mapping.getD (from_ + n + 1) 0 else s.length) = 0 ∨
          mapping.getD (from_ + n) 0 ≥ (if from_ + n + 1 < mapping.length then mapping.getD (from_ + n + 1) 0 else s.length) := he
      rw [if_pos he']
      refine ⟨by simp [i1], fun k hk => ?_, fun p hp => ?_⟩
      · by_cases hkn : k = n
        · subst hkn
          refine ⟨fun _ => by simp [← i1], fun hne => absurd he hne⟩
        · obtain ⟨a1, a2⟩ := i2 k (by omega)
          refine ⟨fun h => by rw [List.getElem?_append_left (by omega)]; exact a1 h, fun h => ?_⟩
          obtain ⟨vi, v1, v2⟩ := a2 h
          exact ⟨vi, by rw [List.getElem?_append_left (by omega)]; exact v1, v2⟩
      · obtain ⟨k, k1, k2, k3⟩ := i3 p hp
        exact ⟨k, by omega, k2, k3⟩
    · have he' : ¬((if from_ + n + 1 < mapping.length then mapping.getD (from_ + n + 1) 0 else s.length) = 0 ∨
          mapping.getD (from_ + n) 0 ≥ (if from_ + n + 1 < mapping.length then mapping.getD (from_ + n + 1) 0 else s.length)) := he
      rw [if_neg he']
      refine ⟨by simp [i1], fun k hk => ?_, fun p hp => ?_⟩
      · by_cases hkn : k = n
        · subst hkn
          refine ⟨fun h => absurd h he, fun _ => ⟨acc.2.length, by simp [← i1], by simp [aNext]⟩⟩
        · obtain ⟨a1, a2⟩ := i2 k (by omega)
          refine ⟨fun h => by rw [List.getElem?_append_left (by omega)]; exact a1 h, fun h => ?_⟩
          obtain ⟨vi, v1, v2⟩ := a2 h
          have hvi : vi < acc.2.length := by
            rw [List.getElem?_eq_some_iff] at v2; exact v2.1
          exact ⟨vi, by rw [List.getElem?_append_left (by omega)]; exact v1, by rw [List.getElem?_append_left hvi]; exact v2⟩
      · rcases List.mem_append.mp hp with h | h
        · obtain ⟨k, k1, k2, k3⟩ := i3 p h
          exact ⟨k, by omega, k2, k3⟩
        · simp at h
          exact ⟨n, by omega, he, by rw [h]; rfl⟩

/-- the second loop: every slot with a value index finds its value -/
theorem aggFill (values : List Nat) (slots : List (Option Nat)) (h : ∀ vi, some vi ∈ slots → vi < values.length) (acc : List (Option Nat)) :
    slots.foldl (fun (acc : R (List (Option Nat))) sl =>
      match acc with
      | .panic => .panic
      | .ok l =>
        match sl with
        | none => .ok (l ++ [none])
        | some vi => match values[vi]? with
          | some v => .ok (l ++ [some v])
          | none => .panic) (.ok acc) = .ok (acc ++ slots.map (fun sl => sl.bind (fun vi => values[vi]?))) := by
  induction slots generalizing acc with
  | nil => simp
  | cons a t ih =>
    simp only [List.foldl_cons, List.map_cons]
    cases a with
    | none =>
      simp only
      rw [ih (fun vi hvi => h vi (List.mem_cons_of_mem _ hvi))]
      simp
    | some vi =>
      have hlt := h vi (List.mem_cons_self ..)
      simp only [List.getElem?_eq_getElem hlt]
      rw [ih (fun vi hvi => h vi (List.mem_cons_of_mem _ hvi))]
      simp [List.getElem?_eq_getElem hlt]


theorem readSorted_all (s idx : List Nat) (h : ∀ p ∈ idx, p < s.length) : readSorted s idx = idx.map (fun p => s.getD p 0) := by
  unfold readSorted
  induction idx with
  | nil => rfl
  | cons a t ih =>
    have ha := h a (List.mem_cons_self ..)
    simp only [List.filterMap_cons, List.getElem?_eq_getElem ha, List.map_cons]
    rw [ih (fun p hp => h p (List.mem_cons_of_mem _ hp))]
    simp [List.getD_eq_getElem?_getD, List.getElem?_eq_getElem ha]

/-- sparse aggregation, range read: exactly the formula — the last element of each non-empty group, nothing for an empty one —
at every index of `[from, min(to, |mapping|))`, for every source and mapping whose non-empty groups end inside the source -/
theorem C15_agg_range (s mapping : List Nat) (from_ to : Nat)
    (hin : ∀ i, from_ ≤ i → i < min to mapping.length → ¬aEmpty s mapping i → aNext s mapping i - 1 < s.length) :
    aggRange s mapping from_ to =
      .ok ((List.range (min to mapping.length - from_)).map (fun k =>
        if aEmpty s mapping (from_ + k) then none else some (s.getD (aNext s mapping (from_ + k) - 1) 0))) := by
  unfold aggRange
  simp only []
  generalize hto : min to mapping.length = t at hin
  by_cases hge : from_ ≥ t
  · simp only [hge, if_true]
    have : t - from_ = 0 := by omega
    simp [this]
  · simp only [hge, if_false]
    have hslots : (List.range (t - from_)).foldl (fun (acc : List (Option Nat) × List Nat) k =>
        let i := from_ + k
        let cur := mapping.getD i 0
        let next := if i + 1 < mapping.length then mapping.getD (i + 1) 0 else s.length
        if next = 0 ∨ cur ≥ next then (acc.1 ++ [none], acc.2)
        else (acc.1 ++ [some acc.2.length], acc.2 ++ [next - 1])) ([], []) = aggSlots s mapping from_ (t - from_) := rfl
    rw [hslots]
    obtain ⟨p1, p2, p3⟩ := aggSlots_spec s mapping from_ (t - from_)
    generalize aggSlots s mapping from_ (t - from_) = sl at p1 p2 p3
    have hP : ∀ p ∈ sl.2, p < s.length := by
      intro p hp
      obtain ⟨k, k1, k2, k3⟩ := p3 p hp
      rw [k3]; exact hin (from_ + k) (by omega) (by omega) k2
    rw [readSorted_all s sl.2 hP]
    have hvi : ∀ vi, some vi ∈ sl.1 → vi < (sl.2.map (fun p => s.getD p 0)).length := by
      intro vi hm
      obtain ⟨k, hk, hget⟩ := List.mem_iff_getElem.mp hm
      have hk' : k < t - from_ := by omega
      obtain ⟨a1, a2⟩ := p2 k hk'
      have hgk : sl.1[k]? = some (some vi) := by rw [List.getElem?_eq_getElem hk, hget]
      by_cases he : aEmpty s mapping (from_ + k)
      · rw [a1 he] at hgk; cases hgk
      · obtain ⟨vi', v1, v2⟩ := a2 he
        rw [v1] at hgk
        simp only [Option.some.injEq] at hgk
        subst hgk
        rw [List.length_map]
        rw [List.getElem?_eq_some_iff] at v2; exact v2.1
    have := aggFill (sl.2.map (fun p => s.getD p 0)) sl.1 hvi []
    rw [List.nil_append] at this
    refine Eq.trans this ?_
    congr 1
    apply List.ext_getElem?
    intro k
    rw [List.getElem?_map, List.getElem?_map]
    by_cases hk : k < t - from_
    · have hr : (List.range (t - from_))[k]? = some k := by simp [hk]
      rw [hr]
      obtain ⟨a1, a2⟩ := p2 k hk
      simp only [Option.map_some]
      by_cases he : aEmpty s mapping (from_ + k)
      · rw [a1 he, if_pos he]; rfl
      · obtain ⟨vi, v1, v2⟩ := a2 he
        rw [v1, if_neg he]
        simp only [Option.map_some, Option.bind_some, List.getElem?_map, v2]
    · rw [List.getElem?_eq_none (by omega), List.getElem?_eq_none (by simp; omega)]; rfl


end AnyDB.C15
