import AnyDB.Lemmas.CrashKeepStep
import AnyDB.Props.C01All
/-!
# C05 over whole histories: the data of a region nobody names survives every crash

`Props/C05.lean` proves the durability half in isolation (`C05_untouched`: bytes of a range no later event stores into are
in every crash image).  This file proves the other half on the rawdb model and joins the two:

* `keep_step` (Lemmas/CrashKeep*.lean): a request that does not name region `j` (`Touches`) leaves `j`'s metadata alone and every
  event it appends to the log — all four placement paths of `write_with` on other regions incl. the relocation copy, creation,
  removal, retain, flush, compaction's hole punching, file growth — stores nothing into the pages `[start, start+ceil_page(len))`
  of `j` and never cuts the file below them; the reasons are exactly C02's: other regions' extents (old and new), relocation
  reservations and free extents are disjoint from `j`'s extent, the last region has nothing behind it, and compaction punches
  only beyond `ceil_page(len)`;
* `keep_run`: the same for every history of such requests (panic-free by `C01Total`);
* `C05_history_data`: take the data file right after a sync (what `flush()` does), let ANY well-behaved history that does not
  name region `j` run, stop it after ANY number of its events (every crash point, also inside a request), and let the
  operating system keep any content for every page stored to since the last sync: in EVERY such crash image the bytes
  `[start, start+len)` of region `j` are exactly the ones it had at the sync — and its slot in the model still says the same
  name, start, length and reservation.

* `C05_history_slot`: the same for the METADATA file — no later request writes slot `j` or cuts the file below it, so in
  every crash image the slot's 4096 bytes are the synced ones: the region comes back with its name, start, length and
  reservation.

Not proved here (crash engine): that the WHOLE metadata file after the crash decodes to a disjoint layout (the ordering argument
`C05_order` for the slots that WERE rewritten), and the "never a mixture" sentence for regions that were modified.
-/
namespace AnyDB.C05r
open AnyDB Conc Db C02r C01r Mem Durable

/-- every request of the history leaves region `j` alone: metadata kept, no store into its data pages -/
theorem keep_run (s : Db) (r : Ref) (ops : List Op) (hrel : Rel s r) (hinv : RInv s) (hi : InF s) (ha : Al s)
    (hr : NoReopen ops) (hf : FineRun s ops) (j : Nat) (slj : Slot) (hsj : s.slot? j = some slj)
    (hunt : ∀ op ∈ ops, ¬Touches slj.md.id op) (hjr : j < s.rfile.length) :
    Keep j slj.md.start (slj.md.start + ceilPage slj.md.len) s (run s ops) := by
  induction ops generalizing s r slj with
  | nil => exact Keep.refl _ _ _ _
  | cons op t ih =>
    have hno := hr op (List.mem_cons_self ..)
    have k1 := keep_step s op hinv hi ha j slj hsj (hunt op (List.mem_cons_self ..)) hjr
    have hn := normal_of_fine s op hinv hf.1
    obtain ⟨r1, r2⟩ := rel_step s r op hrel hinv hno hn
    have hi' := inf_step s op hinv.lay hi hno
    have ha' : Al (step s op).1 := by
      rcases al_step s op hinv.lay ha hno with hp | h
      · exact absurd hp hf.1.1
      · exact h
    obtain ⟨slj', hsj', hmd⟩ := md_of_keep k1 slj hsj
    have k2 := ih (step s op).1 _ r1 r2 hi' ha' (fun o ho => hr o (List.mem_cons_of_mem _ ho)) hf.2 slj' hsj'
      (by rw [hmd]; exact fun o ho => hunt o (List.mem_cons_of_mem _ ho)) (Nat.lt_of_lt_of_le hjr k1.2.2.2)
    rw [hmd] at k2
    exact k1.trans k2

/-- the events of the data file, as the durability model sees them -/
def dataEv : Event → List Durable.Ev
  | .dataWrite off d => [.write off d]
  | .setLen .data n => [.setLen n]
  | .sync .data => [.sync]
  | .punch off len => [.punch off len]
  | _ => []

theorem mem_pagesOf_bounds (off len p : Nat) (h : p ∈ pagesOf off len) :
    len ≠ 0 ∧ off / Gen.PAGE_SIZE ≤ p ∧ p ≤ (off + len - 1) / Gen.PAGE_SIZE := by
  unfold pagesOf at h
  split at h
  · cases h
  · rename_i hl
    simp only [List.mem_map, List.mem_range] at h
    obtain ⟨k, hk, rfl⟩ := h
    refine ⟨hl, by omega, ?_⟩
    have : off / Gen.PAGE_SIZE ≤ (off + len - 1) / Gen.PAGE_SIZE := Nat.div_le_div_right (by omega)
    omega

/-- byte-level avoidance of the page-aligned window gives the page-level avoidance the durability theorem asks for -/
theorem avoids_of_av (j start len : Nat) (hs : start % Gen.PAGE_SIZE = 0) (e : Event) (h : Av j start (start + ceilPage len) e) :
    ∀ e' ∈ dataEv e, e'.avoids start (start + len) := by
  have hB : (start + len + Gen.PAGE_SIZE - 1) / Gen.PAGE_SIZE = (start + ceilPage len) / Gen.PAGE_SIZE := by
    unfold ceilPage; simp only [Gen.PAGE_SIZE] at *; omega
  have hcl : len ≤ ceilPage len := le_ceilPage2 len
  cases e with
  | dataWrite off d =>
    intro e' he'
    simp only [dataEv, List.mem_singleton] at he'
    subst he'
    intro p hp
    obtain ⟨p1, p2, p3⟩ := mem_pagesOf_bounds off d.length p hp
    simp only [Av] at h
    rcases h with h | h
    · left
      have : (off + d.length - 1) / Gen.PAGE_SIZE < start / Gen.PAGE_SIZE := by simp only [Gen.PAGE_SIZE] at *; omega
      omega
    · right
      rw [hB]
      have : (start + ceilPage len) / Gen.PAGE_SIZE ≤ off / Gen.PAGE_SIZE := Nat.div_le_div_right h
      omega
  | punch off n =>
    intro e' he'
    simp only [dataEv, List.mem_singleton] at he'
    subst he'
    intro p hp
    obtain ⟨p1, p2, p3⟩ := mem_pagesOf_bounds off n p hp
    simp only [Av] at h
    rcases h with h | h
    · left
      have : (off + n - 1) / Gen.PAGE_SIZE < start / Gen.PAGE_SIZE := by simp only [Gen.PAGE_SIZE] at *; omega
      omega
    · right
      rw [hB]
      have : (start + ceilPage len) / Gen.PAGE_SIZE ≤ off / Gen.PAGE_SIZE := Nat.div_le_div_right h
      omega
  | setLen f n =>
    cases f with
    | data =>
      intro e' he'
      simp only [dataEv, List.mem_singleton] at he'
      subst he'
      simp only [Av] at h
      show start + len ≤ n
      omega
    | regions => intro e' he'; simp [dataEv] at he'
  | sync f =>
    cases f with
    | data => intro e' he'; simp only [dataEv, List.mem_singleton] at he'; subst he'; trivial
    | regions => intro e' he'; simp [dataEv] at he'
  | metaWrite i m => intro e' he'; simp [dataEv] at he'
  | flushAsync f a b => intro e' he'; simp [dataEv] at he'
  | flushAsyncAll f => intro e' he'; simp [dataEv] at he'

/-- **C05, data half, for every history and every crash point.**  `s`: any state of the invariants (every reachable state
is one); region `j` is live with slot `slj`; `f`: the data file right after a sync, showing what the mapping shows
(`hfv`); `ops`: any history without reopen in which no request panics and none names region `j`; `k`: how many of the
events of that history have happened when the machine stops; `img`: ANY content the file may then have (pages stored to
since the last sync hold anything).  Then region `j`'s slot still carries its name, start, length and reservation, and
every byte of its data is in `img` exactly as it was at the sync. -/
theorem C05_history_data (s : Db) (r : Ref) (ops : List Op) (hrel : Rel s r) (hinv : RInv s) (hi : InF s) (ha : Al s)
    (hr : NoReopen ops) (hf : FineRun s ops) (j : Nat) (slj : Slot) (hsj : s.slot? j = some slj)
    (hunt : ∀ op ∈ ops, ¬Touches slj.md.id op) (hjr : j < s.rfile.length)
    (f : FileD) (hfl : slj.md.start + slj.md.len ≤ f.volatile.length) (hfv : ∀ i, i < f.volatile.length → f.volatile[i]? = s.mem.get? i)
    (k : Nat) (img : List UInt8)
    (hc : CrashImage ((f.apply .sync).run ((((run s ops).log.drop s.log.length).take k).flatMap dataEv)) img) :
    ((run s ops).slot? j).map (·.md) = some slj.md ∧
    ∀ i, i < slj.md.len → img[slj.md.start + i]? = s.mem.get? (slj.md.start + i) := by
  obtain ⟨k1, ⟨evs, hlog, hav⟩, _⟩ := keep_run s r ops hrel hinv hi ha hr hf j slj hsj hunt hjr
  refine ⟨by rw [k1, hsj]; rfl, ?_⟩
  have hdrop : (run s ops).log.drop s.log.length = evs := by rw [hlog]; simp
  rw [hdrop] at hc
  have hal := (alE_slot s ha j slj hsj).1
  have havoid : ∀ e' ∈ (evs.take k).flatMap dataEv, e'.avoids slj.md.start (slj.md.start + slj.md.len) := by
    intro e' he'
    obtain ⟨e, he, hee⟩ := List.mem_flatMap.mp he'
    exact avoids_of_av j slj.md.start slj.md.len hal e (hav e (List.mem_of_mem_take he)) e' hee
  intro i hi'
  have := C05.C05_untouched f _ slj.md.start (slj.md.start + slj.md.len) img hfl havoid hc (slj.md.start + i) (by omega) (by omega)
  rw [this]
  exact hfv _ (by omega)


/-! ## the metadata file: the slot of a region nobody names is never written again -/

/-- the events of the metadata file, as the durability model sees them; `enc` is the 4096-byte image of a slot -/
def regEv (enc : Option Meta → List UInt8) : Event → List Durable.Ev
  | .metaWrite idx m => [.write (idx * Gen.SIZE_OF_REGION_METADATA) (enc m)]
  | .setLen .regions n => [.setLen n]
  | .sync .regions => [.sync]
  | _ => []

theorem avoids_slot (j a b : Nat) (enc : Option Meta → List UInt8) (henc : ∀ m, (enc m).length = Gen.SIZE_OF_REGION_METADATA)
    (e : Event) (h : Av j a b e) :
    ∀ e' ∈ regEv enc e, e'.avoids (j * Gen.SIZE_OF_REGION_METADATA) ((j + 1) * Gen.SIZE_OF_REGION_METADATA) := by
  cases e with
  | metaWrite idx m =>
    intro e' he'
    simp only [regEv, List.mem_singleton] at he'
    subst he'
    intro p hp
    obtain ⟨_, p2, p3⟩ := mem_pagesOf_bounds _ _ p hp
    rw [henc] at p3
    simp only [Av] at h
    simp only [Gen.SIZE_OF_REGION_METADATA, Gen.PAGE_SIZE] at *
    omega
  | setLen f n =>
    cases f with
    | regions => intro e' he'; simp only [regEv, List.mem_singleton] at he'; subst he'; exact h
    | data => intro e' he'; simp [regEv] at he'
  | sync f =>
    cases f with
    | regions => intro e' he'; simp only [regEv, List.mem_singleton] at he'; subst he'; trivial
    | data => intro e' he'; simp [regEv] at he'
  | dataWrite o d => intro e' he'; simp [regEv] at he'
  | punch o n => intro e' he'; simp [regEv] at he'
  | flushAsync f a b => intro e' he'; simp [regEv] at he'
  | flushAsyncAll f => intro e' he'; simp [regEv] at he'

/-- **C05, metadata half**: with the hypotheses of `C05_history_data`, take the METADATA file right after a sync; at every
crash point of the continuation and in every crash image the 4096 bytes of slot `j` are exactly the synced ones — so the
region is recovered with the name, start, length and reservation it had (C17: the slot image decodes to what was encoded) -/
theorem C05_history_slot (s : Db) (r : Ref) (ops : List Op) (hrel : Rel s r) (hinv : RInv s) (hi : InF s) (ha : Al s)
    (hr : NoReopen ops) (hf : FineRun s ops) (j : Nat) (slj : Slot) (hsj : s.slot? j = some slj)
    (hunt : ∀ op ∈ ops, ¬Touches slj.md.id op) (hjr : j < s.rfile.length)
    (enc : Option Meta → List UInt8) (henc : ∀ m, (enc m).length = Gen.SIZE_OF_REGION_METADATA)
    (g : FileD) (hgl : (j + 1) * Gen.SIZE_OF_REGION_METADATA ≤ g.volatile.length)
    (k : Nat) (img : List UInt8)
    (hc : CrashImage ((g.apply .sync).run ((((run s ops).log.drop s.log.length).take k).flatMap (regEv enc))) img) :
    ∀ i, j * Gen.SIZE_OF_REGION_METADATA ≤ i → i < (j + 1) * Gen.SIZE_OF_REGION_METADATA → img[i]? = g.volatile[i]? := by
  obtain ⟨_, ⟨evs, hlog, hav⟩, _⟩ := keep_run s r ops hrel hinv hi ha hr hf j slj hsj hunt hjr
  have hdrop : (run s ops).log.drop s.log.length = evs := by rw [hlog]; simp
  rw [hdrop] at hc
  have havoid : ∀ e' ∈ (evs.take k).flatMap (regEv enc), e'.avoids (j * Gen.SIZE_OF_REGION_METADATA) ((j + 1) * Gen.SIZE_OF_REGION_METADATA) := by
    intro e' he'
    obtain ⟨e, he, hee⟩ := List.mem_flatMap.mp he'
    exact avoids_slot j _ _ enc henc e (hav e (List.mem_of_mem_take he)) e' hee
  exact C05.C05_untouched g _ _ _ img hgl havoid hc

theorem okRun_append (r : Ref) (a b : List Op) (h : OKRun r (a ++ b)) : OKRun r a ∧ OKRun (a.foldl refStep r) b := by
  induction a generalizing r with
  | nil => exact ⟨trivial, h⟩
  | cons op t ih =>
    obtain ⟨h1, h2, h3⟩ := h
    obtain ⟨i1, i2⟩ := ih (refStep r op) h3
    exact ⟨⟨h1, h2, i1⟩, i2⟩

/-- the same from the empty database, with hypotheses on the requests only: `ops₁` is the history up to the flush,
`ops₂` what happens afterwards; both well-formed (`OKRun`), without reopen, and `ops₂` never names the region -/
theorem C05_history (ops₁ ops₂ : List Op) (hr1 : NoReopen ops₁) (hr2 : NoReopen ops₂) (hok : OKRun [] (ops₁ ++ ops₂))
    (j : Nat) (slj : Slot) (hsj : (run Db.init ops₁).slot? j = some slj) (hunt : ∀ op ∈ ops₂, ¬Touches slj.md.id op)
    (hjr : j < (run Db.init ops₁).rfile.length)
    (f : FileD) (hfl : slj.md.start + slj.md.len ≤ f.volatile.length)
    (hfv : ∀ i, i < f.volatile.length → f.volatile[i]? = (run Db.init ops₁).mem.get? i)
    (k : Nat) (img : List UInt8)
    (hc : CrashImage ((f.apply .sync).run ((((run (run Db.init ops₁) ops₂).log.drop (run Db.init ops₁).log.length).take k).flatMap dataEv)) img) :
    ((run (run Db.init ops₁) ops₂).slot? j).map (·.md) = some slj.md ∧
    ∀ i, i < slj.md.len → img[slj.md.start + i]? = (run Db.init ops₁).mem.get? (slj.md.start + i) := by
  obtain ⟨ok1, ok2⟩ := okRun_append [] ops₁ ops₂ hok
  have hf1 := fineRun_of_ok Db.init [] ops₁ rel_init.1 rel_init.2 inf_init hr1 ok1
  obtain ⟨_, hn1, _⟩ := C01_history_partial ops₁ hr1 hf1
  obtain ⟨hrel, hinv⟩ := rel_run Db.init [] ops₁ rel_init.1 rel_init.2 hr1 hn1
  have hnp := noPanic_of_fine Db.init ops₁ hf1
  have hi := inf_run Db.init ops₁ linv_init inf_init hr1 hnp
  have ha := al_run Db.init ops₁ linv_init al_init hr1 hnp
  have hf2 := fineRun_of_ok (run Db.init ops₁) _ ops₂ hrel hinv hi hr2 ok2
  exact C05_history_data _ _ ops₂ hrel hinv hi ha hr2 hf2 j slj hsj hunt hjr f hfl hfv k img hc


theorem okRun_eqUpTo (r r' : Ref) (ops : List Op) (h : EqUpTo r r') (hok : OKRun r ops) : OKRun r' ops := by
  induction ops generalizing r r' with
  | nil => trivial
  | cons op t ih =>
    have hs := eqUpTo_step r r' op h
    exact ⟨hok.1, (small_eqUpTo _ _ hs).mp hok.2.1, ih _ _ hs hok.2.2⟩

/-- … and with reopens anywhere in the history before the sync (`ReadyRun`: each in a state where every live region has been
written at least once) -/
theorem C05_history_all (ops₁ ops₂ : List Op) (hready : ReadyRun Db.init ops₁) (hr2 : NoReopen ops₂) (hok : OKRun [] (ops₁ ++ ops₂))
    (j : Nat) (slj : Slot) (hsj : (run Db.init ops₁).slot? j = some slj) (hunt : ∀ op ∈ ops₂, ¬Touches slj.md.id op)
    (hjr : j < (run Db.init ops₁).rfile.length)
    (f : FileD) (hfl : slj.md.start + slj.md.len ≤ f.volatile.length)
    (hfv : ∀ i, i < f.volatile.length → f.volatile[i]? = (run Db.init ops₁).mem.get? i)
    (k : Nat) (img : List UInt8)
    (hc : CrashImage ((f.apply .sync).run ((((run (run Db.init ops₁) ops₂).log.drop (run Db.init ops₁).log.length).take k).flatMap dataEv)) img) :
    ((run (run Db.init ops₁) ops₂).slot? j).map (·.md) = some slj.md ∧
    ∀ i, i < slj.md.len → img[slj.md.start + i]? = (run Db.init ops₁).mem.get? (slj.md.start + i) := by
  obtain ⟨ok1, ok2⟩ := okRun_append [] ops₁ ops₂ hok
  obtain ⟨_, g⟩ := good_run Db.init [] ops₁ good_init ok1 hready
  obtain ⟨ρ', hrel, he⟩ := g.rel
  have hf2 := fineRun_of_ok (run Db.init ops₁) ρ' ops₂ hrel g.rinv g.inf hr2 (okRun_eqUpTo _ _ ops₂ he ok2)
  exact C05_history_data _ _ ops₂ hrel g.rinv g.inf g.al hr2 hf2 j slj hsj hunt hjr f hfl hfv k img hc

end AnyDB.C05r

namespace AnyDB.C05r
open AnyDB Conc Db C01r
/-- non-vacuity: the premises hold on a concrete pair of histories — region `a` is flushed, then region `b` grows past
    its reservation (relocation or growth) and the database is compacted -/
def exOps1 : List Op := [.create [97], .write [97] [1, 2, 3], .create [98], .write [98] [9], .flush]
def exOps2 : List Op := [.write [98] (List.replicate 50 7), .compact, .create [99], .remove [98]]
example : OKRun [] (exOps1 ++ exOps2) := by decide
example : ∀ op ∈ exOps2, ¬Touches [97] op := by
  intro op h
  simp only [exOps2, List.mem_cons, List.not_mem_nil, or_false] at h
  rcases h with rfl | rfl | rfl | rfl <;> simp [Touches]
end AnyDB.C05r
