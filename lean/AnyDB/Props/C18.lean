import AnyDB.Model.OpenLock

/-!
# C18 — at most one open Database per directory

Model: `AnyDB/Model/OpenLock.lean` — the file effects of `Database::open_with_min_len` and
`Regions::open` IN THE ORDER EXTRACTED FROM THE SOURCE, over two files with one exclusive advisory lock
each.

* `C18_effects`          — the extracted effect sequence (pinned: an edit that reorders `try_lock`, `set_len`
                            or switches to `truncate(true)` changes this list and re-opens the proofs below);
* `C18_refused_pure`     — while a holder has the data file locked, an open attempt — with ANY `min_len`, below
                            or above the current size — fails with the lock error and leaves both files' lengths
                            (and locks) exactly as they were: nothing is created, grown or truncated;
* `C18_refused_regions`  — the same when only the metadata file is still locked;
* `C18_exclusive`        — after a successful open both files are locked, so every further attempt is refused
                            (at most one live open per directory, whatever the order of attempts);
* `C18_opens_when_free`  — with no holder the attempt succeeds, never shrinks the data file and grows it to
                            `min_len` at most.

What the model cannot exhibit: the kernel's lock semantics (exclusive per open file description,
released at close) and the lifetime of the holder's handles inside the process (`Arc`, background
tasks) — both are exercised by the open-lock engine: second opens from another thread and from a child
process while the holder is alive through a Database clone, a Region, a Reader or a background task,
`open_with_min_len` below and above the current size, byte-for-byte file comparison before/after each
refused attempt, then drop everything and reopen (sees the flushed data).
-/
namespace AnyDB.C18
open AnyDB OpenLock Gen

theorem C18_effects :
    effects = [(true, "createDirAll"), (true, "openCreate"), (true, "openTruncateFalse"), (true, "tryLock"), (true, "setLen"),
      (true, "syncAll"), (false, "createDirAll"), (false, "openCreate"), (false, "openTruncateFalse"), (false, "tryLock"),
      (false, "createMmap"), (true, "createMmap"), (true, "fill"), (true, "layoutFrom")] := by
  decide

theorem C18_refused_pure (fs : Fs) (minLen : Nat) (h : fs.data.locked = true) :
    openAttempt fs minLen = (fs, .tryLockError) := by
  unfold openAttempt
  rw [C18_effects]
  simp [runEffects, effect, h]

theorem C18_refused_regions (fs : Fs) (minLen : Nat) (hd : fs.data.locked = false) (hr : fs.regions.locked = true) :
    (openAttempt fs minLen).2 = .tryLockError ∧ (openAttempt fs minLen).1.regions = fs.regions := by
  unfold openAttempt
  rw [C18_effects]
  simp [runEffects, effect, hd, hr]

theorem C18_opens_when_free (fs : Fs) (minLen : Nat) (hd : fs.data.locked = false) (hr : fs.regions.locked = false) :
    (openAttempt fs minLen).2 = .opened ∧
    (openAttempt fs minLen).1.data.locked = true ∧ (openAttempt fs minLen).1.regions.locked = true ∧
    (openAttempt fs minLen).1.data.len = max fs.data.len minLen ∧ (openAttempt fs minLen).1.regions.len = fs.regions.len := by
  unfold openAttempt
  rw [C18_effects]
  simp [runEffects, effect, hd, hr]

/-- at most one live open: whoever comes after a successful open is refused, and changes nothing -/
theorem C18_exclusive (fs : Fs) (m1 m2 : Nat) (hd : fs.data.locked = false) (hr : fs.regions.locked = false) :
    openAttempt (openAttempt fs m1).1 m2 = ((openAttempt fs m1).1, .tryLockError) :=
  C18_refused_pure _ m2 (C18_opens_when_free fs m1 hd hr).2.1

example : openAttempt { data := { len := 1048576, ver := 3, locked := true }, regions := { len := 8192, ver := 0, locked := true } } (8 * 1048576)
    = ({ data := { len := 1048576, ver := 3, locked := true }, regions := { len := 8192, ver := 0, locked := true } }, .tryLockError) := by decide

/-! ## every history of opens, probes, references, drops and flushed writes -/

/-- both files are locked exactly while somebody still references the holder -/
def Inv (d : Dir) : Prop :=
  d.fs.data.locked = decide (d.holders > 0) ∧ d.fs.regions.locked = decide (d.holders > 0)

theorem inv_init : Inv Dir.init := by simp [Inv, Dir.init]

theorem step_inv (d : Dir) (o : Op) (h : Inv d) : Inv (step d o).1 := by
  obtain ⟨h1, h2⟩ := h
  cases o with
  | openKeep m =>
    by_cases hh : d.holders > 0
    · have hl : d.fs.data.locked = true := by simp [h1, hh]
      simp only [step, C18_refused_pure d.fs m hl]
      exact ⟨h1, h2⟩
    · have hd : d.fs.data.locked = false := by simp [h1, hh]
      have hr : d.fs.regions.locked = false := by simp [h2, hh]
      obtain ⟨a, b, c, _, _⟩ := C18_opens_when_free d.fs m hd hr
      generalize hx : openAttempt d.fs m = x at a b c
      obtain ⟨fs', r⟩ := x
      simp only at a b c
      subst a
      simp [step, hx, Inv, b, c]
  | probe m =>
    by_cases hh : d.holders > 0
    · have hl : d.fs.data.locked = true := by simp [h1, hh]
      simp only [step, C18_refused_pure d.fs m hl]
      exact ⟨h1, h2⟩
    · have hd : d.fs.data.locked = false := by simp [h1, hh]
      have hr : d.fs.regions.locked = false := by simp [h2, hh]
      obtain ⟨a, _, _, _, _⟩ := C18_opens_when_free d.fs m hd hr
      generalize hx : openAttempt d.fs m = x at a
      obtain ⟨fs', r⟩ := x
      simp only at a
      subst a
      simp [step, hx, Inv, unlock, hh]
  | addRef =>
    simp only [step]; split
    · simp [Inv, h1, h2, *]
    · exact ⟨h1, h2⟩
  | dropRef =>
    simp only [step]; split
    · exact ⟨h1, h2⟩
    · split
      · simp [Inv, unlock]
      · have : d.holders - 1 > 0 := by omega
        have h0 : d.holders > 0 := by omega
        simp [Inv, h1, h2, this, h0]
  | touch v =>
    simp only [step]; split
    · simp [Inv, h2, *]
    · exact ⟨h1, h2⟩

theorem run_inv (d : Dir) (os : List Op) (h : Inv d) : Inv (run d os) := by
  induction os generalizing d with
  | nil => exact h
  | cons o os ih => exact ih _ (step_inv d o h)

/-- C18, first sentence, for EVERY history: in any state reached from an empty directory by any sequence of
opens (kept or dropped at once, from anywhere), clones/readers/region-derived references, drops and flushed
writes, an open attempt made while at least one reference to the holder is alive is refused and leaves
the directory — lengths, contents, locks — and the holder exactly as they were, whatever `min_len` is. -/
theorem C18_history_refused (os : List Op) (m : Nat) (h : (run Dir.init os).holders > 0) :
    step (run Dir.init os) (.openKeep m) = (run Dir.init os, .refused) ∧
    step (run Dir.init os) (.probe m) = (run Dir.init os, .refused) := by
  have hi := run_inv Dir.init os inv_init
  have hl : (run Dir.init os).fs.data.locked = true := by simp [hi.1, h]
  simp [step, C18_refused_pure _ m hl]

/-- C18, second sentence, for EVERY history: once every reference is gone, an open succeeds, sees exactly the
content the previous holder flushed, does not shrink the file and grows it to `min_len` at most. -/
theorem C18_history_reopen (os : List Op) (m : Nat) (h : (run Dir.init os).holders = 0) :
    (step (run Dir.init os) (.openKeep m)).2 = .opened (run Dir.init os).fs.data.ver ∧
    (step (run Dir.init os) (.openKeep m)).1.holders = 1 ∧
    (step (run Dir.init os) (.openKeep m)).1.fs.data.len = max (run Dir.init os).fs.data.len m := by
  have hi := run_inv Dir.init os inv_init
  have hd : (run Dir.init os).fs.data.locked = false := by simp [hi.1, h]
  have hr : (run Dir.init os).fs.regions.locked = false := by simp [hi.2, h]
  have hv : (openAttempt (run Dir.init os).fs m).1.data.ver = (run Dir.init os).fs.data.ver := by
    unfold openAttempt; rw [C18_effects]; simp [runEffects, effect, hd, hr]
  obtain ⟨a, _, _, e, _⟩ := C18_opens_when_free (run Dir.init os).fs m hd hr
  generalize hx : openAttempt (run Dir.init os).fs m = x at a e hv
  obtain ⟨fs', r⟩ := x
  simp only at a e hv
  subst a
  simp [step, hx, hv, e]

/-- the number of live instances never exceeds one: a kept open succeeds only from `holders = 0` -/
theorem C18_at_most_one (os : List Op) (m v : Nat) (d' : Dir) :
    step (run Dir.init os) (.openKeep m) = (d', .opened v) → (run Dir.init os).holders = 0 := by
  intro hs
  by_cases h : (run Dir.init os).holders > 0
  · rw [(C18_history_refused os m h).1] at hs; cases hs
  · omega

-- non-vacuity: a holder with a clone, a refused probe above the current size, then everything dropped and a reopen
example : (run Dir.init [.openKeep 0, .touch 7, .addRef, .probe 8388608, .dropRef]).holders = 1 := by decide
example : step (run Dir.init [.openKeep 0, .touch 7, .addRef, .dropRef, .dropRef]) (.openKeep 8192)
    = ({ fs := { data := { len := 1048576, ver := 7, locked := true }, regions := { len := 0, ver := 0, locked := true } }, holders := 1 }, .opened 7) := by decide

end AnyDB.C18
