import AnyDB.Generated.ConcOrders
import AnyDB.Model.Publish
import AnyDB.Model.PublishC

/-!
# C09 — a concurrent reader never sees a length whose elements are not there yet

Two small-step models at the granularity of the writer's internal effects, one for the raw formats
(`Model/Publish.lean`: data copy, region length, relocation to a fresh extent, move, length publication) and one
for the compressed formats (`Model/PublishC.lean`: data write, index lock, index update, publication, unlock).
The writer's programs are ASSEMBLED FROM THE CALL ORDERS THE EXTRACTOR READS OFF THE SOURCE (`C09_programs`), so a
reordering in `write()` or in `Region::write_with` changes the program the theorems speak about.

Raw formats — proved for every interleaving (`AnyDB.C09`):
* `C09_read_prefix`   every read below the loaded length returns the writer's value at that index;
* `C09_len_monotone`  loaded lengths never decrease;
* `C09_reordered_counterexample`  with publication first the model exhibits the failure.
Compressed formats (`AnyDB.PublishC`):
* `C09_comp_read_partial`  for every interleaving in which each write starts on a page boundary or extends the raw
  tail page, the reader's read of `[0, l)` is exactly the first `l` values of the writer's sequence;
* `C09_comp_counterexample` (F17)  a write that crosses a page boundary from a partial tail page overwrites that
  page before taking the index lock: a reader holding the old index decodes garbage — the full statement is false
  of the model and of the code (known finding);
* `C09_comp_reordered_counterexample`  publication before the index update (the seeded change) breaks it too.
No blocking: every reader step of the raw model is always enabled; in the compressed model `rLock` is disabled
only while the writer holds the index lock, which it releases after two more of its own steps (`unlockIndex`).

What the models cannot exhibit: memory-ordering effects below the Release/Acquire pair (x86 hides them anyway),
torn element reads, the mmap being replaced under a reader (excluded by the guard the Reader holds — C11).
Tie to the code: the extractor (orders) and the directed schedules of the sched engine (writer parked at every
lock event and every named pause point of a write, full reader battery on clones / VecReader / cursors in between;
reader parked between its length load and its snapshot while whole writes, relocations and file growth happen).
-/
namespace AnyDB.C09
open AnyDB Publish

def progInPlace : List Eff := [.copy, .setLen, .publish]
def progReloc : List Eff := [.relocCopy, .copy, .move, .publish]

/-! ### the programs are the extracted call orders -/

/-- region-level calls of the in-place paths of `write_with` -/
def effInPlace : String → Option Eff
  | "dbWrite" => some .copy | "setLen" => some .setLen | _ => none
/-- region-level calls of the relocation path: `set_start`, `set_reserved`, `set_len` run under one metadata write
guard — one `move` -/
def effReloc : String → Option Eff
  | "dbCopy" => some .relocCopy | "dbWrite" => some .copy | "setStart" => some .move | _ => none
/-- what raw `write()` does after `truncate_write` -/
def vecTail (l : List String) : List Eff :=
  ((l.dropWhile (· != "truncateWrite")).drop 1).filterMap (fun s => if s == "updateStoredLen" then some Eff.publish else none)

/-- what must hold at each point of the running write -/
def PhaseInv (s : Sys) : Prop :=
  (s.prog = [] ∧ s.pub = s.rlen ∧ s.seq.length = s.pub ∧ s.reloc = false) ∨
  (s.prog = progInPlace ∧ s.pub = s.rlen ∧ s.seq.length = s.pub ∧ s.reloc = false ∧ s.batch ≠ []) ∨
  (s.prog = [.setLen, .publish] ∧ s.pub = s.rlen ∧ s.reloc = false ∧ s.seq.length = s.pub + s.batch.length ∧
      (s.ext s.cur).take (s.pub + s.batch.length) = s.seq) ∨
  (s.prog = [.publish] ∧ s.rlen = s.pub + s.batch.length ∧ s.reloc = false ∧ s.seq.length = s.rlen) ∨
  (s.prog = progReloc ∧ s.pub = s.rlen ∧ s.seq.length = s.pub ∧ s.reloc = true ∧ s.batch ≠ []) ∨
  (s.prog = [.copy, .move, .publish] ∧ s.pub = s.rlen ∧ s.seq.length = s.pub ∧ s.reloc = true ∧
      s.ext (s.cur + 1) = s.seq) ∨
  (s.prog = [.move, .publish] ∧ s.pub = s.rlen ∧ s.reloc = true ∧ s.seq.length = s.pub + s.batch.length ∧
      s.ext (s.cur + 1) = s.seq)

structure Inv (s : Sys) : Prop where
  cur_ok : (s.ext s.cur).take s.rlen = s.seq.take s.rlen
  len_ok : s.rlen ≤ s.seq.length
  pub_ok : s.pub ≤ s.rlen
  phase : PhaseInv s
  rd_len : ∀ l, s.rL = some l → l ≤ s.pub
  rd_snap : ∀ p n, s.rP = some (p, n) → p ≤ s.cur ∧ (s.ext p).take n = s.seq.take n ∧ n ≤ s.seq.length ∧
      (p = s.cur → n ≤ s.rlen) ∧ (∀ l, s.rL = some l → l ≤ n)

theorem inv_init : Inv Sys.init := by
  refine ⟨by simp [Sys.init], by simp [Sys.init], by simp [Sys.init], ?_, by simp [Sys.init], by simp [Sys.init]⟩
  left; simp [Sys.init]


theorem take_take_le {α} (l : List α) (a b : Nat) (h : b ≤ a) : (l.take a).take b = l.take b := by
  rw [List.take_take]; congr 1; omega

theorem take_append_le {α} (l m : List α) (n : Nat) (h : n ≤ l.length) : (l ++ m).take n = l.take n := by
  rw [List.take_append_of_le_length h]

/-- the data of a running write never lands below the published length of the placement it targets -/
theorem step_inv (s : Sys) (a : Act) (h : Inv s)
    (hp : ∀ b r p, a = .wStart b r p → (r = false ∧ p = progInPlace) ∨ (r = true ∧ p = progReloc)) : Inv (step s a).1 := by
  cases a with
  | wStart b r p =>
    simp only [step]
    split
    · rename_i hc
      obtain ⟨hidle, hb⟩ := hc
      rcases h.phase with ph | ph | ph | ph | ph | ph | ph <;> (try (simp [hidle, progInPlace, progReloc] at ph; done))
      obtain ⟨_, h1, h2, h3⟩ := ph
      rcases hp b r p rfl with ⟨rfl, rfl⟩ | ⟨rfl, rfl⟩
      · exact ⟨h.cur_ok, h.len_ok, h.pub_ok, Or.inr (Or.inl ⟨rfl, h1, h2, rfl, hb⟩), h.rd_len, h.rd_snap⟩
      · exact ⟨h.cur_ok, h.len_ok, h.pub_ok, Or.inr (Or.inr (Or.inr (Or.inr (Or.inl ⟨rfl, h1, h2, rfl, hb⟩)))), h.rd_len, h.rd_snap⟩
    · exact h
  | wStep =>
    simp only [step]
    rcases h.phase with ph | ph | ph | ph | ph | ph | ph
    · -- idle
      obtain ⟨h0, _⟩ := ph
      simp only [h0]; exact h
    · -- in place: copy
      obtain ⟨h0, h1, h2, h3, hb⟩ := ph
      have hseq : s.seq.take s.pub = s.seq := by rw [← h2]; exact List.take_length
      have hcur : (s.ext s.cur).take s.pub = s.seq := by
        have := h.cur_ok; rw [← h1, hseq] at this; exact this
      have htl : ((s.ext s.cur).take s.pub).length = s.pub := by rw [hcur]; exact h2
      simp only [h0, progInPlace, eff, Sys.target, h3, Bool.false_eq_true, if_false]
      refine ⟨?_, ?_, h.pub_ok, ?_, h.rd_len, ?_⟩
      · simp only [setExt, if_true, hcur, hseq, ← h1]
      · simp only [hseq, List.length_append]; have := h.len_ok; omega
      · right; right; left
        refine ⟨rfl, h1, rfl, ?_, ?_⟩
        · simp only [hseq, List.length_append, h2]
        · simp only [setExt, if_true, hcur, hseq]
          rw [List.take_of_length_le]; simp only [List.length_append, h2]; omega
      · intro p n hpn
        obtain ⟨g1, g2, g3, g4, g5⟩ := h.rd_snap p n hpn
        refine ⟨g1, ?_, ?_, g4, g5⟩
        · simp only [setExt, hseq]
          by_cases hpc : p = s.cur
          · have hn : n ≤ s.pub := by have := g4 hpc; omega
            simp only [hpc, if_true]
            rw [take_append_le _ _ _ (by omega), take_take_le _ _ _ hn, take_append_le _ _ _ (by omega)]
            rw [hpc] at g2; exact g2
          · simp only [hpc, if_false]
            rw [take_append_le _ _ _ g3]; exact g2
        · simp only [hseq, List.length_append]; omega
    · -- in place: setLen
      obtain ⟨h0, h1, h3, h4, h5⟩ := ph
      simp only [h0, eff]
      refine ⟨?_, ?_, ?_, ?_, h.rd_len, ?_⟩
      · simp only; rw [h5, ← h4, List.take_length]
      · simp only; omega
      · simp only; omega
      · right; right; right; left
        exact ⟨rfl, rfl, h3, by simp only; omega⟩
      · intro p n hpn
        obtain ⟨g1, g2, g3, g4, g5⟩ := h.rd_snap p n hpn
        exact ⟨g1, g2, g3, fun hpc => by have := g4 hpc; simp only; omega, g5⟩
    · -- publish
      obtain ⟨h0, h1, h3, h4⟩ := ph
      simp only [h0, eff]
      refine ⟨h.cur_ok, h.len_ok, ?_, ?_, ?_, ?_⟩
      · simp only; omega
      · left; exact ⟨rfl, by simp only; omega, by simp only; omega, h3⟩
      · intro l hl; have := h.rd_len l hl; simp only; omega
      · exact h.rd_snap
    · -- relocating: relocCopy
      obtain ⟨h0, h1, h2, h3, hb⟩ := ph
      have hseq : s.seq.take s.pub = s.seq := by rw [← h2]; exact List.take_length
      have hcur : (s.ext s.cur).take s.pub = s.seq := by
        have := h.cur_ok; rw [← h1, hseq] at this; exact this
      simp only [h0, progReloc, eff]
      have hne : s.cur ≠ s.cur + 1 := by omega
      refine ⟨?_, h.len_ok, h.pub_ok, ?_, h.rd_len, ?_⟩
      · simp only [setExt, hne, if_false]; exact h.cur_ok
      · right; right; right; right; right; left
        exact ⟨rfl, h1, h2, h3, by simp only [setExt, if_true, hcur]⟩
      · intro p n hpn
        obtain ⟨g1, g2, g3, g4, g5⟩ := h.rd_snap p n hpn
        have : p ≠ s.cur + 1 := by omega
        exact ⟨g1, by simp only [setExt, this, if_false]; exact g2, g3, g4, g5⟩
    · -- relocating: copy into the new extent
      obtain ⟨h0, h1, h2, h3, h5⟩ := ph
      have hseq : s.seq.take s.pub = s.seq := by rw [← h2]; exact List.take_length
      have hne : s.cur ≠ s.cur + 1 := by omega
      simp only [h0, eff, Sys.target, h3, if_true]
      refine ⟨?_, ?_, h.pub_ok, ?_, h.rd_len, ?_⟩
      · simp only [setExt, hne, if_false, hseq]
        rw [take_append_le _ _ _ (by omega)]; exact h.cur_ok
      · simp only [hseq, List.length_append]; have := h.len_ok; omega
      · right; right; right; right; right; right
        refine ⟨rfl, h1, rfl, by simp only [hseq, List.length_append, h2], ?_⟩
        simp only [setExt, if_true, h5, hseq]
      · intro p n hpn
        obtain ⟨g1, g2, g3, g4, g5⟩ := h.rd_snap p n hpn
        have : p ≠ s.cur + 1 := by omega
        refine ⟨g1, ?_, ?_, g4, g5⟩
        · simp only [setExt, this, if_false, hseq]
          rw [take_append_le _ _ _ g3]; exact g2
        · simp only [hseq, List.length_append]; omega
    · -- relocating: move
      obtain ⟨h0, h1, h3, h4, h5⟩ := ph
      simp only [h0, eff]
      refine ⟨?_, ?_, ?_, ?_, h.rd_len, ?_⟩
      · simp only; rw [h5, ← h4, List.take_length]
      · simp only; omega
      · simp only; omega
      · right; right; right; left
        exact ⟨rfl, rfl, rfl, by simp only; omega⟩
      · intro p n hpn
        obtain ⟨g1, g2, g3, g4, g5⟩ := h.rd_snap p n hpn
        exact ⟨by simp only; omega, g2, g3, fun hpc => by simp only at hpc; omega, g5⟩
  | rLoad =>
    simp only [step]
    exact ⟨h.cur_ok, h.len_ok, h.pub_ok, h.phase, by intro l hl; simp only [Option.some.injEq] at hl; simp only; omega, by intro p n hpn; simp at hpn⟩
  | rSnap =>
    simp only [step]
    cases hl : s.rL with
    | none => simp only; exact h
    | some l =>
      simp only
      refine ⟨h.cur_ok, h.len_ok, h.pub_ok, h.phase, by simpa [hl] using h.rd_len, ?_⟩
      intro p n hpn
      simp only [Option.some.injEq, Prod.mk.injEq] at hpn
      obtain ⟨rfl, rfl⟩ := hpn
      refine ⟨Nat.le_refl _, h.cur_ok, h.len_ok, fun _ => Nat.le_refl _, ?_⟩
      intro l' hl'
      have := h.rd_len l' (by simp only at hl'; rw [hl]; exact hl')
      have := h.pub_ok
      omega
  | rRead i =>
    simp only [step]
    split
    · split <;> exact h
    · exact h
  | rDone =>
    simp only [step]
    exact ⟨h.cur_ok, h.len_ok, h.pub_ok, h.phase, by intro l hl; simp at hl, by intro p n hpn; simp at hpn⟩

/-- the writer only ever starts one of the two extracted programs -/
def WfActs (as : List Act) : Prop :=
  ∀ a ∈ as, ∀ b r p, a = Act.wStart b r p → (r = false ∧ p = progInPlace) ∨ (r = true ∧ p = progReloc)

theorem run_inv (s : Sys) (as : List Act) (h : Inv s) (hw : WfActs as) : Inv (run s as) := by
  induction as generalizing s with
  | nil => exact h
  | cons a t ih =>
    exact ih _ (step_inv s a h (hw a (List.mem_cons_self ..))) (fun x hx => hw x (List.mem_cons_of_mem _ hx))

/-- C09 (raw formats), values: in EVERY state reachable by ANY interleaving of the writer's internal effects
(in place or relocating, any batch sizes) with the reader's steps, a read of index `i` below the length the
reader loaded returns exactly the value the writer stored at `i` — it is there, and it is the right one. -/
theorem C09_read_prefix (as : List Act) (hw : WfActs as) (i : Nat) (l p n : Nat)
    (hl : (run Sys.init as).rL = some l) (hp : (run Sys.init as).rP = some (p, n)) (hi : i < l) :
    (step (run Sys.init as) (.rRead i)).2 = some ((run Sys.init as).seq[i]?) ∧ i < (run Sys.init as).seq.length := by
  have h := run_inv Sys.init as inv_init hw
  obtain ⟨_, g2, g3, _, g5⟩ := h.rd_snap p n hp
  have hln := g5 l hl
  have hin : i < n := by omega
  simp only [step, hl, hp, hi, if_true]
  refine ⟨?_, by omega⟩
  have e1 : (((run Sys.init as).ext p).take n)[i]? = ((run Sys.init as).ext p)[i]? := by
    rw [List.getElem?_take]; simp [hin]
  have e2 : (((run Sys.init as).seq).take n)[i]? = ((run Sys.init as).seq)[i]? := by
    rw [List.getElem?_take]; simp [hin]
  rw [← e1, g2, e2]

/-- the published length never decreases, whatever anybody does -/
theorem pub_mono_step (s : Sys) (a : Act) : s.pub ≤ (step s a).1.pub := by
  cases a with
  | wStart b r p => simp only [step]; split <;> simp
  | wStep =>
    simp only [step]
    cases hp : s.prog with
    | nil => simp
    | cons e rest => cases e <;> simp [eff]
  | rLoad => simp [step]
  | rSnap => simp only [step]; split <;> simp
  | rRead i => simp only [step]; split <;> (try split) <;> simp
  | rDone => simp [step]

theorem pub_mono (s : Sys) (as : List Act) : s.pub ≤ (run s as).pub := by
  induction as generalizing s with
  | nil => exact Nat.le_refl _
  | cons a t ih => exact Nat.le_trans (pub_mono_step s a) (ih _)

/-- C09, lengths: two loads of the shared length by one reader, with anything in between, never decrease -/
theorem C09_len_monotone (as bs : List Act) :
    (step (run Sys.init as) .rLoad).1.rL = some (run Sys.init as).pub ∧
    (run Sys.init as).pub ≤ (run (step (run Sys.init as) .rLoad).1 bs).pub := by
  refine ⟨by simp [step], ?_⟩
  have := pub_mono (step (run Sys.init as) .rLoad).1 bs
  simpa [step] using this

/-- the order matters: a writer that published BEFORE storing the data lets a reader load a length whose
first element is not there (the model can exhibit the failure the property excludes) -/
theorem C09_reordered_counterexample :
    (step (run Sys.init [.wStart [7] false [.publish, .copy, .setLen], .wStep, .rLoad, .rSnap]) (.rRead 0)).2 = some none := by
  rfl

-- non-vacuity: an interleaving with a relocation in which the reader holds a Reader on the OLD extent
example : (step (run Sys.init [.wStart [7, 8] false progInPlace, .wStep, .wStep, .wStep, .rLoad, .rSnap,
    .wStart [9] true progReloc, .wStep, .wStep, .wStep, .wStep]) (.rRead 1)).2 = some (some 8) := by rfl
end AnyDB.C09

namespace AnyDB.PublishC

/-! ### the program is the extracted call order -/

def effComp : String → Option Eff
  | "truncateWrite" => some .dataWrite | "pagesWrite" => some .lockIndex | "pagesPush" => some .indexUpdate
  | "updateStoredLen" => some .publish | "pagesFlush" => some .unlockIndex | _ => none

/-! ### lemmas -/

/-- every entry decodes, from the bytes at its page position, exactly the content that was indexed -/
def Readable : List Cell → List Ent → Prop
  | _, [] => True
  | [], _ :: _ => False
  | c :: cs, e :: es => readCell c e = some e.vals ∧ Readable cs es

theorem readPages_of_readable (phys : List Cell) (idx : List Ent) (h : Readable phys idx) :
    readPages phys idx = some (flatE idx) := by
  induction phys generalizing idx with
  | nil => cases idx with
    | nil => simp [readPages, flatE]
    | cons e es => simp [Readable] at h
  | cons c t ih => cases idx with
    | nil => simp [readPages, flatE]
    | cons e es =>
      simp only [Readable] at h
      simp only [readPages, h.1, ih es h.2]
      simp [flatE]

theorem readCell_entOf (c : Cell) : readCell c (entOf c) = some c.vals := by
  unfold readCell entOf
  cases h : c.raw <;> simp

theorem readable_map (phys : List Cell) : Readable phys (phys.map entOf) := by
  induction phys with
  | nil => simp [Readable]
  | cons c t ih => simp only [List.map_cons, Readable]; exact ⟨readCell_entOf c, ih⟩

theorem readable_append (phys cs : List Cell) (idx : List Ent) (h : Readable phys idx) : Readable (phys ++ cs) idx := by
  induction phys generalizing idx with
  | nil => cases idx with
    | nil => cases cs <;> simp [Readable]
    | cons e es => simp [Readable] at h
  | cons c t ih => cases idx with
    | nil => simp [Readable]
    | cons e es => simp only [List.cons_append, Readable] at h ⊢; exact ⟨h.1, ih es h.2⟩

/-- raw bytes appended behind a raw page leave every entry that could read it readable, with the same content -/
theorem readCell_extend (c : Cell) (e : Ent) (b : List Nat) (hr : c.raw = true) (h : readCell c e = some e.vals) :
    readCell { raw := true, vals := c.vals ++ b } e = some e.vals := by
  unfold readCell at h ⊢
  simp only [hr, if_true] at h
  split at h
  · rename_i hc
    simp only [Option.some.injEq] at h
    have : (true = e.raw ∧ e.count ≤ (c.vals ++ b).length) := ⟨hc.1, by simp; omega⟩
    simp only [this, and_self, if_true, Option.some.injEq]
    rw [List.take_append_of_le_length hc.2]; exact h
  · cases h

theorem readable_extend (p : List Cell) (c : Cell) (b : List Nat) (idx : List Ent) (hr : c.raw = true)
    (h : Readable (p ++ [c]) idx) : Readable (p ++ [{ raw := true, vals := c.vals ++ b }]) idx := by
  induction p generalizing idx with
  | nil => cases idx with
    | nil => simp [Readable]
    | cons e es =>
      simp only [List.nil_append, Readable] at h ⊢
      refine ⟨readCell_extend c e b hr h.1, ?_⟩
      cases es with
      | nil => simp [Readable]
      | cons e2 es2 => simp [Readable] at h
  | cons q t ih => cases idx with
    | nil => simp [Readable]
    | cons e es => simp only [List.cons_append, Readable] at h ⊢; exact ⟨h.1, ih es h.2⟩

theorem flat_append (a b : List Cell) : flat (a ++ b) = flat a ++ flat b := by simp [flat]
theorem flatE_append (a b : List Ent) : flatE (a ++ b) = flatE a ++ flatE b := by simp [flatE]
theorem flatE_map (cs : List Cell) : flatE (cs.map entOf) = flat cs := by
  induction cs with
  | nil => rfl
  | cons c t ih => simp [flatE, flat, entOf] at ih ⊢; exact ih


/-! ### the invariant -/

/-- writes that leave every indexed page decodable: new pages behind the last one, or raw bytes behind a raw tail -/
def GoodKind (phys : List Cell) : WKind → Prop
  | .append _ => True
  | .extendTail _ => ∃ p c, phys = p ++ [c] ∧ c.raw = true
  | .rewriteTail _ => False

theorem physAfter_good (phys0 : List Cell) (k : WKind) (hg : GoodKind phys0 k) :
    flat (physAfter phys0 k) = flat phys0 ++ newVals phys0 k ∧
    (∀ idx, Readable phys0 idx → Readable (physAfter phys0 k) idx) ∧
    indexAfter (physAfter phys0 k) (phys0.map entOf) k = (physAfter phys0 k).map entOf := by
  cases k with
  | append cs =>
    refine ⟨by simp [physAfter, newVals, flat_append], fun idx h => readable_append _ _ _ h, by simp [physAfter, indexAfter]⟩
  | extendTail b =>
    obtain ⟨p, c, rfl, hr⟩ := hg
    have h1 : (p ++ [c]).dropLast = p := by simp
    have h2 : tailVals (p ++ [c]) = c.vals := by simp [tailVals]
    refine ⟨?_, ?_, ?_⟩
    · simp [physAfter, newVals, h2, flat_append, flat]
    · intro idx h; simp only [physAfter, h1, h2]; exact readable_extend p c b idx hr h
    · simp [physAfter, indexAfter, h2]
  | rewriteTail cs => exact absurd hg (by simp [GoodKind])

def Idle (s : Sys) : Prop := s.index = s.phys.map entOf ∧ flat s.phys = s.seq ∧ s.pub = s.seq.length

def Mid (s : Sys) : Prop :=
  ∃ phys0, s.index = phys0.map entOf ∧ s.phys = physAfter phys0 s.kind ∧ GoodKind phys0 s.kind ∧ flat s.phys = s.seq ∧
    s.pub = (flat phys0).length

def Phase (s : Sys) : Prop :=
  (s.prog = [] ∧ Idle s) ∨
  (s.prog = prog ∧ Idle s ∧ GoodKind s.phys s.kind) ∨
  (s.prog = [.lockIndex, .indexUpdate, .publish, .unlockIndex] ∧ Mid s) ∨
  (s.prog = [.indexUpdate, .publish, .unlockIndex] ∧ Mid s) ∨
  (s.prog = [.publish, .unlockIndex] ∧ s.index = s.phys.map entOf ∧ flat s.phys = s.seq ∧ s.pub ≤ s.seq.length) ∨
  (s.prog = [.unlockIndex] ∧ Idle s)

/-- at every point of every write the shared index is decodable, is a prefix of what was stored, and covers the
published length -/
theorem phase_index (s : Sys) (h : Phase s) :
    Readable s.phys s.index ∧ ∃ n, n ≤ s.seq.length ∧ flatE s.index = s.seq.take n ∧ s.pub ≤ n := by
  have idle : Idle s → Readable s.phys s.index ∧ ∃ n, n ≤ s.seq.length ∧ flatE s.index = s.seq.take n ∧ s.pub ≤ n := by
    intro ⟨h1, h2, h3⟩
    refine ⟨by rw [h1]; exact readable_map _, s.seq.length, Nat.le_refl _, ?_, by omega⟩
    rw [h1, flatE_map, h2, List.take_length]
  have mid : Mid s → Readable s.phys s.index ∧ ∃ n, n ≤ s.seq.length ∧ flatE s.index = s.seq.take n ∧ s.pub ≤ n := by
    intro ⟨phys0, h1, h2, h3, h4, h5⟩
    obtain ⟨g1, g2, _⟩ := physAfter_good phys0 s.kind h3
    refine ⟨by rw [h1, h2]; exact g2 _ (readable_map _), (flat phys0).length, ?_, ?_, by omega⟩
    · rw [← h4, h2, g1]; simp
    · rw [h1, flatE_map, ← h4, h2, g1]; simp
  rcases h with ⟨_, h⟩ | ⟨_, h, _⟩ | ⟨_, h⟩ | ⟨_, h⟩ | ⟨_, h1, h2, h3⟩ | ⟨_, h⟩
  · exact idle h
  · exact idle h
  · exact mid h
  · exact mid h
  · refine ⟨by rw [h1]; exact readable_map _, s.seq.length, Nat.le_refl _, ?_, h3⟩
    rw [h1, flatE_map, h2, List.take_length]
  · exact idle h

structure Inv (s : Sys) : Prop where
  phase : Phase s
  rd_len : ∀ l, s.rL = some l → l ≤ s.pub
  rd_idx : ∀ idx, s.rIdx = some idx →
    Readable s.phys idx ∧ ∃ n, n ≤ s.seq.length ∧ flatE idx = s.seq.take n ∧ ∀ l, s.rL = some l → l ≤ n

theorem inv_init : Inv Sys.init :=
  ⟨Or.inl ⟨rfl, rfl, rfl, rfl⟩, by simp [Sys.init], by simp [Sys.init]⟩

theorem take_of_le_append {α} (a b : List α) (n : Nat) (h : n ≤ a.length) : (a ++ b).take n = a.take n :=
  List.take_append_of_le_length h

theorem step_inv (s : Sys) (a : Act) (h : Inv s)
    (hp : ∀ k p, a = .wStart k p → p = prog ∧ GoodKind s.phys k) : Inv (step s a).1 := by
  cases a with
  | wStart k p =>
    simp only [step]
    split
    · rename_i hidle
      obtain ⟨rfl, hg⟩ := hp k p rfl
      rcases h.phase with ⟨_, hi⟩ | ⟨h0, _⟩ | ⟨h0, _⟩ | ⟨h0, _⟩ | ⟨h0, _⟩ | ⟨h0, _⟩ <;>
        (try (simp [hidle, prog] at h0; done))
      exact ⟨Or.inr (Or.inl ⟨rfl, hi, hg⟩), h.rd_len, h.rd_idx⟩
    · exact h
  | wStep =>
    simp only [step]
    rcases h.phase with ⟨h0, hi⟩ | ⟨h0, hi, hg⟩ | ⟨h0, hm⟩ | ⟨h0, hm⟩ | ⟨h0, h1, h2, h3⟩ | ⟨h0, hi⟩
    · simp only [h0]; exact h
    · -- dataWrite
      simp only [h0, prog, eff]
      obtain ⟨i1, i2, i3⟩ := hi
      obtain ⟨g1, g2, _⟩ := physAfter_good s.phys s.kind hg
      refine ⟨Or.inr (Or.inr (Or.inl ⟨rfl, s.phys, i1, rfl, hg, ?_, ?_⟩)), h.rd_len, ?_⟩
      · simp only; rw [g1, i2]
      · simp only; rw [i2]; exact i3
      · intro idx hidx
        obtain ⟨r1, n, r2, r3, r4⟩ := h.rd_idx idx hidx
        refine ⟨g2 idx r1, n, by simp only [List.length_append]; omega, ?_, r4⟩
        simp only; rw [take_of_le_append _ _ _ r2]; exact r3
    · -- lockIndex (possibly blocked by the reader)
      simp only [h0]
      split
      · exact h
      · refine ⟨Or.inr (Or.inr (Or.inr (Or.inl ⟨rfl, ?_⟩))), h.rd_len, h.rd_idx⟩
        obtain ⟨phys0, m1, m2, m3, m4, m5⟩ := hm
        exact ⟨phys0, m1, m2, m3, m4, m5⟩
    · -- indexUpdate
      simp only [h0, eff]
      obtain ⟨phys0, m1, m2, m3, m4, m5⟩ := hm
      obtain ⟨g1, _, g3⟩ := physAfter_good phys0 s.kind m3
      refine ⟨Or.inr (Or.inr (Or.inr (Or.inr (Or.inl ⟨rfl, ?_, m4, ?_⟩)))), h.rd_len, h.rd_idx⟩
      · simp only; rw [m1, m2]; exact g3
      · simp only; rw [m5, ← m4, m2, g1]; simp
    · -- publish
      simp only [h0, eff]
      refine ⟨Or.inr (Or.inr (Or.inr (Or.inr (Or.inr ⟨rfl, h1, h2, rfl⟩)))), ?_, h.rd_idx⟩
      intro l hl; have := h.rd_len l hl; simp only; omega
    · -- unlockIndex
      simp only [h0, eff]
      exact ⟨Or.inl ⟨rfl, hi⟩, h.rd_len, h.rd_idx⟩
  | rLoad =>
    simp only [step]
    split
    · exact h
    · exact ⟨h.phase, by intro l hl; simp only [Option.some.injEq] at hl; simp only; omega, by intro idx hidx; simp at hidx⟩
  | rLock =>
    simp only [step]
    cases hl : s.rL with
    | none => exact h
    | some l =>
      simp only
      split
      · exact h
      · obtain ⟨r1, n, r2, r3, r4⟩ := phase_index s h.phase
        refine ⟨h.phase, by simpa [hl] using h.rd_len, ?_⟩
        intro idx hidx
        simp only [Option.some.injEq] at hidx
        subst hidx
        refine ⟨r1, n, r2, r3, ?_⟩
        intro l' hl'
        have := h.rd_len l' (by simp only at hl'; rw [hl]; exact hl')
        omega
  | rReadAll =>
    simp only [step]
    split <;> exact h
  | rUnlock =>
    simp only [step]
    exact ⟨h.phase, by intro l hl; simp at hl, by intro idx hidx; simp at hidx⟩

/-- every write of the run uses the extracted program and is of a kind that leaves indexed pages decodable -/
def GoodRun : Sys → List Act → Prop
  | _, [] => True
  | s, a :: as => (∀ k p, a = Act.wStart k p → p = prog ∧ GoodKind s.phys k) ∧ GoodRun (step s a).1 as

theorem run_inv (s : Sys) (as : List Act) (h : Inv s) (hg : GoodRun s as) : Inv (run s as) := by
  induction as generalizing s with
  | nil => exact h
  | cons a t ih => exact ih _ (step_inv s a h hg.1) hg.2

/-- C09 (compressed formats, writes that start on a page boundary or extend the raw tail page): in EVERY state
reachable by ANY interleaving of the writer's effects with the reader's steps, the reader's read of `[0, l)` — `l`
the length it loaded before taking the index lock — returns exactly the first `l` values of the writer's sequence -/
theorem C09_comp_read_partial (as : List Act) (hg : GoodRun Sys.init as) (l : Nat) (idx : List Ent)
    (hl : (run Sys.init as).rL = some l) (hi : (run Sys.init as).rIdx = some idx) :
    (step (run Sys.init as) .rReadAll).2 = some (some ((run Sys.init as).seq.take l)) ∧ l ≤ (run Sys.init as).seq.length := by
  have h := run_inv Sys.init as inv_init hg
  obtain ⟨r1, n, r2, r3, r4⟩ := h.rd_idx idx hi
  have hln := r4 l hl
  simp only [step, hl, hi, readAll, readPages_of_readable _ _ r1, r3]
  have : l ≤ (List.take n (run Sys.init as).seq).length := by simp; omega
  simp only [this, if_true]
  refine ⟨?_, by omega⟩
  rw [List.take_take]; congr 3; omega

/-- the published length never decreases -/
theorem pub_mono_step (s : Sys) (a : Act) (h : Inv s) : s.pub ≤ (step s a).1.pub := by
  cases a with
  | wStart k p => simp only [step]; split <;> simp
  | wStep =>
    simp only [step]
    rcases h.phase with ⟨h0, _⟩ | ⟨h0, _⟩ | ⟨h0, _⟩ | ⟨h0, _⟩ | ⟨h0, _, _, h3⟩ | ⟨h0, _⟩
    · simp [h0]
    · simp [h0, prog, eff]
    · simp only [h0]; split <;> simp [eff]
    · simp [h0, eff]
    · simp only [h0, eff]; exact h3
    · simp [h0, eff]
  | rLoad => simp only [step]; split <;> simp
  | rLock => simp only [step]; split <;> (try split) <;> simp
  | rReadAll => simp only [step]; split <;> simp
  | rUnlock => simp [step]

/-- F17 — the full statement fails: a write that crosses a page boundary from a partial tail page rewrites that
page's bytes BEFORE it takes the index lock; a reader that holds the old index decodes garbage.
(page size 4; the tail page holds [1,2] raw; the writer appends [3,4,5]) -/
theorem C09_comp_counterexample :
    (step (run Sys.init [.wStart (.append [⟨true, [1, 2]⟩]) prog, .wStep, .wStep, .wStep, .wStep, .wStep,
        .rLoad, .rLock,
        .wStart (.rewriteTail [⟨false, [1, 2, 3, 4]⟩, ⟨true, [5]⟩]) prog, .wStep]) .rReadAll).2 = some none := by
  decide

/-- the order matters (the seeded change): publishing before the index is updated lets a reader load a length the
index it then locks does not cover -/
theorem C09_comp_reordered_counterexample :
    (step (run Sys.init [.wStart (.append [⟨true, [1, 2]⟩]) prog, .wStep, .wStep, .wStep, .wStep, .wStep,
        .wStart (.extendTail [3]) [.dataWrite, .publish, .lockIndex, .indexUpdate, .unlockIndex], .wStep, .wStep,
        .rLoad, .rLock]) .rReadAll).2 = some none := by
  decide

-- non-vacuity: a reader that holds the old index across a tail extension still reads its prefix
example : (step (run Sys.init [.wStart (.append [⟨true, [1, 2]⟩]) prog, .wStep, .wStep, .wStep, .wStep, .wStep,
    .rLoad, .rLock, .wStart (.extendTail [3]) prog, .wStep]) .rReadAll).2 = some (some [1, 2]) := by decide
end AnyDB.PublishC
