import AnyDB.Props.C03CompSplit
namespace AnyDB.C03c
open AnyDB VecM VecM.V C07

theorem perPage_congr (a b : V) (h : a.sz = b.sz) : a.perPage = b.perPage := by unfold perPage; rw [h]

theorem write_refines_norm (s : V) (cs : List Nat) (b : Bool) (hn : s.writeHeaderIfNeeded = s) (h : CInv s)
    (hok : (s.writeComp cs).2 = .okB b) : shown (s.writeComp cs).1 = shown s ∧ CInv (s.writeComp cs).1 := by
  obtain ⟨⟨hk, hsz⟩, hcase⟩ := writeComp_shape s cs b hn hok
  have hpp := perPage_congr _ _ hsz
  obtain ⟨k1, k2, k3, k4⟩ := stored_split s h
  have hdm : s.storedLen = s.storedLen / s.perPage * s.perPage + s.storedLen % s.perPage := by
    have := Nat.div_add_mod s.storedLen s.perPage
    rw [Nat.mul_comm] at this; exact this.symm
  rcases hcase with ⟨e1, e2, e3, _, _⟩ | ⟨e2, e3, hsub⟩
  · refine ⟨by unfold shown; rw [e1, e2, e3], ⟨by rw [hk]; exact h.kind, by rw [hpp]; exact h.pp, by rw [hpp, e1]; exact h.wf, by rw [e1, e3]; exact h.stored⟩⟩
  · -- both writing paths: the new pages decode to the old stored values followed by the pushed ones
    suffices hh : pagesValues (s.writeComp cs).1.pages = (pagesValues s.pages).take s.storedLen ++ s.pushed ∧
        PagesWF s.perPage (s.writeComp cs).1.pages by
      have hlen : (pagesValues (s.writeComp cs).1.pages).length = s.storedLen + s.pushed.length := by
        rw [hh.1, List.length_append, List.length_take, Nat.min_eq_left h.stored]
      refine ⟨?_, ⟨by rw [hk]; exact h.kind, by rw [hpp]; exact h.pp, by rw [hpp]; exact hh.2, by rw [e3, hlen]; exact Nat.le_refl _⟩⟩
      unfold shown
      rw [e2, e3, List.append_nil, List.take_of_length_le (by rw [hlen]; exact Nat.le_refl _), hh.1]
    rcases hsub with ⟨page, hp, f1, f2, f3⟩ | ⟨values0, hv0, f3⟩
    · obtain ⟨g1, g2, g3⟩ := wf_get s.perPage s.pages _ page h.wf hp
      rw [hp] at k1 k3
      simp only [] at k1 k3
      have htake : page.content.take (s.storedLen % s.perPage) = page.content := List.take_of_length_le (by rw [g1, f1]; exact Nat.le_refl _)
      rw [htake] at k1
      refine ⟨?_, ?_⟩
      · rw [f3, pv_append, pv_cons, pv_nil, List.append_nil, k1, List.append_assoc]
      · rw [f3]
        refine wf_append_full _ _ _ k4 ?_
        exact ⟨by simp only [List.length_append]; rw [g1, f1], by simp only []; omega⟩
    · have k1' : (pagesValues s.pages).take s.storedLen = pagesValues (s.pages.take (s.storedLen / s.perPage)) ++ values0 := by
        cases hp : s.pages[s.storedLen / s.perPage]? with
        | none => simp only [hp] at k1 hv0; rw [hv0]; exact k1
        | some page => simp only [hp] at k1 hv0; rw [hv0]; exact k1
      clear k1; have k1 := k1'
      refine ⟨?_, ?_⟩
      · rw [f3, C07_lossless_pages _ _ _ _ _ h.pp, k1, List.append_assoc]
      · rw [f3]
        exact wf_append_full _ _ _ k4 (enc_build_wf _ _ _ _ _ (split_wf _ _ _ h.pp))

theorem hdr_fields (s : V) : s.writeHeaderIfNeeded.kind = s.kind ∧ s.writeHeaderIfNeeded.sz = s.sz ∧ s.writeHeaderIfNeeded.pages = s.pages ∧
    s.writeHeaderIfNeeded.pushed = s.pushed ∧ s.writeHeaderIfNeeded.storedLen = s.storedLen := by
  unfold writeHeaderIfNeeded; split <;> exact ⟨rfl, rfl, rfl, rfl, rfl⟩

/-- **a successful compressed `write()` changes nothing of what the vector shows** and keeps the invariant -/
theorem write_refines (s : V) (cs : List Nat) (b : Bool) (h : CInv s) (hok : (s.writeComp cs).2 = .okB b) :
    shown (s.writeComp cs).1 = shown s ∧ CInv (s.writeComp cs).1 := by
  obtain ⟨a1, a2, a3, a4, a5⟩ := hdr_fields s
  have hpp := perPage_congr _ _ a2
  have h0 : CInv s.writeHeaderIfNeeded := ⟨by rw [a1]; exact h.kind, by rw [hpp]; exact h.pp, by rw [hpp, a3]; exact h.wf, by rw [a3, a5]; exact h.stored⟩
  have hs0 : shown s.writeHeaderIfNeeded = shown s := by unfold shown; rw [a3, a4, a5]
  rw [writeComp_norm] at hok ⊢
  obtain ⟨r1, r2⟩ := write_refines_norm s.writeHeaderIfNeeded cs b (hdr_idem s) h0 hok
  exact ⟨r1.trans hs0, r2⟩

end AnyDB.C03c
