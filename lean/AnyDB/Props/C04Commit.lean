import AnyDB.Props.C04Record

/-!
# C04 — `commit` then `rollback` on the model's own functions (raw formats, one pair, through the bytes)

`C04_commit_then_rollback_raw`: `p` cleanly committed; `s` reached from it by ANY pushes, truncations, updates and
deletions (`Since p s`, established at the commit by `since_refl` and kept by every such edit: `since_push`,
`since_update`, `since_delete`, `since_truncate`); retention on; numbers fit their record fields (`RecBounds`);
the commit of `s` succeeds.  Then `rollback` on the committed state succeeds, EVERY index reads exactly what it read
in `p`, and stamp, stored length, buffer and deleted slots are `p`'s.

The chain: `commit` serialises the record (`serializeChanges`), files it under the new stamp, writes
(`written_of_write`, `writeRaw_frame`); `rollback` finds the record filed under the current stamp
(`C04_rollback_uses_current_stamp`), parses it back (`C04_record_roundtrip`, bytes), the parsed record describes
the way back (`faithful_recordOf`), and the undo restores (`C04_commit_rollback_raw`).
What is NOT covered by this theorem: several rollbacks in a row on raw vectors (the state after a rollback carries an
overlay and is not `CleanCommitted`), `take`/`fill` among the edits, re-import between commit and rollback, and
the compressed formats (whose undo is `C04_comp_undo_logical`, at record level) — those stay with the
correspondence against the stack-of-committed-states oracle.
-/
namespace AnyDB.C04c
open AnyDB VecM VecM.V C03 C03w C04r C04b

theorem setInsert_append (acc : List Nat) (x : Nat) (h : ∀ a ∈ acc, a < x) : setInsert acc x = acc ++ [x] := by
  induction acc with
  | nil => rfl
  | cons a t ih =>
    have ha : a < x := h a (List.mem_cons_self ..)
    simp only [setInsert]
    have h1 : ¬(x < a) := by omega
    have h2 : ¬(x = a) := by omega
    simp only [h1, h2, if_false, List.cons_append]
    rw [ih (fun b hb => h b (List.mem_cons_of_mem _ hb))]

theorem foldl_setInsert_sorted (acc l : List Nat) (hl : l.Pairwise (· < ·)) (ha : ∀ a ∈ acc, ∀ b ∈ l, a < b) :
    l.foldl setInsert acc = acc ++ l := by
  induction l generalizing acc with
  | nil => simp
  | cons x t ih =>
    simp only [List.foldl_cons]
    rw [setInsert_append acc x (fun a h => ha a h x (List.mem_cons_self ..))]
    rw [ih (acc ++ [x]) (List.pairwise_cons.mp hl).2]
    · simp
    · intro a h b hb
      rcases List.mem_append.mp h with h1 | h1
      · exact ha a h1 b (List.mem_cons_of_mem _ hb)
      · simp at h1; subst h1; exact (List.pairwise_cons.mp hl).1 b hb

/-- a fold that appends `g i` per element computes `map g` -/
theorem foldl_map_fst {β : Type} (l : List β) (f : List Nat × Bool → β → List Nat × Bool) (g : β → Nat)
    (hf : ∀ acc x, (f acc x).1 = acc.1 ++ [g x]) (acc : List Nat × Bool) :
    (l.foldl f acc).1 = acc.1 ++ l.map g := by
  induction l generalizing acc with
  | nil => simp
  | cons x t ih => simp only [List.foldl_cons, List.map_cons]; rw [ih, hf]; simp


/-- `s` was reached from the cleanly committed `p` by plain edits: the baseline fields still describe `p` -/
structure Since (p s : V) : Prop where
  after : After p s
  kind : s.kind = .raw
  stamp : s.stamp = p.stamp
  psl : s.prevStoredLen = p.storedLen
  pp : s.prevPushed = []
  pu : s.prevUpdated = []
  ph : s.prevHoles = p.holes
  holesSorted : p.holes.Pairwise (· < ·)

theorem mapGet_nil (i : Nat) : mapGet ([] : List (Nat × Nat)) i = none := rfl

theorem diskRead_val (s : V) (i : Nat) (h : i < s.disk.length) : (s.diskRead i).1 = s.disk[i] := by
  unfold diskRead
  rw [List.getElem?_eq_getElem h]

theorem recKeys_since (p s : V) (h : Since p s) : recKeys s = s.updated.map (·.1) := by
  unfold recKeys
  rw [h.pu]
  simp only [List.map_nil, List.append_nil]
  have hs : (s.updated.map (·.1)).Pairwise (· < ·) := by
    have := h.after.upd.1
    unfold KeysSorted at this
    exact List.pairwise_map.mpr this
  have := foldl_setInsert_sorted [] (s.updated.map (·.1)) hs (by simp)
  simpa using this

theorem recVals_since (p s : V) (h : Since p s) : recVals s = (recKeys s).map (fun k => (s.diskRead k).1) := by
  unfold recVals
  rw [foldl_map_fst (recKeys s) _ (fun k => (s.diskRead k).1)]
  · simp
  · intro acc x
    simp only [h.pu, mapGet_nil]

theorem collect_since (p s : V) (h : Since p s) (a b : Nat) :
    (s.collectStoredRaw a b).1 = (List.range (b - a)).map (fun k => (s.diskRead (a + k)).1) := by
  unfold collectStoredRaw
  rw [foldl_map_fst (List.range (b - a)) _ (fun k => (s.diskRead (a + k)).1)]
  · simp
  · intro acc x
    simp only [h.pu, mapGet_nil]

theorem recTv_since (p s : V) (hp : CleanCommitted p) (h : Since p s) :
    recTv s = (p.disk.drop s.storedLen).take (p.storedLen - s.storedLen) := by
  unfold recTv recTrunc
  rw [h.psl]
  have hle := h.after.le
  by_cases ht : p.storedLen - s.storedLen > 0
  · simp only [ht, if_true]
    rw [collect_since p s h]
    apply List.ext_getElem
    · simp only [List.length_map, List.length_range, List.length_take, List.length_drop]
      rw [← hp.stored]; omega
    · intro i h1 h2
      simp only [List.length_map, List.length_range] at h1
      simp only [List.getElem_map, List.getElem_range, List.getElem_take, List.getElem_drop]
      have hi : s.storedLen + i < s.disk.length := by rw [h.after.disk, ← hp.stored]; omega
      rw [diskRead_val s _ hi]
      simp only [h.after.disk]
  · simp only [ht, if_false]
    have : p.storedLen - s.storedLen = 0 := by omega
    rw [this]; simp


theorem zip_map_self (l : List Nat) (g : Nat → Nat) : l.zip (l.map g) = l.map (fun k => (k, g k)) := by
  induction l with
  | nil => rfl
  | cons a t ih => simp [ih]

theorem mapGet_map_pairs (l : List Nat) (g : Nat → Nat) (k : Nat) :
    mapGet (l.map (fun k => (k, g k))) k = if k ∈ l then some (g k) else none := by
  induction l with
  | nil => simp [mapGet]
  | cons a t ih =>
    simp only [List.map_cons]
    rw [mapGet_cons]
    by_cases h : a = k
    · subst h; simp
    · simp only [h, if_false, ih, List.mem_cons]
      have : ¬(k = a) := fun e => h e.symm
      simp [this]

theorem mem_keys_of_mapGet (m : List (Nat × Nat)) (k v : Nat) (h : mapGet m k = some v) : k ∈ m.map (·.1) := by
  have := mem_of_mapGet m k v h
  exact List.mem_map.mpr ⟨(k, v), this, rfl⟩

/-- the record the next commit writes describes the way back to `p` -/
theorem faithful_recordOf (p s : V) (hp : CleanCommitted p) (h : Since p s) : Faithful p s (recordOf s) := by
  have hk := recKeys_since p s h
  have hv := recVals_since p s h
  have hle := h.after.le
  have hmods : (recordOf s).mods = (recKeys s).map (fun k => (k, (s.diskRead k).1)) := by
    unfold recordOf; simp only; rw [hv, zip_map_self]
  have hsorted : (recKeys s).Pairwise (· < ·) := by
    rw [hk]; exact List.pairwise_map.mpr h.after.upd.1
  have hkeys_lt : ∀ k ∈ recKeys s, k < s.storedLen := by
    intro k hkm
    rw [hk] at hkm
    obtain ⟨kv, hkv, rfl⟩ := List.mem_map.mp hkm
    exact h.after.upd.2 kv hkv
  refine ⟨?_, ?_, ?_, ?_, ?_, ?_, ?_, ?_, ?_⟩
  · exact h.stamp
  · exact h.psl
  · show s.prevStoredLen - recTrunc s = s.storedLen
    unfold recTrunc; rw [h.psl]; omega
  · exact recTv_since p s hp h
  · exact h.pp
  · show s.prevHoles.foldl setInsert [] = p.holes
    rw [h.ph]
    have := foldl_setInsert_sorted [] p.holes h.holesSorted (by simp)
    simpa using this
  · rw [hmods]
    unfold KeysDistinct
    rw [List.pairwise_map]
    exact List.Pairwise.imp (fun hab => Nat.ne_of_lt hab) hsorted
  · intro kv hkv
    rw [hmods] at hkv
    obtain ⟨k, hkm, rfl⟩ := List.mem_map.mp hkv
    have h1 := hkeys_lt k hkm
    have hlen : k < s.disk.length := by rw [h.after.disk, ← hp.stored]; omega
    refine ⟨by simp only; omega, ?_⟩
    simp only
    rw [diskRead_val s k hlen]
    have hlen' : k < p.disk.length := by rw [← h.after.disk]; exact hlen
    rw [List.getElem?_eq_getElem hlen']
    simp only [h.after.disk]
  · intro k v hkv
    rw [hmods, mapGet_map_pairs]
    have : k ∈ recKeys s := by rw [hk]; exact mem_keys_of_mapGet _ _ _ hkv
    simp [this]


/-! ### `commit` then `rollback`, on the model's own functions -/

/-- fields the raw `write()` never touches -/
def Frame (a b : V) : Prop := a.kind = b.kind ∧ a.sz = b.sz ∧ a.stamp = b.stamp ∧ a.changes = b.changes

theorem wrOverlaySet_frame (upd : List (Nat × Nat)) (s r : V) (hr : wrOverlaySet upd s = .ok r) : Frame r s := by
  unfold wrOverlaySet at hr
  induction upd generalizing s with
  | nil => simp only [List.foldl_nil] at hr; cases hr; exact ⟨rfl, rfl, rfl, rfl⟩
  | cons kv t ih =>
    simp only [List.foldl_cons] at hr
    by_cases hk : kv.1 < s.disk.length
    · simp only [hk, if_true] at hr
      have := ih _ hr
      simpa [Frame] using this
    · simp only [hk, if_false] at hr
      exfalso
      clear ih
      induction t with
      | nil => simp at hr
      | cons a t ih2 => simp only [List.foldl_cons] at hr; exact ih2 hr

theorem writeRaw_frame (s : V) (b : Bool) (h : s.writeRaw.2 = .okB b) (hle : s.storedLen ≤ s.disk.length) :
    s.writeRaw.1.kind = s.kind ∧ s.writeRaw.1.sz = s.sz ∧ s.writeRaw.1.stamp = s.stamp ∧ s.writeRaw.1.changes = s.changes := by
  have hh : s.writeHeaderIfNeeded.kind = s.kind ∧ s.writeHeaderIfNeeded.sz = s.sz ∧ s.writeHeaderIfNeeded.stamp = s.stamp ∧
      s.writeHeaderIfNeeded.changes = s.changes ∧ s.writeHeaderIfNeeded.storedLen = s.storedLen ∧ s.writeHeaderIfNeeded.disk = s.disk := by
    unfold writeHeaderIfNeeded; split <;> exact ⟨rfl, rfl, rfl, rfl, rfl, rfl⟩
  rw [← hh.1, ← hh.2.1, ← hh.2.2.1, ← hh.2.2.2.1]
  have hle' : s.writeHeaderIfNeeded.storedLen ≤ s.writeHeaderIfNeeded.disk.length := by rw [hh.2.2.2.2.1, hh.2.2.2.2.2]; exact hle
  unfold writeRaw at h ⊢
  simp only [] at h ⊢
  generalize s.writeHeaderIfNeeded = t at *
  split at h
  · rename_i hc; rw [if_pos hc]; exact ⟨rfl, rfl, rfl, rfl⟩
  · rename_i hc
    rw [if_neg hc]
    rw [wrExtend_id t hle'] at h ⊢
    cases h1 : t.wrData (decide (t.storedLen < t.disk.length)) with
    | error e => simp only [h1] at h; cases h
    | ok s1 =>
      simp only [h1] at h ⊢
      have dk : Frame s1 t := by
        unfold wrData at h1
        split at h1
        · simp only at h1
          split at h1
          · cases h1
          · cases h1; exact ⟨rfl, rfl, rfl, rfl⟩
        · split at h1
          · cases h1; exact ⟨rfl, rfl, rfl, rfl⟩
          · cases h1; exact ⟨rfl, rfl, rfl, rfl⟩
      cases h2 : s1.wrOverlay (decide (t.storedLen > t.disk.length)) with
      | error o => simp only [h2] at h ⊢; exact dk
      | ok s2 =>
        simp only [h2] at h ⊢
        have ok2 : Frame s2 s1 := by
          unfold wrOverlay at h2
          split at h2
          · split at h2
            · rename_i he; simp at he; omega
            · have := wrOverlaySet_frame _ _ _ h2; simpa [Frame] using this
          · cases h2; exact ⟨rfl, rfl, rfl, rfl⟩
        have h3 : Frame (s2.wrHoles (!t.holes.isEmpty) t.hasStoredHoles).1 s2 := by
          unfold wrHoles; split
          · exact ⟨rfl, rfl, rfl, rfl⟩
          · split <;> exact ⟨rfl, rfl, rfl, rfl⟩
        unfold Frame at h3 ok2 dk
        exact ⟨by rw [h3.1, ok2.1, dk.1], by rw [h3.2.1, ok2.2.1, dk.2.1], by rw [h3.2.2.1, ok2.2.2.1, dk.2.2.1],
          by rw [h3.2.2.2, ok2.2.2.2, dk.2.2.2]⟩


/-- C04 on the model's own `commit` and `rollback` (raw formats, one pair): `p` cleanly committed, `s` reached from it
by any pushes, truncations, updates and deletions, retention on; the commit of `s` under a fresh stamp succeeds —
then `rollback` succeeds, every index reads exactly what it read in `p`, and stamp, stored length, buffer and
deleted slots are `p`'s.  The record travels through its BYTES (`serializeChanges`, the change directory, `parseChange`). -/
theorem C04_commit_then_rollback_raw (p s : V) (st : Nat) (b : Bool)
    (hp : CleanCommitted p) (h : Since p s) (hkeep : s.keep ≠ 0) (hb : RecBounds s)
    (hdirty : s.pushed ≠ [] ∨ s.updated ≠ [] ∨ s.storedLen < s.disk.length)
    (hc : (s.commit st []).2 = .okB b) :
    ((s.commit st []).1.rollback).2 = .ok ∧ ((s.commit st []).1.rollback).1.stamp = p.stamp ∧
    ((s.commit st []).1.rollback).1.storedLen = p.storedLen ∧ ((s.commit st []).1.rollback).1.pushed = [] ∧
    ((s.commit st []).1.rollback).1.holes = p.holes ∧
    ∀ i, (((s.commit st []).1.rollback).1.getAny i).1 = (p.getAny i).1 := by
  -- the state that is written: `s` with the record filed and the new stamp
  generalize hs1 : (({ s with oob := s.oob || s.serializeChanges.2 } : V).saveChangeFile st s.serializeChanges.1).updateStamp st = s1
  have f1 : s1.kind = s.kind ∧ s1.sz = s.sz ∧ s1.disk = s.disk ∧ s1.storedLen = s.storedLen ∧ s1.updated = s.updated ∧
      s1.pushed = s.pushed ∧ s1.stamp = st ∧
      s1.changes = (s.changes.filter (·.1 < st)).drop ((s.changes.filter (·.1 < st)).length - (s.keep - 1)) ++ [(st, s.serializeChanges.1)] := by
    rw [← hs1]
    unfold V.updateStamp V.saveChangeFile
    split
    · rename_i he; exact ⟨rfl, rfl, rfl, rfl, rfl, rfl, he, rfl⟩
    · exact ⟨rfl, rfl, rfl, rfl, rfl, rfl, rfl, rfl⟩
  obtain ⟨k1, k2, k3, k4, k5, k6, k7, k8⟩ := f1
  have hle1 : s1.storedLen ≤ s1.disk.length := by
    rw [k4, k3, h.after.disk, ← hp.stored]; exact h.after.le
  have hu1 : UpdInv s1 := by unfold UpdInv; rw [k5, k4]; exact h.after.upd
  have hd1 : s1.pushed ≠ [] ∨ s1.updated ≠ [] ∨ s1.storedLen < s1.disk.length := by rw [k6, k5, k4, k3]; exact hdirty
  -- unfold the commit
  have hcommit : s.commit st [] =
      (match s1.writeRaw.2 with
       | .okB _ => ({ s1.writeRaw.1 with prevStoredLen := s1.writeRaw.1.storedLen, prevPushed := [],
                                         prevHoles := s1.writeRaw.1.holes, prevUpdated := [] }, s1.writeRaw.2)
       | o => (s1.writeRaw.1, o)) := by
    unfold V.commit V.stampedWrite V.write
    simp only [hkeep, if_false]
    rw [hs1]
    simp only [k1, h.kind]
    cases hw : s1.writeRaw.2 <;> simp only [] 
    rename_i bb
    have hk2 := (writeRaw_frame s1 bb hw hle1).1
    simp only [hk2, k1, h.kind]
  rw [hcommit] at hc ⊢
  cases hw : s1.writeRaw.2 with
  | okB bb =>
    simp only [hw] at hc ⊢
    obtain ⟨g1, g2, g3, g4⟩ := writeRaw_frame s1 bb hw hle1
    have hwr := written_of_write s1 bb (by rw [k1, h.kind]) hw hu1 hle1 hd1
    generalize hcst : ({ s1.writeRaw.1 with prevStoredLen := s1.writeRaw.1.storedLen, prevPushed := [], prevHoles := s1.writeRaw.1.holes, prevUpdated := [] } : V) = c
    have c1 : c.kind = .raw ∧ c.sz = s.sz ∧ c.stamp = st ∧ c.changes = s1.changes ∧ c.updated = [] ∧ c.disk = s1.writeRaw.1.disk := by
      rw [← hcst]; exact ⟨by simp only; rw [g1, k1, h.kind], by simp only; rw [g2, k2], by simp only; rw [g3, k7], by simp only; rw [g4],
        hwr.updated, rfl⟩
    obtain ⟨c1k, c1s, c1t, c1c, c1u, c1d⟩ := c1
    -- rollback finds the record filed under the commit's stamp
    have hfind : c.changes.find? (·.1 == c.stamp) = some (st, s.serializeChanges.1) := by
      rw [c1c, k8, c1t, List.find?_append]
      have hnone : ((s.changes.filter (·.1 < st)).drop ((s.changes.filter (·.1 < st)).length - (s.keep - 1))).find? (·.1 == st) = none := by
        rw [List.find?_eq_none]
        intro x hx
        have hx2 := List.mem_filter.mp (List.mem_of_mem_drop hx)
        have : x.1 < st := by simpa using hx2.2
        simp; omega
      rw [hnone]
      simp
    have hrb := (C04.C04_rollback_uses_current_stamp c st s.serializeChanges.1 hfind).1
    rw [hrb]
    -- the record parses to `recordOf s`, which describes the way back
    have hparse : parseChange c.kind c.sz s.serializeChanges.1 = .ok (recordOf s) := by
      rw [c1k, c1s]; exact C04_record_roundtrip s h.kind hb
    have hafter1 : After p s1 := ⟨by rw [k3]; exact h.after.disk, by rw [k4]; exact h.after.le, hu1⟩
    have hfaith1 : Faithful p s1 (recordOf s) := by
      have hf := faithful_recordOf p s hp h
      exact ⟨hf.stamp, hf.psl, by rw [k4]; exact hf.ts, by rw [k4]; exact hf.tv, hf.pp, hf.ph, hf.modsDistinct, hf.modsVals,
        by intro k v hkv; rw [k5] at hkv; exact hf.modsCover k v hkv⟩
    have hwritten : Written s1 c := ⟨c1k, c1u, by intro j; rw [c1d]; exact hwr.disk j⟩
    exact C04_commit_rollback_raw p s1 c (recordOf s) s.serializeChanges.1 hp hafter1 hwritten hfaith1 hparse
  | ok => simp only [hw] at hc; cases hc
  | okS _ => simp only [hw] at hc; cases hc
  | okV _ => simp only [hw] at hc; cases hc
  | okI _ => simp only [hw] at hc; cases hc
  | err _ => simp only [hw] at hc; cases hc
  | panic => simp only [hw] at hc; cases hc


/-! ### `Since` holds at the commit and is kept by every plain edit -/

theorem since_refl (p : V) (hp : CleanCommitted p) (h1 : p.prevStoredLen = p.storedLen) (h2 : p.prevPushed = [])
    (h3 : p.prevUpdated = []) (h4 : p.prevHoles = p.holes) (h5 : p.holes.Pairwise (· < ·)) : Since p p :=
  ⟨after_refl p hp, hp.raw, rfl, h1, h2, h3, h4, h5⟩

theorem since_push (p s : V) (v : Nat) (h : Since p s) : Since p (s.push v) :=
  ⟨after_push p s v h.after, h.kind, h.stamp, h.psl, h.pp, h.pu, h.ph, h.holesSorted⟩

theorem since_update (p s : V) (i v : Nat) (h : Since p s) : Since p (s.updateAt i v).1 := by
  have hf : (s.updateAt i v).1.kind = s.kind ∧ (s.updateAt i v).1.stamp = s.stamp ∧ (s.updateAt i v).1.prevStoredLen = s.prevStoredLen ∧
      (s.updateAt i v).1.prevPushed = s.prevPushed ∧ (s.updateAt i v).1.prevUpdated = s.prevUpdated ∧
      (s.updateAt i v).1.prevHoles = s.prevHoles := by
    unfold updateAt; split
    · split <;> exact ⟨rfl, rfl, rfl, rfl, rfl, rfl⟩
    · exact ⟨rfl, rfl, rfl, rfl, rfl, rfl⟩
  exact ⟨after_update p s i v h.after, by rw [hf.1]; exact h.kind, by rw [hf.2.1]; exact h.stamp, by rw [hf.2.2.1]; exact h.psl,
    by rw [hf.2.2.2.1]; exact h.pp, by rw [hf.2.2.2.2.1]; exact h.pu, by rw [hf.2.2.2.2.2]; exact h.ph, h.holesSorted⟩

theorem since_delete (p s : V) (i : Nat) (h : Since p s) : Since p (s.deleteAt i) := by
  have hf : (s.deleteAt i).kind = s.kind ∧ (s.deleteAt i).stamp = s.stamp ∧ (s.deleteAt i).prevStoredLen = s.prevStoredLen ∧
      (s.deleteAt i).prevPushed = s.prevPushed ∧ (s.deleteAt i).prevUpdated = s.prevUpdated ∧ (s.deleteAt i).prevHoles = s.prevHoles := by
    unfold deleteAt; split
    · unfold uncheckedDeleteAt; exact ⟨rfl, rfl, rfl, rfl, rfl, rfl⟩
    · exact ⟨rfl, rfl, rfl, rfl, rfl, rfl⟩
  exact ⟨after_delete p s i h.after, by rw [hf.1]; exact h.kind, by rw [hf.2.1]; exact h.stamp, by rw [hf.2.2.1]; exact h.psl,
    by rw [hf.2.2.2.1]; exact h.pp, by rw [hf.2.2.2.2.1]; exact h.pu, by rw [hf.2.2.2.2.2]; exact h.ph, h.holesSorted⟩

theorem since_truncate (p s : V) (n : Nat) (h : Since p s) : Since p (s.truncate n) := by
  have tp : ∀ (t : V), (t.truncatePushed n).kind = t.kind ∧ (t.truncatePushed n).stamp = t.stamp ∧
      (t.truncatePushed n).prevStoredLen = t.prevStoredLen ∧ (t.truncatePushed n).prevPushed = t.prevPushed ∧
      (t.truncatePushed n).prevUpdated = t.prevUpdated ∧ (t.truncatePushed n).prevHoles = t.prevHoles := by
    intro t
    unfold truncatePushed
    split
    · exact ⟨rfl, rfl, rfl, rfl, rfl, rfl⟩
    · split <;> split <;> exact ⟨rfl, rfl, rfl, rfl, rfl, rfl⟩
  have he : s.truncate n = (s.truncateDirtyAt n).truncatePushed n := by unfold truncate; rw [h.kind]
  have hf := tp (s.truncateDirtyAt n)
  rw [← he] at hf
  have d : (s.truncateDirtyAt n).kind = s.kind ∧ (s.truncateDirtyAt n).stamp = s.stamp ∧
      (s.truncateDirtyAt n).prevStoredLen = s.prevStoredLen ∧ (s.truncateDirtyAt n).prevPushed = s.prevPushed ∧
      (s.truncateDirtyAt n).prevUpdated = s.prevUpdated ∧ (s.truncateDirtyAt n).prevHoles = s.prevHoles := ⟨rfl, rfl, rfl, rfl, rfl, rfl⟩
  exact ⟨after_truncate p s n h.kind h.after, by rw [hf.1, d.1]; exact h.kind, by rw [hf.2.1, d.2.1]; exact h.stamp,
    by rw [hf.2.2.1, d.2.2.1]; exact h.psl, by rw [hf.2.2.2.1, d.2.2.2.1]; exact h.pp, by rw [hf.2.2.2.2.1, d.2.2.2.2.1]; exact h.pu,
    by rw [hf.2.2.2.2.2, d.2.2.2.2.2]; exact h.ph, h.holesSorted⟩

end AnyDB.C04c
