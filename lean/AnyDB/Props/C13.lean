import AnyDB.Lemmas.RawdbOutcomes

/-!
# C13 — an operation that reports an error has no effect (rawdb part)

`refused k` are the error kinds the property lists for rawdb.  What is proved is equality of the
*entire* model state — layout, slot table, metadata file image, data bytes, dirty bounds and the
event log — which is stronger than "observable state and the outcome of every later operation":
since `step` is a function of the state, every continuation behaves identically.

History: the pinned tree violated this for `remove` of a region with a live extra handle (the
layout had already dropped the region when `RegionStillReferenced` was returned — finding F1).
It was repaired by a `fix:` commit (reference count tested first); the model mirrors the repaired
code and the statement below is the full one.
-/
namespace AnyDB.C13
open AnyDB

/-- the refusals the property lists for rawdb -/
def refused : ErrKind → Prop
  | .writeOutOfBounds | .truncateInvalid | .regionAlreadyExists | .regionNotFound
  | .regionStillReferenced => True
  | _ => False

instance : DecidablePred refused := fun k => by cases k <;> simp [refused] <;> infer_instance

/-- requests that can be refused by name lookup alone are ordinary inputs: the harness answers
    `noSuchRegion` without calling anything — nothing to prove there -/
theorem C13_write (s : Db) (id : RegionId) (d : List UInt8) :
    (step s (.write id d)).2 = .err .writeOutOfBounds → (step s (.write id d)).1 = s := by
  simp only [step, Db.withRegion]
  split
  · intro _; rfl
  · exact Db.writeWith_oob_unchanged _ _ _ _ _

theorem C13_writeAt (s : Db) (id : RegionId) (a : Nat) (d : List UInt8) :
    (step s (.writeAt id a d)).2 = .err .writeOutOfBounds → (step s (.writeAt id a d)).1 = s := by
  simp only [step, Db.withRegion]
  split
  · intro _; rfl
  · exact Db.writeWith_oob_unchanged _ _ _ _ _

theorem C13_truncateWrite (s : Db) (id : RegionId) (a : Nat) (d : List UInt8) :
    (step s (.truncateWrite id a d)).2 = .err .writeOutOfBounds → (step s (.truncateWrite id a d)).1 = s := by
  simp only [step, Db.withRegion]
  split
  · intro _; rfl
  · exact Db.writeWith_oob_unchanged _ _ _ _ _

theorem C13_truncate (s : Db) (id : RegionId) (n : Nat) (k : ErrKind) :
    (step s (.truncate id n)).2 = .err k → (step s (.truncate id n)).1 = s := by
  simp only [step, Db.withRegion]
  split
  · intro _; rfl
  · exact Db.truncate_err_unchanged _ _ _ _

theorem C13_rename (s : Db) (id nid : RegionId) (k : ErrKind) :
    (step s (.rename id nid)).2 = .err k → (step s (.rename id nid)).1 = s := by
  simp only [step, Db.withRegion]
  split
  · intro _; rfl
  · exact Db.rename_err_unchanged _ _ _ _

/-- removal of an absent name, and removal while another handle is alive -/
theorem C13_remove (s : Db) (id : RegionId) (held : Bool) (k : ErrKind) (hk : refused k) :
    (s.removeId id held).2 = .err k → (s.removeId id held).1 = s := by
  unfold Db.removeId
  split
  · intro _; rfl
  · unfold Db.remove
    split
    · intro _; rfl
    · cases held with
      | true => intro _; rfl
      | false =>
        simp only [Bool.false_eq_true, if_false]
        split
        · intro h; simp at h; subst h; simp [refused] at hk
        · intro h; simp at h

/-- the property, for every request of the rawdb protocol and every refusal kind it lists:
    the answer is a refusal ⇒ the state is untouched -/
theorem C13_rawdb (s : Db) (op : Op) (k : ErrKind) (hk : refused k)
    (hop : match op with | .retain _ | .compact | .flush | .reopen _ | .regionFlush _ | .create _ => False | _ => True)
    (h : (step s op).2 = .err k) : (step s op).1 = s := by
  cases op with
  | write id d =>
    cases k <;> simp [refused] at hk
    · exact C13_write s id d h
    all_goals
      exfalso; revert h; simp only [step, Db.withRegion]; split
      · simp
      · rename_i i hi
        cases hs : s.slot? i with
        | none => rw [Db.writeWith_none _ _ _ _ _ hs]; simp
        | some sl =>
          rw [Db.writeWith_some _ _ _ _ _ _ hs]
          split
          · simp
          · split
            · intro h; exact Db.writeFits_out _ _ _ _ _ _ _ h
            · intro h; have := Db.writeGrow_out _ _ _ _ _ _ _ _ h; simp at this
  | writeAt id a d =>
    cases k <;> simp [refused] at hk
    · exact C13_writeAt s id a d h
    all_goals
      exfalso; revert h; simp only [step, Db.withRegion]; split
      · simp
      · rename_i i hi
        cases hs : s.slot? i with
        | none => rw [Db.writeWith_none _ _ _ _ _ hs]; simp
        | some sl =>
          rw [Db.writeWith_some _ _ _ _ _ _ hs]
          split
          · simp
          · split
            · intro h; exact Db.writeFits_out _ _ _ _ _ _ _ h
            · intro h; have := Db.writeGrow_out _ _ _ _ _ _ _ _ h; simp at this
  | truncateWrite id a d =>
    cases k <;> simp [refused] at hk
    · exact C13_truncateWrite s id a d h
    all_goals
      exfalso; revert h; simp only [step, Db.withRegion]; split
      · simp
      · rename_i i hi
        cases hs : s.slot? i with
        | none => rw [Db.writeWith_none _ _ _ _ _ hs]; simp
        | some sl =>
          rw [Db.writeWith_some _ _ _ _ _ _ hs]
          split
          · simp
          · split
            · intro h; exact Db.writeFits_out _ _ _ _ _ _ _ h
            · intro h; have := Db.writeGrow_out _ _ _ _ _ _ _ _ h; simp at this
  | truncate id n => exact C13_truncate s id n k h
  | rename id nid => exact C13_rename s id nid k h
  | remove id => exact C13_remove s id false k hk h
  | removeHeld id => exact C13_remove s id true k hk h
  | setMinLen n => simp [step] at h
  | setMinRegions n => simp [step] at h
  | create _ => simp at hop
  | retain _ => simp at hop
  | flush => simp at hop
  | regionFlush _ => simp at hop
  | compact => simp at hop
  | reopen _ => simp at hop

/-- non-vacuity: each listed refusal is produced by the model.  The state is a literal (two live
    one-page regions `a` (3 bytes) and `b`): evaluating `run Db.init …` in the kernel would
    materialise the 1 MiB file image; that such states are *reached* and that the real code refuses
    the same requests is shown by the correspondence run (outcome distribution in the evidence). -/
def exState : Db :=
  { fileLen := 0, mem := Mem.empty,
    slots := [some { md := { start := 0, len := 3, reserved := 4096, id := [97] }, st := .needsFlush, dmin := 0, dmax := 3 },
              some { md := { start := 4096, len := 0, reserved := 4096, id := [98] }, st := .needsWrite, dmin := USIZE_MAX, dmax := 0 }],
    rfile := [some { start := 0, len := 3, reserved := 4096, id := [97] }, none],
    regions := [(0, 0), (4096, 1)], holes := [], reserved := [], pending := [], log := [] }

example :
    (step exState (.writeAt [97] 4 [9])).2 = .err .writeOutOfBounds ∧
    (step exState (.truncate [97] 4)).2 = .err .truncateInvalid ∧
    (step exState (.rename [97] [98])).2 = .err .regionAlreadyExists ∧
    (step exState (.remove [122])).2 = .err .regionNotFound ∧
    (step exState (.removeHeld [97])).2 = .err .regionStillReferenced := by
  decide

end AnyDB.C13
