import AnyDB.Props.C01Run

/-!
# C12 — `compact()` never alters a live region, in ANY reachable state of the model

Built on the refinement machinery of C01 (`Lemmas/Region*.lean`): `compact` = `flush` (pending holes are promoted; no
slot's metadata and no byte changes) followed by hole punching, which only zeroes (a) the tail of a region's reservation
beyond `ceil_page(len)` and (b) free extents — both apart from every region's contents because the layout invariant of
C02 holds (`quiet_punchHoles`, `hole_apart`, `slots_apart`).

* `C12_compact_quiet`   — from any state of the invariant: every slot keeps its metadata (name, start, length,
                          reservation = placement), the file does not shrink, every byte of every live region is kept;
* `C12_compact_history` — after EVERY history (no `reopen`, no panic, no `RegionSizeOverflow`) a `compact()` leaves what
                          every region shows, and every region's placement, exactly as it was, and the invariant holds
                          afterwards (so the next operations behave as C01/C02 say).

The concurrent clause ("whatever other threads are writing meanwhile") is C10's directed-schedule engine (finding F16);
the crash clause is C05's crash engine.
-/
namespace AnyDB.C01r
open AnyDB Conc Db C02r Mem

theorem C12_compact_quiet (s : Db) (hinv : RInv s) : Quiet s s.compact.1 ∧ RInv s.compact.1 := by
  have hq := quiet_flush s
  have hlc := linv_compact s hinv.lay
  have hfi : RInv s.flush.1 := by
    -- the invariant after flush, through the refinement lemma with the state's own view as reference
    refine ⟨linv_flush s hinv.lay, fun j slj hj => ?_⟩
    have hm := mds_slot s s.flush.1 hq.1 j
    rw [hj] at hm
    cases hs : s.slot? j with
    | none => rw [hs] at hm; simp at hm
    | some sl =>
      rw [hs] at hm
      simp only [Option.map_some, Option.some.injEq] at hm
      have := hinv.bnd j sl hs
      rw [hm]
      exact ⟨this.1, fun h0 => by have := this.2 h0; have := hq.2.1; omega⟩
  unfold Db.compact at hlc ⊢
  generalize s.flush = rr at hq hfi hlc
  obtain ⟨s1, o⟩ := rr
  simp only at hq hfi hlc ⊢
  cases o with
  | okN n =>
    simp only at hlc ⊢
    have hp := quiet_punchHoles s1 hfi
    refine ⟨hq.trans hp, hlc, fun j slj hj => ?_⟩
    have hm := mds_slot s1 s1.punchHoles hp.1 j
    rw [hj] at hm
    cases hs : s1.slot? j with
    | none => rw [hs] at hm; simp at hm
    | some sl =>
      rw [hs] at hm
      simp only [Option.map_some, Option.some.injEq] at hm
      have := hfi.bnd j sl hs
      rw [hm]
      exact ⟨this.1, fun h0 => by have := this.2 h0; have := hp.2.1; omega⟩
  | ok => exact ⟨hq, hfi⟩
  | err k => exact ⟨hq, hfi⟩
  | panic m => exact ⟨hq, hfi⟩

/-- C12, sequential clause, for every reachable state of the model -/
theorem C12_compact_history (ops : List Op) (hr : NoReopen ops) (hf : FineRun Db.init ops) :
    view (run Db.init ops).compact.1 = view (run Db.init ops) ∧ mds (run Db.init ops).compact.1 = mds (run Db.init ops) ∧
    RInv (run Db.init ops).compact.1 := by
  obtain ⟨hv, hn, hinv⟩ := C01_history_partial ops hr hf
  have hrel := (rel_run Db.init [] ops rel_init.1 rel_init.2 hr hn).1
  obtain ⟨hq, hi⟩ := C12_compact_quiet _ hinv
  obtain ⟨hr2, _⟩ := rel_compact _ _ hrel hinv
  exact ⟨by rw [view_of_rel _ _ hr2, view_of_rel _ _ hrel], hq.1, hi⟩

end AnyDB.C01r
