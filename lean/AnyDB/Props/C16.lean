import AnyDB.Model.Vec

/-!
# C16 — rollback is bounded by retention and refuses rather than guesses

Model: the change directory of `AnyDB/Model/Vec.lean` (`saveChangeFile`, `rollback`, `undo`,
`parseChange`, `rollbackBefore`).

Proved here (all states, all byte strings):

* `C16_prune_count`      — after a commit with retention `k ≥ 1` the directory holds at most `k` records;
* `C16_prune_future`     — and none with a stamp at or above the new one except the new record itself
                            (records of an abandoned future are dropped before they can be applied);
* `C16_prune_newest`     — the new record is there, and the records kept are the newest ones below it;
* `C16_missing_refused`  — a rollback whose record is missing fails and leaves the ENTIRE state unchanged;
* `C16_unparsable_refused` — a rollback whose record does not parse (truncated at ANY byte offset,
                            count fields that overflow or exceed the input) fails and leaves the
                            entire state unchanged — `parseChange` is total and `undo` touches the
                            state only after a successful parse;
* `C16_parse_short`      — every record shorter than the fixed 32-byte prefix is rejected;
* `C16_count_guard`      — a count field that promises more values than bytes remain is rejected
                            (no allocation beyond the input: `readValues` checks before it reads).

History (F11, found by this machinery, SIGSEGV on the real code): the `prev_stored_len` field was not
validated against anything, so a record with that field overwritten (e.g. 2^32) parsed, the
rollback installed that length and the next read left the mapping.  Repaired by a `fix:` commit
(the three redundant length fields must agree); `C16_prevStoredLen_checked` is the model's side.
-/
namespace AnyDB.C16
open AnyDB VecM VecM.V

theorem C16_prune_count (s : V) (st : Nat) (d : List UInt8) (hk : 1 ≤ s.keep) :
    (s.saveChangeFile st d).changes.length ≤ s.keep := by
  unfold V.saveChangeFile
  simp only [List.length_append, List.length_drop, List.length_singleton]
  omega

theorem C16_prune_future (s : V) (st : Nat) (d : List UInt8) :
    ∀ c ∈ (s.saveChangeFile st d).changes, c.1 < st ∨ c = (st, d) := by
  intro c hc
  unfold V.saveChangeFile at hc
  simp only [List.mem_append, List.mem_singleton] at hc
  rcases hc with h | h
  · left
    have := List.mem_of_mem_drop h
    simpa using (List.mem_filter.mp this).2
  · right; exact h

theorem C16_prune_newest (s : V) (st : Nat) (d : List UInt8) :
    (st, d) ∈ (s.saveChangeFile st d).changes ∧
    ∀ c ∈ (s.saveChangeFile st d).changes, c = (st, d) ∨ c ∈ s.changes := by
  unfold V.saveChangeFile
  refine ⟨by simp, ?_⟩
  intro c hc
  simp only [List.mem_append, List.mem_singleton] at hc
  rcases hc with h | h
  · right; exact (List.mem_filter.mp (List.mem_of_mem_drop h)).1
  · left; exact h

theorem C16_missing_refused (s : V) (h : s.changes.find? (·.1 == s.stamp) = none) :
    s.rollback = (s, .err .io) := by
  unfold V.rollback; rw [h]

theorem C16_unparsable_refused (s : V) (bytes : List UInt8) (e : EK)
    (h : parseChange s.kind s.sz bytes = .error e) : s.undo bytes = (s, .err e) := by
  unfold V.undo; rw [h]

theorem readU64_short (c : Cur) (h : c.bytes.length < c.pos + 8) (hp : c.pos + 8 < U64) :
    c.readU64 = .error .wrongLength := by
  unfold Cur.readU64 Cur.check
  have h1 : ¬ c.pos + 8 ≥ U64 := by omega
  have h2 : c.pos + 8 > c.bytes.length := by omega
  simp [h1, h2]

theorem C16_parse_short (k : Kind) (sz : Nat) (bytes : List UInt8) (h : bytes.length < 8) :
    parseChange k sz bytes = .error .wrongLength := by
  unfold parseChange
  simp only []
  rw [readU64_short { bytes := bytes, pos := 0 } (by simpa using h) (by simp [U64])]

/-- a count that promises more bytes than remain is refused before anything is read -/
theorem C16_count_guard (c : Cur) (count sz : Nat) (h : c.pos + sz * count > c.bytes.length) :
    ∃ e, c.readValues count sz = .error e := by
  unfold Cur.readValues Cur.check
  by_cases h1 : sz * count ≥ U64
  · exact ⟨.overflow, by simp [h1]⟩
  · simp only [h1, if_false]
    by_cases h2 : c.pos + sz * count ≥ U64
    · exact ⟨.overflow, by simp [h2]⟩
    · exact ⟨.wrongLength, by simp [h2, h]⟩

/-- a compressed vector with two stored elements, one raw page -/
def exS : V :=
  { V.init .comp 8 3 with
    storedLen := 2, prevStoredLen := 0, stamp := 1,
    pages := [{ start := 32, bytes := 16, values := 2, raw := true, content := [5, 6] }] }

/-- F11 (repaired by a `fix:` commit): overwriting `prev_stored_len` (bytes 8..16) of a valid record
    is now detected — the length fields of a record are redundant and must agree -/
theorem C16_prevStoredLen_checked :
    (match parseChange .comp 8 (patchBytes (exS.serializeChanges).1 8 (u64b 100)) with
     | .error .wrongLength => true
     | _ => false) = true := by
  decide

/-- non-vacuity of the retention theorems: k = 2, three commits -/
def exR : V := { V.init .raw 8 2 with changes := [(1, []), (2, [])] }
example : (exR.saveChangeFile 3 [7]).changes = [(2, []), (3, [7])] := by decide

end AnyDB.C16
