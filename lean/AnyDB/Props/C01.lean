import AnyDB.Lemmas.MemLaws
import AnyDB.Lemmas.RawdbOutcomes

/-!
# C01 — every region reads back exactly its own bytes, across any history

Model: `AnyDB/Model/Rawdb.lean` (`write_with` with its four placement paths, `truncate`, `rename`,
`remove`, `flush`, `compact`, `reopen`) over the byte image `Mem`.

The reference model of the property — one independent byte vector per region name — lives in the
harness (`rawdb_engine.rs: RefDb`) *and* is what the theorems below describe per placement path:

* `C01_bytes_write`       — any `Database::write` (every path ends in one): the bytes written read
                            back, every other byte of the file is unchanged (frame);
* `C01_fits_refines`      — path 1 (new length fits the reserve): region `idx` now reads
                            `old[0,wo) ++ data ++ old[wo+|data|, …)` and its length is the new one;
* `C01_fits_isolated`     — … and no other slot's metadata and no byte outside
                            `[start+wo, start+wo+|data|)` changes — hence no other region changes;
* `C01_copy_preserves`    — the relocation copy (`Database::copy`) reproduces the `copyLen` source
                            bytes at the destination and changes nothing outside the destination;
* `C01_grow_preserves`    — growing the file (`set_min_len`) changes no existing byte;
* `C01_punch_outside`     — hole punching (`compact`) changes no byte outside the punched range;
* `C01_truncate_meta` / `C01_rename_meta` — truncate and rename touch only the slot's `len` / `id`
                            and never the data bytes.
* `C01_refusals_pure`     — a refused write leaves the whole state untouched (from C13).

The composition over whole histories — the refinement to the reference byte vectors — is `Props/C01Run.lean`
(`C01_step`, `C01_run_partial`), built on these laws and on the layout invariant of C02.
-/
namespace AnyDB.C01
open AnyDB Mem

/-- `Database::write`: read-own-write and frame, for every offset and payload -/
theorem C01_bytes_write (s s' : Db) (off : Nat) (d : List UInt8) (h : s.dataWrite off d = some s') :
    s'.mem.read off d.length = d.map some ∧
    (∀ o l, (o + l ≤ off ∨ off + d.length ≤ o) → s'.mem.read o l = s.mem.read o l) ∧
    s'.mem.size = s.mem.size ∧ s'.slots = s.slots ∧ s'.regions = s.regions ∧ s'.holes = s.holes := by
  unfold Db.dataWrite at h
  cases hw : s.mem.writeAt off d with
  | none => simp [hw] at h
  | some m =>
    simp [hw] at h; subst h
    exact ⟨read_writeAt_same hw, fun o l hd => read_writeAt_frame hw o l hd, size_writeAt hw, rfl, rfl, rfl⟩

theorem writeIfDirty_mem (s : Db) (i : Nat) (sl : Slot) : (s.writeIfDirty i sl).mem = s.mem := by
  unfold Db.writeIfDirty; split <;> rfl

theorem setSlot_mem (s : Db) (i : Nat) (sl : Option Slot) : (s.setSlot i sl).mem = s.mem := rfl

theorem writeIfDirty_slot_ne (s : Db) (i j : Nat) (sl : Slot) (h : j ≠ i) :
    (s.writeIfDirty i sl).slot? j = s.slot? j := by
  unfold Db.writeIfDirty Db.slot? Db.setSlot
  split <;> simp [List.getElem?_set, Ne.symm h]

theorem writeIfDirty_slot_eq (s : Db) (i : Nat) (sl : Slot) (h : i < s.slots.length) :
    ((s.writeIfDirty i sl).slot? i).map (·.md) = some sl.md := by
  unfold Db.writeIfDirty Db.slot? Db.setSlot
  split <;> simp [List.getElem?_set, h]

/-- path 1 of `write_with`: what region `idx` reads afterwards -/
theorem C01_fits_refines (s : Db) (idx : Nat) (sl : Slot) (d : List UInt8) (wo nl : Nat)
    (hidx : idx < s.slots.length)
    (hok : (s.writeFits idx sl d wo nl).2 = .ok) :
    let s' := (s.writeFits idx sl d wo nl).1
    (∀ i, s'.mem.get? (sl.md.start + i) =
        if wo ≤ i ∧ i < wo + d.length then d[i - wo]? else s.mem.get? (sl.md.start + i)) ∧
    (s'.slot? idx).map (·.md) = some { sl.md with len := nl } := by
  unfold Db.writeFits at hok ⊢
  cases hw : s.dataWrite (sl.md.start + wo) d with
  | none => simp [hw] at hok
  | some s1 =>
    simp only [hw]
    obtain ⟨_, _, _, hslots, _, _⟩ := C01_bytes_write s s1 _ d hw
    have hmem : ∀ i, s1.mem.get? (sl.md.start + i) =
        if wo ≤ i ∧ i < wo + d.length then d[i - wo]? else s.mem.get? (sl.md.start + i) := by
      intro i
      unfold Db.dataWrite at hw
      cases hw2 : s.mem.writeAt (sl.md.start + wo) d with
      | none => simp [hw2] at hw
      | some m =>
        simp [hw2] at hw; subst hw
        rw [get?_writeAt hw2]
        have e : sl.md.start + i - (sl.md.start + wo) = i - wo := by omega
        by_cases hc : wo ≤ i ∧ i < wo + d.length
        · have : sl.md.start + wo ≤ sl.md.start + i ∧ sl.md.start + i < sl.md.start + wo + d.length := by omega
          rw [if_pos this, if_pos hc, e]
        · have : ¬ (sl.md.start + wo ≤ sl.md.start + i ∧ sl.md.start + i < sl.md.start + wo + d.length) := by omega
          rw [if_neg this, if_neg hc]
    have hlen : idx < s1.slots.length := by rw [hslots]; exact hidx
    split
    · rename_i hne
      refine ⟨by intro i; rw [writeIfDirty_mem]; exact hmem i, ?_⟩
      rw [writeIfDirty_slot_eq _ _ _ hlen]
      unfold Db.metaSetLen Db.markDirty
      simp only []
      split
      · rename_i h
        cases sl with
        | mk md st dmin dmax => cases md; simp_all
      · rfl
    · rename_i hne
      refine ⟨by intro i; rw [setSlot_mem]; exact hmem i, ?_⟩
      have : nl = sl.md.len := by simpa [Db.markDirty] using hne
      unfold Db.slot? Db.setSlot
      simp [List.getElem?_set, hlen, Db.markDirty, this]

/-- path 1: nothing else changes — other slots keep their metadata, bytes outside the written
    range keep their value, the layout is untouched -/
theorem C01_fits_isolated (s : Db) (idx : Nat) (sl : Slot) (d : List UInt8) (wo nl : Nat)
    (hok : (s.writeFits idx sl d wo nl).2 = .ok) :
    let s' := (s.writeFits idx sl d wo nl).1
    (∀ j, j ≠ idx → s'.slot? j = s.slot? j) ∧
    (∀ o l, (o + l ≤ sl.md.start + wo ∨ sl.md.start + wo + d.length ≤ o) → s'.mem.read o l = s.mem.read o l) ∧
    s'.regions = s.regions ∧ s'.holes = s.holes ∧ s'.pending = s.pending ∧ s'.fileLen = s.fileLen := by
  unfold Db.writeFits at hok ⊢
  cases hw : s.dataWrite (sl.md.start + wo) d with
  | none => simp [hw] at hok
  | some s1 =>
    simp only [hw]
    obtain ⟨_, hframe, _, hslots, hregs, hholes⟩ := C01_bytes_write s s1 _ d hw
    have hrest : s1.pending = s.pending ∧ s1.fileLen = s.fileLen := by
      unfold Db.dataWrite at hw
      cases hw2 : s.mem.writeAt (sl.md.start + wo) d with
      | none => simp [hw2] at hw
      | some m => simp [hw2] at hw; subst hw; exact ⟨rfl, rfl⟩
    have hsl : ∀ j, s1.slot? j = s.slot? j := by intro j; unfold Db.slot?; rw [hslots]
    split
    · refine ⟨fun j hj => by rw [writeIfDirty_slot_ne _ _ _ _ hj]; exact hsl j,
        fun o l hd => by rw [writeIfDirty_mem]; exact hframe o l hd, ?_, ?_, ?_, ?_⟩ <;>
      (unfold Db.writeIfDirty; split <;> simp_all [Db.setSlot])
    · refine ⟨fun j hj => ?_, fun o l hd => by rw [setSlot_mem]; exact hframe o l hd, ?_, ?_, ?_, ?_⟩
      · unfold Db.slot? Db.setSlot; simp [List.getElem?_set, Ne.symm hj]; rw [← hslots]
      all_goals simp_all [Db.setSlot]

theorem slice_getElem? (m : Mem) (src len i : Nat) (hi : i < len) (hin : src + len ≤ m.size) :
    (m.slice src len)[i]? = m.get? (src + i) := by
  unfold Mem.slice Mem.get? Mem.size at *
  rw [Array.getElem?_toList, Array.getElem?_extract]
  have : i < min (src + len) m.bytes.size - src := by omega
  simp [this]

/-- the relocation copy reproduces the source bytes and touches only the destination -/
theorem C01_copy_preserves (s s' : Db) (src dst len : Nat) (h : s.dataCopy src dst len = .ok s')
    (hin : src + len ≤ s.mem.size) :
    (∀ i, i < len → s'.mem.get? (dst + i) = s.mem.get? (src + i)) ∧
    (∀ o l, (o + l ≤ dst ∨ dst + len ≤ o) → s'.mem.read o l = s.mem.read o l) := by
  unfold Db.dataCopy at h
  by_cases h0 : len = 0
  · simp [h0] at h; subst h
    exact ⟨by intro i hi; omega, fun _ _ _ => rfl⟩
  · simp only [h0, if_false] at h
    split at h
    · simp at h
    · split at h
      · simp at h
      · have hsl : (s.mem.slice src len).length = len := by
          unfold Mem.slice Mem.size at *; simp; omega
        unfold Db.dataWrite at h
        cases hw2 : s.mem.writeAt dst (s.mem.slice src len) with
        | none => simp [hw2] at h
        | some m =>
          simp [hw2] at h; subst h
          refine ⟨?_, fun o l hd => read_writeAt_frame hw2 o l (by rw [hsl]; exact hd)⟩
          intro i hi
          show m.get? (dst + i) = _
          rw [get?_writeAt hw2, hsl]
          have : dst ≤ dst + i ∧ dst + i < dst + len := by omega
          rw [if_pos this]
          have e : dst + i - dst = i := by omega
          rw [e]
          exact slice_getElem? s.mem src len i hi hin

/-- growing the file keeps every existing byte -/
theorem C01_grow_preserves (s : Db) (n o l : Nat) (h : o + l ≤ s.mem.size) :
    (s.setMinLen n).mem.read o l = s.mem.read o l := by
  unfold Db.setMinLen
  simp only []
  split
  · rfl
  · exact read_grow _ _ _ _ h

/-- hole punching changes nothing outside the punched range -/
theorem C01_punch_outside (m : Mem) (off len o l : Nat) (hd : o + l ≤ off ∨ off + len ≤ o) :
    (m.punch off len).read o l = m.read o l := read_punch_frame m off len o l hd

/-- truncate never touches data bytes or other slots -/
theorem C01_truncate_meta (s : Db) (idx n : Nat) :
    (s.truncate idx n).1.mem = s.mem ∧ (∀ j, j ≠ idx → (s.truncate idx n).1.slot? j = s.slot? j) := by
  unfold Db.truncate
  split
  · exact ⟨rfl, fun _ _ => rfl⟩
  · split
    · exact ⟨rfl, fun _ _ => rfl⟩
    · split
      · exact ⟨rfl, fun _ _ => rfl⟩
      · exact ⟨writeIfDirty_mem _ _ _, fun j hj => writeIfDirty_slot_ne _ _ _ _ hj⟩

/-- rename never touches data bytes or other slots -/
theorem C01_rename_meta (s : Db) (idx : Nat) (nid : RegionId) :
    (s.rename idx nid).1.mem = s.mem ∧ (∀ j, j ≠ idx → (s.rename idx nid).1.slot? j = s.slot? j) := by
  unfold Db.rename
  split
  · exact ⟨rfl, fun _ _ => rfl⟩
  · split
    · exact ⟨rfl, fun _ _ => rfl⟩
    · split
      · exact ⟨rfl, fun _ _ => rfl⟩
      · exact ⟨writeIfDirty_mem _ _ _, fun j hj => writeIfDirty_slot_ne _ _ _ _ hj⟩

/-- a refused write changes nothing at all -/
theorem C01_refusals_pure (s : Db) (idx : Nat) (d : List UInt8) (a : Option Nat) (t : Bool) :
    (s.writeWith idx d a t).2 = .err .writeOutOfBounds → (s.writeWith idx d a t).1 = s :=
  Db.writeWith_oob_unchanged s idx d a t

/-- non-vacuity: a positional overwrite in the middle of a 5-byte region of a 16-byte file -/
example :
    let sl : Slot := { md := { start := 0, len := 5, reserved := 8, id := [97] }, st := MState.clean, dmin := USIZE_MAX, dmax := 0 }
    let s : Db := { fileLen := 16, mem := ⟨#[1,2,3,4,5,0,0,0,9,9,9,9,9,9,9,9]⟩, slots := [some sl], rfile := [none],
                    regions := [(0, 0)], holes := [], reserved := [], pending := [], log := [] }
    (s.writeFits 0 sl [7, 7] 2 5).2 = .ok ∧
    ((s.writeFits 0 sl [7, 7] 2 5).1.mem.read 0 8) = [some 1, some 2, some 7, some 7, some 5, some 0, some 0, some 0] := by
  decide

end AnyDB.C01
