import AnyDB.Model.Vec
import AnyDB.Props.C03
import AnyDB.Props.C07

/-!
# C20 — reads on behalf of a vector never touch bytes outside its region's valid data

Model: `AnyDB/Model/Vec.lean`.  Every element fetch from the data region of a raw vector goes through
`V.diskRead i`, which reports `true` exactly when slot `i` lies at or beyond the end of the region
(`disk.length`); the compressed formats fetch whole page slices `[page.start, page.stop)`.

* read-only clones, `VecReader` and the stored mmap / file-IO sources address `min storedLen disk.length`
  elements: **no state at all** lets them leave the region (`C20_cloneGet`, `C20_cloneRange`,
  `C20_cloneReads`); `C20_unclamped_counterexample` shows on the F6 state (a rolled-back truncation:
  stored length 8, 3 elements in the region) that the clamp is what makes this true;
* the read-write vector answers from its overlay first.  `Covered s` — every slot between the end of
  the region and the stored length is deleted or overlaid — is the invariant under which all its
  read paths stay inside (`C20_getAny`, `C20_items_raw`, `C20_take`); it holds whenever the stored
  length does not exceed the region (`covered_of_le`, in particular after every successful `write`:
  `C20_writeRaw_le`), and every plain edit preserves it (`covered_push`, `covered_truncate`,
  `covered_update`, `covered_delete`, `covered_take`, `covered_fill`);
* compressed: in a gap-free page chain starting at the header every page slice lies between the
  header and the end of the chain, which is the length of the data region (`C20_pages`,
  `C20_build_end` with `C07_write_chained`).

Not proved in Lean: that `rollback` re-establishes `Covered` (it does so through the truncated values
of the change record, a fact about the record written by the matching commit — validated by the
access-tap oracle on every rollback of the C04 streams).  Tie to the code: the guarded access tap
reports every `Reader::unchecked_read`, every pointer handed out by `Reader::prefixed`, every raw
pointer dereference of the read sites and every positioned file read; after each request the engine
compares them with the owning region's start and length.
-/
namespace AnyDB.C20
open AnyDB VecM VecM.V C03 C07

/-! ## the flag folds -/

theorem foldl_flag {α : Type} (l : List Nat) (f : Nat → α × Bool) (h : ∀ i ∈ l, (f i).2 = false)
    (acc : List α × Bool) :
    (l.foldl (fun (acc : List α × Bool) i => (acc.1 ++ [(f i).1], acc.2 || (f i).2)) acc).2 = acc.2 := by
  induction l generalizing acc with
  | nil => rfl
  | cons a t ih =>
    simp only [List.foldl_cons]
    rw [ih (fun i hi => h i (List.mem_cons_of_mem _ hi))]
    simp [h a (List.mem_cons_self ..)]

theorem diskRead_in (s : V) (i : Nat) (h : i < s.disk.length) : (s.diskRead i).2 = false := by
  unfold diskRead
  have : s.disk[i]? = some s.disk[i] := List.getElem?_eq_getElem h
  simp [this]

/-! ## read-only clones, VecReader, stored sources: unconditional -/

theorem C20_cloneGet (s : V) (i : Nat) : (s.cloneGet i).2 = false := by
  unfold cloneGet
  split
  · rename_i h
    exact diskRead_in s i (by unfold addressable at h; omega)
  · rfl

theorem C20_cloneRange (s : V) (from_ to : Nat) : (s.cloneRange from_ to).2 = false := by
  unfold cloneRange
  have := foldl_flag (List.range (min to s.addressable - min from_ s.addressable))
    (fun k => s.diskRead (min from_ s.addressable + k)) (by
      intro k hk
      have hk := List.mem_range.mp hk
      exact diskRead_in s _ (by unfold addressable at hk ⊢; omega)) ([], false)
  simpa using this

theorem C20_cloneReads (s : V) : s.cloneReadsOob = false := by
  unfold cloneReadsOob
  split
  · exact C20_cloneRange s 0 _
  · rfl

/-- the state of finding F6: 8 elements committed, truncated to 3 and committed, rolled back — the stored
length is 8 again, the region holds 3 elements, the 5 restored ones live in the overlay -/
def exF6 : V :=
  { V.init .raw 8 3 with disk := [10, 11, 12], storedLen := 8, prevStoredLen := 8, stamp := 1, updated := [(3, 13), (4, 14), (5, 15), (6, 16), (7, 17)], prevUpdated := [(3, 13), (4, 14), (5, 15), (6, 16), (7, 17)] }

/-- without the clamp (`addressable := storedLen`) a clone's read of slot 5 leaves the region -/
theorem C20_unclamped_counterexample : 5 < exF6.storedLen ∧ (exF6.diskRead 5).2 = true ∧ (exF6.cloneGet 5) = (none, false) := by
  decide

/-! ## the read-write vector -/

/-- every slot between the end of the region and the stored length is deleted or overlaid -/
def Covered (s : V) : Prop :=
  ∀ i, s.disk.length ≤ i → i < s.storedLen → i ∈ s.holes ∨ (mapGet s.updated i).isSome = true

theorem covered_of_le (s : V) (h : s.storedLen ≤ s.disk.length) : Covered s := by
  intro i h1 h2; omega

theorem C20_getAny (s : V) (h : Covered s) (i : Nat) : (s.getAny i).2 = false := by
  unfold getAny
  split
  · rfl
  · rename_i hh
    split
    · rfl
    · rename_i hs
      split
      · rfl
      · rename_i hu
        by_cases hd : i < s.disk.length
        · exact diskRead_in s i hd
        · rcases h i (by omega) (by omega) with h1 | h1
          · exact absurd h1 hh
          · simp [hu] at h1

theorem C20_items_raw (s : V) (hk : s.kind = .raw) (h : Covered s) : s.items.2 = false := by
  unfold items
  simp only [hk]
  have := foldl_flag (List.range s.len) (fun i => s.getAny i) (fun i _ => C20_getAny s h i) ([], false)
  simpa using this

theorem C20_take (s : V) (h : Covered s) (i : Nat) : (s.takeAt i).1.oob = s.oob := by
  unfold takeAt
  simp only [C20_getAny s h i, Bool.or_false]
  split <;> rfl

example : Covered exF6 := by
  intro i h1 h2
  have : i = 3 ∨ i = 4 ∨ i = 5 ∨ i = 6 ∨ i = 7 := by
    simp [exF6, V.init] at h1 h2; omega
  rcases this with rfl | rfl | rfl | rfl | rfl <;> (right; decide)

/-! ### plain edits keep `Covered` -/

theorem mapGet_filter_lt (m : List (Nat × Nat)) (n i : Nat) (hi : i < n) :
    mapGet (m.filter (fun kv => decide (kv.1 < n))) i = mapGet m i := by
  unfold mapGet
  induction m with
  | nil => rfl
  | cons a t ih =>
    simp only [List.filter_cons]
    by_cases ha : a.1 < n
    · simp only [ha, decide_true, if_true, List.find?_cons]
      cases hc : (a.1 == i)
      · exact ih
      · rfl
    · have h2 : (a.1 == i) = false := by simp; omega
      simp only [ha, decide_false, Bool.false_eq_true, if_false, List.find?_cons, h2]
      exact ih

theorem covered_push (s : V) (v : Nat) (h : Covered s) : Covered (s.push v) := h

theorem covered_truncateDirtyAt (s : V) (n : Nat) (h : Covered s) :
    ∀ i, s.disk.length ≤ i → i < min n s.storedLen →
      i ∈ (s.truncateDirtyAt n).holes ∨ (mapGet (s.truncateDirtyAt n).updated i).isSome = true := by
  intro i h1 h2
  unfold truncateDirtyAt
  simp only
  rcases h i h1 (by omega) with h3 | h3
  · left; simp [List.mem_filter, h3]; omega
  · right; rw [mapGet_filter_lt _ _ _ (by omega)]; exact h3

theorem truncatePushed_fields (s : V) (n : Nat) :
    (s.truncatePushed n).disk = s.disk ∧ (s.truncatePushed n).holes = s.holes ∧
    (s.truncatePushed n).updated = s.updated ∧ (s.truncatePushed n).storedLen = min n s.storedLen := by
  unfold truncatePushed V.len
  split
  · refine ⟨rfl, rfl, rfl, ?_⟩; omega
  · split
    · split
      · refine ⟨rfl, rfl, rfl, ?_⟩; simp only; omega
      · refine ⟨rfl, rfl, rfl, ?_⟩; simp only; omega
    · split
      · refine ⟨rfl, rfl, rfl, ?_⟩; simp only; omega
      · refine ⟨rfl, rfl, rfl, ?_⟩; simp only; omega

theorem covered_truncate (s : V) (n : Nat) (hk : s.kind = .raw) (h : Covered s) : Covered (s.truncate n) := by
  unfold truncate
  simp only [hk]
  have hc := covered_truncateDirtyAt s n h
  obtain ⟨hd, hh, hu, hs⟩ := truncatePushed_fields (s.truncateDirtyAt n) n
  intro i h1 h2
  rw [hd] at h1
  rw [hs] at h2
  rw [hh, hu]
  exact hc i h1 h2

theorem covered_update (s : V) (i v : Nat) (h : Covered s) : Covered (s.updateAt i v).1 := by
  unfold updateAt
  split
  · rename_i hge
    split
    · intro j h1 h2
      simp only at h1 h2 ⊢
      rcases h j h1 h2 with h3 | h3
      · left; exact (mem_filter_ne _ _ _ (by omega)).mpr h3
      · right; exact h3
    · exact h
  · intro j h1 h2
    simp only at h1 h2 ⊢
    by_cases hj : j = i
    · right; subst hj; simp [mapGet_mapInsert_same]
    · rcases h j h1 h2 with h3 | h3
      · left; exact (mem_filter_ne _ _ _ hj).mpr h3
      · right; rw [mapGet_mapInsert_other _ _ _ _ hj]; exact h3

theorem covered_uncheckedDelete (s : V) (i : Nat) (h : Covered s) : Covered (s.uncheckedDeleteAt i) := by
  intro j h1 h2
  unfold uncheckedDeleteAt at h1 h2 ⊢
  simp only at h1 h2 ⊢
  by_cases hj : j = i
  · left; exact (mem_setInsert _ _ _).mpr (Or.inr hj)
  · rcases h j h1 h2 with h3 | h3
    · left; exact (mem_setInsert _ _ _).mpr (Or.inl h3)
    · right; rw [mapGet_mapErase_other _ _ _ hj]; exact h3

theorem covered_delete (s : V) (i : Nat) (h : Covered s) : Covered (s.deleteAt i) := by
  unfold deleteAt; split
  · exact covered_uncheckedDelete s i h
  · exact h

theorem covered_take (s : V) (i : Nat) (h : Covered s) : Covered (s.takeAt i).1 := by
  unfold takeAt
  simp only
  split
  · exact covered_uncheckedDelete { s with oob := s.oob || (s.getAny i).2 } i h
  · exact h

theorem covered_fill (s : V) (v : Nat) (h : Covered s) (hb : HolesBelowLen s) : Covered (s.fillFirstHoleOrPush v).1 := by
  unfold fillFirstHoleOrPush
  split
  · rename_i hd rest hh
    have hcov : Covered (({ s with holes := rest } : V).updateAt hd v).1 := by
      unfold updateAt
      simp only
      split
      · rename_i hge
        have hlt : hd - s.storedLen < s.pushed.length := by
          have := hb hd (by rw [hh]; exact List.mem_cons_self ..)
          unfold V.len at this; omega
        simp only [hlt, if_true]
        intro j h1 h2
        simp only at h1 h2 ⊢
        rcases h j h1 h2 with h3 | h3
        · left
          rw [hh] at h3
          rcases List.mem_cons.mp h3 with h4 | h4
          · omega
          · exact (mem_filter_ne _ _ _ (by omega)).mpr h4
        · right; exact h3
      · intro j h1 h2
        simp only at h1 h2 ⊢
        by_cases hj : j = hd
        · right; subst hj; simp [mapGet_mapInsert_same]
        · rcases h j h1 h2 with h3 | h3
          · left
            rw [hh] at h3
            rcases List.mem_cons.mp h3 with h4 | h4
            · exact absurd h4 hj
            · exact (mem_filter_ne _ _ _ hj).mpr h4
          · right; rw [mapGet_mapInsert_other _ _ _ _ hj]; exact h3
    simp only
    generalize ({ s with holes := rest } : V).updateAt hd v = r at hcov ⊢
    cases r.2 <;> exact hcov
  · exact h

/-! ### `write()` leaves no slot beyond the region -/

theorem wrOverlaySet_len (upd : List (Nat × Nat)) (s r : V) (hr : wrOverlaySet upd s = .ok r) :
    r.disk.length = s.disk.length ∧ r.storedLen = s.storedLen := by
  unfold wrOverlaySet at hr
  induction upd generalizing s with
  | nil => simp only [List.foldl_nil] at hr; cases hr; exact ⟨rfl, rfl⟩
  | cons kv t ih =>
    simp only [List.foldl_cons] at hr
    by_cases hk : kv.1 < s.disk.length
    · simp only [hk, if_true] at hr
      have := ih _ hr
      simpa using this
    · simp only [hk, if_false] at hr
      exfalso
      clear ih
      induction t with
      | nil => simp at hr
      | cons a t ih2 => simp only [List.foldl_cons] at hr; exact ih2 hr

theorem wrOverlayAt_len (upd : List (Nat × Nat)) (s r : V) (hr : wrOverlayAt upd s = .ok r) :
    s.disk.length ≤ r.disk.length ∧ r.storedLen = s.storedLen := by
  unfold wrOverlayAt at hr
  induction upd generalizing s with
  | nil => simp only [List.foldl_nil] at hr; cases hr; exact ⟨Nat.le_refl _, rfl⟩
  | cons kv t ih =>
    simp only [List.foldl_cons] at hr
    cases hd : diskWriteAt s.disk kv.1 kv.2 with
    | none =>
      simp only [hd] at hr
      exfalso
      clear ih
      induction t with
      | nil => simp at hr
      | cons a t ih2 => simp only [List.foldl_cons] at hr; exact ih2 hr
    | some d =>
      simp only [hd] at hr
      have := ih _ hr
      have hl : s.disk.length ≤ d.length := by
        unfold diskWriteAt at hd
        split at hd
        · cases hd
        · split at hd
          · cases hd; simp
          · cases hd; simp
      simp only at this
      exact ⟨by omega, this.2⟩

/-- after the data stage the stored length is exactly the number of elements in the region -/
theorem wrData_eq (s r : V) (hr : s.wrExtend.wrData (decide (s.storedLen < s.disk.length)) = .ok r) :
    r.storedLen = r.disk.length := by
  have hx : s.wrExtend.storedLen = s.storedLen := by unfold wrExtend; split <;> rfl
  have hd : s.wrExtend.disk.length = max s.storedLen s.disk.length := by
    unfold wrExtend; split
    · simp only [List.length_append, List.length_replicate]; omega
    · omega
  unfold wrData at hr
  generalize s.wrExtend = t at *
  split at hr
  · simp only at hr
    split at hr
    · cases hr
    · cases hr; simp; omega
  · split at hr
    · rename_i _ ht
      cases hr
      simp at ht ⊢
      omega
    · rename_i _ ht
      cases hr
      simp at ht
      omega

theorem wrOverlay_le (s r : V) (e : Bool) (hs : s.storedLen = s.disk.length) (hr : s.wrOverlay e = .ok r) :
    r.storedLen ≤ r.disk.length := by
  unfold wrOverlay at hr
  split at hr
  · split at hr
    · have := wrOverlayAt_len _ _ _ hr; simp only at this; omega
    · have := wrOverlaySet_len _ _ _ hr; simp only at this; omega
  · cases hr; omega

theorem wrHoles_fields (s : V) (a b : Bool) : (s.wrHoles a b).1.storedLen = s.storedLen ∧ (s.wrHoles a b).1.disk = s.disk := by
  unfold wrHoles; split
  · exact ⟨rfl, rfl⟩
  · split <;> exact ⟨rfl, rfl⟩

theorem hdr_fields (s : V) : s.writeHeaderIfNeeded.storedLen = s.storedLen ∧ s.writeHeaderIfNeeded.disk = s.disk := by
  unfold writeHeaderIfNeeded; split <;> exact ⟨rfl, rfl⟩

/-- every successful raw `write()` — from ANY state, expanded ones included — ends with the stored length
inside the region: afterwards no read path of the vector or of its clones can leave it -/
theorem C20_writeRaw_le (s : V) (b : Bool) (h : s.writeRaw.2 = .okB b) :
    s.writeRaw.1.storedLen ≤ s.writeRaw.1.disk.length := by
  unfold writeRaw at h ⊢
  simp only [] at h ⊢
  generalize s.writeHeaderIfNeeded = t at *
  split at h
  · rename_i hc
    simp only [hc, if_true]
    simp at hc
    omega
  · rename_i hc
    rw [if_neg hc]
    cases h1 : t.wrExtend.wrData (decide (t.storedLen < t.disk.length)) with
    | error e => simp only [h1] at h; cases h
    | ok s1 =>
      simp only [h1] at h ⊢
      have e1 := wrData_eq t s1 h1
      cases h2 : s1.wrOverlay (decide (t.storedLen > t.disk.length)) with
      | error o =>
        simp only [h2] at h ⊢
        show s1.storedLen ≤ s1.disk.length
        omega
      | ok s2 =>
        simp only [h2] at h ⊢
        have := wrOverlay_le s1 s2 _ e1 h2
        obtain ⟨f1, f2⟩ := wrHoles_fields s2 (!t.holes.isEmpty) t.hasStoredHoles
        rw [f1, f2]; exact this

theorem C20_after_write (s : V) (b : Bool) (hk : s.kind = .raw) (h : (s.write []).2 = .okB b) : Covered (s.write []).1 := by
  unfold V.write at h ⊢
  simp only [hk] at h ⊢
  exact covered_of_le _ (C20_writeRaw_le s b h)

/-! ## compressed formats: page slices -/

theorem chained_bounds (x : Nat) (l : List Page) (h : Chained x l) :
    x ≤ chainEnd x l ∧ ∀ p ∈ l, x ≤ p.start ∧ p.stop ≤ chainEnd x l := by
  induction l generalizing x with
  | nil => exact ⟨Nat.le_refl _, by simp⟩
  | cons q t ih =>
    simp only [Chained] at h
    obtain ⟨h1, h2⟩ := ih _ h.2
    have hq : q.start ≤ q.stop := by unfold Page.stop; omega
    refine ⟨by simp only [chainEnd]; omega, ?_⟩
    intro p hp
    simp only [chainEnd]
    rcases List.mem_cons.mp hp with rfl | hp
    · exact ⟨by omega, h1⟩
    · have := h2 p hp; omega

/-- in a gap-free chain that starts at the header and ends at the end of the data region every page slice
`[start, stop)` — the only bytes a compressed read fetches — lies inside the region's valid data -/
theorem C20_pages (pages : List Page) (dataLen : Nat) (h : Chained HEADER pages) (hd : dataLen = nextStart pages) :
    ∀ p ∈ pages, HEADER ≤ p.start ∧ p.stop ≤ dataLen := by
  rw [hd, nextStart_eq_chainEnd]
  exact (chained_bounds HEADER pages h).2

end AnyDB.C20
