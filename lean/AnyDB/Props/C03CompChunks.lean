import AnyDB.Props.C03CompBase
namespace AnyDB.C03c
open AnyDB VecM VecM.V C07

theorem wf_cons_intro (pp : Nat) (p : Page) (t : List Page) (h1 : p.content.length = p.values) (h2 : p.values ≤ pp)
    (h3 : t ≠ [] → p.values = pp) (h4 : PagesWF pp t) : PagesWF pp (p :: t) := by
  cases t with
  | nil => exact ⟨h1, h2⟩
  | cons q r => exact ⟨⟨h1, h3 (by simp)⟩, h4⟩

/-- every chunk but the last is full, the last is not over-full -/
def ChunksWF (pp : Nat) : List (List Nat) → Prop
  | [] => True
  | [c] => c.length ≤ pp
  | c :: d :: t => c.length = pp ∧ ChunksWF pp (d :: t)

theorem split_nil_of_empty (fuel n : Nat) (l : List Nat) (h : l = []) : splitChunks fuel n l = [] := by
  subst h
  cases fuel with
  | zero => simp [splitChunks]
  | succ f => cases n <;> simp [splitChunks]

theorem split_wf (fuel n : Nat) (l : List Nat) (hn : 0 < n) : ChunksWF n (splitChunks fuel n l) := by
  induction fuel generalizing l with
  | zero => simp [splitChunks, ChunksWF]
  | succ f ih =>
    cases n with
    | zero => omega
    | succ m =>
      simp only [splitChunks]
      by_cases he : l.isEmpty
      · simp [he, ChunksWF]
      · simp only [he, Bool.false_eq_true, if_false]
        have iht := ih (l.drop (m + 1))
        cases hr : splitChunks f (m + 1) (l.drop (m + 1)) with
        | nil => simp [ChunksWF]; omega
        | cons d t =>
          rw [hr] at iht
          refine ⟨?_, iht⟩
          have hne : l.drop (m + 1) ≠ [] := by
            intro hd
            rw [split_nil_of_empty f (m + 1) _ hd] at hr; cases hr
          have : m + 1 < l.length := by
            by_cases hlt : m + 1 < l.length
            · exact hlt
            · exact absurd (List.drop_eq_nil_of_le (by omega)) hne
          simp; omega

theorem enc_cons_ne_nil (pp sz : Nat) (d : List Nat) (t : List (List Nat)) (cs : List Nat) : encChunks pp sz (d :: t) cs ≠ [] := by
  unfold encChunks
  split
  · cases cs <;> simp
  · simp

theorem enc_build_wf (pp sz x : Nat) (chunks : List (List Nat)) (cs : List Nat) (h : ChunksWF pp chunks) :
    PagesWF pp (buildPages x (encChunks pp sz chunks cs)) := by
  induction chunks generalizing cs x with
  | nil => simp [encChunks, buildPages, PagesWF]
  | cons ch rest ih =>
    have hrest : ChunksWF pp rest := by
      cases rest with
      | nil => trivial
      | cons d t => exact h.2
    have hlen : ch.length ≤ pp ∧ (rest ≠ [] → ch.length = pp) := by
      cases rest with
      | nil => exact ⟨h, fun hn => absurd rfl hn⟩
      | cons d t => exact ⟨by rw [h.1]; exact Nat.le_refl _, fun _ => h.1⟩
    have tail_ne : ∀ y cs', rest ≠ [] → buildPages y (encChunks pp sz rest cs') ≠ [] := by
      intro y cs' hn
      cases rest with
      | nil => exact absurd rfl hn
      | cons d t =>
        have := enc_cons_ne_nil pp sz d t cs'
        cases he : encChunks pp sz (d :: t) cs' with
        | nil => exact absurd he this
        | cons e r => simp [buildPages]
    have key : ∀ (b : Nat) (rw_ : Bool) (cs' : List Nat),
        PagesWF pp (buildPages x ((b, ch.length, rw_, ch) :: encChunks pp sz rest cs')) := by
      intro b rw_ cs'
      simp only [buildPages]
      refine wf_cons_intro pp _ _ rfl hlen.1 (fun hn => ?_) (ih _ cs' hrest)
      by_cases hr : rest = []
      · subst hr; simp [encChunks, buildPages] at hn
      · exact hlen.2 hr
    unfold encChunks
    split
    · cases cs with
      | nil => exact key _ _ _
      | cons c cs' => exact key _ _ _
    · exact key _ _ _

end AnyDB.C03c
