import AnyDB.Model.Durable
import AnyDB.Generated.Orders

/-!
# C05 — a crash never damages untouched flushed regions or the file layout

Model: `AnyDB/Model/Durable.lean` — one file seen through a shared mapping, with the adversary of
the property made STRONGER: after a crash every page stored to since the last sync may hold ANY
content, every other page holds exactly its content as of the last sync.

* `C05_sync_exact`     — right after a sync there is exactly one crash image: the file as it is;
* `C05_untouched`      — the core of the property: take the file right after a sync; let ANY sequence of
                          later events happen (stores, hole punches, further syncs, file growth) none of
                          which stores into the pages of `[a, b)`; then in EVERY crash image the bytes of
                          `[a, b)` are exactly the synced ones — at every crash point (the statement is for
                          every prefix, since every prefix again satisfies the hypothesis);
* `C05_slot_atomic`    — a metadata slot is one page: a slot no later event stores into is byte-identical
                          in every crash image (so it decodes to the same region — C17);
* `C05_order`          — on the call orders extracted from `Database::flush`: the data file is synced before
                          the metadata file, and freed extents are promoted (made reusable / punchable) only
                          after a metadata sync — on the main path AND on the no-dirty-region path (the
                          second was missing in the pinned tree: finding F10, repaired by a `fix:` commit).

What reduces C05 to these theorems: an untouched flushed region's extent is never stored into by
later operations (C01 isolation + C02 disjointness: the allocator hands out only extents that are
free, and a freed extent becomes free only after the sync that made its release durable —
`C05_order`).  That reduction is validated, not proved: the crash engine replays the real event stream
of generated histories, builds sync-only / all-written / single-page-deviation / random-mixture crash
images at EVERY event boundary after the first flush and runs the real `Database::open` on each.
-/
namespace AnyDB.C05
open AnyDB Durable Gen

theorem getElem?_writeList (l : List UInt8) (off : Nat) (d : List UInt8) (i : Nat)
    (h : i < off ∨ off + d.length ≤ i) : (writeList l off d)[i]? = l[i]? := by
  unfold writeList
  rw [List.getElem?_mapIdx]
  have : ¬ (off ≤ i ∧ i < off + d.length) := by omega
  cases l[i]? <;> simp [this]

theorem length_writeList (l : List UInt8) (off : Nat) (d : List UInt8) : (writeList l off d).length = l.length := by
  unfold writeList; simp

theorem getElem?_resize (l : List UInt8) (n i : Nat) (hi : i < n) (hl : i < l.length) : (resize l n)[i]? = l[i]? := by
  unfold resize
  rw [List.getElem?_append_left (by simp; omega), List.getElem?_take]
  simp [hi]

theorem mem_pagesOf (off len i : Nat) (h1 : off ≤ i) (h2 : i < off + len) : i / PAGE_SIZE ∈ pagesOf off len := by
  unfold pagesOf
  have hl : len ≠ 0 := by omega
  simp only [hl, if_false, List.mem_map, List.mem_range]
  refine ⟨i / PAGE_SIZE - off / PAGE_SIZE, ?_, ?_⟩
  · have a1 : off / PAGE_SIZE ≤ i / PAGE_SIZE := Nat.div_le_div_right h1
    have a2 : i / PAGE_SIZE ≤ (off + len - 1) / PAGE_SIZE := Nat.div_le_div_right (by omega)
    omega
  · have a1 : off / PAGE_SIZE ≤ i / PAGE_SIZE := Nat.div_le_div_right h1
    omega

/-- the pages of `[a, b)` -/
theorem page_in_range (a b i : Nat) (h1 : a ≤ i) (h2 : i < b) :
    ¬ (i / PAGE_SIZE < a / PAGE_SIZE ∨ (b + PAGE_SIZE - 1) / PAGE_SIZE ≤ i / PAGE_SIZE) := by
  have hP : PAGE_SIZE = 4096 := rfl
  have a1 : a / PAGE_SIZE ≤ i / PAGE_SIZE := Nat.div_le_div_right h1
  have a2 : i / PAGE_SIZE < (b + PAGE_SIZE - 1) / PAGE_SIZE := by
    rw [hP]; omega
  omega

/-- the invariant carried through the events: the range keeps its synced bytes in both views and none
    of its pages is dirty -/
structure Keeps (base : List UInt8) (a b : Nat) (f : FileD) : Prop where
  dur : ∀ i, a ≤ i → i < b → f.durable[i]? = base[i]?
  vol : ∀ i, a ≤ i → i < b → f.volatile[i]? = base[i]?
  clean : ∀ i, a ≤ i → i < b → i / PAGE_SIZE ∉ f.dirty
  lenD : b ≤ f.durable.length
  lenV : b ≤ f.volatile.length

theorem keeps_apply (base : List UInt8) (a b : Nat) (f : FileD) (e : Ev) (k : Keeps base a b f) (h : e.avoids a b) :
    Keeps base a b (f.apply e) := by
  cases e with
  | write off d =>
    simp only [Ev.avoids] at h
    have hout : ∀ i, a ≤ i → i < b → (i < off ∨ off + d.length ≤ i) := by
      intro i h1 h2
      by_cases hc : off ≤ i ∧ i < off + d.length
      · exact absurd (h _ (mem_pagesOf off d.length i hc.1 hc.2)) (page_in_range a b i h1 h2)
      · omega
    refine ⟨k.dur, ?_, ?_, k.lenD, ?_⟩
    · intro i h1 h2
      show (writeList f.volatile off d)[i]? = _
      rw [getElem?_writeList _ _ _ _ (hout i h1 h2)]; exact k.vol i h1 h2
    · intro i h1 h2 hm
      simp only [FileD.apply, List.mem_append] at hm
      rcases hm with hm | hm
      · exact k.clean i h1 h2 hm
      · exact page_in_range a b i h1 h2 (h _ hm)
    · show b ≤ (writeList f.volatile off d).length
      rw [length_writeList]; exact k.lenV
  | punch off len =>
    simp only [Ev.avoids] at h
    have hout : ∀ i, a ≤ i → i < b → (i < off ∨ off + (List.replicate len (0 : UInt8)).length ≤ i) := by
      intro i h1 h2
      simp only [List.length_replicate]
      by_cases hc : off ≤ i ∧ i < off + len
      · exact absurd (h _ (mem_pagesOf off len i hc.1 hc.2)) (page_in_range a b i h1 h2)
      · omega
    refine ⟨k.dur, ?_, ?_, k.lenD, ?_⟩
    · intro i h1 h2
      show (writeList f.volatile off (List.replicate len 0))[i]? = _
      rw [getElem?_writeList _ _ _ _ (hout i h1 h2)]; exact k.vol i h1 h2
    · intro i h1 h2 hm
      simp only [FileD.apply, List.mem_append] at hm
      rcases hm with hm | hm
      · exact k.clean i h1 h2 hm
      · exact page_in_range a b i h1 h2 (h _ hm)
    · show b ≤ (writeList f.volatile off (List.replicate len 0)).length
      rw [length_writeList]; exact k.lenV
  | setLen n =>
    simp only [Ev.avoids] at h
    refine ⟨?_, ?_, k.clean, ?_, ?_⟩
    · intro i h1 h2
      show (resize f.durable n)[i]? = _
      rw [getElem?_resize _ _ _ (by omega) (by have := k.lenD; omega)]; exact k.dur i h1 h2
    · intro i h1 h2
      show (resize f.volatile n)[i]? = _
      rw [getElem?_resize _ _ _ (by omega) (by have := k.lenV; omega)]; exact k.vol i h1 h2
    · show b ≤ (resize f.durable n).length
      unfold resize; simp; have := k.lenD; omega
    · show b ≤ (resize f.volatile n).length
      unfold resize; simp; have := k.lenV; omega
  | sync =>
    exact ⟨k.vol, k.vol, fun _ _ _ hm => by simp [FileD.apply] at hm, k.lenV, k.lenV⟩
  | flushAsync => exact k

theorem keeps_run (base : List UInt8) (a b : Nat) (f : FileD) (evs : List Ev) (k : Keeps base a b f)
    (h : ∀ e ∈ evs, e.avoids a b) : Keeps base a b (f.run evs) := by
  induction evs generalizing f with
  | nil => exact k
  | cons e t ih =>
    simp only [FileD.run, List.foldl_cons]
    exact ih (f.apply e) (keeps_apply base a b f e k (h e (by simp))) (fun e' he' => h e' (by simp [he']))

/-- right after a sync the only crash image is the file itself -/
theorem C05_sync_exact (f : FileD) (img : List UInt8) (h : CrashImage (f.apply .sync) img) : img = f.volatile := by
  obtain ⟨hl, hb⟩ := h
  apply List.ext_getElem?
  intro i
  exact hb i (by simp [FileD.apply])

/-- THE theorem: bytes of a range nobody stores into survive every crash, at every later point -/
theorem C05_untouched (f : FileD) (evs : List Ev) (a b : Nat) (img : List UInt8)
    (hb : b ≤ f.volatile.length)
    (hav : ∀ e ∈ evs, e.avoids a b)
    (hc : CrashImage ((f.apply .sync).run evs) img) :
    ∀ i, a ≤ i → i < b → img[i]? = f.volatile[i]? := by
  have k0 : Keeps f.volatile a b (f.apply .sync) :=
    ⟨fun _ _ _ => rfl, fun _ _ _ => rfl, fun _ _ _ hm => by simp [FileD.apply] at hm, hb, hb⟩
  have k := keeps_run f.volatile a b (f.apply .sync) evs k0 hav
  intro i h1 h2
  rw [hc.2 i (k.clean i h1 h2)]
  exact k.dur i h1 h2

/-- a metadata slot is exactly one page -/
theorem C05_slot_atomic (f : FileD) (evs : List Ev) (slot : Nat) (img : List UInt8)
    (hb : (slot + 1) * SIZE_OF_REGION_METADATA ≤ f.volatile.length)
    (hav : ∀ e ∈ evs, e.avoids (slot * SIZE_OF_REGION_METADATA) ((slot + 1) * SIZE_OF_REGION_METADATA))
    (hc : CrashImage ((f.apply .sync).run evs) img) :
    ∀ i, slot * SIZE_OF_REGION_METADATA ≤ i → i < (slot + 1) * SIZE_OF_REGION_METADATA → img[i]? = f.volatile[i]? :=
  C05_untouched f evs _ _ img hb hav hc

/-- index of the first occurrence -/
def pos (l : List String) (x : String) : Nat := (l.findIdx? (· == x)).getD l.length

/-- the extracted call orders of `Database::flush` -/
theorem C05_order :
    pos flushOrder "dataSync" < pos flushOrder "regionsSync" ∧
    pos flushOrder "regionsSync" < pos flushOrder "promote" ∧
    pos flushOrder "regionsSync" < pos flushOrder "markClean" ∧
    pos flushEarlyOrder "regionsSync" < pos flushEarlyOrder "promote" ∧
    flushOrder.count "promote" = 1 ∧ flushEarlyOrder.count "promote" = 1 ∧
    SIZE_OF_REGION_METADATA = PAGE_SIZE := by
  decide

/-- non-vacuity: a store into page 1 leaves page 0 of every crash image alone -/
example : (Ev.write 4096 [1, 2, 3]).avoids 0 4096 := by
  simp only [Ev.avoids, pagesOf]
  decide

end AnyDB.C05
