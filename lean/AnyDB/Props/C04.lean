import AnyDB.Model.Vec

/-!
# C04 — rollback restores exactly the previously committed state, repeatedly

Model: `commit` (= `stamped_write_with_changes`), `rollback`, `undo`
(= `deserialize_then_undo_changes`), `applyRollback`, `rollbackBefore`, `saveRollbackState` of
`AnyDB/Model/Vec.lean`.

History.  The pinned tree violated this property in three ways, each confirmed on the real code by
the harness and repaired by a `fix:` commit (see known_findings.json): the previous stored length
was not re-based by a bare `rollback()` (F19), the compressed undo assumed the disk still agreed
with the rolled-back state (F4), and the raw `write()` after a rolled-back truncation wrote beyond
the region (F5).  The model mirrors the repaired code.

Proved here (all states, all records):

* `C04_baseline`        — after any undo the restored state is the baseline of the next change record:
                           `prevStoredLen = storedLen`, `prevPushed = pushed`, stamp = recorded stamp
                           (this is what makes "as if Sk-1 had just been committed" true for the next commit);
* `C04_comp_undo_logical` — compressed formats: whatever mixture of disk and buffer currently holds the
                           logical contents `L`, undoing a record (truncation point `ts`, truncated values
                           `tv`, previous buffer `pp`) yields exactly `L.take ts ++ tv ++ pp` — in
                           particular a second, third, … consecutive undo composes correctly;
* `C04_comp_undo_stored_ok` — and never leaves the logical stored length above what is on disk
                           (so the next write cannot fail with CorruptedRegion);
* `C04_rollback_uses_current_stamp` — `rollback` reads the record filed under the CURRENT stamp only.

The byte-level round trip `parseChange (serializeChanges s) = fields of s` is C17's; the
end-to-end statement over whole commit histories is validated by the correspondence against the
stack-of-committed-states oracle (all 14 format×type combinations, retention 1,2,3,10).
-/
namespace AnyDB.C04
open AnyDB VecM VecM.V

theorem C04_baseline (s : V) (stamp sl : Nat) (p : List Nat) :
    (s.applyRollback stamp sl p).prevStoredLen = (s.applyRollback stamp sl p).storedLen ∧
    (s.applyRollback stamp sl p).prevPushed = (s.applyRollback stamp sl p).pushed ∧
    (s.applyRollback stamp sl p).stamp = stamp ∧
    (s.applyRollback stamp sl p).storedLen = sl ∧ (s.applyRollback stamp sl p).pushed = p := by
  unfold V.applyRollback V.updateStamp
  split
  · rename_i h; exact ⟨rfl, rfl, h, rfl, rfl⟩
  · exact ⟨rfl, rfl, rfl, rfl, rfl⟩

/-- logical contents of a compressed vector -/
def logical (s : V) : List Nat := (pagesValues s.pages).take s.storedLen ++ s.pushed

theorem take_append_take (a b : List Nat) (n k : Nat) (hn : n ≤ a.length) (hk : k ≤ n + b.length) :
    a.take (min (min k n) a.length) ++ b.take (min (k - min (min k n) a.length) b.length) = (a.take n ++ b).take k := by
  by_cases h : k ≤ n
  · have e1 : min (min k n) a.length = k := by omega
    rw [e1, Nat.sub_self]
    simp only [Nat.zero_min, List.take_zero, List.append_nil]
    rw [List.take_append_of_le_length (by simp; omega)]
    rw [List.take_take]
    congr 1; omega
  · have e1 : min (min k n) a.length = n := by omega
    rw [e1]
    have e2 : min (k - n) b.length = k - n := by omega
    rw [e2]
    rw [List.take_append]
    simp only [List.length_take]
    have e3 : min n a.length = n := by omega
    rw [e3, List.take_take]
    have e4 : min k n = n := by omega
    rw [e4]

/-- the compressed undo on the logical contents -/
theorem C04_comp_undo_logical (s : V) (bytes : List UInt8) (ch : Change)
    (hk : s.kind = .comp) (hp : parseChange s.kind s.sz bytes = .ok ch)
    (hreal : s.storedLen ≤ (pagesValues s.pages).length)
    (hreal2 : s.realStoredLen = (pagesValues s.pages).length)
    (hts : ch.truncatedStart ≤ s.storedLen + s.pushed.length) :
    (s.undo bytes).2 = .ok ∧
    logical (s.undo bytes).1 = (logical s).take ch.truncatedStart ++ ch.truncatedValues ++ ch.prevPushed ∧
    (s.undo bytes).1.stamp = ch.prevStamp := by
  unfold V.undo
  rw [hp]
  simp only [hk]
  have hb := C04_baseline s ch.prevStamp (min (min ch.truncatedStart s.storedLen) s.realStoredLen)
    (s.pushed.take (min (ch.truncatedStart - min (min ch.truncatedStart s.storedLen) s.realStoredLen) s.pushed.length)
      ++ ch.truncatedValues ++ ch.prevPushed)
  obtain ⟨_, _, hst, hsl, hpu⟩ := hb
  refine ⟨trivial, ?_, hst⟩
  unfold logical
  rw [hsl, hpu]
  have hpages : (s.applyRollback ch.prevStamp (min (min ch.truncatedStart s.storedLen) s.realStoredLen)
      (s.pushed.take (min (ch.truncatedStart - min (min ch.truncatedStart s.storedLen) s.realStoredLen) s.pushed.length)
        ++ ch.truncatedValues ++ ch.prevPushed)).pages = s.pages := by
    unfold V.applyRollback V.updateStamp; split <;> rfl
  rw [hpages, hreal2]
  have key := take_append_take (pagesValues s.pages) s.pushed s.storedLen ch.truncatedStart hreal hts
  rw [← List.append_assoc, ← List.append_assoc, key]

/-- the undo never leaves the logical stored length above the real one -/
theorem C04_comp_undo_stored_ok (s : V) (bytes : List UInt8) (ch : Change)
    (hk : s.kind = .comp) (hp : parseChange s.kind s.sz bytes = .ok ch) :
    (s.undo bytes).1.storedLen ≤ s.realStoredLen ∧ (s.undo bytes).1.storedLen ≤ s.storedLen := by
  unfold V.undo
  rw [hp]
  simp only [hk]
  have hb := C04_baseline s ch.prevStamp (min (min ch.truncatedStart s.storedLen) s.realStoredLen)
    (s.pushed.take (min (ch.truncatedStart - min (min ch.truncatedStart s.storedLen) s.realStoredLen) s.pushed.length)
      ++ ch.truncatedValues ++ ch.prevPushed)
  rw [hb.2.2.2.1]
  omega

theorem C04_rollback_uses_current_stamp (s : V) (st : Nat) (bytes : List UInt8)
    (h : s.changes.find? (·.1 == s.stamp) = some (st, bytes)) : s.rollback = s.undo bytes ∧ st = s.stamp := by
  unfold V.rollback
  rw [h]
  refine ⟨rfl, ?_⟩
  have := List.find?_some h
  simpa using this

/-- non-vacuity: two consecutive undos across a truncating commit (the F4 history) on the model -/
def exA : V :=
  { V.init .comp 8 3 with
    stamp := 3, storedLen := 2, prevStoredLen := 2,
    pages := [{ start := 32, bytes := 16, values := 2, raw := true, content := [0, 200] }] }
/-- record of commit 3 (truncate 1, push 200 from [0,1,2,3,4,100]) and of commit 2 (truncate 5, push 100 from [0..6)) -/
def rec3 : List UInt8 := u64b 2 ++ u64b 6 ++ u64b 1 ++ u64b 5 ++ encVals 8 [1, 2, 3, 4, 100] ++ u64b 0 ++ u64b 1 ++ encVals 8 [200]
def rec2 : List UInt8 := u64b 1 ++ u64b 6 ++ u64b 5 ++ u64b 1 ++ encVals 8 [5] ++ u64b 0 ++ u64b 1 ++ encVals 8 [100]
example : logical ((exA.undo rec3).1.undo rec2).1 = [0, 1, 2, 3, 4, 5] := by decide

end AnyDB.C04
