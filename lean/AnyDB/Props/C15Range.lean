import AnyDB.Props.C15
/-!
# C15 — range reads of the windowed delta operators equal the formula, for every range

`C15_chg_range` (`DeltaChange`: value − value at the window start) and `C15_delta_range` (`DeltaSub`: value − value before the
window start): `bulk_try_fold` — one `collect_range` of the source from the earliest lookback of the range, then slot arithmetic
`source_data[i - read_from]`, `source_data[ago - read_from]` — returns exactly the defining formula at every index of
`[from, min(to, len, |starts|))`, for every source, every range and every window-start mapping in which each window starts at or
before its index and no lookback lies before the first one of the range (which monotone window starts guarantee).
-/
namespace AnyDB.C15
open AnyDB Lazy

/-! ## range reads of the windowed delta operators -/

/-- a fold over `List.range n` whose every step succeeds and appends `g k` -/
theorem fold_ok_map (n : Nat) (step : R (List Nat) → Nat → R (List Nat)) (g : Nat → Nat)
    (h : ∀ k l, k < n → step (.ok l) k = .ok (l ++ [g k])) (acc : List Nat) :
    (List.range n).foldl step (.ok acc) = .ok (acc ++ (List.range n).map g) := by
  induction n generalizing acc with
  | zero => simp
  | succ m ih =>
    rw [List.range_succ, List.foldl_append, ih (fun k l hk => h k l (by omega))]
    simp only [List.foldl_cons, List.foldl_nil, List.map_append, List.map_cons, List.map_nil]
    rw [h m _ (by omega), List.append_assoc]

theorem collectRange_get (s : List Nat) (a b j : Nat) (h1 : a ≤ j) (h2 : j < b) (h3 : b ≤ s.length) :
    (collectRange s a b)[j - a]? = some (s.getD j 0) := by
  unfold collectRange
  have hb : min b s.length = b := by omega
  rw [hb, List.getElem?_take, if_pos (by omega), List.getElem?_drop]
  have : a + (j - a) = j := by omega
  rw [this, List.getD_eq_getElem?_getD, List.getElem?_eq_getElem (by omega)]; rfl

/-- change vector (`DeltaChange`), range read: exactly the formula at every index of `[from, min(to, len))`, whenever every
window of the range starts at or before its index and not before the first window of the range (monotone starts) -/
theorem C15_chg_range (s starts : List Nat) (from_ to : Nat)
    (hw : ∀ i, from_ ≤ i → i < min (min to s.length) starts.length →
      min (starts.getD from_ 0) from_ ≤ starts.getD i 0 ∧ starts.getD i 0 ≤ i) :
    chgRange s starts from_ to =
      .ok ((List.range (min (min to s.length) starts.length - from_)).map (fun k => s.getD (from_ + k) 0 - s.getD (starts.getD (from_ + k) 0) 0)) := by
  unfold chgRange
  simp only []
  generalize hto : min (min to s.length) starts.length = t at hw
  by_cases hge : from_ ≥ t
  · simp only [hge, if_true]
    have : t - from_ = 0 := by omega
    simp [this]
  · simp only [hge, if_false]
    have := fold_ok_map (t - from_) (fun (acc : R (List Nat)) k =>
        match acc with
        | .panic => .panic
        | .ok l =>
          match (collectRange s (min (starts.getD from_ 0) from_) t)[from_ + k - min (starts.getD from_ 0) from_]? with
          | none => .panic
          | some cur =>
            match (if starts.getD (from_ + k) 0 < min (starts.getD from_ 0) from_ then none
                   else (collectRange s (min (starts.getD from_ 0) from_) t)[starts.getD (from_ + k) 0 - min (starts.getD from_ 0) from_]?) with
            | none => .panic
            | some a => if starts.getD (from_ + k) 0 > from_ + k then .panic else .ok (l ++ [cur - a]))
      (fun k => s.getD (from_ + k) 0 - s.getD (starts.getD (from_ + k) 0) 0)
      (by
        intro k l hk
        obtain ⟨w1, w2⟩ := hw (from_ + k) (by omega) (by omega)
        have ht : t ≤ s.length := by omega
        simp only
        rw [collectRange_get s _ t (from_ + k) (by omega) (by omega) ht]
        simp only
        rw [if_neg (by omega), collectRange_get s _ t (starts.getD (from_ + k) 0) w1 (by omega) ht]
        simp only
        rw [if_neg (by omega)]) []
    rw [List.nil_append] at this
    exact this


/-- sum-over-window vector (`DeltaSub`), range read: exactly the formula at every index of `[from, min(to, len))`, whenever every
window of the range starts at or before its index and its lookback does not lie before the first one of the range -/
theorem C15_delta_range (s starts : List Nat) (from_ to : Nat)
    (hw : ∀ i, from_ ≤ i → i < min (min to s.length) starts.length →
      starts.getD i 0 ≤ i ∧ (starts.getD i 0 ≠ 0 →
        min (if starts.getD from_ 0 = 0 then 0 else starts.getD from_ 0 - 1) from_ ≤ starts.getD i 0 - 1)) :
    deltaRange s starts from_ to =
      .ok ((List.range (min (min to s.length) starts.length - from_)).map (fun k =>
        s.getD (from_ + k) 0 - (if starts.getD (from_ + k) 0 = 0 then 0 else s.getD (starts.getD (from_ + k) 0 - 1) 0))) := by
  unfold deltaRange
  simp only []
  generalize hto : min (min to s.length) starts.length = t at hw
  generalize hrf : min (if starts.getD from_ 0 = 0 then 0 else starts.getD from_ 0 - 1) from_ = rf at hw
  by_cases hge : from_ ≥ t
  · simp only [hge, if_true]
    have : t - from_ = 0 := by omega
    simp [this]
  · simp only [hge, if_false]
    have hrfle : rf ≤ from_ := by rw [← hrf]; omega
    have := fold_ok_map (t - from_) (fun (acc : R (List Nat)) k =>
        match acc with
        | .panic => .panic
        | .ok l =>
          match (collectRange s rf t)[from_ + k - rf]? with
          | none => .panic
          | some cur =>
            match (if starts.getD (from_ + k) 0 = 0 then some 0 else
                   if starts.getD (from_ + k) 0 - 1 < rf then none else (collectRange s rf t)[starts.getD (from_ + k) 0 - 1 - rf]?) with
            | none => .panic
            | some a => if starts.getD (from_ + k) 0 > from_ + k then .panic else .ok (l ++ [cur - a]))
      (fun k => s.getD (from_ + k) 0 - (if starts.getD (from_ + k) 0 = 0 then 0 else s.getD (starts.getD (from_ + k) 0 - 1) 0))
      (by
        intro k l hk
        obtain ⟨w1, w2⟩ := hw (from_ + k) (by omega) (by omega)
        have ht : t ≤ s.length := by omega
        simp only
        rw [collectRange_get s rf t (from_ + k) (by omega) (by omega) ht]
        simp only
        by_cases h0 : starts.getD (from_ + k) 0 = 0
        · simp only [h0, if_true]
          rw [if_neg (by omega)]
        · have w2' := w2 h0
          simp only [h0, if_false]
          rw [if_neg (by omega), collectRange_get s rf t (starts.getD (from_ + k) 0 - 1) w2' (by omega) ht]
          simp only
          rw [if_neg (by omega)]) []
    rw [List.nil_append] at this
    exact this


end AnyDB.C15
