import AnyDB.Props.C03CompTotal
/-!
# C03 / C07 as a refinement — compressed formats, every plain history

`C03_refinement_comp`: for EVERY sequence of pushes, truncations and `write()`s — with ANY answers of the
compressor about the size of each full page — applied by the model's own functions to an empty compressed
vector, what the vector shows (`shown`: the first `stored_len` decoded values, then the pushed ones; it is
what `items` returns, `items_eq_shown`) equals the same sequence folded over a plain list: the reference vector
of the property.  `write()` is lossless in every state of the invariant (`write_refines`: the fast raw append,
the re-encoding of a partial page and the fresh-pages path all decode to the old stored values followed by the
pushed ones, and leave every page but the last full), and it cannot fail (`writeComp_total_norm`,
`C03_comp_never_fails`): the page run stays gap-free from the header and inside the data region, and the
index region stays in line with the in-memory index, so neither `CorruptedRegion` nor `WriteOutOfBounds`
can be answered.  No hypothesis on the history remains; the only assumption is the compressor's own round
trip (a page's `content` is what decoding its bytes returns), which the correspondence samples.

Not covered here: stamped writes / rollback on compressed vectors (C04's re-basing lemmas + correspondence),
reset and re-import.
-/
namespace AnyDB.C03c
open AnyDB VecM VecM.V C07

theorem shown_length (s : V) (h : CInv s) : (shown s).length = s.len := by
  unfold shown V.len
  rw [List.length_append, List.length_take, Nat.min_eq_left h.stored]

/-- `shown` is what the model's `items` (the harness's `collect`) returns, and no read leaves the pages -/
theorem items_eq_shown (s : V) (h : CInv s) : s.items = ((shown s).map some, false) := by
  unfold items shown
  rw [h.kind]
  simp only []
  have hl : ((pagesValues s.pages).take s.storedLen).length = s.storedLen := by
    rw [List.length_take, Nat.min_eq_left h.stored]
  rw [hl, Nat.sub_self]
  simp

/-! ## push, truncate -/

theorem push_refines (s : V) (v : Nat) (h : CInv s) (hs : CSync s) :
    shown (s.push v) = shown s ++ [v] ∧ CInv (s.push v) ∧ CSync (s.push v) := by
  refine ⟨?_, ⟨h.kind, h.pp, h.wf, h.stored⟩, ⟨hs.chain, hs.data, hs.noChange, hs.index⟩⟩
  unfold shown V.push; simp

theorem truncate_refines (s : V) (n : Nat) (h : CInv s) (hs : CSync s) :
    shown (s.truncate n) = (shown s).take n ∧ CInv (s.truncate n) ∧ CSync (s.truncate n) := by
  have hlen := shown_length s h
  have hl : ((pagesValues s.pages).take s.storedLen).length = s.storedLen := by
    rw [List.length_take, Nat.min_eq_left h.stored]
  unfold V.truncate
  rw [h.kind]
  simp only []
  unfold truncatePushed
  by_cases h1 : n ≥ s.len
  · rw [if_pos h1]
    exact ⟨by rw [List.take_of_length_le (by omega)], h, hs⟩
  · rw [if_neg h1]
    simp only []
    unfold V.len at h1
    by_cases h2 : n ≤ s.storedLen
    · rw [if_pos h2]
      by_cases h3 : n < s.storedLen
      · rw [if_pos h3]
        refine ⟨?_, ⟨h.kind, h.pp, h.wf, by have := h.stored; show n ≤ (pagesValues s.pages).length; omega⟩, ⟨hs.chain, hs.data, hs.noChange, hs.index⟩⟩
        unfold shown
        simp only [List.append_nil]
        rw [List.take_append_of_le_length (by omega), List.take_take, Nat.min_eq_left (by omega)]
      · rw [if_neg h3]
        refine ⟨?_, ⟨h.kind, h.pp, h.wf, h.stored⟩, ⟨hs.chain, hs.data, hs.noChange, hs.index⟩⟩
        unfold shown
        simp only [List.append_nil]
        have : n = s.storedLen := by omega
        rw [this, List.take_append_of_le_length (by omega), List.take_take, Nat.min_self]
    · rw [if_neg h2, if_neg (by omega)]
      refine ⟨?_, ⟨h.kind, h.pp, h.wf, h.stored⟩, ⟨hs.chain, hs.data, hs.noChange, hs.index⟩⟩
      unfold shown
      simp only []
      have : n = ((pagesValues s.pages).take s.storedLen).length + (n - s.storedLen) := by omega
      conv => rhs; rw [this, List.take_length_add_append]

/-! ## write -/

theorem hdr_sync (s : V) (hs : CSync s) : CSync s.writeHeaderIfNeeded := by
  unfold writeHeaderIfNeeded; split
  · exact ⟨hs.chain, hs.data, hs.noChange, hs.index⟩
  · exact hs

/-- **a compressed `write()` never fails, loses nothing, and keeps the invariants** — for any compressor answers -/
theorem write_total (s : V) (cs : List Nat) (h : CInv s) (hs : CSync s) :
    (∃ b, (s.writeComp cs).2 = .okB b) ∧ shown (s.writeComp cs).1 = shown s ∧ CInv (s.writeComp cs).1 ∧ CSync (s.writeComp cs).1 := by
  obtain ⟨a1, a2, a3, a4, a5⟩ := hdr_fields s
  have hpp := perPage_congr _ _ a2
  have h0 : CInv s.writeHeaderIfNeeded := ⟨by rw [a1]; exact h.kind, by rw [hpp]; exact h.pp, by rw [hpp, a3]; exact h.wf, by rw [a3, a5]; exact h.stored⟩
  obtain ⟨⟨b, hb⟩, hsync⟩ := writeComp_total_norm s.writeHeaderIfNeeded cs (hdr_idem s) h0 (hdr_sync s hs)
  rw [← writeComp_norm] at hb hsync
  obtain ⟨r1, r2⟩ := write_refines s cs b h hb
  exact ⟨⟨b, hb⟩, r1, r2, hsync⟩

/-! ## histories -/

inductive CEdit
  | push (v : Nat) | truncate (n : Nat) | write (cs : List Nat)
deriving Repr

/-- the edits on the vector: the model's own request handler -/
def applyC (s : V) (e : CEdit) : V × Out :=
  match e with
  | .push v => step s (.push v)
  | .truncate n => step s (.truncate n)
  | .write cs => step s (.write cs)

/-- the same edits on a plain list: the reference vector -/
def refC (l : List Nat) : CEdit → List Nat
  | .push v => l ++ [v]
  | .truncate n => l.take n
  | .write _ => l

/-- an answer that is not an error -/
def Accepted : Out → Prop
  | .ok => True
  | .okB _ => True
  | _ => False

theorem edit_refines (s : V) (e : CEdit) (h : CInv s) (hs : CSync s) :
    Accepted (applyC s e).2 ∧ shown (applyC s e).1 = refC (shown s) e ∧ CInv (applyC s e).1 ∧ CSync (applyC s e).1 := by
  cases e with
  | push v => exact ⟨trivial, push_refines s v h hs⟩
  | truncate n => exact ⟨trivial, truncate_refines s n h hs⟩
  | write cs =>
    obtain ⟨⟨b, hb⟩, r⟩ := write_total s cs h hs
    have e1 : applyC s (.write cs) = s.writeComp cs := by
      simp only [applyC, step, V.write, h.kind]
    rw [e1]
    exact ⟨by rw [hb]; trivial, r⟩

theorem cinv_init (sz keep : Nat) (h1 : 0 < sz) (h2 : sz ≤ MAX_PAGE) : CInv (V.init .comp sz keep) ∧ CSync (V.init .comp sz keep) := by
  refine ⟨⟨rfl, ?_, trivial, Nat.zero_le _⟩, ⟨trivial, Nat.le_refl _, rfl, rfl⟩⟩
  unfold perPage
  exact Nat.div_pos h2 h1

/-- the state and the answers of a whole history -/
def runC (s : V) : List CEdit → V × List Out
  | [] => (s, [])
  | e :: t => let r := applyC s e; let q := runC r.1 t; (q.1, r.2 :: q.2)

theorem run_refines (s : V) (es : List CEdit) (h : CInv s) (hs : CSync s) :
    shown (runC s es).1 = es.foldl refC (shown s) ∧ (∀ o ∈ (runC s es).2, Accepted o) ∧ CInv (runC s es).1 ∧ CSync (runC s es).1 := by
  induction es generalizing s with
  | nil => exact ⟨rfl, fun o ho => by simp [runC] at ho, h, hs⟩
  | cons e t ih =>
    obtain ⟨a, r1, r2, r3⟩ := edit_refines s e h hs
    obtain ⟨i1, i2, i3, i4⟩ := ih _ r2 r3
    simp only [runC, List.foldl_cons]
    refine ⟨by rw [i1, r1], ?_, i3, i4⟩
    intro o ho
    simp only [List.mem_cons] at ho
    rcases ho with rfl | ho
    · exact a
    · exact i2 o ho

/-- **C03 (and C07's losslessness) for the compressed formats, every plain history**: after EVERY sequence of pushes,
truncations and writes from the empty vector — whatever sizes the compressor reports — the vector shows exactly the
reference list, `items` returns it with no read outside the pages, and no request was answered with an error -/
theorem C03_refinement_comp (es : List CEdit) (sz keep : Nat) (h1 : 0 < sz) (h2 : sz ≤ MAX_PAGE) :
    (runC (V.init .comp sz keep) es).1.items = ((es.foldl refC []).map some, false) ∧
    (∀ o ∈ (runC (V.init .comp sz keep) es).2, Accepted o) := by
  obtain ⟨hi, hs⟩ := cinv_init sz keep h1 h2
  obtain ⟨r1, r2, r3, _⟩ := run_refines _ es hi hs
  refine ⟨?_, r2⟩
  rw [items_eq_shown _ r3, r1]
  rfl

/-- C07: the page index after every such history — every page decodes to as many values as its entry says, every
page but the last is full, the run is gap-free from the header and inside the data region, the index region mirrors it -/
theorem C07_history_index (es : List CEdit) (sz keep : Nat) (h1 : 0 < sz) (h2 : sz ≤ MAX_PAGE) :
    CInv (runC (V.init .comp sz keep) es).1 ∧ CSync (runC (V.init .comp sz keep) es).1 := by
  obtain ⟨hi, hs⟩ := cinv_init sz keep h1 h2
  obtain ⟨_, _, r3, r4⟩ := run_refines _ es hi hs
  exact ⟨r3, r4⟩

/-- non-vacuity: page capacity 4 (sz = 4096): three writes across the three paths -/
example : ((runC (V.init .comp 4096 0) [.push 1, .push 2, .write [], .push 3, .write [], .push 4, .push 5, .write [9], .truncate 3, .push 7, .write []]).1.items).1
    = [some 1, some 2, some 3, some 7] := by decide

end AnyDB.C03c
