import AnyDB.Props.C04Record
import AnyDB.Props.C04
import AnyDB.Props.C03CompFrame
namespace AnyDB.C04c
open AnyDB VecM VecM.V C04 C04b C03c C07

/-! # C04 on compressed vectors: the record through its bytes, commit then rollback -/

def recTvC (s : V) : List Nat := if recTrunc s > 0 then s.collectStoredComp s.storedLen s.prevStoredLen else []

theorem serialize_shape_comp (s : V) (hk : s.kind = .comp) :
    s.serializeChanges.1 =
      u64b s.stamp ++ (u64b s.prevStoredLen ++ (u64b s.storedLen ++ (u64b (recTrunc s) ++ (encVals s.sz (recTvC s) ++
      (u64b s.prevPushed.length ++ (encVals s.sz s.prevPushed ++ (u64b s.pushed.length ++ (encVals s.sz s.pushed ++ [])))))))) := by
  unfold serializeChanges recTvC recTrunc
  simp only [hk, List.append_assoc, List.append_nil]
  by_cases h : s.prevStoredLen - s.storedLen > 0
  · simp only [h, if_true]
  · simp only [h, if_false]

structure RecBoundsC (s : V) : Prop where
  stamp : s.stamp < 2 ^ 64
  psl : s.prevStoredLen < 2 ^ 64
  sl : s.storedLen < 2 ^ 64
  tvv : ∀ v ∈ recTvC s, v < 256 ^ s.sz
  ppv : ∀ v ∈ s.prevPushed, v < 256 ^ s.sz
  ppl : s.prevPushed.length < 2 ^ 64
  pl : s.pushed.length < 2 ^ 64
  total : s.serializeChanges.1.length < U64

/-- the record `serializeChanges` writes for a compressed vector, as `parseChange` reads it back -/
def recordOfC (s : V) : Change :=
  { prevStamp := s.stamp, prevStoredLen := s.prevStoredLen, truncatedStart := s.prevStoredLen - recTrunc s,
    truncatedValues := recTvC s, prevPushed := s.prevPushed, mods := [], prevHoles := [] }

/-- the change record of a compressed vector round-trips through its bytes -/
theorem C04_record_roundtrip_comp (s : V) (hk : s.kind = .comp) (hb : RecBoundsC s) (tl : (recTvC s).length = recTrunc s) :
    parseChange .comp s.sz s.serializeChanges.1 = .ok (recordOfC s) := by
  have shape := serialize_shape_comp s hk
  have tot := hb.total
  generalize hbytes : s.serializeChanges.1 = bytes at shape tot
  have htr : recTrunc s < 2 ^ 64 := by unfold recTrunc; have := hb.psl; omega
  obtain ⟨r1, v1⟩ := readU64_view bytes 0 s.stamp _ (by rw [List.drop_zero]; exact shape) hb.stamp tot
  obtain ⟨r2, v2⟩ := readU64_view bytes (0 + 8) s.prevStoredLen _ v1 hb.psl tot
  obtain ⟨r3, v3⟩ := readU64_view bytes (0 + 8 + 8) s.storedLen _ v2 hb.sl tot
  obtain ⟨r4, v4⟩ := readU64_view bytes (0 + 8 + 8 + 8) (recTrunc s) _ v3 htr tot
  have pos_le : ∀ p rest, bytes.drop p = rest → rest ≠ [] → p ≤ bytes.length := by
    intro p rest h hne
    by_cases hp : p ≤ bytes.length
    · exact hp
    · rw [List.drop_of_length_le (by omega)] at h; exact absurd h.symm hne
  have ne_u64 : ∀ (n : Nat) (r : List UInt8), u64b n ++ r ≠ [] := by
    intro n r h; have := congrArg List.length h; simp [u64b_length] at this
  have p4 : 0 + 8 + 8 + 8 + 8 ≤ bytes.length :=
    pos_le _ _ v4 (by intro h; have := congrArg List.length h; simp [u64b_length] at this)
  obtain ⟨r5, v5⟩ := readValues_view bytes (0 + 8 + 8 + 8 + 8) s.sz (recTvC s) _ v4 tot p4 hb.tvv
  obtain ⟨r6, v6⟩ := readU64_view bytes _ s.prevPushed.length _ v5 hb.ppl tot
  have p6 : 0 + 8 + 8 + 8 + 8 + s.sz * (recTvC s).length + 8 ≤ bytes.length := by
    have := congrArg List.length v5
    simp only [List.length_drop, List.length_append, u64b_length] at this
    omega
  obtain ⟨r7, v7⟩ := readValues_view bytes _ s.sz s.prevPushed _ v6 tot p6 hb.ppv
  obtain ⟨r8, v8⟩ := readU64_view bytes _ s.pushed.length _ v7 hb.pl tot
  have p8 : 0 + 8 + 8 + 8 + 8 + s.sz * (recTvC s).length + 8 + s.sz * s.prevPushed.length + 8 ≤ bytes.length := by
    have := congrArg List.length v7
    simp only [List.length_drop, List.length_append, u64b_length] at this
    omega
  obtain ⟨r9, _⟩ := skip_view bytes _ (s.sz * s.pushed.length) (encVals s.sz s.pushed) _ v8 (encVals_length _ _) tot p8
  unfold parseChange
  simp only [r1, r2, r3, r4]
  have g1 : ¬(recTrunc s ≠ s.prevStoredLen - s.storedLen) := by unfold recTrunc; simp
  have g2 : ¬(recTrunc s > s.prevStoredLen) := by unfold recTrunc; omega
  simp only [g1, g2, if_false]
  rw [← tl]
  simp only [r5, r6, r7, r8]
  have g3 : ¬(s.sz * s.pushed.length ≥ U64) := by
    have := congrArg List.length v8
    simp only [List.length_drop, List.length_append, encVals_length] at this
    omega
  simp only [g3, if_false, r9]
  unfold recordOfC
  rw [← tl]


/-- `s` was reached from the baseline `p` (the state right after a commit or a rollback) by pushes and truncations -/
structure SinceC (p s : V) : Prop where
  kind : s.kind = .comp
  sz : s.sz = p.sz
  pages : s.pages = p.pages
  le : s.storedLen ≤ p.storedLen
  psl : s.prevStoredLen = p.storedLen
  pp : s.prevPushed = p.pushed
  stamp : s.stamp = p.stamp

theorem recTvC_spec (p s : V) (hp : CInv p) (h : SinceC p s) :
    recTvC s = ((pagesValues p.pages).drop s.storedLen).take (p.storedLen - s.storedLen) ∧ (recTvC s).length = recTrunc s := by
  have hpp : s.perPage = p.perPage := perPage_congr _ _ h.sz
  have hL : pagesStoredLen s.pages s.perPage = (pagesValues p.pages).length := by
    rw [h.pages, hpp]; exact pagesStoredLen_eq _ _ hp.wf
  have hst := hp.stored
  unfold recTvC recTrunc collectStoredComp
  rw [h.psl, hL, h.pages]
  simp only []
  by_cases h0 : p.storedLen - s.storedLen > 0
  · rw [if_pos h0, Nat.min_eq_left hst, if_neg (by omega)]
    refine ⟨rfl, ?_⟩
    rw [List.length_take, List.length_drop]; omega
  · rw [if_neg h0]
    refine ⟨?_, by simp; omega⟩
    have : p.storedLen - s.storedLen = 0 := by omega
    rw [this]; simp

theorem find_new_record (changes : List (Nat × List UInt8)) (st k : Nat) (bytes : List UInt8) :
    (((changes.filter (·.1 < st)).drop k) ++ [(st, bytes)]).find? (·.1 == st) = some (st, bytes) := by
  rw [List.find?_append]
  have hnone : ((changes.filter (·.1 < st)).drop k).find? (·.1 == st) = none := by
    rw [List.find?_eq_none]
    intro x hx
    have hx2 := List.mem_filter.mp (List.mem_of_mem_drop hx)
    have : x.1 < st := by simpa using hx2.2
    simp; omega
  rw [hnone]; simp

/-! ## any number of rollbacks in a row, compressed formats -/

/-- a committed snapshot: its stamp and what the vector showed -/
structure SnapC where
  stamp : Nat
  content : List Nat

/-- the state `r` presents the snapshot `c` -/
def ShowsC (r : V) (c : SnapC) : Prop :=
  r.kind = .comp ∧ r.storedLen ≤ (pagesValues r.pages).length ∧ r.realStoredLen = (pagesValues r.pages).length ∧
  r.stamp = c.stamp ∧ shown r = c.content

/-- the record leads from the snapshot `c` back to `c0` -/
structure FaithfulC (c0 c : SnapC) (ch : Change) : Prop where
  stamp : ch.prevStamp = c0.stamp
  content : c0.content = c.content.take ch.truncatedStart ++ ch.truncatedValues ++ ch.prevPushed
  ts : ch.truncatedStart ≤ c.content.length

theorem undo_comp_fields (r : V) (bytes : List UInt8) (hk : r.kind = .comp) :
    (r.undo bytes).1.kind = r.kind ∧ (r.undo bytes).1.sz = r.sz ∧ (r.undo bytes).1.pages = r.pages := by
  unfold V.undo
  split
  · exact ⟨rfl, rfl, rfl⟩
  · simp only [hk]
    unfold V.applyRollback V.updateStamp
    split <;> exact ⟨hk, rfl, rfl⟩

/-- one undo from ANY state that presents the newer snapshot -/
theorem undo_shows_c (r : V) (c0 c : SnapC) (ch : Change) (bytes : List UInt8) (hs : ShowsC r c) (hf : FaithfulC c0 c ch)
    (hp : parseChange r.kind r.sz bytes = .ok ch) : (r.undo bytes).2 = .ok ∧ ShowsC (r.undo bytes).1 c0 := by
  obtain ⟨h1, h2, h3, h4, h5⟩ := hs
  have hlen : (shown r).length = r.storedLen + r.pushed.length := by
    unfold shown; rw [List.length_append, List.length_take, Nat.min_eq_left h2]
  obtain ⟨u1, u2, u3⟩ := C04_comp_undo_logical r bytes ch h1 hp h2 h3 (by rw [← hlen, h5]; exact hf.ts)
  obtain ⟨v1, _⟩ := C04_comp_undo_stored_ok r bytes ch h1 hp
  obtain ⟨f1, f2, f3⟩ := undo_comp_fields r bytes h1
  have hreal : (r.undo bytes).1.realStoredLen = r.realStoredLen := by
    unfold realStoredLen perPage; rw [f1, f2, f3, h1]
  refine ⟨u1, by rw [f1]; exact h1, by rw [f3, ← h3]; exact v1, by rw [hreal, f3]; exact h3, by rw [u3]; exact hf.stamp, ?_⟩
  have hlog : ∀ x : V, C04.logical x = shown x := fun _ => rfl
  rw [hlog, hlog, h5] at u2
  rw [u2, hf.content]

abbrev StepC := SnapC × List UInt8 × Change

def bottomC : SnapC → List StepC → SnapC
  | c, [] => c
  | _, st :: t => bottomC st.1 t

def StepsOKC (sz : Nat) : SnapC → List StepC → Prop
  | _, [] => True
  | c, st :: t => FaithfulC st.1 c st.2.2 ∧ parseChange .comp sz st.2.1 = .ok st.2.2 ∧ StepsOKC sz st.1 t

def undoAllC (r : V) (steps : List StepC) : V := steps.foldl (fun r st => (r.undo st.2.1).1) r

/-- **C04 for the compressed formats, repeatedly**: from ANY state that presents the newest committed snapshot, undoing the
retained records one after the other — each faithful for its commit — never fails and ends in a state that presents the oldest
snapshot of the chain: its stamp and exactly its contents -/
theorem C04_rollbacks_comp (steps : List StepC) (r : V) (c : SnapC) (hs : ShowsC r c) (hok : StepsOKC r.sz c steps) :
    ShowsC (undoAllC r steps) (bottomC c steps) ∧ (undoAllC r steps).sz = r.sz := by
  induction steps generalizing r c with
  | nil => exact ⟨hs, rfl⟩
  | cons st t ih =>
    obtain ⟨h1, h2, h3⟩ := hok
    have hparse : parseChange r.kind r.sz st.2.1 = .ok st.2.2 := by rw [hs.1]; exact h2
    obtain ⟨_, hshow⟩ := undo_shows_c r st.1 c st.2.2 st.2.1 hs h1 hparse
    have hsz : (r.undo st.2.1).1.sz = r.sz := (undo_comp_fields r st.2.1 hs.1).2.1
    have := ih (r.undo st.2.1).1 st.1 hshow (by rw [hsz]; exact h3)
    simp only [undoAllC, List.foldl_cons, bottomC] at this ⊢
    exact ⟨this.1, by rw [this.2, hsz]⟩

/-- what a successful `commit` of `s` (reached from the baseline `p`) leaves behind: a state that presents the snapshot
(`st`, what `s` showed), the record filed under `st`, and that record — through its bytes — leads back to `p`'s snapshot -/
theorem commit_facts (p s : V) (st : Nat) (cs : List Nat)
    (hp : CInv p) (h : SinceC p s) (hi : CInv s) (hsy : CSync s) (hkeep : s.keep ≠ 0) (hb : RecBoundsC s) :
    (∃ b, (s.commit st cs).2 = .okB b) ∧
    ShowsC (s.commit st cs).1 ⟨st, shown s⟩ ∧ CInv (s.commit st cs).1 ∧ CSync (s.commit st cs).1 ∧
    (s.commit st cs).1.sz = s.sz ∧ (s.commit st cs).1.pushed = [] ∧
    (s.commit st cs).1.prevStoredLen = (s.commit st cs).1.storedLen ∧ (s.commit st cs).1.prevPushed = [] ∧
    (s.commit st cs).1.changes.find? (·.1 == (s.commit st cs).1.stamp) = some (st, s.serializeChanges.1) ∧
    parseChange .comp s.sz s.serializeChanges.1 = .ok (recordOfC s) ∧
    FaithfulC ⟨p.stamp, shown p⟩ ⟨st, shown s⟩ (recordOfC s) := by
  generalize hs1 : (({ s with oob := s.oob || s.serializeChanges.2 } : V).saveChangeFile st s.serializeChanges.1).updateStamp st = s1
  have f1 : s1.kind = s.kind ∧ s1.sz = s.sz ∧ s1.pages = s.pages ∧ s1.storedLen = s.storedLen ∧ s1.pushed = s.pushed ∧ s1.stamp = st ∧
      s1.changes = (s.changes.filter (·.1 < st)).drop ((s.changes.filter (·.1 < st)).length - (s.keep - 1)) ++ [(st, s.serializeChanges.1)] ∧
      s1.dataLen = s.dataLen ∧ s1.changeAt = s.changeAt ∧ s1.pagesDisk = s.pagesDisk := by
    rw [← hs1]
    unfold V.updateStamp V.saveChangeFile
    split
    · rename_i he; exact ⟨rfl, rfl, rfl, rfl, rfl, he, rfl, rfl, rfl, rfl⟩
    · exact ⟨rfl, rfl, rfl, rfl, rfl, rfl, rfl, rfl, rfl, rfl⟩
  obtain ⟨k1, k2, k3, k4, k5, k6, k7, k8, k9, k10⟩ := f1
  have hpp1 := perPage_congr _ _ k2
  have hi1 : CInv s1 := ⟨by rw [k1]; exact hi.kind, by rw [hpp1]; exact hi.pp, by rw [hpp1, k3]; exact hi.wf, by rw [k3, k4]; exact hi.stored⟩
  have hsy1 : CSync s1 := ⟨by rw [k3]; exact hsy.chain, by rw [k3, k8]; exact hsy.data, by rw [k9]; exact hsy.noChange, by rw [k10, k3]; exact hsy.index⟩
  have hsh1 : shown s1 = shown s := by unfold shown; rw [k3, k4, k5]
  obtain ⟨⟨b, hb1⟩, w1, w2, w3⟩ := write_total s1 cs hi1 hsy1
  obtain ⟨w4, w5, _⟩ := writeComp_frame s1 cs
  have hk2 : (s1.writeComp cs).1.kind = .comp := w2.kind
  have hcommit : s.commit st cs = ({ (s1.writeComp cs).1 with prevStoredLen := (s1.writeComp cs).1.storedLen, prevPushed := [] }, .okB b) := by
    unfold V.commit V.stampedWrite V.write
    simp only [hkeep, if_false]
    rw [hs1]
    simp only [k1, h.kind, hb1, hk2]
  rw [hcommit]
  refine ⟨⟨b, rfl⟩, ?_⟩
  show ShowsC _ _ ∧ _
  generalize hcst : ({ (s1.writeComp cs).1 with prevStoredLen := (s1.writeComp cs).1.storedLen, prevPushed := [] } : V) = c
  have c1 : c.kind = .comp ∧ c.sz = s.sz ∧ c.stamp = st ∧ c.changes = s1.changes ∧ c.pages = (s1.writeComp cs).1.pages ∧
      c.storedLen = (s1.writeComp cs).1.storedLen ∧ c.pushed = (s1.writeComp cs).1.pushed := by
    rw [← hcst]
    have hszw : (s1.writeComp cs).1.sz = s1.sz := by
      have := (writeComp_shape s1.writeHeaderIfNeeded cs b (hdr_idem s1) (by rw [← writeComp_norm]; exact hb1)).1.2
      rw [← writeComp_norm] at this
      rw [this]; exact (hdr_fields s1).2.1
    exact ⟨hk2, by simp only []; rw [hszw, k2], by simp only []; rw [w4, k6], by simp only []; rw [w5], rfl, rfl, rfl⟩
  obtain ⟨c1k, c1s, c1t, c1c, c1p, c1l, c1u⟩ := c1
  have hshc : shown c = shown s := by
    unfold shown; rw [c1p, c1l, c1u]; exact w1.trans hsh1
  have hic : CInv c := ⟨c1k, by rw [perPage_congr c s c1s]; exact hi.pp,
    by rw [perPage_congr c s c1s, c1p, ← perPage_congr _ _ (show (s1.writeComp cs).1.sz = s.sz by rw [← c1s, ← hcst])]; exact w2.wf,
    by rw [c1p, c1l]; exact w2.stored⟩
  have hfind : c.changes.find? (·.1 == c.stamp) = some (st, s.serializeChanges.1) := by
    rw [c1c, k7, c1t]; exact find_new_record _ _ _ _
  obtain ⟨tv1, tv2⟩ := recTvC_spec p s hp h
  have hparse : parseChange .comp s.sz s.serializeChanges.1 = .ok (recordOfC s) := C04_record_roundtrip_comp s h.kind hb tv2
  have hts : (recordOfC s).truncatedStart = s.storedLen := by
    unfold recordOfC recTrunc; simp only []; rw [h.psl]; have := h.le; omega
  have hreal2 : c.realStoredLen = (pagesValues c.pages).length := by
    unfold realStoredLen; rw [c1k]; exact pagesStoredLen_eq _ _ hic.wf
  have hsyc : CSync c := by
    rw [← hcst]; exact ⟨w3.chain, w3.data, w3.noChange, w3.index⟩
  have hpushed : c.pushed = [] := by
    have hl1 := shown_length c hic
    have hl2 : (shown c).length = (pagesValues c.pages).length + c.pushed.length → True := fun _ => trivial
    rw [c1u]
    -- the write leaves nothing buffered: both writing paths clear `pushed`; the no-op path had nothing buffered
    have hsh := writeComp_shape s1.writeHeaderIfNeeded cs b (hdr_idem s1) (by rw [← writeComp_norm]; exact hb1)
    rw [← writeComp_norm] at hsh
    rcases hsh.2 with ⟨_, e2, _, e4, _⟩ | ⟨e2, _, _⟩
    · rw [e2]; rw [(hdr_fields s1).2.2.2.1] at e4 ⊢; exact List.length_eq_zero_iff.mp e4
    · exact e2
  refine ⟨⟨c1k, hic.stored, hreal2, c1t, hshc⟩, hic, hsyc, c1s, hpushed, by rw [← hcst], by rw [← hcst], hfind, hparse, ⟨h.stamp, ?_, by rw [hts]; show s.storedLen ≤ (shown s).length; rw [shown_length s hi]; unfold V.len; omega⟩⟩
  show shown p = (shown s).take (recordOfC s).truncatedStart ++ (recordOfC s).truncatedValues ++ (recordOfC s).prevPushed
  rw [hts]
  have e1 : (recordOfC s).truncatedValues = recTvC s := rfl
  have e2 : (recordOfC s).prevPushed = p.pushed := h.pp
  rw [e1, e2, tv1]
  unfold shown
  rw [List.take_append_of_le_length (by rw [List.length_take]; have := hi.stored; omega), List.take_take, Nat.min_self, h.pages]
  have hsplit : (pagesValues p.pages).take p.storedLen =
      (pagesValues p.pages).take s.storedLen ++ ((pagesValues p.pages).drop s.storedLen).take (p.storedLen - s.storedLen) := by
    have hP : p.storedLen = s.storedLen + (p.storedLen - s.storedLen) := by have := h.le; omega
    conv => lhs; rw [hP, List.take_add]
  rw [hsplit]

/-- **C04 on the model's own `commit` and `rollback`, compressed formats**: `p` a baseline (just committed or just rolled
back), `s` reached from it by pushes and truncations, retention on; the commit of `s` succeeds (whatever the compressor
answers) — then `rollback` succeeds and the vector shows exactly what `p` showed, under `p`'s stamp.  The record travels
through its BYTES. -/
theorem C04_commit_then_rollback_comp (p s : V) (st : Nat) (cs : List Nat)
    (hp : CInv p) (h : SinceC p s) (hi : CInv s) (hsy : CSync s) (hkeep : s.keep ≠ 0) (hb : RecBoundsC s) :
    (∃ b, (s.commit st cs).2 = .okB b) ∧
    ((s.commit st cs).1.rollback).2 = .ok ∧ ((s.commit st cs).1.rollback).1.stamp = p.stamp ∧
    shown ((s.commit st cs).1.rollback).1 = shown p := by
  obtain ⟨hok, hshow, _, _, hsz, _, _, _, hfind, hparse, hfaith⟩ := commit_facts p s st cs hp h hi hsy hkeep hb
  have hst : (s.commit st cs).1.stamp = st := hshow.2.2.2.1
  rw [hst] at hfind
  have hrb := (C04.C04_rollback_uses_current_stamp (s.commit st cs).1 st s.serializeChanges.1 (by rw [hst]; exact hfind)).1
  rw [hrb]
  obtain ⟨u1, u2⟩ := undo_shows_c (s.commit st cs).1 ⟨p.stamp, shown p⟩ ⟨st, shown s⟩ (recordOfC s) s.serializeChanges.1 hshow hfaith
    (by rw [hshow.1, hsz]; exact hparse)
  exact ⟨hok, u1, u2.2.2.2.1, u2.2.2.2.2⟩


/-! ## commit any number of times, then roll back through all the records -/

inductive PEdit
  | push (v : Nat) | truncate (n : Nat)
deriving Repr

def applyP (s : V) : PEdit → V
  | .push v => s.push v
  | .truncate n => s.truncate n

/-- a baseline: the state right after a commit or a rollback -/
structure BaseC (p : V) : Prop where
  inv : CInv p
  sync : CSync p
  psl : p.prevStoredLen = p.storedLen
  pp : p.prevPushed = p.pushed

theorem since_edits (p : V) (es : List PEdit) (hb : BaseC p) :
    SinceC p (es.foldl applyP p) ∧ CInv (es.foldl applyP p) ∧ CSync (es.foldl applyP p) ∧ (es.foldl applyP p).keep = p.keep := by
  suffices hh : ∀ (s : V), SinceC p s → CInv s → CSync s → s.keep = p.keep →
      SinceC p (es.foldl applyP s) ∧ CInv (es.foldl applyP s) ∧ CSync (es.foldl applyP s) ∧ (es.foldl applyP s).keep = p.keep from
    hh p ⟨hb.inv.kind, rfl, rfl, Nat.le_refl _, hb.psl, hb.pp, rfl⟩ hb.inv hb.sync rfl
  induction es with
  | nil => intro s h1 h2 h3 h4; exact ⟨h1, h2, h3, h4⟩
  | cons e t ih =>
    intro s h1 h2 h3 h4
    simp only [List.foldl_cons]
    cases e with
    | push v =>
      obtain ⟨_, i2, i3⟩ := C03c.push_refines s v h2 h3
      exact ih _ ⟨h1.kind, h1.sz, h1.pages, h1.le, h1.psl, h1.pp, h1.stamp⟩ i2 i3 h4
    | truncate n =>
      obtain ⟨_, i2, i3⟩ := C03c.truncate_refines s n h2 h3
      refine ih _ ?_ i2 i3 ?_
      · show SinceC p (s.truncate n)
        unfold V.truncate
        rw [h1.kind]
        simp only []
        unfold truncatePushed
        split
        · exact h1
        · simp only []
          split <;> split <;> first
            | exact ⟨h1.kind, h1.sz, h1.pages, h1.le, h1.psl, h1.pp, h1.stamp⟩
            | exact ⟨h1.kind, h1.sz, h1.pages, by have := h1.le; show n ≤ p.storedLen; omega, h1.psl, h1.pp, h1.stamp⟩
      · show (s.truncate n).keep = p.keep
        unfold V.truncate
        rw [h1.kind]
        simp only []
        unfold truncatePushed
        split
        · exact h4
        · simp only []
          split <;> split <;> exact h4

abbrev Round := List PEdit × Nat × List Nat

/-- run the rounds (edits, then `commit` under the round's stamp); returns the final state and, newest first, for every
commit the snapshot it left behind it, the bytes of its record and the record -/
def chain (p : V) : List Round → V × List StepC
  | [] => (p, [])
  | r :: t =>
    let s := r.1.foldl applyP p
    let q := chain (s.commit r.2.1 r.2.2).1 t
    (q.1, q.2 ++ [(⟨p.stamp, shown p⟩, s.serializeChanges.1, recordOfC s)])

/-- the side conditions of the byte format at every commit: retention on, values fit the element size, lengths fit 64 bits -/
def RoundsOK (p : V) : List Round → Prop
  | [] => True
  | r :: t => (r.1.foldl applyP p).keep ≠ 0 ∧ RecBoundsC (r.1.foldl applyP p) ∧ RoundsOK ((r.1.foldl applyP p).commit r.2.1 r.2.2).1 t

/-- **C04, compressed formats, repeatedly**: from a baseline, any number of rounds of (pushes and truncations, then `commit` —
whatever the compressor answers); then undo ALL the records, newest first: no undo fails, and the vector shows exactly what it
showed at the baseline, under the baseline's stamp.  Every record travels through its bytes. -/
theorem C04_commits_then_rollbacks_comp (p : V) (rs : List Round) (hb : BaseC p) (hok : RoundsOK p rs) :
    ShowsC (undoAllC (chain p rs).1 (chain p rs).2) ⟨p.stamp, shown p⟩ ∧ (undoAllC (chain p rs).1 (chain p rs).2).sz = p.sz := by
  induction rs generalizing p with
  | nil =>
    show ShowsC p _ ∧ p.sz = p.sz
    refine ⟨⟨hb.inv.kind, hb.inv.stored, ?_, rfl, rfl⟩, rfl⟩
    unfold realStoredLen; rw [hb.inv.kind]; exact pagesStoredLen_eq _ _ hb.inv.wf
  | cons r t ih =>
    obtain ⟨hkeep, hrec, hrest⟩ := hok
    obtain ⟨hsince, hi, hsy, _⟩ := since_edits p r.1 hb
    obtain ⟨_, hshow, hic, hsyc, hsz, hpu, hpsl, hpp, _, hparse, hfaith⟩ :=
      commit_facts p (r.1.foldl applyP p) r.2.1 r.2.2 hb.inv hsince hi hsy hkeep hrec
    have hbc : BaseC ((r.1.foldl applyP p).commit r.2.1 r.2.2).1 := ⟨hic, hsyc, hpsl, by rw [hpp, hpu]⟩
    obtain ⟨i1, i2⟩ := ih _ hbc hrest
    have hsnap : (⟨((r.1.foldl applyP p).commit r.2.1 r.2.2).1.stamp, shown ((r.1.foldl applyP p).commit r.2.1 r.2.2).1⟩ : SnapC) =
        ⟨r.2.1, shown (r.1.foldl applyP p)⟩ := by rw [hshow.2.2.2.1, hshow.2.2.2.2]
    rw [hsnap] at i1
    simp only [chain, undoAllC, List.foldl_append, List.foldl_cons, List.foldl_nil]
    have hszq : (undoAllC (chain ((r.1.foldl applyP p).commit r.2.1 r.2.2).1 t).1 (chain ((r.1.foldl applyP p).commit r.2.1 r.2.2).1 t).2).sz = p.sz := by
      rw [i2, hsz, hsince.sz]
    obtain ⟨_, u2⟩ := undo_shows_c _ ⟨p.stamp, shown p⟩ ⟨r.2.1, shown (r.1.foldl applyP p)⟩ (recordOfC (r.1.foldl applyP p))
      (r.1.foldl applyP p).serializeChanges.1 i1 hfaith (by rw [i1.1, hszq, ← hsince.sz]; exact hparse)
    exact ⟨u2, ((undo_comp_fields _ _ i1.1).2.1).trans hszq⟩

end AnyDB.C04c

namespace AnyDB.C04c
open AnyDB VecM VecM.V C03c
/-- non-vacuity: two rounds on a vector of 8-byte elements, then both records undone — back to the empty baseline;
    after the first undo alone the vector shows the first commit -/
def exRounds : List Round := [([.push 1, .push 2, .push 3], 1, []), ([.truncate 1, .push 9], 2, [])]
example : shown (undoAllC (chain (V.init .comp 8 2) exRounds).1 (chain (V.init .comp 8 2) exRounds).2) = [] := by decide
example : shown (chain (V.init .comp 8 2) exRounds).1 = [1, 9] := by decide
example : shown (undoAllC (chain (V.init .comp 8 2) exRounds).1 ((chain (V.init .comp 8 2) exRounds).2.take 1)) = [1, 2, 3] := by decide
end AnyDB.C04c
