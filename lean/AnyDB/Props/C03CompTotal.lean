import AnyDB.Props.C03CompWrite
namespace AnyDB.C03c
open AnyDB VecM VecM.V C07

/-! ## a compressed `write()` cannot fail: the data region holds the page run, the index region is in line -/

/-- the page run is gap-free from the header, lies inside the data region, and the index region mirrors it -/
structure CSync (s : V) : Prop where
  chain : Chained HEADER s.pages
  data : nextStart s.pages ≤ s.dataLen
  noChange : s.changeAt = none
  index : s.pagesDisk.length = s.pages.length

theorem chainEnd_ge (x : Nat) (l : List Page) (h : Chained x l) : x ≤ chainEnd x l := by
  induction l generalizing x with
  | nil => exact Nat.le_refl _
  | cons p t ih =>
    have := ih p.stop h.2
    simp only [chainEnd]
    unfold Page.stop at this ⊢
    have := h.1; omega

theorem chainEnd_append (x : Nat) (a b : List Page) : chainEnd x (a ++ b) = chainEnd (chainEnd x a) b := by
  induction a generalizing x with
  | nil => rfl
  | cons p t ih => simp only [List.cons_append, chainEnd]; exact ih _

theorem start_at (x : Nat) (l : List Page) (k : Nat) (p : Page) (h : Chained x l) (hk : l[k]? = some p) :
    p.start = chainEnd x (l.take k) := by
  induction l generalizing x k with
  | nil => simp at hk
  | cons a t ih =>
    cases k with
    | zero => simp at hk; subst hk; simpa [chainEnd] using h.1
    | succ n =>
      simp only [List.getElem?_cons_succ] at hk
      simp only [List.take_succ_cons, chainEnd]
      exact ih _ _ h.2 hk

theorem stop_le (x : Nat) (l : List Page) (k : Nat) (p : Page) (h : Chained x l) (hk : l[k]? = some p) : p.stop ≤ chainEnd x l := by
  induction l generalizing x k with
  | nil => simp at hk
  | cons a t ih =>
    cases k with
    | zero => simp at hk; subst hk; simp only [chainEnd]; exact chainEnd_ge _ _ h.2
    | succ n =>
      simp only [List.getElem?_cons_succ] at hk
      simp only [chainEnd]
      exact ih _ _ h.2 hk

theorem foldl_add_init (l : List Nat) (a : Nat) : l.foldl (· + ·) a = a + l.foldl (· + ·) 0 := by
  induction l generalizing a with
  | nil => simp
  | cons x t ih => simp only [List.foldl_cons]; rw [ih, ih (0 + x)]; omega

theorem build_end (x : Nat) (enc : List (Nat × Nat × Bool × List Nat)) :
    chainEnd x (buildPages x enc) = x + (enc.map (·.1)).foldl (· + ·) 0 := by
  induction enc generalizing x with
  | nil => simp [buildPages, chainEnd]
  | cons e t ih =>
    simp only [buildPages, chainEnd, Page.stop, List.map_cons, List.foldl_cons]
    rw [ih, foldl_add_init _ (0 + e.1)]; omega

theorem pagesFlush_ok (t : V) (c : Nat) (hc : t.changeAt = some c) (hle : c ≤ t.pagesDisk.length) :
    t.pagesFlush.2 = true ∧ t.pagesFlush.1.changeAt = none ∧
    t.pagesFlush.1.pagesDisk = t.pagesDisk.take c ++ (t.pages.drop c).map Page.entry := by
  unfold pagesFlush
  simp only [hc]
  rw [if_neg (by omega)]
  exact ⟨rfl, rfl, rfl⟩

theorem nextStart_snoc (l : List Page) (p : Page) : nextStart (l ++ [p]) = p.stop := by
  unfold nextStart; simp


/-- the final step of both writing paths: the index flush succeeds and leaves the index in line -/
theorem flush_tail (s t : V) (spi : Nat) (hs : CSync s) (hspi : spi ≤ s.pages.length)
    (h1 : t.changeAt = setChangedAt s.changeAt spi) (h2 : t.pagesDisk = s.pagesDisk) (h3 : spi ≤ t.pages.length)
    (hc : Chained HEADER t.pages) (hd : nextStart t.pages ≤ t.dataLen) :
    t.pagesFlush.2 = true ∧ CSync t.pagesFlush.1 := by
  have hca : t.changeAt = some spi := by rw [h1, hs.noChange]; rfl
  obtain ⟨f1, f2, f3⟩ := pagesFlush_ok t spi hca (by rw [h2, hs.index]; exact hspi)
  obtain ⟨g1, _, _, _, _, g6⟩ := pagesFlush_fields t
  refine ⟨f1, ⟨by rw [g1]; exact hc, by rw [g1, g6]; exact hd, f2, ?_⟩⟩
  rw [f3, g1, List.length_append, List.length_take, List.length_map, List.length_drop, h2, hs.index]
  omega

theorem tail_goal (t : V) (h : t.pagesFlush.2 = true ∧ CSync t.pagesFlush.1) :
    (∃ b, (if t.pagesFlush.2 = true then (t.pagesFlush.1, Out.okB true) else (t.pagesFlush.1, Out.err EK.writeOutOfBounds)).2 = .okB b) ∧
    CSync (if t.pagesFlush.2 = true then (t.pagesFlush.1, Out.okB true) else (t.pagesFlush.1, Out.err EK.writeOutOfBounds)).1 := by
  rw [if_pos h.1]; exact ⟨⟨_, rfl⟩, h.2⟩

theorem writeComp_total_norm (s : V) (cs : List Nat) (hn : s.writeHeaderIfNeeded = s) (h : CInv s) (hs : CSync s) :
    (∃ b, (s.writeComp cs).2 = .okB b) ∧ CSync (s.writeComp cs).1 := by
  have hL := pagesStoredLen_eq s.perPage s.pages h.wf
  have hle := pv_length_le s.perPage s.pages h.wf
  have hst := h.stored
  have hspi : s.storedLen / s.perPage ≤ s.pages.length := by
    have : s.storedLen ≤ s.pages.length * s.perPage := by omega
    have hc := Nat.mul_comm s.perPage s.pages.length
    exact (Nat.div_le_iff_le_mul_add_pred h.pp).mpr (by omega)
  have hns := nextStart_eq_chainEnd s.pages
  unfold writeComp
  rw [hn]
  simp only []
  rw [if_neg (by omega)]
  by_cases c2 : s.pushed.length = 0 ∧ s.storedLen = pagesStoredLen s.pages s.perPage ∧ s.changeAt.isNone = true
  · rw [if_pos c2]; exact ⟨⟨_, rfl⟩, hs⟩
  · rw [if_neg c2, if_neg (by omega)]
    cases hp : s.pages[s.storedLen / s.perPage]? with
    | none =>
      simp only []
      have hk : s.pages.length ≤ s.storedLen / s.perPage := by
        cases hlt : decide (s.storedLen / s.perPage < s.pages.length) with
        | true => have := of_decide_eq_true hlt; rw [List.getElem?_eq_getElem this] at hp; cases hp
        | false => have := of_decide_eq_false hlt; omega
      have htk : s.pages.take (s.storedLen / s.perPage) = s.pages := List.take_of_length_le hk
      rw [if_neg (by have := hs.data; omega)]
      refine tail_goal _ (flush_tail s _ _ hs hspi rfl rfl ?_ ?_ ?_)
      · simp only [List.length_append, List.length_take]; omega
      · exact C07_write_chained _ _ _ hs.chain
      · simp only []
        rw [nextStart_eq_chainEnd, chainEnd_append, nextStart_eq_chainEnd, build_end, htk, ← hns]
        exact Nat.le_refl _
    | some page =>
      simp only []
      have hstart := start_at HEADER s.pages _ page hs.chain hp
      have hstop := stop_le HEADER s.pages _ page hs.chain hp
      have hge := chainEnd_ge HEADER _ (chained_take HEADER s.pages (s.storedLen / s.perPage) hs.chain)
      have hdata := hs.data
      have hpst : page.start ≤ page.stop := by unfold Page.stop; omega
      by_cases hpl : s.storedLen % s.perPage ≠ 0
      · rw [if_pos hpl]
        simp only []
        by_cases hfast : page.raw = true ∧ s.storedLen % s.perPage = page.values ∧ s.storedLen % s.perPage + s.pushed.length < s.perPage
        · rw [if_pos hfast]
          simp only []
          rw [if_neg (by omega)]
          refine tail_goal _ (flush_tail s _ _ hs hspi rfl rfl ?_ ?_ ?_)
          · simp only [List.length_append, List.length_take]; omega
          · exact C07_fast_chained _ _ page _ hs.chain hp rfl
          · simp only []
            rw [nextStart_snoc]
            unfold Page.stop; simp only []; omega
        · rw [if_neg hfast]
          simp only []
          rw [if_neg (by omega)]
          refine tail_goal _ (flush_tail s _ _ hs hspi rfl rfl ?_ ?_ ?_)
          · simp only [List.length_append, List.length_take]; omega
          · exact C07_write_chained _ _ _ hs.chain
          · simp only []
            rw [nextStart_eq_chainEnd, chainEnd_append, nextStart_eq_chainEnd, build_end, ← hstart]
            exact Nat.le_refl _
      · rw [if_neg hpl]
        simp only []
        rw [if_neg (by omega)]
        refine tail_goal _ (flush_tail s _ _ hs hspi rfl rfl ?_ ?_ ?_)
        · simp only [List.length_append, List.length_take]; omega
        · exact C07_write_chained _ _ _ hs.chain
        · simp only []
          rw [nextStart_eq_chainEnd, chainEnd_append, nextStart_eq_chainEnd, build_end, ← hstart]
          exact Nat.le_refl _

end AnyDB.C03c
