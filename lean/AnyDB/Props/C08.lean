import AnyDB.Model.ReadPaths

/-!
# C08 — all read paths agree for every range and never panic

The reference is the logical contents restricted to the range (`(items.drop a).take (b - a)` with
deleted slots dropped); the check runs every read API of every stored format against it (27 paths ×
24 ranges + 12 point reads + cursor scripts + sorted reads per state, read-write vector and read-only
clone, both scan back-ends) and compares the primary path's answers with the model's (`readHash`).

Proved here — the index arithmetic of the paths, for all lists, ranges, page sizes and chunk sizes:

* `C08_rawClean`      — the clean raw path (stored slice then buffered slice, both ends clamped) returns
                         exactly `(disk.take stored ++ pushed)` restricted to `[from, to)`; reversed and
                         out-of-range requests yield `[]`;
* `C08_cursor_get`    — a cursor's chunk-aligned refill answers `get(i)` with element `i` (for every
                         chunk size ≥ 1) and with nothing beyond the end;
* `C08_pages_single`  — a range inside one page reads `page[from - start, to - start)`;
* `C08_dirty_no_overlay` — with no deleted and no updated slot the merged iteration is the disk slice.

Three defects of the pinned tree were found by this check and repaired by `fix:` commits: a range that
starts in the buffered part of a vector with deleted/updated slots panicked (F23), the overlay
iterator fell behind after a deleted slot that still carried an overlay entry (F25), and
`collect_range` with a huge upper bound panicked with a capacity overflow (F22).
-/
namespace AnyDB.C08
open AnyDB ReadPaths VecM

/-- the reference: a logical list restricted to `[a, b)` -/
def sliceOf (l : List Nat) (a b : Nat) : List Nat := (l.drop a).take (min b l.length - a)

theorem sliceOf_reversed (l : List Nat) (a b : Nat) (h : b ≤ a) : sliceOf l a b = [] := by
  unfold sliceOf
  have : min b l.length - a = 0 := by omega
  simp [this]

theorem sliceOf_beyond (l : List Nat) (a b : Nat) (h : l.length ≤ a) : sliceOf l a b = [] := by
  unfold sliceOf
  have : min b l.length - a = 0 := by omega
  simp [this]

theorem C08_rawClean (disk pushed : List Nat) (stored from_ to : Nat) (hs : stored ≤ disk.length) :
    rawCleanRead disk pushed stored from_ to = sliceOf (disk.take stored ++ pushed) from_ to := by
  unfold rawCleanRead sliceOf
  simp only [List.length_append, List.length_take]
  have hmin : min stored disk.length = stored := by omega
  rw [hmin]
  by_cases hge : min from_ (stored + pushed.length) ≥ min to (stored + pushed.length)
  · simp only [hge, if_true]
    have : min to (stored + pushed.length) - from_ = 0 := by omega
    simp [this]
  · simp only [hge, if_false]
    have hft : from_ < to := by omega
    have hfl : from_ < stored + pushed.length := by omega
    have e1 : min from_ (stored + pushed.length) = from_ := by omega
    rw [e1]
    rw [List.drop_append]
    simp only [List.length_take, hmin]
    rw [List.take_append]
    simp only [List.length_drop, List.length_take, hmin]
    by_cases h1 : from_ < stored
    · simp only [h1, if_true]
      by_cases h2 : min to (stored + pushed.length) > stored
      · simp only [h2, if_true]
        have ea : (List.drop from_ (List.take stored disk)).take (min to (stored + pushed.length) - from_) = (disk.drop from_).take (min (min to (stored + pushed.length)) stored - from_) := by
          rw [List.drop_take]
          rw [List.take_take]
          congr 1; omega
        rw [ea]
        congr 1
        have e2 : from_ - stored = 0 := by omega
        have e3 : max from_ stored - stored = 0 := by omega
        rw [e2, e3]
        simp only [List.drop_zero, Nat.sub_zero]
        congr 1; omega
      · simp only [h2, if_false, List.append_nil]
        have e2 : min to (stored + pushed.length) - from_ - (stored - from_) = 0 := by omega
        rw [e2]
        simp only [List.take_zero, List.append_nil]
        rw [List.drop_take, List.take_take]
        congr 1; omega
    · simp only [h1, if_false, List.nil_append]
      have h2 : min to (stored + pushed.length) > stored := by omega
      simp only [h2, if_true]
      have e0 : List.drop from_ (List.take stored disk) = [] := by
        apply List.drop_eq_nil_of_le; simp; omega
      rw [e0]
      simp only [List.take_nil, List.nil_append]
      have e3 : max from_ stored - stored = from_ - stored := by omega
      rw [e3]
      congr 1; omega

/-- chunk-aligned cursor refill: `get(i)` is element `i` -/
theorem C08_cursor_get (l : List Nat) (chunk at_ : Nat) (hc : 0 < chunk) : cursorGet l chunk at_ = l[at_]? := by
  unfold cursorGet
  by_cases h : at_ ≥ l.length
  · simp only [h, if_true]
    exact (List.getElem?_eq_none (by omega)).symm
  · simp only [h, if_false]
    have hal : at_ / chunk * chunk ≤ at_ := Nat.div_mul_le_self at_ chunk
    have hlt : at_ < at_ / chunk * chunk + chunk := by
      have := Nat.lt_div_mul_add hc (a := at_)
      omega
    generalize at_ / chunk * chunk = al at hal hlt
    have hlen : ((l.drop al).take (min (al + chunk) l.length - al)).length = min (al + chunk) l.length - al := by
      simp only [List.length_take, List.length_drop]; omega
    have hne : ¬ ((l.drop al).take (min (al + chunk) l.length - al)).isEmpty = true := by
      simp only [List.isEmpty_iff]
      intro hh
      have := congrArg List.length hh
      rw [hlen] at this
      simp at this
      omega
    simp only [hne, if_false]
    rw [List.getElem?_take, List.getElem?_drop]
    have hin : at_ - al < min (al + chunk) l.length - al := by omega
    simp only [hin, if_true]
    have : al + (at_ - al) = at_ := by omega
    rw [this]
    simp

/-- a range inside a single page -/
theorem C08_pages_single (pages : List (List Nat)) (pp from_ to : Nat) (hpp : 0 < pp) (hft : from_ < to)
    (hsame : from_ / pp = (to - 1) / pp) :
    pagesRead pages pp from_ to =
      let page := pages.getD (from_ / pp) []
      (page.drop (from_ - from_ / pp * pp)).take (min (to - from_ / pp * pp) page.length - (from_ - from_ / pp * pp)) := by
  unfold pagesRead
  have : ¬ from_ ≥ to := by omega
  simp only [this, if_false, ← hsame]
  have : from_ / pp + 1 - from_ / pp = 1 := by omega
  simp [this]

/-- no deleted slot, no overlay: the merged iteration is the disk slice -/
theorem C08_dirty_no_overlay (disk : List Nat) (i n : Nat) (h : i + n ≤ disk.length) :
    dirtyStored disk i n [] [] = (disk.drop i).take n := by
  induction n generalizing i with
  | zero => simp [dirtyStored]
  | succ k ih =>
    simp only [dirtyStored]
    rw [ih (i + 1) (by omega)]
    have hi : i < disk.length := by omega
    rw [List.drop_eq_getElem_cons hi, List.take_succ_cons]
    congr 1
    simp [List.getD_eq_getElem?_getD, List.getElem?_eq_getElem hi]

/-- non-vacuity / the F25 history on the model: slot 0 deleted AND overlaid, slot 2 overlaid -/
example : dirtyStored [10, 11, 12, 13] 0 4 [0] [(0, 70), (2, 72)] = [11, 72, 13] := by decide
example : rawCleanRead [1, 2, 3, 4] [5, 6] 3 2 9 = [3, 5, 6] := by decide
example : cursorGet [0, 1, 2, 3, 4, 5, 6] 3 5 = some 5 := by decide
example : pagesRead [[0, 1, 2, 3], [4, 5, 6, 7], [8, 9]] 4 2 9 = [2, 3, 4, 5, 6, 7, 8] := by decide

end AnyDB.C08
