import AnyDB.Lemmas.AllocBridge

/-!
# C02 — region extents never overlap; free space is fully accounted and reused

The allocator of `rawdb/src/layout.rs` + the placement paths of `region.rs`/`lib.rs`, as modelled
in `AnyDB/Model/Rawdb.lean` (`bestFit`, `removeOrCompress`, `promoteOne`/`promote`,
`placeRelocation`, `create`, `setMinLen`, `flush`).

What is proved here (for *all* hole lists, sizes and histories — no bound):

* `C02_promote`   — promoting any batch of deferred holes (what `flush` does) keeps the free list
                    well formed (positive, pairwise disjoint, **no two adjacent: merged**), covers
                    exactly the old free bytes plus the promoted ones (**nothing lost, nothing
                    double-booked**) and stays disjoint from everything the inputs were disjoint
                    from (so live regions are never overlapped by a promoted hole);
* `C02_split`     — carving `n` bytes off the front of a hole (placement into free space, growth
                    into the adjacent hole) keeps the free list well formed and removes exactly
                    `[start, start+n)` from the free bytes;
* `C02_best_fit`  — the hole chosen for a placement is adequate and no adequate hole is smaller;
* `C02_place_reuses` — a relocation is placed in free space, and the file does not grow, whenever
                    an adequate hole exists; it is placed at the end of the allocated area only
                    when none does; same for `create` (`C02_create_reuses`);
* `C02_growth`    — `set_min_len` never shrinks, is page aligned, reaches the request, and grows
                    to `max(request, 2·current, 1 MiB)` rounded up to a page;
* `C02_flush_promotes` — after `flush` no deferred hole is left and the free list is the promoted one.

The whole-database invariant (regions ∪ holes ∪ pending ∪ reservations pairwise disjoint and
covering `[0, Layout::len)`) is *checked on the implementation's real layout after every request*
by an independent checker in the harness (`rawdb_engine.rs: check_layout`) and the model's layout
is compared with the real one field by field; its Lean proof composes the lemmas above per
placement path and is the part still open (see DESIGN.md §9 C02: `C02_inv_step_partial`).
-/
namespace AnyDB.C02
open AnyDB Alloc Gen

/-- promotion of deferred holes (`Layout::promote_pending_holes`) -/
theorem C02_promote (hs pending : List (Nat × Nat)) (hI : HolesOK hs)
    (hpp : ∀ p ∈ pending, 0 < p.2)
    (hph : ∀ p ∈ pending, ∀ a ∈ hs, pdisj a p)
    (hpd : pending.Pairwise pdisj) :
    HolesOK (promote hs pending) ∧
    (∀ x, covers (promote hs pending) x ↔ covers hs x ∨ covers pending x) ∧
    (∀ q : Nat × Nat, 0 < q.2 → (∀ a ∈ hs, pdisj a q) → (∀ p ∈ pending, pdisj p q) →
        ∀ a ∈ promote hs pending, pdisj a q) := by
  have key := promote_inv (toExts pending) (toExts hs) hI
    (by intro p hp; obtain ⟨q, hq, rfl⟩ := List.mem_map.mp hp; exact hpp q hq)
    (by intro p hp a ha
        obtain ⟨q, hq, rfl⟩ := List.mem_map.mp hp
        obtain ⟨b, hb, rfl⟩ := List.mem_map.mp ha
        simpa [disj, pdisj] using hph q hq b hb)
    (by unfold toExts; rw [List.pairwise_map]
        exact hpd.imp (by intro a b h; simpa [disj, pdisj] using h))
  rw [← promote_map] at key
  obtain ⟨k1, k2, k3⟩ := key
  refine ⟨k1, ?_, ?_⟩
  · intro x; rw [covers_iff, covers_iff, covers_iff]; exact k2 x
  · intro q hq h1 h2 a ha
    have := k3 (toExt q) hq
      (by intro b hb; obtain ⟨c, hc, rfl⟩ := List.mem_map.mp hb; simpa [disj, pdisj] using h1 c hc)
      (by intro b hb; obtain ⟨c, hc, rfl⟩ := List.mem_map.mp hb; simpa [disj, pdisj] using h2 c hc)
      (toExt a) (List.mem_map.mpr ⟨a, ha, rfl⟩)
    simpa [disj, pdisj] using this

/-- hole split (`Layout::remove_or_compress_hole`) -/
theorem C02_split {hs hs' : List (Nat × Nat)} {start n sz : Nat}
    (hI : HolesOK hs) (hg : alGet hs start = some sz) (hn : 0 < n)
    (h : removeOrCompress hs start n = .ok hs') :
    n ≤ sz ∧ HolesOK hs' ∧
    (∀ x, covers hs' x ↔ covers hs x ∧ ¬ (start ≤ x ∧ x < start + n)) ∧
    (∀ q : Nat × Nat, (∀ a ∈ hs, pdisj a q) → ∀ a ∈ hs', pdisj a q) :=
  removeOrCompress_ok hI hg hn h

/-- `find_smallest_adequate_hole` is best fit -/
theorem C02_best_fit {hs : List (Nat × Nat)} {need s : Nat} (h : bestFit hs need = some s) :
    ∃ b ∈ hs, b.1 = s ∧ need ≤ b.2 ∧ ∀ h ∈ hs, need ≤ h.2 → b.2 ≤ h.2 :=
  bestFit_some h

theorem le_ceilPage (n : Nat) : n ≤ ceilPage n := by
  unfold ceilPage; simp only [PAGE_SIZE]; omega

theorem setMinLen_fileLen_le (s : Db) (n : Nat) : s.fileLen ≤ (s.setMinLen n).fileLen := by
  unfold Db.setMinLen
  simp only []
  split
  · exact Nat.le_refl _
  · simp only []
    have h1 := le_ceilPage (max (max (ceilPage n) (s.fileLen * GROW_FACTOR)) GROW_FLOOR)
    have h2 := le_ceilPage n
    omega

/-- relocation: free space is used whenever an adequate hole exists, and then the file does not grow -/
theorem C02_place_reuses (s s' : Db) (need start : Nat)
    (hex : ∃ e ∈ s.holes, need ≤ e.2)
    (h : s.placeRelocation need = .ok (s', start)) :
    (∃ e ∈ s.holes, e.1 = start ∧ need ≤ e.2 ∧ ∀ h ∈ s.holes, need ≤ h.2 → e.2 ≤ h.2) ∧
    s'.fileLen = s.fileLen ∧ (start, need) ∈ s'.reserved := by
  unfold Db.placeRelocation at h
  cases hb : bestFit s.holes need with
  | none =>
    obtain ⟨e, he, hne⟩ := hex
    have := bestFit_none hb e he
    omega
  | some hstart =>
    simp only [hb] at h
    cases hr : removeOrCompress s.holes hstart need with
    | error e => simp [hr] at h
    | ok hs =>
      simp only [hr] at h
      simp only [Except.ok.injEq, Prod.mk.injEq] at h
      obtain ⟨rfl, rfl⟩ := h
      exact ⟨bestFit_some hb, rfl, by simp⟩

/-- relocation goes to the end of the allocated area only when no hole is adequate -/
theorem C02_place_end (s s' : Db) (need start : Nat)
    (hno : ∀ e ∈ s.holes, e.2 < need)
    (h : s.placeRelocation need = .ok (s', start)) :
    start = s.layoutLen ∧ s'.holes = s.holes := by
  unfold Db.placeRelocation at h
  cases hb : bestFit s.holes need with
  | some hstart =>
    obtain ⟨b, hbm, _, hsz, _⟩ := bestFit_some hb
    have := hno b hbm
    omega
  | none =>
    simp only [hb] at h
    simp only [Except.ok.injEq, Prod.mk.injEq] at h
    obtain ⟨rfl, rfl⟩ := h
    refine ⟨rfl, ?_⟩
    unfold Db.setMinLen
    simp only []
    split <;> rfl

/-- creation: a one-page hole is used whenever one exists, and then the file does not grow -/
theorem C02_create_reuses (s : Db) (id : RegionId) (hnew : s.findId id = none)
    (hex : ∃ e ∈ s.holes, PAGE_SIZE ≤ e.2) :
    (s.create id).1.fileLen = s.fileLen := by
  obtain ⟨e, he, hsz⟩ := hex
  cases hb : bestFit s.holes PAGE_SIZE with
  | none => have := bestFit_none hb e he; omega
  | some hstart =>
    cases hr : removeOrCompress s.holes hstart PAGE_SIZE with
    | error k =>
      unfold Db.create
      simp only [hnew, hb, hr, Option.isNone_some, Bool.false_eq_true, if_false]
    | ok hs =>
      unfold Db.create
      simp only [hnew, hb, hr, Option.isNone_some, Bool.false_eq_true, if_false]
      split
      · rfl
      · simp only [Db.regionsSetMinSlots, Db.setSlot]
        repeat (first | rfl | split)

/-- `Database::set_min_len` growth rule -/
theorem C02_growth (s : Db) (n : Nat) :
    s.fileLen ≤ (s.setMinLen n).fileLen ∧ n ≤ (s.setMinLen n).fileLen ∧
    (s.fileLen < ceilPage n →
      (s.setMinLen n).fileLen = ceilPage (max (max (ceilPage n) (s.fileLen * GROW_FACTOR)) GROW_FLOOR)) ∧
    (ceilPage n ≤ s.fileLen → (s.setMinLen n).fileLen = s.fileLen) := by
  have h1 := le_ceilPage (max (max (ceilPage n) (s.fileLen * GROW_FACTOR)) GROW_FLOOR)
  have h2 := le_ceilPage n
  refine ⟨setMinLen_fileLen_le s n, ?_, ?_, ?_⟩
  · unfold Db.setMinLen
    simp only []
    split
    · omega
    · simp only []; omega
  · intro h
    unfold Db.setMinLen
    simp only []
    split
    · omega
    · rfl
  · intro h
    unfold Db.setMinLen
    simp only []
    split
    · rfl
    · omega

theorem markClean_fold (l : List (Nat × Slot × Option (Nat × Nat))) (s : Db) :
    (l.foldl Db.markCleanStep s).holes = s.holes ∧ (l.foldl Db.markCleanStep s).pending = s.pending := by
  induction l generalizing s with
  | nil => exact ⟨rfl, rfl⟩
  | cons x t ih =>
    simp only [List.foldl_cons]
    rw [(ih _).1, (ih _).2]
    unfold Db.markCleanStep
    split <;> exact ⟨rfl, rfl⟩

/-- `flush` leaves no deferred hole behind: the free list is the promoted one -/
theorem C02_flush_promotes (s : Db) :
    (s.flush).1.pending = [] ∧ (s.flush).1.holes = promote s.holes s.pending := by
  unfold Db.flush
  simp only []
  split
  · simp only []
    split <;> exact ⟨trivial, rfl⟩
  · simp only []
    refine ⟨trivial, ?_⟩
    rw [(markClean_fold _ _).1, (markClean_fold _ _).2]
    simp only [Db.emit]
    split <;> rfl

/-- non-vacuity: a fragmented free list with two deferred holes adjacent to it on both sides -/
example : HolesOK [(0, 4096), (16384, 8192)] := by
  rw [holesOK_iff]; refine ⟨?_, ?_, ?_⟩ <;> simp [pdisj]

example : promote [(0, 4096), (16384, 8192)] [(4096, 4096), (12288, 4096)] = [(0, 8192), (12288, 12288)] := by
  decide

example : bestFit [(0, 8192), (40960, 4096), (81920, 4096)] 4096 = some 40960 := by decide

end AnyDB.C02
