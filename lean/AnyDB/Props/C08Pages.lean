import AnyDB.Props.C08
/-!
# C08 — compressed formats: a range read over any number of pages is the slice of the stored values

`C08_pages_range`: `read_stored_pages_into` (model: `ReadPaths.pagesRead`: for every page touched, `local_from = from -. page_start`,
`local_to = min (to - page_start) values`, slices appended in page order) equals `sliceOf (pages.flatten) from to` for EVERY page
index in which every page but the last is full and no page is longer than a page (C07's chain invariant), every page size,
and every `from < to ≤ stored length` — single-page, straddling two pages, or spanning many.
-/
namespace AnyDB.C08
open AnyDB VecM ReadPaths

/-! ## `read_stored_pages_into` over several pages -/

/-- every page but the last holds exactly `pp` values (C07's chain invariant) -/
def Full (pages : List (List Nat)) (pp : Nat) : Prop := ∀ pi, pi + 1 < pages.length → (pages.getD pi []).length = pp

/-- the page loop from page `sp` on, `m` pages -/
def pagesFrom (pages : List (List Nat)) (pp sp m from_ to : Nat) : List Nat :=
  (List.range m).flatMap (fun k =>
    let pi := sp + k
    let page := pages.getD pi []
    let pageStart := pi * pp
    let localFrom := from_ - pageStart
    let localTo := min (to - pageStart) page.length
    (page.drop localFrom).take (localTo - localFrom))

theorem pagesRead_eq (pages : List (List Nat)) (pp from_ to : Nat) (h : from_ < to) :
    pagesRead pages pp from_ to = pagesFrom pages pp (from_ / pp) ((to - 1) / pp + 1 - from_ / pp) from_ to := by
  unfold pagesRead pagesFrom
  have : ¬ from_ ≥ to := by omega
  simp only [this, if_false]

/-- pages after the first are read from their beginning whatever `from_` is (as long as it lies before them) -/
theorem pagesFrom_congr (pages : List (List Nat)) (pp sp m f1 f2 to : Nat) (h1 : f1 ≤ sp * pp) (h2 : f2 ≤ sp * pp) :
    pagesFrom pages pp sp m f1 to = pagesFrom pages pp sp m f2 to := by
  unfold pagesFrom
  congr 1
  funext k
  have hk : sp * pp ≤ (sp + k) * pp := Nat.mul_le_mul_right pp (by omega)
  have e1 : f1 - (sp + k) * pp = 0 := by omega
  have e2 : f2 - (sp + k) * pp = 0 := by omega
  simp only [e1, e2]

theorem pagesFrom_succ (pages : List (List Nat)) (pp sp m from_ to : Nat) :
    pagesFrom pages pp sp (m + 1) from_ to =
      ((pages.getD sp []).drop (from_ - sp * pp)).take (min (to - sp * pp) (pages.getD sp []).length - (from_ - sp * pp)) ++
      pagesFrom pages pp (sp + 1) m from_ to := by
  unfold pagesFrom
  rw [List.range_succ_eq_map, List.flatMap_cons, List.flatMap_map]
  congr 1
  congr 1
  funext k
  simp only [Function.comp]
  have : sp + Nat.succ k = sp + 1 + k := by omega
  rw [this]

theorem drop_pages (pages : List (List Nat)) (sp : Nat) (h : sp < pages.length) :
    pages.drop sp = pages.getD sp [] :: pages.drop (sp + 1) := by
  rw [List.drop_eq_getElem_cons h]
  congr 1
  simp [List.getD_eq_getElem?_getD, List.getElem?_eq_getElem h]

/-- the loop over `m ≥ 1` consecutive pages is one slice of the concatenation of the pages from `sp` on -/
theorem pagesFrom_slice (pages : List (List Nat)) (pp : Nat) (hf : Full pages pp) (m : Nat) :
    ∀ (sp from_ to : Nat), sp * pp ≤ from_ → from_ < (sp + 1) * pp → from_ < to →
      (sp + m) * pp < to → to ≤ (sp + m + 1) * pp → sp + m < pages.length →
      to ≤ sp * pp + (pages.drop sp).flatten.length →
      pagesFrom pages pp sp (m + 1) from_ to = (((pages.drop sp).flatten).drop (from_ - sp * pp)).take (to - from_) := by
  induction m with
  | zero =>
    intro sp from_ to h1 h2 h3 h4 h5 h6 h7
    rw [pagesFrom_succ]
    have hp : pagesFrom pages pp (sp + 1) 0 from_ to = [] := by simp [pagesFrom]
    rw [hp, List.append_nil, drop_pages pages sp (by omega)]
    simp only [List.flatten_cons]
    generalize hpage : pages.getD sp [] = page
    have hsm : (sp + 1) * pp = sp * pp + pp := Nat.succ_mul sp pp
    simp only [Nat.add_zero] at h4 h5
    -- the page is long enough for the range
    have hlen : to - sp * pp ≤ page.length := by
      by_cases hlast : sp + 1 < pages.length
      · have := hf sp hlast; rw [hpage] at this; omega
      · have hd : pages.drop (sp + 1) = [] := List.drop_eq_nil_of_le (by omega)
        rw [drop_pages pages sp (by omega), hpage, hd] at h7
        simp at h7; omega
    have e1 : min (to - sp * pp) page.length = to - sp * pp := by omega
    rw [e1, List.drop_append_of_le_length (by omega), List.take_append_of_le_length (by simp; omega)]
    congr 1; omega
  | succ m ih =>
    intro sp from_ to h1 h2 h3 h4 h5 h6 h7
    rw [pagesFrom_succ]
    have hsm : (sp + 1) * pp = sp * pp + pp := Nat.succ_mul sp pp
    have hmono : (sp + 1) * pp ≤ (sp + (m + 1)) * pp := Nat.mul_le_mul_right pp (by omega)
    have hfull := hf sp (by omega)
    generalize hpage : pages.getD sp [] = page at hfull
    have e1 : min (to - sp * pp) page.length = pp := by omega
    rw [e1]
    -- the remaining pages, read from their beginning
    have hrest := ih (sp + 1) ((sp + 1) * pp) to (Nat.le_refl _) (by rw [Nat.succ_mul (sp + 1) pp]; omega) (by omega)
      (by have : sp + 1 + m = sp + (m + 1) := by omega
          rw [this]; exact h4)
      (by have : sp + 1 + m + 1 = sp + (m + 1) + 1 := by omega
          rw [this]; exact h5)
      (by omega)
      (by rw [drop_pages pages sp (by omega), hpage] at h7
          simp only [List.flatten_cons, List.length_append] at h7
          omega)
    rw [pagesFrom_congr pages pp (sp + 1) (m + 1) from_ ((sp + 1) * pp) to (by omega) (Nat.le_refl _), hrest]
    rw [drop_pages pages sp (by omega), hpage]
    simp only [List.flatten_cons, Nat.sub_self, List.drop_zero]
    have hl : from_ - sp * pp ≤ page.length := by omega
    rw [List.drop_append_of_le_length hl]
    have htake : (page.drop (from_ - sp * pp)).take (pp - (from_ - sp * pp)) = page.drop (from_ - sp * pp) :=
      List.take_of_length_le (by simp; omega)
    rw [htake, List.take_append]
    simp only [List.length_drop]
    have : to - from_ - (page.length - (from_ - sp * pp)) = to - (sp + 1) * pp := by omega
    rw [this]
    congr 1
    exact (List.take_of_length_le (by simp; omega)).symm


/-- with full pages in front, dropping `sp` whole pages of the concatenation drops `sp` pages -/
theorem flatten_drop_pages (pages : List (List Nat)) (pp : Nat) (hf : Full pages pp) (sp : Nat) (h : sp < pages.length) :
    pages.flatten.drop (sp * pp) = (pages.drop sp).flatten := by
  induction sp with
  | zero => simp
  | succ k ih =>
    have hk := ih (by omega)
    have hfull := hf k (by omega)
    rw [Nat.succ_mul, ← List.drop_drop, hk, drop_pages pages k (by omega)]
    simp only [List.flatten_cons]
    rw [List.drop_append_of_le_length (by omega), List.drop_of_length_le (by omega), List.nil_append]

theorem flatten_length_le (pages : List (List Nat)) (pp : Nat) (hb : ∀ p ∈ pages, p.length ≤ pp) : pages.flatten.length ≤ pages.length * pp := by
  induction pages with
  | nil => simp
  | cons a t ih =>
    simp only [List.flatten_cons, List.length_append, List.length_cons, Nat.succ_mul]
    have := hb a (List.mem_cons_self ..)
    have := ih (fun p hp => hb p (List.mem_cons_of_mem _ hp))
    omega

/-- C08, compressed formats: `read_stored_pages_into` over ANY number of pages is the slice of the stored values — for every
page index in which all pages but the last are full (C07's invariant) and no page is longer than a page -/
theorem C08_pages_range (pages : List (List Nat)) (pp from_ to : Nat) (hpp : 0 < pp) (hf : Full pages pp)
    (hb : ∀ p ∈ pages, p.length ≤ pp) (hft : from_ < to) (hto : to ≤ pages.flatten.length) :
    pagesRead pages pp from_ to = sliceOf pages.flatten from_ to := by
  rw [pagesRead_eq _ _ _ _ hft]
  have hlen := flatten_length_le pages pp hb
  have hsp : from_ / pp < pages.length := Nat.div_lt_of_lt_mul (by rw [Nat.mul_comm]; omega)
  have hep : (to - 1) / pp < pages.length := Nat.div_lt_of_lt_mul (by rw [Nat.mul_comm]; omega)
  have hle : from_ / pp ≤ (to - 1) / pp := Nat.div_le_div_right (by omega)
  have s1 : from_ / pp * pp ≤ from_ := Nat.div_mul_le_self from_ pp
  have s2 : from_ < (from_ / pp + 1) * pp := by
    have := Nat.lt_mul_div_succ from_ hpp
    rw [Nat.mul_comm] at this; exact this
  have e1 : (to - 1) / pp * pp ≤ to - 1 := Nat.div_mul_le_self (to - 1) pp
  have e2 : to - 1 < ((to - 1) / pp + 1) * pp := by
    have := Nat.lt_mul_div_succ (to - 1) hpp
    rw [Nat.mul_comm] at this; exact this
  have hdrop := flatten_drop_pages pages pp hf (from_ / pp) hsp
  have hlen2 : pages.flatten.length = from_ / pp * pp + (pages.drop (from_ / pp)).flatten.length := by
    rw [← hdrop, List.length_drop]; omega
  have hm : (to - 1) / pp + 1 - from_ / pp = ((to - 1) / pp - from_ / pp) + 1 := by omega
  have hsum : from_ / pp + ((to - 1) / pp - from_ / pp) = (to - 1) / pp := by omega
  rw [hm, pagesFrom_slice pages pp hf ((to - 1) / pp - from_ / pp) (from_ / pp) from_ to s1 s2 hft
    (by rw [hsum]; omega) (by rw [hsum]; omega) (by rw [hsum]; exact hep) (by omega)]
  unfold sliceOf
  rw [← hdrop, List.drop_drop]
  have : from_ / pp * pp + (from_ - from_ / pp * pp) = from_ := by omega
  rw [this]
  congr 1
  omega

-- non-vacuity: three pages, a range over all of them
example : Full [[0, 1, 2, 3], [4, 5, 6, 7], [8, 9]] 4 ∧ (∀ p ∈ [[0, 1, 2, 3], [4, 5, 6, 7], [8, 9]], p.length ≤ 4) := by
  refine ⟨?_, by decide⟩
  intro pi h
  simp at h
  have : pi = 0 ∨ pi = 1 := by omega
  rcases this with rfl | rfl <;> rfl


end AnyDB.C08
