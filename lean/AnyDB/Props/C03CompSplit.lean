import AnyDB.Props.C03CompShape
namespace AnyDB.C03c
open AnyDB VecM VecM.V C07

/-- the state invariant of plain histories on a compressed vector -/
structure CInv (s : V) : Prop where
  kind : s.kind = .comp
  pp : 0 < s.perPage
  wf : PagesWF s.perPage s.pages
  stored : s.storedLen ≤ (pagesValues s.pages).length

theorem wf_get (pp : Nat) (l : List Page) (k : Nat) (p : Page) (h : PagesWF pp l) (hk : l[k]? = some p) :
    p.content.length = p.values ∧ p.values ≤ pp ∧ (k + 1 < l.length → p.values = pp) := by
  induction l generalizing k with
  | nil => simp at hk
  | cons a t ih =>
    obtain ⟨h1, h2, h3, h4⟩ := wf_cons pp a t h
    cases k with
    | zero =>
      simp at hk; subst hk
      exact ⟨h1, h2, fun hl => h3 (by intro he; rw [he] at hl; simp at hl)⟩
    | succ j =>
      simp only [List.getElem?_cons_succ] at hk
      obtain ⟨g1, g2, g3⟩ := ih j h4 hk
      exact ⟨g1, g2, fun hl => g3 (by simp at hl; omega)⟩

/-- the first `storedLen` decoded values = the pages before the write position, then the kept part of the page at it -/
theorem stored_split (s : V) (h : CInv s) :
    let spi := s.storedLen / s.perPage
    let pl := s.storedLen % s.perPage
    let values0 := (match s.pages[spi]? with | some page => page.content.take pl | none => [])
    (pagesValues s.pages).take s.storedLen = pagesValues (s.pages.take spi) ++ values0 ∧
    (pagesValues (s.pages.take spi)).length = spi * s.perPage ∧ values0.length = pl ∧ AllFull s.perPage (s.pages.take spi) := by
  intro spi pl values0
  have hdm : s.storedLen = spi * s.perPage + pl := by
    have := Nat.div_add_mod s.storedLen s.perPage
    rw [Nat.mul_comm] at this; exact this.symm
  have hpl : pl < s.perPage := Nat.mod_lt _ h.pp
  have hL := pv_length_le s.perPage s.pages h.wf
  have hst := h.stored
  cases hp : s.pages[spi]? with
  | some page =>
    have hk : spi < s.pages.length := by rw [List.getElem?_eq_some_iff] at hp; exact hp.1
    have hfull := full_take s.perPage s.pages spi h.wf hk
    have hA : (pagesValues (s.pages.take spi)).length = spi * s.perPage := by
      rw [pv_full_length _ _ hfull, List.length_take]; congr 1; omega
    obtain ⟨g1, g2, g3⟩ := wf_get s.perPage s.pages spi page h.wf hp
    have hsplit := pv_split s.pages spi page hp
    have hplc : pl ≤ page.content.length := by
      by_cases hlast : spi + 1 < s.pages.length
      · rw [g1, g3 hlast]; omega
      · have : s.pages.drop (spi + 1) = [] := List.drop_eq_nil_of_le (by omega)
        rw [this, pv_nil, List.append_nil] at hsplit
        rw [hsplit, List.length_append, hA] at hst
        omega
    have hv0 : values0 = page.content.take pl := by simp only [values0, hp]
    refine ⟨?_, hA, by rw [hv0, List.length_take]; omega, hfull⟩
    rw [hv0, hsplit, hdm, List.append_assoc, ← hA, List.take_length_add_append, List.take_append_of_le_length hplc]
  | none =>
    have hk : s.pages.length ≤ spi := by
      cases hlt : decide (spi < s.pages.length) with
      | true => have := of_decide_eq_true hlt; rw [List.getElem?_eq_getElem this] at hp; cases hp
      | false => have := of_decide_eq_false hlt; omega
    have hmul : s.pages.length * s.perPage ≤ spi * s.perPage := Nat.mul_le_mul_right _ hk
    have hv0 : values0 = [] := by simp only [values0, hp]
    have htk : s.pages.take spi = s.pages := List.take_of_length_le hk
    have hfull := full_of_length s.perPage s.pages h.wf (by omega)
    have hLe := pv_full_length _ _ hfull
    refine ⟨?_, by rw [htk, hLe]; omega, by rw [hv0]; simp; omega, by rw [htk]; exact hfull⟩
    rw [hv0, htk, List.append_nil, List.take_of_length_le (by omega)]

end AnyDB.C03c
