import AnyDB.Model.Codec
import AnyDB.Model.Vec
import AnyDB.Generated.VecConsts

/-!
# C17 — on-disk codecs round-trip every valid value and reject garbage without panicking

Model: `AnyDB/Model/Codec.lean` over the field layout extracted from the Rust source
(`Generated/Consts.lean`: `metaFields`, `metaIdOffset`, `MAX_REGION_ID_LEN`, `PAGE_SIZE`, …).

* `C17_le_rt`        — every `w`-byte little-endian integer below `256^w` decodes to itself
                        (`u8 … u128`, `usize`, `Stamp`, `Version`, and by bit pattern `i*`, `f32`, `f64`);
* `C17_le_len`       — a slice of the wrong length is refused (`WrongLength`), never read out of bounds;
* `C17_array_rt`     — `[u8; n]` round-trips for every `n`, wrong lengths are refused;
* `C17_meta_rt`      — every valid metadata entry (aligned start, page-multiple reserve ≥ one page,
                        len ≤ reserve, UTF-8 name ≤ 1024 bytes, fields < 2^64) decodes to itself;
* `C17_meta_valid`   — whatever bytes are decoded successfully satisfy the validity rules;
* `C17_meta_size`    — any input that is not exactly one slot long is refused;
* `C17_fill_independent` — at open each slot is decoded on its own: the outcome for slot `i` depends on
                        slot `i` only, so an invalid slot never disturbs a valid one;
* `C17_header_rt`, `C17_page_rt`, `C17_format_rt` (all 256 byte values), `C17_page_total`.
* `C17_layout`       — the extracted field layout is the one the model hard-codes (offsets 0/8/16/24, id at 32).

Totality ("never panics, never reads past the input"): every model function is total and indexes
only through `take`/`drop`; the correspondence runs the real decoders under `catch_unwind` on
valid, boundary and mutated encodings and compares result kinds and fields.
-/
namespace AnyDB.C17
open AnyDB Codec Gen

theorem leBytes_length (w n : Nat) : (leBytes w n).length = w := by
  induction w generalizing n with
  | zero => rfl
  | succ k ih => simp [leBytes, ih]

theorem C17_le_rt (w n : Nat) (h : n < 256 ^ w) : leVal (leBytes w n) = n := by
  induction w generalizing n with
  | zero => simp at h; subst h; rfl
  | succ k ih =>
    simp only [leBytes, leVal]
    have h1 : n / 256 < 256 ^ k := by
      rw [Nat.pow_succ] at h
      exact Nat.div_lt_of_lt_mul (by omega)
    rw [ih _ h1]
    have : (UInt8.ofNat (n % 256)).toNat = n % 256 := by
      simp [UInt8.toNat_ofNat]
    rw [this]
    omega

theorem C17_le_dec (w n : Nat) (h : n < 256 ^ w) : decLE w (leBytes w n) = some n := by
  unfold decLE; simp [leBytes_length, C17_le_rt w n h]

theorem C17_le_len (w : Nat) (bs : List UInt8) (h : bs.length ≠ w) : decLE w bs = none := by
  unfold decLE; simp [h]

theorem C17_array_rt (n : Nat) (bs : List UInt8) : decArray n bs = (if bs.length = n then some bs else none) := rfl

/-! ### slicing an encoded record -/

theorem slice_mid (pre x rest : List UInt8) (off w : Nat) (hp : pre.length = off) (hx : x.length = w) :
    ((pre ++ (x ++ rest)).drop off).take w = x := by
  subst hp; subst hx
  rw [List.drop_left, List.take_left]

theorem field_first (x rest : List UInt8) (w : Nat) (hx : x.length = w) : field (x ++ rest) 0 w = leVal x := by
  unfold field; subst hx; rw [List.drop_zero, List.take_left]

theorem field_mid (pre x rest : List UInt8) (off w : Nat) (hp : pre.length = off) (hx : x.length = w) :
    field (pre ++ (x ++ rest)) off w = leVal x := by
  unfold field; rw [slice_mid pre x rest off w hp hx]

/-! ### region metadata -/

structure ValidMeta (m : Meta) : Prop where
  s64 : m.start < 2 ^ 64
  l64 : m.len < 2 ^ 64
  r64 : m.reserved < 2 ^ 64
  sAl : m.start % PAGE_SIZE = 0
  rMin : PAGE_SIZE ≤ m.reserved
  rAl : m.reserved % PAGE_SIZE = 0
  lenLe : m.len ≤ m.reserved
  idLen : m.id.length ≤ MAX_REGION_ID_LEN
  idUtf8 : validUtf8 m.id = true

theorem encMeta_shape (m : Meta) (h : m.id.length ≤ MAX_REGION_ID_LEN) :
    encMeta m = leBytes 8 m.start ++ (leBytes 8 m.len ++ (leBytes 8 m.reserved ++ (leBytes 8 m.id.length ++
      (m.id ++ List.replicate (SIZE_OF_REGION_METADATA - (32 + m.id.length)) 0)))) := by
  have e : (leBytes 8 m.start ++ leBytes 8 m.len ++ leBytes 8 m.reserved ++ leBytes 8 m.id.length ++ m.id).length = 32 + m.id.length := by
    simp only [List.length_append, leBytes_length]
  unfold encMeta
  simp only []
  rw [e]
  simp only [List.append_assoc]

theorem encMeta_length (m : Meta) (h : m.id.length ≤ MAX_REGION_ID_LEN) : (encMeta m).length = SIZE_OF_REGION_METADATA := by
  rw [encMeta_shape m h]
  simp only [List.length_append, leBytes_length, List.length_replicate]
  have : MAX_REGION_ID_LEN = 1024 := rfl
  have : SIZE_OF_REGION_METADATA = 4096 := rfl
  omega

theorem C17_meta_rt (m : Meta) (v : ValidMeta m) : decMeta (encMeta m) = .ok m := by
  have hidl := v.idLen
  have hM : MAX_REGION_ID_LEN = 1024 := rfl
  have hS : SIZE_OF_REGION_METADATA = 4096 := rfl
  have hP : PAGE_SIZE = 4096 := rfl
  have hO : metaIdOffset = 32 := rfl
  have hlen := encMeta_length m hidl
  have hshape := encMeta_shape m hidl
  have p64 : (256 : Nat) ^ 8 = 2 ^ 64 := by decide
  -- the four fixed fields and the name
  have f0 : field (encMeta m) 0 8 = m.start := by
    rw [hshape]
    rw [field_first _ _ 8 (leBytes_length _ _), C17_le_rt 8 _ (by rw [p64]; exact v.s64)]
  have f1 : field (encMeta m) 8 8 = m.len := by
    rw [hshape]
    rw [field_mid (leBytes 8 m.start) (leBytes 8 m.len) _ 8 8 (leBytes_length _ _) (leBytes_length _ _)]
    exact C17_le_rt 8 _ (by rw [p64]; exact v.l64)
  have f2 : field (encMeta m) 16 8 = m.reserved := by
    rw [hshape, ← List.append_assoc]
    rw [field_mid (leBytes 8 m.start ++ leBytes 8 m.len) (leBytes 8 m.reserved) _ 16 8 (by simp [leBytes_length]) (leBytes_length _ _)]
    exact C17_le_rt 8 _ (by rw [p64]; exact v.r64)
  have f3 : field (encMeta m) 24 8 = m.id.length := by
    rw [hshape, ← List.append_assoc, ← List.append_assoc]
    rw [field_mid (leBytes 8 m.start ++ leBytes 8 m.len ++ leBytes 8 m.reserved) (leBytes 8 m.id.length) _ 24 8 (by simp [leBytes_length]) (leBytes_length _ _)]
    exact C17_le_rt 8 _ (by rw [p64]; omega)
  have fid : ((encMeta m).drop 32).take m.id.length = m.id := by
    rw [hshape, ← List.append_assoc, ← List.append_assoc, ← List.append_assoc]
    exact slice_mid (leBytes 8 m.start ++ leBytes 8 m.len ++ leBytes 8 m.reserved ++ leBytes 8 m.id.length) m.id _ 32 _
      (by simp [leBytes_length]) rfl
  unfold decMeta
  simp only [hlen, ne_eq, not_true_eq_false, if_false, f0, f1, f2, f3, hO, fid]
  have hne : ¬ (m.start = 0 ∧ m.len = 0 ∧ m.reserved = 0 ∧ m.id.length = 0) := by
    intro h; have := v.rMin; omega
  have h2 : ¬ m.id.length > MAX_REGION_ID_LEN := by omega
  have h3 : ¬ 32 + m.id.length > SIZE_OF_REGION_METADATA := by omega
  have h4 : ¬ m.reserved < PAGE_SIZE := by have := v.rMin; omega
  have h5 : ¬ m.len > m.reserved := by have := v.lenLe; omega
  simp only [hne, h2, h3, h4, h5, v.idUtf8, v.sAl, v.rAl, if_false, Bool.not_true, Bool.false_eq_true, ne_eq, not_true_eq_false]

theorem C17_meta_size (bs : List UInt8) (h : bs.length ≠ SIZE_OF_REGION_METADATA) : decMeta bs = .error .invalidSize := by
  unfold decMeta; simp [h]

/-- whatever decodes, satisfies the validity rules -/
theorem C17_meta_valid (bs : List UInt8) (m : Meta) (h : decMeta bs = .ok m) :
    m.start % PAGE_SIZE = 0 ∧ PAGE_SIZE ≤ m.reserved ∧ m.reserved % PAGE_SIZE = 0 ∧ m.len ≤ m.reserved ∧
    m.id.length ≤ MAX_REGION_ID_LEN ∧ validUtf8 m.id = true := by
  unfold decMeta at h
  simp only [] at h
  split at h; · simp at h
  split at h; · simp at h
  split at h; · simp at h
  split at h; · simp at h
  split at h; · simp at h
  split at h; · simp at h
  split at h; · simp at h
  split at h; · simp at h
  split at h; · simp at h
  simp only [Except.ok.injEq] at h
  subst h
  simp only []
  rename_i h1 h2 h3 h4 h5 h6 h7 h8 h9
  refine ⟨by omega, by omega, by omega, by omega, ?_, by simpa using h5⟩
  simp only [List.length_take]
  omega

/-- a slot's fate at open depends on that slot only -/
theorem C17_fill_independent (a b : List (List UInt8)) (i : Nat) (h : a[i]? = b[i]?) :
    (fill a)[i]? = (fill b)[i]? := by
  unfold fill; simp [List.getElem?_map, h]

theorem C17_fill_length (a : List (List UInt8)) : (fill a).length = a.length := by unfold fill; simp

/-! ### header, page entry, format byte -/

theorem C17_format_rt (b : UInt8) (f : Format) : decFormat b = some f ↔ b = encFormat f := by
  constructor
  · intro h
    unfold decFormat at h
    split at h
    · rename_i hb; simp at h; subst h; simpa [encFormat] using hb
    · split at h
      · rename_i hb; simp at h; subst h; simpa [encFormat] using hb
      · split at h
        · rename_i hb; simp at h; subst h; simpa [encFormat] using hb
        · split at h
          · rename_i hb; simp at h; subst h; simpa [encFormat] using hb
          · split at h
            · rename_i hb; simp at h; subst h; simpa [encFormat] using hb
            · simp at h
  · intro h; subst h; cases f <;> rfl

theorem C17_format_enc (f : Format) : decFormat (encFormat f) = some f := by cases f <;> rfl

theorem C17_header_rt (h : Header) (h1 : h.headerVersion < 2 ^ 32) (h2 : h.vecVersion < 2 ^ 32)
    (h3 : h.computedVersion < 2 ^ 32) (h4 : h.stamp < 2 ^ 64) : decHeader (encHeader h) = .ok h := by
  have p32 : (256 : Nat) ^ 4 = 2 ^ 32 := by decide
  have p64 : (256 : Nat) ^ 8 = 2 ^ 64 := by decide
  have shape : encHeader h = leBytes 4 h.headerVersion ++ (leBytes 4 h.vecVersion ++ (leBytes 4 h.computedVersion ++
      (leBytes 8 h.stamp ++ ([encFormat h.format] ++ List.replicate 11 0)))) := by
    unfold encHeader; simp only [List.append_assoc]
  have hl : (encHeader h).length = 32 := by rw [shape]; simp [leBytes_length]
  have f0 : field (encHeader h) 0 4 = h.headerVersion := by
    rw [shape]
    rw [field_first _ _ 4 (leBytes_length _ _), C17_le_rt 4 _ (by rw [p32]; exact h1)]
  have f1 : field (encHeader h) 4 4 = h.vecVersion := by
    rw [shape, field_mid (leBytes 4 h.headerVersion) (leBytes 4 h.vecVersion) _ 4 4 (leBytes_length _ _) (leBytes_length _ _)]
    exact C17_le_rt 4 _ (by rw [p32]; exact h2)
  have f2 : field (encHeader h) 8 4 = h.computedVersion := by
    rw [shape, ← List.append_assoc,
      field_mid (leBytes 4 h.headerVersion ++ leBytes 4 h.vecVersion) (leBytes 4 h.computedVersion) _ 8 4 (by simp [leBytes_length]) (leBytes_length _ _)]
    exact C17_le_rt 4 _ (by rw [p32]; exact h3)
  have f3 : field (encHeader h) 12 8 = h.stamp := by
    rw [shape, ← List.append_assoc, ← List.append_assoc,
      field_mid (leBytes 4 h.headerVersion ++ leBytes 4 h.vecVersion ++ leBytes 4 h.computedVersion) (leBytes 8 h.stamp) _ 12 8 (by simp [leBytes_length]) (leBytes_length _ _)]
    exact C17_le_rt 8 _ (by rw [p64]; exact h4)
  have ff : ((encHeader h).drop 20).headD 0 = encFormat h.format := by
    rw [shape, ← List.append_assoc, ← List.append_assoc, ← List.append_assoc]
    have : (leBytes 4 h.headerVersion ++ leBytes 4 h.vecVersion ++ leBytes 4 h.computedVersion ++ leBytes 8 h.stamp).length = 20 := by
      simp [leBytes_length]
    rw [← this, List.drop_left]
    rfl
  unfold decHeader
  simp only [hl, HEADER_OFFSET, Nat.lt_irrefl, if_false, ff, C17_format_enc, f0, f1, f2, f3]

theorem C17_page_rt (p : PageE) (h1 : p.start < 2 ^ 64) (h2 : p.bytes < 2 ^ 32) (h3 : p.values < 2 ^ 31) :
    decPage (encPage p) = some p := by
  have p32 : (256 : Nat) ^ 4 = 2 ^ 32 := by decide
  have p64 : (256 : Nat) ^ 8 = 2 ^ 64 := by decide
  have hR : RAW_FLAG = 2 ^ 31 := rfl
  have shape : encPage p = leBytes 8 p.start ++ (leBytes 4 p.bytes ++ (leBytes 4 (p.values + if p.raw then RAW_FLAG else 0) ++ [])) := by
    unfold encPage; simp
  have hl : (encPage p).length = 16 := by rw [shape]; simp [leBytes_length]
  have hv : p.values + (if p.raw then RAW_FLAG else 0) < 256 ^ 4 := by
    rw [p32]; cases p.raw <;> simp [hR] <;> omega
  have f0 : field (encPage p) 0 8 = p.start := by
    rw [shape]
    rw [field_first _ _ 8 (leBytes_length _ _), C17_le_rt 8 _ (by rw [p64]; exact h1)]
  have f1 : field (encPage p) 8 4 = p.bytes := by
    rw [shape, field_mid (leBytes 8 p.start) (leBytes 4 p.bytes) _ 8 4 (leBytes_length _ _) (leBytes_length _ _)]
    exact C17_le_rt 4 _ (by rw [p32]; exact h2)
  have f2 : field (encPage p) 12 4 = p.values + (if p.raw then RAW_FLAG else 0) := by
    rw [shape, ← List.append_assoc,
      field_mid (leBytes 8 p.start ++ leBytes 4 p.bytes) (leBytes 4 _) [] 12 4 (by simp [leBytes_length]) (leBytes_length _ _)]
    exact C17_le_rt 4 _ hv
  unfold decPage
  simp only [hl, f0, f1, f2]
  cases hr : p.raw
  · simp [hR]
    have : p.values % 2 ^ 31 = p.values := Nat.mod_eq_of_lt h3
    cases p; simp_all
  · simp [hR]
    have e1 : (p.values + 2 ^ 31) % 2 ^ 31 = p.values := by omega
    cases p; simp_all

theorem C17_page_total (bs : List UInt8) (h : bs.length < 16) : decPage bs = none := by
  unfold decPage; simp [h]

/-- the extracted layout is the one the model uses -/
theorem C17_layout : metaFields = [("start", 0, 8), ("len", 8, 8), ("reserved", 16, 8), ("id_len", 24, 8)] ∧ metaIdOffset = 32 ∧
    metaGuards = ["sizeCheck", "emptyCheck", "idLenMax", "idLenFits", "utf8", "startAligned", "reservedMin", "reservedAligned", "lenLeReserved"] := by
  decide

/-- header, page entry, format byte and raw flag: the extracted layout is the model's -/
theorem C17_layout_vec :
    headerFields = [("header_version", 0, 4), ("vec_version", 4, 4), ("computed_version", 8, 4), ("stamp", 12, 8), ("format", 20, 1)] ∧
    pageFields = [("start", 0, 8), ("bytes", 8, 4), ("values", 12, 4)] ∧
    formatBytes = [(0, "Bytes"), (1, "ZeroCopy"), (64, "Pco"), (65, "LZ4"), (66, "Zstd")] ∧
    RAW_FLAG = 2 ^ RAW_FLAG_SHIFT ∧ VecM.MAX_PAGE = MAX_UNCOMPRESSED_PAGE_SIZE ∧ changeRecordLengthGuard = 1 := by
  decide

/-- non-vacuity -/
example : ValidMeta { start := 8192, len := 4096, reserved := 4096, id := [0x72, 0xC3, 0xA9] } := by
  constructor <;> decide
example : (match decMeta [1, 2, 3] with | .error .invalidSize => true | _ => false) = true := by decide
example : validUtf8 [0xC0, 0x80] = false ∧ validUtf8 [0xED, 0xA0, 0x80] = false ∧ validUtf8 [0xF4, 0x90, 0x80, 0x80] = false := by decide

end AnyDB.C17
