import AnyDB.Model.Vec

/-!
# C03 — every storage format behaves like one reference vector at every step

Model: `AnyDB/Model/Vec.lean` (raw and compressed stored vectors).  The reference model of the
property is a growable list of optional values; `absItem s i` is what the vector shows at index
`i` (`get_any_or_read_at`: deleted → nothing; stored → overlay, else disk; buffered → `pushed`).

Proved here, for all states and arguments (no bound on lengths):

* `C03_len_push`, `C03_push_old`, `C03_push_new`   — push appends exactly one element and changes
                                                      no other index;
* `C03_update_same`, `C03_update_other`             — an accepted update shows the new value at its
                                                      index (also when the slot was deleted, stored
                                                      or still buffered) and changes no other index;
* `C03_delete_same`, `C03_delete_other`             — delete hides exactly that index;
* `C03_truncate_len`, `C03_truncate_below`          — truncate cuts the length to `min n len` and
                                                      changes no surviving index (raw and compressed);
* `C03_checkedPush_refused`                         — a checked push at the wrong index is refused
                                                      and changes nothing;
* `C03_stamp_*`                                     — the stamp is set by stamped writes only.

`write` (three regimes for compressed, overlay/holes for raw), `reset` and re-import are covered by
the correspondence (real vectors of 14 format×type combinations = compiled model = independent
reference vector after every request) — their refinement theorems (`write` preserves `absItem`)
are the next ones to be added; see DESIGN.md.
-/
namespace AnyDB.C03
open AnyDB VecM

/-- what the vector shows at index `i` -/
def absItem (s : V) (i : Nat) : Option Nat := (s.getAny i).1

/-- well-formedness needed by the statements below: deleted slots lie below the length -/
def HolesBelowLen (s : V) : Prop := ∀ h ∈ s.holes, h < s.len

theorem C03_len_push (s : V) (v : Nat) : (s.push v).len = s.len + 1 := by
  simp [V.push, V.len]; omega

theorem C03_push_old (s : V) (v i : Nat) (hi : i < s.len) : absItem (s.push v) i = absItem s i := by
  unfold absItem V.getAny V.push
  simp only []
  by_cases hh : i ∈ s.holes
  · simp only [hh, if_true]
  · simp only [hh, if_false]
    by_cases hs : i ≥ s.storedLen
    · simp only [hs, if_true]
      have : i - s.storedLen < s.pushed.length := by unfold V.len at hi; omega
      rw [List.getElem?_append_left this]
    · simp only [hs, if_false]
      unfold V.diskRead; rfl

theorem C03_push_new (s : V) (v : Nat) (hw : HolesBelowLen s) : absItem (s.push v) s.len = some v := by
  unfold absItem V.getAny V.push
  simp only []
  have hnot : s.len ∉ s.holes := by
    intro hc; have := hw _ hc; omega
  simp only [hnot, if_false]
  have h1 : s.len ≥ s.storedLen := by unfold V.len; omega
  simp only [h1, if_true]
  have : s.len - s.storedLen = s.pushed.length := by unfold V.len; omega
  simp [this]

theorem mapGet_mapInsert_same (m : List (Nat × Nat)) (k v : Nat) : mapGet (mapInsert m k v) k = some v := by
  induction m with
  | nil => simp [mapInsert, mapGet]
  | cons a t ih =>
    obtain ⟨a1, a2⟩ := a
    simp only [mapInsert]
    split
    · simp [mapGet]
    · split
      · simp [mapGet]
      · rename_i h1 h2
        simp only [mapGet, List.find?_cons]
        have : (a1 == k) = false := by simp; omega
        simp only [this]
        exact ih

theorem mapGet_mapInsert_other (m : List (Nat × Nat)) (k v j : Nat) (h : j ≠ k) :
    mapGet (mapInsert m k v) j = mapGet m j := by
  induction m with
  | nil => simp [mapInsert, mapGet]; omega
  | cons a t ih =>
    obtain ⟨a1, a2⟩ := a
    simp only [mapInsert]
    split
    · simp only [mapGet, List.find?_cons]
      have : (k == j) = false := by simp; omega
      simp [this]
    · split
      · rename_i h1 h2
        subst h2
        simp only [mapGet, List.find?_cons]
        have : (k == j) = false := by simp; omega
        simp [this]
      · simp only [mapGet, List.find?_cons]
        by_cases h3 : a1 = j
        · simp [h3]
        · have : (a1 == j) = false := by simp; exact h3
          simp only [this]
          exact ih

theorem mapGet_mapErase_other (m : List (Nat × Nat)) (i j : Nat) (h : j ≠ i) :
    mapGet (mapErase m i) j = mapGet m j := by
  unfold mapGet mapErase
  induction m with
  | nil => rfl
  | cons a t ih =>
    simp only [List.filter_cons]
    by_cases ha : a.1 = i
    · have h1 : (a.1 != i) = false := by simp [ha]
      have h2 : (a.1 == j) = false := by simp; omega
      simp only [h1, Bool.false_eq_true, if_false, List.find?_cons, h2]
      exact ih
    · have h1 : (a.1 != i) = true := by simp [ha]
      simp only [h1, if_true, List.find?_cons]
      cases hc : (a.1 == j)
      · exact ih
      · rfl

theorem mem_filter_ne (l : List Nat) (i j : Nat) (hj : j ≠ i) : j ∈ l.filter (· != i) ↔ j ∈ l := by
  simp [List.mem_filter, hj]

theorem mem_setInsert (l : List Nat) (x j : Nat) : j ∈ setInsert l x ↔ j ∈ l ∨ j = x := by
  induction l with
  | nil => simp [setInsert]
  | cons a t ih =>
    simp only [setInsert]
    split
    · simp; constructor
      · rintro (h | h | h) <;> simp [h]
      · rintro ((h | h) | h) <;> simp [h]
    · split
      · rename_i h; subst h; simp; intro h; left; exact h
      · simp only [List.mem_cons, ih]
        constructor
        · rintro (h | h | h) <;> simp [h]
        · rintro ((h | h) | h) <;> simp [h]

/-- an accepted update shows the new value, whether the slot was stored, buffered or deleted -/
theorem C03_update_same (s : V) (i v : Nat) (hok : (s.updateAt i v).2 = .ok) :
    absItem (s.updateAt i v).1 i = some v := by
  unfold V.updateAt at hok ⊢
  have hni : ∀ l : List Nat, i ∉ l.filter (· != i) := by intro l; simp [List.mem_filter]
  by_cases hs : i ≥ s.storedLen
  · simp only [hs, if_true] at hok ⊢
    by_cases hp : i - s.storedLen < s.pushed.length
    · simp only [hp, if_true]
      unfold absItem V.getAny
      simp only [hni, if_false, hs, if_true]
      simp [hp]
    · simp [hp] at hok
  · simp only [hs, if_false]
    unfold absItem V.getAny
    simp only [hni, if_false, hs, mapGet_mapInsert_same]

theorem C03_update_other (s : V) (i v j : Nat) (hj : j ≠ i) :
    absItem (s.updateAt i v).1 j = absItem s j := by
  unfold V.updateAt
  by_cases hs : i ≥ s.storedLen
  · simp only [hs, if_true]
    by_cases hp : i - s.storedLen < s.pushed.length
    · simp only [hp, if_true]
      unfold absItem V.getAny
      simp only [mem_filter_ne _ _ _ hj]
      by_cases hh : j ∈ s.holes
      · simp only [hh, if_true]
      · simp only [hh, if_false]
        by_cases hsj : j ≥ s.storedLen
        · simp only [hsj, if_true]
          have : i - s.storedLen ≠ j - s.storedLen := by omega
          rw [List.getElem?_set_ne this]
        · simp only [hsj, if_false]; unfold V.diskRead; rfl
    · simp only [hp, if_false]
  · simp only [hs, if_false]
    unfold absItem V.getAny
    simp only [mem_filter_ne _ _ _ hj]
    by_cases hh : j ∈ s.holes
    · simp only [hh, if_true]
    · simp only [hh, if_false]
      by_cases hsj : j ≥ s.storedLen
      · simp only [hsj, if_true]
      · simp only [hsj, if_false, mapGet_mapInsert_other _ _ _ _ hj]
        unfold V.diskRead; rfl

theorem C03_delete_same (s : V) (i : Nat) (hi : i < s.len) : absItem (s.deleteAt i) i = none := by
  unfold V.deleteAt
  simp only [hi, if_true]
  unfold absItem V.getAny V.uncheckedDeleteAt
  have : i ∈ setInsert s.holes i := (mem_setInsert _ _ _).mpr (Or.inr rfl)
  simp only [this, if_true]

theorem C03_delete_other (s : V) (i j : Nat) (hj : j ≠ i) : absItem (s.deleteAt i) j = absItem s j := by
  unfold V.deleteAt
  split
  · unfold absItem V.getAny V.uncheckedDeleteAt
    have hm : j ∈ setInsert s.holes i ↔ j ∈ s.holes := by rw [mem_setInsert]; simp [hj]
    simp only [hm]
    by_cases hh : j ∈ s.holes
    · simp only [hh, if_true]
    · simp only [hh, if_false]
      by_cases hsj : j ≥ s.storedLen
      · simp only [hsj, if_true]
      · simp only [hsj, if_false, mapGet_mapErase_other _ _ _ hj]
        unfold V.diskRead; rfl
  · rfl

theorem C03_truncate_len (s : V) (n : Nat) : (s.truncate n).len = min n s.len := by
  have key : ∀ t : V, (t.truncatePushed n).len = min n t.len := by
    intro t
    unfold V.truncatePushed V.len
    simp only []
    split
    · rename_i h; omega
    · rename_i h
      by_cases h1 : n ≤ t.storedLen
      · simp only [h1, if_true]
        by_cases h2 : n < t.storedLen
        · simp [h2]; omega
        · simp [h2]; omega
      · simp only [h1, if_false]
        have h2 : ¬ n < t.storedLen := by omega
        simp [h2]; omega
  unfold V.truncate
  cases s.kind with
  | raw =>
    simp only []
    rw [key]
    rfl
  | comp => exact key s

theorem C03_checkedPush_refused (s : V) (i v : Nat) (h : i ≠ s.len) :
    s.checkedPushAt i v = (s, .err .unexpectedIndex) := by
  unfold V.checkedPushAt; simp [h]

theorem C03_checkedPush_ok (s : V) (v : Nat) : s.checkedPushAt s.len v = (s.push v, .ok) := by
  unfold V.checkedPushAt; simp

theorem C03_stamp_push (s : V) (v : Nat) : (s.push v).stamp = s.stamp := rfl
theorem C03_stamp_truncate (s : V) (n : Nat) : (s.truncate n).stamp = s.stamp := by
  unfold V.truncate V.truncateDirtyAt V.truncatePushed
  cases s.kind <;> simp only [] <;> repeat (first | rfl | split)
theorem C03_stamp_stampedWrite (s : V) (st : Nat) : (s.updateStamp st).stamp = st := by
  unfold V.updateStamp; split
  · rename_i h; exact h
  · rfl

/-- non-vacuity: a raw vector with a stored, an overlaid, a deleted and a buffered element -/
def ex : V := { V.init .raw 8 0 with disk := [10, 11, 12], storedLen := 3, pushed := [13], holes := [1], updated := [(2, 99)] }
example : HolesBelowLen ex := by intro h hh; simp [ex, V.init] at hh; subst hh; decide
example : (List.range ex.len).map (absItem ex) = [some 10, none, some 99, some 13] := by decide
example : absItem (ex.updateAt 1 7).1 1 = some 7 := by decide

end AnyDB.C03
