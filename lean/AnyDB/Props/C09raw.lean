import AnyDB.Model.Publish

/-! Invariant proof for the raw publication model (imported by `Props/C09.lean`). -/
namespace AnyDB.C09
open AnyDB Publish

def progInPlace : List Eff := [.copy, .setLen, .publish]
def progReloc : List Eff := [.relocCopy, .copy, .move, .publish]

/-- what must hold at each point of the running write -/
def PhaseInv (s : Sys) : Prop :=
  (s.prog = [] ∧ s.pub = s.rlen ∧ s.seq.length = s.pub ∧ s.reloc = false) ∨
  (s.prog = progInPlace ∧ s.pub = s.rlen ∧ s.seq.length = s.pub ∧ s.reloc = false ∧ s.batch ≠ []) ∨
  (s.prog = [.setLen, .publish] ∧ s.pub = s.rlen ∧ s.reloc = false ∧ s.seq.length = s.pub + s.batch.length ∧
      (s.ext s.cur).take (s.pub + s.batch.length) = s.seq) ∨
  (s.prog = [.publish] ∧ s.rlen = s.pub + s.batch.length ∧ s.reloc = false ∧ s.seq.length = s.rlen) ∨
  (s.prog = progReloc ∧ s.pub = s.rlen ∧ s.seq.length = s.pub ∧ s.reloc = true ∧ s.batch ≠ []) ∨
  (s.prog = [.copy, .move, .publish] ∧ s.pub = s.rlen ∧ s.seq.length = s.pub ∧ s.reloc = true ∧
      s.ext (s.cur + 1) = s.seq) ∨
  (s.prog = [.move, .publish] ∧ s.pub = s.rlen ∧ s.reloc = true ∧ s.seq.length = s.pub + s.batch.length ∧
      s.ext (s.cur + 1) = s.seq)

structure Inv (s : Sys) : Prop where
  cur_ok : (s.ext s.cur).take s.rlen = s.seq.take s.rlen
  len_ok : s.rlen ≤ s.seq.length
  pub_ok : s.pub ≤ s.rlen
  phase : PhaseInv s
  rd_len : ∀ l, s.rL = some l → l ≤ s.pub
  rd_snap : ∀ p n, s.rP = some (p, n) → p ≤ s.cur ∧ (s.ext p).take n = s.seq.take n ∧ n ≤ s.seq.length ∧
      (p = s.cur → n ≤ s.rlen) ∧ (∀ l, s.rL = some l → l ≤ n)

theorem inv_init : Inv Sys.init := by
  refine ⟨by simp [Sys.init], by simp [Sys.init], by simp [Sys.init], ?_, by simp [Sys.init], by simp [Sys.init]⟩
  left; simp [Sys.init]

end AnyDB.C09
