import AnyDB.Lemmas.RegionErrors
import AnyDB.Props.C02Run

/-!
# C01 — every region reads back exactly its own bytes, for EVERY history (refinement of the rawdb model)

The reference model of the property is `refStep` (`Lemmas/RegionView.lean`): a list of named, independent byte vectors
(`List (Option (RegionId × List UInt8))`, indexed like the region slots).  Each request touches at most the one entry it
names: create adds an empty vector, the three writes splice into one vector (`refWrite`) or are refused beyond its end,
truncate cuts one vector, rename changes one name, remove drops one entry, retain drops the entries not kept; flush,
region flush, compact, file growth change nothing.

`viewAt s idx` is what the model database shows for slot `idx`: the region's name and the bytes a reader sees in
`[start, start+len)` of the mapped file (`none` for a byte beyond the end of the file).

`C01_step` (`rel_step`): from ANY state that shows a reference `r` and satisfies the invariant `RInv` (the layout invariant
of C02 + every region's contents lie inside its reservation and inside the file), every request whose answer is a success
or an API refusal leads to a state that shows `refStep r op` and satisfies `RInv` again.  The four placement paths of
`write_with` (fits / extend the last region / expand into the adjacent hole / relocate with copy) all reduce to one
lemma (`rel_write_generic`): the written window and the copy land inside the region's NEW extent, and the new extent is
apart from every other live region because the layout invariant holds in the state AFTER the operation
(`linv_writeWith` from C02).  Hole punching (`compact`) only hits region tails beyond `ceil_page(len)` and free extents,
both apart from every region's contents (`quiet_punchHoles`).

`C01_run_partial`: after EVERY history from the empty database without `reopen` whose answers are successes or API
refusals, every slot shows exactly the reference's entry — same name, same length, same bytes, every byte inside the
file — and slots the reference does not have are absent.
`C01_isolated`: in the reference a request changes no entry but the one it names (so neither does the database).

`C01_history_partial` weakens the hypothesis to what a caller can observe: no request panics and none answers
`RegionSizeOverflow` (a region beyond 2^63 bytes).  Under the invariant every other answer IS a success or an API refusal:
the internal error answers `HoleTooSmall`, `OverlappingCopyRanges`, `RegionIndexMismatch`, `InvariantViolation` cannot
occur (`Lemmas/RegionErrors.lean`: the best-fitting hole is large enough, the copy ranges are apart because the
reservation and the region are apart, the start map answers with the region itself, reservations are positive).

What is missing for the full statement: `reopen` after flush (needs the invariant tying the metadata file to the slots;
validated by the correspondence and by C05's crash engine), and panic-freedom itself (the `write_to_mmap` bound needs
"every extent lies inside the file", not proved here; the lock-step run has never seen a panic on the fixed tree).
-/
namespace AnyDB.C01r
open AnyDB Conc Db C02r Mem

/-- every answer of the history is a success or an API refusal -/
def NormalRun (s : Db) : List Op → Prop
  | [] => True
  | op :: t => Normal (step s op).2 ∧ NormalRun (step s op).1 t

/-- what the database shows, slot by slot -/
def view (s : Db) : List (Option (RegionId × List (Option UInt8))) := (List.range s.slots.length).map (viewAt s)

/-- the reference after a history -/
def refRun (ops : List Op) : Ref := ops.foldl refStep []

theorem rel_init : Rel Db.init [] ∧ RInv Db.init :=
  ⟨⟨rfl, fun idx => by simp [viewAt, Db.slot?, Db.init]⟩, ⟨linv_init, fun idx sl h => by simp [Db.slot?, Db.init] at h⟩⟩

/-- C01, one step, from any state of the invariant -/
theorem C01_step (s : Db) (r : Ref) (op : Op) (hrel : Rel s r) (hinv : RInv s) (hno : ∀ n, op ≠ .reopen n)
    (hn : Normal (step s op).2) : Rel (step s op).1 (refStep r op) ∧ RInv (step s op).1 :=
  rel_step s r op hrel hinv hno hn

theorem rel_run (s : Db) (r : Ref) (ops : List Op) (hrel : Rel s r) (hinv : RInv s) (hr : NoReopen ops) (hn : NormalRun s ops) :
    Rel (run s ops) (ops.foldl refStep r) ∧ RInv (run s ops) := by
  induction ops generalizing s r with
  | nil => exact ⟨hrel, hinv⟩
  | cons op t ih =>
    obtain ⟨h1, h2⟩ := rel_step s r op hrel hinv (hr op (List.mem_cons_self ..)) hn.1
    have : run s (op :: t) = run (step s op).1 t := rfl
    rw [this, List.foldl_cons]
    exact ih _ _ h1 h2 (fun o ho => hr o (List.mem_cons_of_mem _ ho)) hn.2

theorem view_of_rel (s : Db) (r : Ref) (h : Rel s r) : view s = r.map (Option.map liftE) := by
  apply List.ext_getElem?
  intro j
  unfold view
  rw [List.getElem?_map, List.getElem?_map]
  by_cases hj : j < s.slots.length
  · have hj' : j < r.length := by rw [h.1]; exact hj
    have hrange : (List.range s.slots.length)[j]? = some j := by simp [hj]
    rw [hrange, List.getElem?_eq_getElem hj']
    simp only [Option.map_some]
    have := h.2 j
    rw [List.getElem?_eq_getElem hj'] at this
    rw [this]; rfl
  · rw [List.getElem?_eq_none (by simp; omega), List.getElem?_eq_none (by rw [h.1]; omega)]; rfl

/-- C01 for every history without `reopen` whose answers are successes or API refusals:
the database shows exactly the reference — names, lengths, bytes, all inside the file -/
theorem C01_run_partial (ops : List Op) (hr : NoReopen ops) (hn : NormalRun Db.init ops) :
    view (run Db.init ops) = (refRun ops).map (Option.map liftE) :=
  view_of_rel _ _ (rel_run Db.init [] ops rel_init.1 rel_init.2 hr hn).1

/-- … and the model state keeps the invariant (extents disjoint, contents inside reservation and file) -/
theorem C01_run_inv (ops : List Op) (hr : NoReopen ops) (hn : NormalRun Db.init ops) : RInv (run Db.init ops) :=
  (rel_run Db.init [] ops rel_init.1 rel_init.2 hr hn).2


/-- no request of the history panics or answers `RegionSizeOverflow` -/
def FineRun (s : Db) : List Op → Prop
  | [] => True
  | op :: t => Fine (step s op).2 ∧ FineRun (step s op).1 t

theorem normalRun_of_fine (s : Db) (r : Ref) (ops : List Op) (hrel : Rel s r) (hinv : RInv s) (hr : NoReopen ops) (hf : FineRun s ops) :
    NormalRun s ops := by
  induction ops generalizing s r with
  | nil => trivial
  | cons op t ih =>
    have hn := normal_of_fine s op hinv hf.1
    obtain ⟨h1, h2⟩ := rel_step s r op hrel hinv (hr op (List.mem_cons_self ..)) hn
    exact ⟨hn, ih _ _ h1 h2 (fun o ho => hr o (List.mem_cons_of_mem _ ho)) hf.2⟩

/-- C01 for every history without `reopen` in which no request panics or answers `RegionSizeOverflow`:
the database shows exactly the reference byte vectors, and no internal error answer occurs on the way -/
theorem C01_history_partial (ops : List Op) (hr : NoReopen ops) (hf : FineRun Db.init ops) :
    view (run Db.init ops) = (refRun ops).map (Option.map liftE) ∧ NormalRun Db.init ops ∧ RInv (run Db.init ops) := by
  have hn := normalRun_of_fine Db.init [] ops rel_init.1 rel_init.2 hr hf
  exact ⟨C01_run_partial ops hr hn, hn, C01_run_inv ops hr hn⟩

/-- isolation in the reference: a request that names region `id` changes no other entry -/
theorem refOn_other (r : Ref) (id : RegionId) (f) (i j : Nat) (h : refFind r id = some i) (hj : j ≠ i) :
    (refOn r id f)[j]? = r[j]? := by
  unfold refOn; rw [h]
  simp only
  split
  · rfl
  · rw [List.getElem?_set_ne (Ne.symm hj)]

theorem C01_isolated (r : Ref) (op : Op) (id : RegionId) (i j : Nat) (h : refFind r id = some i) (hj : j ≠ i)
    (hop : (∃ d, op = .write id d) ∨ (∃ a d, op = .writeAt id a d) ∨ (∃ a d, op = .truncateWrite id a d) ∨
      (∃ n, op = .truncate id n) ∨ (∃ n, op = .rename id n) ∨ op = .remove id) :
    (refStep r op)[j]? = r[j]? := by
  rcases hop with ⟨d, rfl⟩ | ⟨a, d, rfl⟩ | ⟨a, d, rfl⟩ | ⟨n, rfl⟩ | ⟨n, rfl⟩ | rfl <;> simp only [refStep]
  · exact refOn_other r id _ i j h hj
  · exact refOn_other r id _ i j h hj
  · exact refOn_other r id _ i j h hj
  · exact refOn_other r id _ i j h hj
  · split
    · rfl
    · exact refOn_other r id _ i j h hj
  · exact refOn_other r id _ i j h hj

instance : DecidablePred Normal := fun o => by
  cases o <;> unfold Normal <;> infer_instance

instance decNormalRun : (s : Db) → (ops : List Op) → Decidable (NormalRun s ops)
  | _, [] => isTrue trivial
  | s, op :: t => by
    unfold NormalRun
    exact @instDecidableAnd _ _ _ (decNormalRun (step s op).1 t)

-- non-vacuity 1: a history from the empty database (creation, rename, removal, flush, reuse) meets the hypotheses
example : NormalRun Db.init [Op.create [97], .create [98], .rename [97] [99], .remove [98], .flush, .create [100], .truncate [99] 0] ∧
    refRun [Op.create [97], .create [98], .rename [97] [99], .remove [98], .flush, .create [100], .truncate [99] 0]
      = [some ([99], []), some ([100], [])] := by
  refine ⟨by decide, by decide⟩

end AnyDB.C01r
