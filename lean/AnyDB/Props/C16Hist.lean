import AnyDB.Props.C16Dir
namespace AnyDB.C16w
open AnyDB VecM VecM.V C03c C04c C07

theorem takeLast_length_le {α : Type} (k : Nat) (l : List α) : (takeLast k l).length ≤ k := by
  unfold takeLast; rw [List.length_drop]; omega

theorem takeLast_of_le {α : Type} (k : Nat) (l : List α) (h : l.length ≤ k) : takeLast k l = l := by
  unfold takeLast
  have : l.length - k = 0 := by omega
  rw [this]; rfl

theorem takeLast_takeLast_append_gen {α : Type} (k : Nat) (X R : List α) : takeLast k (takeLast k X ++ R) = takeLast k (X ++ R) := by
  unfold takeLast
  simp only [List.length_append, List.length_drop]
  rw [List.drop_append, List.drop_append, List.drop_drop, List.length_drop]
  congr 1
  · congr 1; omega
  · congr 1; omega

/-! ## the history of a compressed vector: rounds of edits and commits -/

structure Entry where
  stamp : Nat
  bytes : List UInt8
  ch : Change
  before : SnapC

def Entry.pair (e : Entry) : Nat × List UInt8 := (e.stamp, e.bytes)

/-- run the rounds; returns the final state and, NEWEST first, for every commit its stamp, the bytes of its record, the
record and the snapshot the commit left behind it -/
def hist (p : V) : List Round → V × List Entry
  | [] => (p, [])
  | r :: t =>
    let s := r.1.foldl applyP p
    let q := hist (s.commit r.2.1 r.2.2).1 t
    (q.1, q.2 ++ [⟨r.2.1, s.serializeChanges.1, recordOfC s, ⟨p.stamp, shown p⟩⟩])

/-- the stamps of the rounds increase strictly, starting above `lo` -/
def Incr : Nat → List Round → Prop
  | _, [] => True
  | lo, r :: t => lo < r.2.1 ∧ Incr r.2.1 t

theorem edits_frame (p : V) (es : List PEdit) (hk : p.kind = .comp) :
    (es.foldl applyP p).changes = p.changes ∧ (es.foldl applyP p).keep = p.keep ∧ (es.foldl applyP p).stamp = p.stamp ∧
    (es.foldl applyP p).kind = .comp := by
  induction es generalizing p with
  | nil => exact ⟨rfl, rfl, rfl, hk⟩
  | cons e t ih =>
    simp only [List.foldl_cons]
    have h1 : (applyP p e).changes = p.changes ∧ (applyP p e).keep = p.keep ∧ (applyP p e).stamp = p.stamp ∧ (applyP p e).kind = .comp := by
      cases e with
      | push v => exact ⟨rfl, rfl, rfl, hk⟩
      | truncate n =>
        simp only [applyP]
        unfold V.truncate
        rw [hk]
        simp only []
        unfold truncatePushed
        split
        · exact ⟨rfl, rfl, rfl, hk⟩
        · simp only []
          split <;> split <;> exact ⟨rfl, rfl, rfl, hk⟩
    obtain ⟨a1, a2, a3, a4⟩ := h1
    obtain ⟨b1, b2, b3, b4⟩ := ih (applyP p e) a4
    exact ⟨b1.trans a1, b2.trans a2, b3.trans a3, b4⟩

/-- **the change directory after any number of rounds**: the last `keep` records, oldest first -/
theorem hist_dir (p : V) (rs : List Round) (lo : Nat) (hb : BaseC p) (hok : RoundsOK p rs) (hin : Incr lo rs)
    (hlo : ∀ x ∈ p.changes, x.1 ≤ lo) (hlen : p.changes.length ≤ p.keep) :
    (hist p rs).1.changes = takeLast p.keep (p.changes ++ ((hist p rs).2.map Entry.pair).reverse) ∧ (hist p rs).1.keep = p.keep := by
  induction rs generalizing p lo with
  | nil =>
    simp only [hist, List.map_nil, List.reverse_nil, List.append_nil]
    exact ⟨(takeLast_of_le _ _ hlen).symm, trivial⟩
  | cons r t ih =>
    obtain ⟨hkeep, hrec, hrest⟩ := hok
    obtain ⟨hlt, hin'⟩ := hin
    obtain ⟨hsince, hi, hsy, _⟩ := since_edits p r.1 hb
    obtain ⟨e1, e2, e3, e4⟩ := edits_frame p r.1 hb.inv.kind
    obtain ⟨⟨b, hcb⟩, _, hic, hsyc, _, hpu, hpsl, hpp, _, _, _⟩ :=
      commit_facts p (r.1.foldl applyP p) r.2.1 r.2.2 hb.inv hsince hi hsy hkeep hrec
    have hbc : BaseC ((r.1.foldl applyP p).commit r.2.1 r.2.2).1 := ⟨hic, hsyc, hpsl, by rw [hpp, hpu]⟩
    obtain ⟨d1, d2, d3⟩ := commit_dir (r.1.foldl applyP p) r.2.1 r.2.2 b hsince.kind hkeep hcb
    have hk1 : 1 ≤ p.keep := by rw [← e2]; omega
    have hfilter : (r.1.foldl applyP p).changes.filter (·.1 < r.2.1) = p.changes := by
      rw [e1, List.filter_eq_self]
      intro x hx
      have := hlo x hx
      simp only [decide_eq_true_eq]; omega
    have hc : ((r.1.foldl applyP p).commit r.2.1 r.2.2).1.changes = takeLast p.keep (p.changes ++ [(r.2.1, (r.1.foldl applyP p).serializeChanges.1)]) := by
      rw [d1, hfilter, e2, takeLast_append_one _ _ _ hk1]; rfl
    have hkc : ((r.1.foldl applyP p).commit r.2.1 r.2.2).1.keep = p.keep := by rw [d2, e2]
    obtain ⟨i1, i2⟩ := ih _ r.2.1 hbc hrest hin' (by
      intro x hx
      rw [hc] at hx
      have hx' := List.mem_of_mem_drop hx
      rcases List.mem_append.mp hx' with h | h
      · have := hlo x h; omega
      · simp only [List.mem_singleton] at h; rw [h]; exact Nat.le_refl _) (by rw [hc, hkc]; exact takeLast_length_le _ _)
    simp only [hist]
    refine ⟨?_, by rw [i2, hkc]⟩
    rw [i1, hkc, hc, takeLast_takeLast_append_gen]
    simp only [List.map_append, List.map_cons, List.map_nil, List.reverse_append, List.reverse_cons, List.reverse_nil, List.nil_append,
      List.singleton_append, List.append_assoc]
    rfl

end AnyDB.C16w
