import AnyDB.Props.C03Write
import AnyDB.Props.C04

/-!
# C04, raw formats — the undo, and one commit / rollback pair end to end

Second file of C04 (it builds on the staged raw `write()` of `Props/C20.lean` and on `Props/C03Write.lean`).

* `undo_raw_eq`            the raw branch of `deserialize_then_undo_changes` is: cut the overlay back, restore stamp /
                           stored length / buffer, insert the truncated tail into the overlay, replay the recorded
                           modifications, restore the deleted slots (`undoRaw`, definitionally);
* `C04_raw_undo_items`     for EVERY state and EVERY record whose modifications address stored slots of the previous
                           state (each once): the undo succeeds, restores the recorded stamp, stored length, buffer and
                           deleted slots, leaves the region untouched, and every index reads `restored s ch i` — the
                           record's own value where it has one (modified slots, then the truncated tail), the slot's
                           current value everywhere else;
* `writeRaw_spec`, `written_of_write`   the written state field by field;
* `C04_commit_rollback_raw` one commit / rollback pair: `p` cleanly committed; any state `s` reached from it by
                           pushes, truncations, updates, deletions (`After`, kept by every such edit: `after_*`);
                           the next commit writes (`Written`) and files a record that describes the way back
                           (`Faithful`); then rollback: EVERY index reads exactly what it read in `p`, stamp, stored
                           length, buffer and deleted slots are `p`'s.
Not proved: that the BYTES produced by `serializeChanges` parse to a `Faithful` record (the cursor arithmetic over
the 12 fields); the last `example` runs exactly that on a concrete history with the real bytes, and the vec engine's
rollback streams do it on the real crates for all formats.  Compressed formats: `C04_comp_undo_logical` (Props/C04.lean).
-/
namespace AnyDB.C04r
open AnyDB VecM VecM.V C03 C03w C20

def insertTruncated (s : V) (ts : Nat) (tv : List Nat) : V :=
  (List.range tv.length).foldl (fun (s : V) i => { s with updated := mapInsert s.updated (ts + i) (tv.getD i 0) }) s

def applyMods (s : V) (mods : List (Nat × Nat)) : V × Out :=
  mods.foldl (fun (acc : V × Out) (kv : Nat × Nat) =>
    match acc.2 with
    | .ok => acc.1.updateAt kv.1 kv.2
    | _ => acc) (s, .ok)

def finishUndo (s : V) (ch : Change) : V :=
  let s := if !ch.prevHoles.isEmpty || !s.holes.isEmpty || !s.prevHoles.isEmpty
           then { s with holes := ch.prevHoles, prevHoles := ch.prevHoles } else s
  { s with prevUpdated := s.updated }

def undoRaw (s : V) (ch : Change) : V × Out :=
  let s := if ch.prevStoredLen < s.storedLen then s.truncateDirtyAt ch.prevStoredLen else s
  let s := s.applyRollback ch.prevStamp ch.prevStoredLen ch.prevPushed
  let s := insertTruncated s ch.truncatedStart ch.truncatedValues
  let r := applyMods s ch.mods
  match r.2 with
  | .ok => (finishUndo r.1 ch, .ok)
  | o => (r.1, o)

theorem undo_raw_eq (s : V) (bytes : List UInt8) (ch : Change) (hk : s.kind = .raw)
    (hp : parseChange s.kind s.sz bytes = .ok ch) : s.undo bytes = undoRaw s ch := by
  unfold V.undo
  rw [hp]
  simp only [hk]
  rfl


/-! ### the three stages of the raw undo on the overlay -/

theorem insertTruncated_fields (s : V) (ts : Nat) (tv : List Nat) :
    (insertTruncated s ts tv).holes = s.holes ∧ (insertTruncated s ts tv).storedLen = s.storedLen ∧
    (insertTruncated s ts tv).pushed = s.pushed ∧ (insertTruncated s ts tv).disk = s.disk ∧
    (insertTruncated s ts tv).stamp = s.stamp ∧ (insertTruncated s ts tv).prevHoles = s.prevHoles := by
  unfold insertTruncated
  generalize List.range tv.length = l
  induction l generalizing s with
  | nil => exact ⟨rfl, rfl, rfl, rfl, rfl, rfl⟩
  | cons a t ih => simp only [List.foldl_cons]; exact ih _

/-- after the first `n` truncated values went into the overlay -/
theorem insertPrefix_get (s : V) (ts : Nat) (tv : List Nat) (n : Nat) (hn : n ≤ tv.length) (i : Nat) :
    mapGet ((List.range n).foldl (fun (s : V) k => { s with updated := mapInsert s.updated (ts + k) (tv.getD k 0) }) s).updated i
      = if ts ≤ i ∧ i < ts + n then some (tv.getD (i - ts) 0) else mapGet s.updated i := by
  induction n with
  | zero =>
    have : ¬(ts ≤ i ∧ i < ts + 0) := by omega
    simp only [List.range_zero, List.foldl_nil, this, if_false]
  | succ m ih =>
    rw [List.range_succ, List.foldl_append]
    simp only [List.foldl_cons, List.foldl_nil]
    have := ih (by omega)
    by_cases hi : i = ts + m
    · subst hi
      rw [mapGet_mapInsert_same]
      have : ts ≤ ts + m ∧ ts + m < ts + (m + 1) := ⟨by omega, by omega⟩
      simp only [this, and_self, if_true]
      congr 2; omega
    · rw [mapGet_mapInsert_other _ _ _ _ hi, this]
      by_cases h1 : ts ≤ i ∧ i < ts + m
      · have h2 : ts ≤ i ∧ i < ts + (m + 1) := ⟨h1.1, by omega⟩
        simp only [h1, h2, and_self, if_true]
      · have h2 : ¬(ts ≤ i ∧ i < ts + (m + 1)) := by omega
        simp only [h1, h2, if_false]

theorem insertTruncated_get (s : V) (ts : Nat) (tv : List Nat) (i : Nat) :
    mapGet (insertTruncated s ts tv).updated i
      = if ts ≤ i ∧ i < ts + tv.length then some (tv.getD (i - ts) 0) else mapGet s.updated i :=
  insertPrefix_get s ts tv tv.length (Nat.le_refl _) i

/-- all recorded modifications address stored slots: every `update_at` succeeds, only the overlay (and the deleted
marks of the touched slots) change -/
theorem applyMods_spec (s : V) (mods : List (Nat × Nat)) (hm : ∀ kv ∈ mods, kv.1 < s.storedLen) (hd : KeysDistinct mods) :
    (applyMods s mods).2 = .ok ∧ (applyMods s mods).1.storedLen = s.storedLen ∧ (applyMods s mods).1.pushed = s.pushed ∧
    (applyMods s mods).1.disk = s.disk ∧ (applyMods s mods).1.stamp = s.stamp ∧ (applyMods s mods).1.prevHoles = s.prevHoles ∧
    ∀ i, mapGet (applyMods s mods).1.updated i = match mapGet mods i with | some v => some v | none => mapGet s.updated i := by
  unfold applyMods
  induction mods generalizing s with
  | nil => exact ⟨rfl, rfl, rfl, rfl, rfl, rfl, fun i => by simp [mapGet]⟩
  | cons kv t ih =>
    obtain ⟨k, v⟩ := kv
    have hk : k < s.storedLen := hm (k, v) (List.mem_cons_self ..)
    have hstep : s.updateAt k v = ({ s with holes := s.holes.filter (· != k), updated := mapInsert s.updated k v }, .ok) := by
      unfold updateAt
      have : ¬(k ≥ s.storedLen) := by omega
      simp only [this, if_false]
    simp only [List.foldl_cons, hstep]
    have hd' : KeysDistinct t := (List.pairwise_cons.mp hd).2
    have hkt : ∀ a ∈ t, a.1 ≠ k := fun a ha => ((List.pairwise_cons.mp hd).1 a ha).symm
    obtain ⟨g1, g2, g3, g4, g5, g6, g7⟩ := ih { s with holes := s.holes.filter (· != k), updated := mapInsert s.updated k v }
      (fun kv hkv => hm kv (List.mem_cons_of_mem _ hkv)) hd'
    refine ⟨g1, g2, g3, g4, g5, g6, ?_⟩
    intro i
    rw [g7 i, mapGet_cons]
    by_cases hki : k = i
    · subst hki
      rw [mapGet_none_of_not_mem t k hkt]
      simp [mapGet_mapInsert_same]
    · simp only [hki, if_false]
      cases mapGet t i with
      | some w => rfl
      | none => simp only; exact mapGet_mapInsert_other _ _ _ _ (Ne.symm hki)

theorem finishUndo_fields (s : V) (ch : Change) :
    (finishUndo s ch).holes = (if ch.prevHoles.isEmpty && s.holes.isEmpty && s.prevHoles.isEmpty then s.holes else ch.prevHoles) ∧
    (finishUndo s ch).storedLen = s.storedLen ∧ (finishUndo s ch).pushed = s.pushed ∧ (finishUndo s ch).disk = s.disk ∧
    (finishUndo s ch).updated = s.updated ∧ (finishUndo s ch).stamp = s.stamp := by
  unfold finishUndo
  cases h1 : ch.prevHoles.isEmpty <;> cases h2 : s.holes.isEmpty <;> cases h3 : s.prevHoles.isEmpty <;> simp


/-- the overlay the restore starts from: cut back to the previous stored length when the rolled-back commit appended -/
def baseUpdated (s : V) (ch : Change) : List (Nat × Nat) :=
  if ch.prevStoredLen < s.storedLen then s.updated.filter (fun kv => decide (kv.1 < ch.prevStoredLen)) else s.updated

/-- what index `i` reads after undoing record `ch` on state `s`: the record's own values where it has them —
modified slots first, then the truncated tail — and the current value of the slot everywhere else -/
def restored (s : V) (ch : Change) (i : Nat) : Option Nat :=
  if i ∈ ch.prevHoles then none
  else if i ≥ ch.prevStoredLen then ch.prevPushed[i - ch.prevStoredLen]?
  else match (match mapGet ch.mods i with
      | some v => some v
      | none => if ch.truncatedStart ≤ i ∧ i < ch.truncatedStart + ch.truncatedValues.length
                then some (ch.truncatedValues.getD (i - ch.truncatedStart) 0) else mapGet (baseUpdated s ch) i) with
    | some v => some v
    | none => match s.disk[i]? with | some v => some v | none => some garbage

/-- C04, the raw undo: for EVERY state and EVERY well-formed record (its modifications address stored slots of the
previous state, each once) the undo succeeds, restores the recorded stamp, stored length, buffer and deleted
slots, leaves the region untouched, and every index then reads `restored s ch i` -/
theorem C04_raw_undo_items (s : V) (bytes : List UInt8) (ch : Change) (hk : s.kind = .raw)
    (hp : parseChange s.kind s.sz bytes = .ok ch)
    (hm : ∀ kv ∈ ch.mods, kv.1 < ch.prevStoredLen) (hd : KeysDistinct ch.mods) :
    (s.undo bytes).2 = .ok ∧ (s.undo bytes).1.stamp = ch.prevStamp ∧ (s.undo bytes).1.storedLen = ch.prevStoredLen ∧
    (s.undo bytes).1.pushed = ch.prevPushed ∧ (s.undo bytes).1.holes = ch.prevHoles ∧ (s.undo bytes).1.disk = s.disk ∧
    ∀ i, ((s.undo bytes).1.getAny i).1 = restored s ch i := by
  rw [undo_raw_eq s bytes ch hk hp]
  unfold undoRaw
  simp only []
  -- stage 0/1: cut the overlay, restore stamp / stored length / buffer
  generalize hs0 : (if ch.prevStoredLen < s.storedLen then s.truncateDirtyAt ch.prevStoredLen else s) = s0
  have h0 : s0.updated = baseUpdated s ch ∧ s0.disk = s.disk := by
    rw [← hs0]; unfold baseUpdated; split
    · exact ⟨rfl, rfl⟩
    · exact ⟨rfl, rfl⟩
  obtain ⟨_, _, b3, b4, b5⟩ := C04.C04_baseline s0 ch.prevStamp ch.prevStoredLen ch.prevPushed
  have b6 : (s0.applyRollback ch.prevStamp ch.prevStoredLen ch.prevPushed).updated = s0.updated ∧
      (s0.applyRollback ch.prevStamp ch.prevStoredLen ch.prevPushed).disk = s0.disk := by
    unfold V.applyRollback V.updateStamp; split <;> exact ⟨rfl, rfl⟩
  generalize s0.applyRollback ch.prevStamp ch.prevStoredLen ch.prevPushed = s1 at b3 b4 b5 b6
  -- stage 2: the truncated tail goes into the overlay
  obtain ⟨_, t2, t3, t4, t5, _⟩ := insertTruncated_fields s1 ch.truncatedStart ch.truncatedValues
  have t7 := insertTruncated_get s1 ch.truncatedStart ch.truncatedValues
  generalize insertTruncated s1 ch.truncatedStart ch.truncatedValues = s2 at t2 t3 t4 t5 t7
  -- stage 3: the recorded modifications
  obtain ⟨m1, m2, m3, m4, m5, _, m7⟩ := applyMods_spec s2 ch.mods (by rw [t2, b4]; exact hm) hd
  generalize applyMods s2 ch.mods = r at m1 m2 m3 m4 m5 m7
  rw [m1]
  simp only
  obtain ⟨f1, f2, f3, f4, f5, f6⟩ := finishUndo_fields r.1 ch
  have fh : (finishUndo r.1 ch).holes = ch.prevHoles := by
    rw [f1]
    split
    · rename_i hc
      simp only [Bool.and_eq_true, List.isEmpty_iff] at hc
      rw [hc.1.2, hc.1.1]
    · rfl
  refine ⟨trivial, by rw [f6, m5, t5, b3], by rw [f2, m2, t2, b4], by rw [f3, m3, t3, b5], fh, by rw [f4, m4, t4, b6.2, h0.2], ?_⟩
  intro i
  rw [getAny_itemOf, fh, f2, m2, t2, b4, f3, m3, t3, b5, f5, f4, m4, t4, b6.2, h0.2]
  unfold itemOf restored
  rw [m7 i, t7 i, b6.1, h0.1]
  rfl


/-! ### commit, then rollback (raw formats, from a cleanly committed state) -/

/-- the written state, field by field (stored length inside the region, overlay a map over stored slots) -/
theorem writeRaw_spec (s : V) (b : Bool) (h : s.writeRaw.2 = .okB b) (hu : UpdOK s) (hle : s.storedLen ≤ s.disk.length)
    (hdirty : s.pushed ≠ [] ∨ s.updated ≠ [] ∨ s.storedLen < s.disk.length) :
    s.writeRaw.1.updated = [] ∧ s.writeRaw.1.pushed = [] ∧ s.writeRaw.1.storedLen = s.storedLen + s.pushed.length ∧
    s.writeRaw.1.holes = s.holes ∧
    ∀ j, s.writeRaw.1.disk[j]? = match mapGet s.updated j with | some v => some v | none => (s.disk.take s.storedLen ++ s.pushed)[j]? := by
  have hh : s.writeHeaderIfNeeded.holes = s.holes ∧ s.writeHeaderIfNeeded.storedLen = s.storedLen ∧
      s.writeHeaderIfNeeded.pushed = s.pushed ∧ s.writeHeaderIfNeeded.updated = s.updated ∧ s.writeHeaderIfNeeded.disk = s.disk := by
    unfold writeHeaderIfNeeded; split <;> exact ⟨rfl, rfl, rfl, rfl, rfl⟩
  obtain ⟨k1, k2, k3, k4, k5⟩ := hh
  rw [← k1, ← k2, ← k3, ← k4, ← k5]
  have hu' : UpdOK s.writeHeaderIfNeeded := by unfold UpdOK; rw [k4, k2]; exact hu
  have hle' : s.writeHeaderIfNeeded.storedLen ≤ s.writeHeaderIfNeeded.disk.length := by rw [k2, k5]; exact hle
  have hdirty' : s.writeHeaderIfNeeded.pushed ≠ [] ∨ s.writeHeaderIfNeeded.updated ≠ [] ∨
      s.writeHeaderIfNeeded.storedLen < s.writeHeaderIfNeeded.disk.length := by rw [k3, k4, k2, k5]; exact hdirty
  unfold writeRaw at h ⊢
  simp only [] at h ⊢
  generalize s.writeHeaderIfNeeded = t at *
  clear k1 k2 k3 k4 k5 hu hle hdirty
  split at h
  · rename_i hc
    exfalso
    simp at hc
    rcases hdirty' with h1 | h1 | h1
    · exact h1 (by simpa using hc.1.1.1.2)
    · exact h1 (by simpa using hc.1.1.2)
    · omega
  · rename_i hc
    rw [if_neg hc]
    rw [wrExtend_id t hle'] at h ⊢
    cases h1 : t.wrData (decide (t.storedLen < t.disk.length)) with
    | error e => simp only [h1] at h; cases h
    | ok s1 =>
      simp only [h1] at h ⊢
      obtain ⟨d1, d2, d3, d4, d5⟩ := wrData_spec t s1 hle' h1
      have hexp : decide (t.storedLen > t.disk.length) = false := by simp; omega
      rw [hexp] at h ⊢
      cases h2 : s1.wrOverlay false with
      | error o =>
        simp only [h2] at h
        unfold wrOverlay at h2
        split at h2
        · simp only [Bool.false_eq_true, if_false] at h2
          exfalso
          have : ∀ (upd : List (Nat × Nat)) (x : V) (o : Out), wrOverlaySet upd x = .error o → o = .panic := by
            intro upd
            unfold wrOverlaySet
            induction upd with
            | nil => intro x o hx; simp at hx
            | cons kv r ih =>
              intro x o hx
              simp only [List.foldl_cons] at hx
              by_cases hl : kv.1 < x.disk.length
              · simp only [hl, if_true] at hx; exact ih _ o hx
              · simp only [hl, if_false] at hx
                clear ih
                induction r with
                | nil => simp at hx; exact hx.symm
                | cons a r ih2 => simp only [List.foldl_cons] at hx; exact ih2 hx
          have := this _ _ _ h2
          subst this
          cases h
        · cases h2
      | ok s2 =>
        simp only [h2] at h ⊢
        obtain ⟨f1, f2⟩ := wrHoles_fields s2 (!t.holes.isEmpty) t.hasStoredHoles
        have fh : (s2.wrHoles (!t.holes.isEmpty) t.hasStoredHoles).1.holes = s2.holes ∧
            (s2.wrHoles (!t.holes.isEmpty) t.hasStoredHoles).1.pushed = s2.pushed ∧
            (s2.wrHoles (!t.holes.isEmpty) t.hasStoredHoles).1.updated = s2.updated := by
          unfold wrHoles; split
          · exact ⟨rfl, rfl, rfl⟩
          · split <;> exact ⟨rfl, rfl, rfl⟩
        have hov : s2.holes = s1.holes ∧ s2.pushed = s1.pushed ∧ s2.updated = [] ∧ s2.storedLen = s1.storedLen ∧
            ∀ j, s2.disk[j]? = match mapGet t.updated j with | some v => some v | none => s1.disk[j]? := by
          unfold wrOverlay at h2
          split at h2
          · simp only [Bool.false_eq_true, if_false] at h2
            obtain ⟨g1, g2, g3, g4, g5⟩ := wrOverlaySet_spec s1.updated _ s2 (by rw [d5]; exact hu'.1) h2
            exact ⟨g1, g2, g3, g4, fun j => by first | (rw [g5 j, d5]; done) | (rw [g5 j, d5]; cases mapGet t.updated j <;> rfl)⟩
          · rename_i hne
            cases h2
            have he : s1.updated = [] := by simpa using hne
            refine ⟨rfl, rfl, he, rfl, fun j => ?_⟩
            rw [← d5, he]; rfl
        obtain ⟨o1, o2, o3, o4, o5⟩ := hov
        refine ⟨by rw [fh.2.2, o3], by rw [fh.2.1, o2, d3], by rw [f1, o4, d2], by rw [fh.1, o1, d4], ?_⟩
        intro j
        rw [f2, o5 j, d1]


/-- a cleanly committed raw vector: nothing buffered, nothing overlaid, the stored length is what the region holds -/
structure CleanCommitted (p : V) : Prop where
  raw : p.kind = .raw
  pushed : p.pushed = []
  updated : p.updated = []
  stored : p.storedLen = p.disk.length

/-- what any mix of pushes, truncations, updates and deletions after the commit of `p` leaves in place
(`after_edits` below): the region untouched, the stored length not above the committed one, the overlay a map -/
structure After (p s : V) : Prop where
  disk : s.disk = p.disk
  le : s.storedLen ≤ p.storedLen
  upd : UpdInv s

/-- the state right after the write of the next commit, as far as the undo looks at it (`writeRaw_spec`) -/
structure Written (s w : V) : Prop where
  raw : w.kind = .raw
  updated : w.updated = []
  disk : ∀ j, w.disk[j]? = match mapGet s.updated j with | some v => some v | none => (s.disk.take s.storedLen ++ s.pushed)[j]?

/-- a change record that describes the way back from `s` to the committed `p` -/
structure Faithful (p s : V) (ch : Change) : Prop where
  stamp : ch.prevStamp = p.stamp
  psl : ch.prevStoredLen = p.storedLen
  ts : ch.truncatedStart = s.storedLen
  tv : ch.truncatedValues = (p.disk.drop s.storedLen).take (p.storedLen - s.storedLen)
  pp : ch.prevPushed = []
  ph : ch.prevHoles = p.holes
  modsDistinct : KeysDistinct ch.mods
  modsVals : ∀ kv ∈ ch.mods, kv.1 < p.storedLen ∧ p.disk[kv.1]? = some kv.2
  modsCover : ∀ k v, mapGet s.updated k = some v → (mapGet ch.mods k).isSome = true

theorem mem_of_mapGet (m : List (Nat × Nat)) (k v : Nat) (h : mapGet m k = some v) : (k, v) ∈ m := by
  unfold mapGet at h
  cases hf : m.find? (fun kv => kv.1 == k) with
  | none => simp [hf] at h
  | some kv =>
    have hm := List.mem_of_find?_eq_some hf
    have hp := List.find?_some hf
    simp only [hf, Option.map_some, Option.some.injEq] at h
    have : kv = (k, v) := by
      obtain ⟨a, b⟩ := kv
      simp at hp h
      rw [hp, h]
    rw [← this]; exact hm

/-- C04 for one commit / rollback pair on a raw vector: commit `p`; edit freely (pushes, truncations below the stored
length, updates, deletions); commit again — the record written is `ch`, the write leaves `w`; roll back.  Every index
then reads exactly what it read in `p`, and the stamp is `p`'s. -/
theorem C04_commit_rollback_raw (p s w : V) (ch : Change) (bytes : List UInt8)
    (hp : CleanCommitted p) (ha : After p s) (hw : Written s w) (hf : Faithful p s ch)
    (hparse : parseChange w.kind w.sz bytes = .ok ch) :
    (w.undo bytes).2 = .ok ∧ (w.undo bytes).1.stamp = p.stamp ∧ (w.undo bytes).1.storedLen = p.storedLen ∧
    (w.undo bytes).1.pushed = [] ∧ (w.undo bytes).1.holes = p.holes ∧
    ∀ i, ((w.undo bytes).1.getAny i).1 = (p.getAny i).1 := by
  obtain ⟨u1, u2, u3, u4, u5, _, u7⟩ := C04_raw_undo_items w bytes ch hw.raw hparse
    (fun kv hkv => by rw [hf.psl]; exact (hf.modsVals kv hkv).1) hf.modsDistinct
  refine ⟨u1, by rw [u2, hf.stamp], by rw [u3, hf.psl], by rw [u4, hf.pp], by rw [u5, hf.ph], ?_⟩
  intro i
  rw [u7 i, getAny_itemOf]
  unfold restored itemOf
  rw [hf.ph, hf.psl, hf.pp, hp.pushed, hp.updated]
  by_cases h1 : i ∈ p.holes
  · simp only [h1, if_true]
  · simp only [h1, if_false]
    by_cases h2 : i ≥ p.storedLen
    · simp only [h2, if_true]
    · simp only [h2, if_false]
      have hi : i < p.disk.length := by rw [← hp.stored]; omega
      have hpd : p.disk[i]? = some p.disk[i] := List.getElem?_eq_getElem hi
      have hm0 : mapGet ([] : List (Nat × Nat)) i = none := rfl
      rw [hm0, hpd]
      simp only
      cases hmod : mapGet ch.mods i with
      | some v =>
        simp only
        have := (hf.modsVals (i, v) (mem_of_mapGet _ _ _ hmod)).2
        simp only at this
        rw [hpd] at this
        exact this.symm ▸ rfl
      | none =>
        simp only
        rw [hf.ts, hf.tv]
        have hlen : ((p.disk.drop s.storedLen).take (p.storedLen - s.storedLen)).length = p.storedLen - s.storedLen := by
          simp only [List.length_take, List.length_drop]; rw [← hp.stored]; omega
        rw [hlen]
        by_cases h3 : s.storedLen ≤ i ∧ i < s.storedLen + (p.storedLen - s.storedLen)
        · simp only [h3, and_self, if_true]
          have hk : i - s.storedLen < ((p.disk.drop s.storedLen).take (p.storedLen - s.storedLen)).length := by rw [hlen]; omega
          have hg : ((p.disk.drop s.storedLen).take (p.storedLen - s.storedLen)).getD (i - s.storedLen) 0
              = ((p.disk.drop s.storedLen).take (p.storedLen - s.storedLen))[i - s.storedLen] := by
            simp [List.getD_eq_getElem?_getD, List.getElem?_eq_getElem hk]
          rw [hg]
          simp only [List.getElem_take, List.getElem_drop]
          congr 2; omega
        · simp only [h3, if_false]
          have hlt : i < s.storedLen := by have := ha.le; omega
          have hb : mapGet (baseUpdated w ch) i = none := by
            unfold baseUpdated; rw [hw.updated]; split <;> rfl
          rw [hb]
          simp only
          rw [hw.disk i]
          cases hsu : mapGet s.updated i with
          | some v =>
            have := hf.modsCover i v hsu
            rw [hmod] at this
            simp at this
          | none =>
            simp only
            have hsl : s.storedLen ≤ s.disk.length := by rw [ha.disk, ← hp.stored]; exact ha.le
            rw [List.getElem?_append_left (by simp; omega), List.getElem?_take]
            simp only [hlt, if_true]
            rw [ha.disk, hpd]


/-! ### the hypotheses are met: edits keep `After`, the write gives `Written` -/

theorem after_refl (p : V) (hp : CleanCommitted p) : After p p :=
  ⟨rfl, Nat.le_refl _, by unfold UpdInv KeysSorted; rw [hp.updated]; exact ⟨List.Pairwise.nil, by simp⟩⟩

theorem after_push (p s : V) (v : Nat) (h : After p s) : After p (s.push v) := ⟨h.disk, h.le, updInv_push s v h.upd⟩

theorem after_update (p s : V) (i v : Nat) (h : After p s) : After p (s.updateAt i v).1 := by
  refine ⟨?_, ?_, updInv_update s i v h.upd⟩
  · unfold updateAt; split
    · split <;> exact h.disk
    · exact h.disk
  · unfold updateAt; split
    · split <;> exact h.le
    · exact h.le

theorem after_delete (p s : V) (i : Nat) (h : After p s) : After p (s.deleteAt i) := by
  refine ⟨?_, ?_, updInv_delete s i h.upd⟩
  · unfold deleteAt; split <;> first | exact h.disk | (unfold uncheckedDeleteAt; exact h.disk)
  · unfold deleteAt; split <;> first | exact h.le | (unfold uncheckedDeleteAt; exact h.le)

theorem after_truncate (p s : V) (n : Nat) (hk : s.kind = .raw) (h : After p s) : After p (s.truncate n) := by
  refine ⟨?_, ?_, updInv_truncate s n hk h.upd⟩
  · unfold truncate; simp only [hk]
    obtain ⟨hd, _, _, _⟩ := truncatePushed_fields (s.truncateDirtyAt n) n
    rw [hd]; exact h.disk
  · unfold truncate; simp only [hk]
    obtain ⟨_, _, _, hs⟩ := truncatePushed_fields (s.truncateDirtyAt n) n
    rw [hs]
    have : (s.truncateDirtyAt n).storedLen = s.storedLen := rfl
    rw [this]; have := h.le; omega

theorem wrOverlaySet_kind (upd : List (Nat × Nat)) (s r : V) (hr : wrOverlaySet upd s = .ok r) : r.kind = s.kind := by
  unfold wrOverlaySet at hr
  induction upd generalizing s with
  | nil => simp only [List.foldl_nil] at hr; cases hr; rfl
  | cons kv t ih =>
    simp only [List.foldl_cons] at hr
    by_cases hk : kv.1 < s.disk.length
    · simp only [hk, if_true] at hr
      have := ih _ hr
      simpa using this
    · simp only [hk, if_false] at hr
      exfalso
      clear ih
      induction t with
      | nil => simp at hr
      | cons a t ih2 => simp only [List.foldl_cons] at hr; exact ih2 hr

theorem writeRaw_kind (s : V) (b : Bool) (h : s.writeRaw.2 = .okB b) (hle : s.storedLen ≤ s.disk.length) :
    s.writeRaw.1.kind = s.kind := by
  have hh : s.writeHeaderIfNeeded.kind = s.kind ∧ s.writeHeaderIfNeeded.storedLen = s.storedLen ∧ s.writeHeaderIfNeeded.disk = s.disk := by
    unfold writeHeaderIfNeeded; split <;> exact ⟨rfl, rfl, rfl⟩
  rw [← hh.1]
  have hle' : s.writeHeaderIfNeeded.storedLen ≤ s.writeHeaderIfNeeded.disk.length := by rw [hh.2.1, hh.2.2]; exact hle
  unfold writeRaw at h ⊢
  simp only [] at h ⊢
  generalize s.writeHeaderIfNeeded = t at *
  split at h
  · rename_i hc; simp only [hc, if_true]
  · rename_i hc
    rw [if_neg hc]
    rw [wrExtend_id t hle'] at h ⊢
    cases h1 : t.wrData (decide (t.storedLen < t.disk.length)) with
    | error e => simp only [h1] at h; cases h
    | ok s1 =>
      simp only [h1] at h ⊢
      have dk : s1.kind = t.kind := by
        unfold wrData at h1
        split at h1
        · simp only at h1
          split at h1
          · cases h1
          · cases h1; rfl
        · split at h1
          · cases h1; rfl
          · cases h1; rfl
      cases h2 : s1.wrOverlay (decide (t.storedLen > t.disk.length)) with
      | error o => simp only [h2] at h ⊢; exact dk
      | ok s2 =>
        simp only [h2] at h ⊢
        have ok2 : s2.kind = s1.kind := by
          unfold wrOverlay at h2
          split at h2
          · split at h2
            · -- expanded: excluded by hle'
              rename_i he; simp at he; omega
            · have := wrOverlaySet_kind _ _ _ h2; simpa using this
          · cases h2; rfl
        have : (s2.wrHoles (!t.holes.isEmpty) t.hasStoredHoles).1.kind = s2.kind := by
          unfold wrHoles; split
          · rfl
          · split <;> rfl
        rw [this, ok2, dk]

/-- the write of the next commit gives `Written` -/
theorem written_of_write (s : V) (b : Bool) (hk : s.kind = .raw) (h : s.writeRaw.2 = .okB b) (hu : UpdInv s)
    (hle : s.storedLen ≤ s.disk.length)
    (hdirty : s.pushed ≠ [] ∨ s.updated ≠ [] ∨ s.storedLen < s.disk.length) : Written s s.writeRaw.1 := by
  obtain ⟨w1, _, _, _, w5⟩ := writeRaw_spec s b h (updOK_of_inv s hu) hle hdirty
  exact ⟨by rw [writeRaw_kind s b h hle, hk], w1, w5⟩

-- non-vacuity, end to end with the real record bytes: commit [10,11,12,13]; truncate to 3, update slot 1, push 50;
-- serialise the change record, write, undo — every index reads what it read at the commit
example :
    let p : V := { V.init .raw 8 3 with disk := [10, 11, 12, 13], storedLen := 4, prevStoredLen := 4, stamp := 1 }
    let s : V := (((p.truncate 3).updateAt 1 99).1).push 50
    let bytes := s.serializeChanges.1
    let w : V := (s.updateStamp 2).writeRaw.1
    (w.undo bytes).2 = .ok ∧ (w.undo bytes).1.stamp = 1 ∧
      (List.range 6).all (fun i => ((w.undo bytes).1.getAny i).1 == (p.getAny i).1) = true := by
  decide

end AnyDB.C04r
