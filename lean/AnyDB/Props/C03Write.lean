import AnyDB.Props.C20

/-!
# C03, the write step — `write()` changes where elements live, not what the vector contains

Second file of C03 (it needs the staged model of raw `write()` and the lemmas about its stages from
`Props/C20.lean`, which imports `Props/C03.lean`).

* `C03_write_preserves` — raw formats, stored length inside the region (every state of a C03 history; after a
  rolled-back truncation see C20): after a SUCCESSFUL `write()` every index reads exactly what it read before:
  buffered elements are now in the region, overlaid ones are stored in place, deleted ones stay deleted;
* `UpdInv` (the overlay is a sorted map over stored slots) is what the theorem needs of the state; it holds
  initially and is kept by push, update, delete and truncate (`updInv_*`).
The compressed `write()` (page regimes) is covered by C07's lossless theorems; reset and re-import are validated
by the correspondence only.
-/
namespace AnyDB.C03w
open AnyDB VecM VecM.V C03 C20

/-- keys of the overlay are pairwise different (it is a BTreeMap) -/
def KeysDistinct (m : List (Nat × Nat)) : Prop := m.Pairwise (fun a b => a.1 ≠ b.1)

theorem mapGet_cons (k v : Nat) (t : List (Nat × Nat)) (i : Nat) :
    mapGet ((k, v) :: t) i = if k = i then some v else mapGet t i := by
  unfold mapGet
  simp only [List.find?_cons]
  by_cases h : k = i
  · simp [h]
  · have : (k == i) = false := by simp [h]
    simp [this, h]

theorem mapGet_none_of_not_mem (t : List (Nat × Nat)) (k : Nat) (h : ∀ a ∈ t, a.1 ≠ k) : mapGet t k = none := by
  induction t with
  | nil => rfl
  | cons a r ih =>
    obtain ⟨a1, a2⟩ := a
    rw [mapGet_cons]
    have : a1 ≠ k := h (a1, a2) (List.mem_cons_self ..)
    simp only [this, if_false]
    exact ih (fun b hb => h b (List.mem_cons_of_mem _ hb))

/-- in-place overlay writes: every other field is untouched and slot `i` holds the overlay value if there is one -/
theorem wrOverlaySet_spec (upd : List (Nat × Nat)) (s r : V) (hd : KeysDistinct upd) (hr : wrOverlaySet upd s = .ok r) :
    r.holes = s.holes ∧ r.pushed = s.pushed ∧ r.updated = s.updated ∧ r.storedLen = s.storedLen ∧
    ∀ i, r.disk[i]? = match mapGet upd i with | some v => some v | none => s.disk[i]? := by
  unfold wrOverlaySet at hr
  induction upd generalizing s with
  | nil => simp only [List.foldl_nil] at hr; cases hr; exact ⟨rfl, rfl, rfl, rfl, fun i => by simp [mapGet]⟩
  | cons kv t ih =>
    obtain ⟨k, v⟩ := kv
    simp only [List.foldl_cons] at hr
    have hd' : KeysDistinct t := (List.pairwise_cons.mp hd).2
    have hk : ∀ a ∈ t, a.1 ≠ k := fun a ha => ((List.pairwise_cons.mp hd).1 a ha).symm
    by_cases hlt : k < s.disk.length
    · simp only [hlt, if_true] at hr
      obtain ⟨g1, g2, g3, g4, g5⟩ := ih _ hd' hr
      refine ⟨g1, g2, g3, g4, ?_⟩
      intro i
      rw [g5 i, mapGet_cons]
      by_cases hki : k = i
      · subst hki
        rw [mapGet_none_of_not_mem t k hk]
        simp [hlt]
      · simp only [hki, if_false]
        cases mapGet t i with
        | some w => rfl
        | none => simp only; rw [List.getElem?_set_ne hki]
    · simp only [hlt, if_false] at hr
      exfalso
      clear ih hd hd' hk
      induction t with
      | nil => simp at hr
      | cons a t ih2 => simp only [List.foldl_cons] at hr; exact ih2 hr


/-- the overlay of a raw vector: a map (distinct keys) over stored slots only -/
def UpdOK (s : V) : Prop := KeysDistinct s.updated ∧ ∀ kv ∈ s.updated, kv.1 < s.storedLen

theorem getAny_congr (a b : V) (h1 : a.holes = b.holes) (h2 : a.storedLen = b.storedLen) (h3 : a.pushed = b.pushed)
    (h4 : a.updated = b.updated) (h5 : a.disk = b.disk) (i : Nat) : a.getAny i = b.getAny i := by
  unfold getAny diskRead; rw [h1, h2, h3, h4, h5]

theorem mapGet_lt_of_updOK (s : V) (hu : UpdOK s) (i v : Nat) (h : mapGet s.updated i = some v) : i < s.storedLen := by
  unfold mapGet at h
  cases hf : s.updated.find? (fun kv => kv.1 == i) with
  | none => simp [hf] at h
  | some kv =>
    have hm := List.mem_of_find?_eq_some hf
    have hp := List.find?_some hf
    simp at hp
    have := hu.2 kv hm
    omega

/-- what the logical content at `i` is, written out on the fields `getAny` looks at -/
def itemOf (holes : List Nat) (storedLen : Nat) (pushed : List Nat) (updated : List (Nat × Nat)) (disk : List Nat) (i : Nat) : Option Nat :=
  if i ∈ holes then none
  else if i ≥ storedLen then pushed[i - storedLen]?
  else match mapGet updated i with
    | some v => some v
    | none => match disk[i]? with | some v => some v | none => some garbage

theorem getAny_itemOf (s : V) (i : Nat) : (s.getAny i).1 = itemOf s.holes s.storedLen s.pushed s.updated s.disk i := by
  unfold getAny itemOf diskRead
  by_cases h1 : i ∈ s.holes
  · simp [h1]
  · by_cases h2 : i ≥ s.storedLen
    · simp [h1, h2]
    · simp only [h1, h2, if_false]
      cases mapGet s.updated i with
      | some v => rfl
      | none => cases s.disk[i]? <;> rfl

theorem wrData_spec (t s1 : V) (hle : t.storedLen ≤ t.disk.length)
    (h : t.wrData (decide (t.storedLen < t.disk.length)) = .ok s1) :
    s1.disk = t.disk.take t.storedLen ++ t.pushed ∧ s1.storedLen = t.storedLen + t.pushed.length ∧ s1.pushed = [] ∧
    s1.holes = t.holes ∧ s1.updated = t.updated := by
  unfold wrData at h
  split at h
  · simp only at h
    split at h
    · omega
    · cases h; exact ⟨rfl, rfl, rfl, rfl, rfl⟩
  · rename_i hp
    have hp' : t.pushed = [] := by simpa using hp
    split at h
    · cases h; simp [hp']
    · rename_i ht
      cases h
      have : t.storedLen = t.disk.length := by simp at ht; omega
      simp [hp', this]

theorem wrExtend_id (t : V) (hle : t.storedLen ≤ t.disk.length) : t.wrExtend = t := by
  unfold wrExtend; split
  · omega
  · rfl

theorem final_item (holes : List Nat) (st : Nat) (pushed : List Nat) (upd : List (Nat × Nat)) (disk d2 : List Nat) (i : Nat)
    (hle : st ≤ disk.length) (hk : ∀ j v, mapGet upd j = some v → j < st)
    (hd : ∀ j, d2[j]? = match mapGet upd j with | some v => some v | none => (disk.take st ++ pushed)[j]?) :
    itemOf holes (st + pushed.length) [] [] d2 i = itemOf holes st pushed upd disk i := by
  unfold itemOf
  by_cases h1 : i ∈ holes
  · simp [h1]
  · simp only [h1, if_false]
    have htl : (disk.take st).length = st := by simp; omega
    by_cases h2 : i ≥ st + pushed.length
    · have h3 : i ≥ st := by omega
      simp only [h2, h3, if_true]
      simp
      omega
    · simp only [h2, if_false]
      have hm : mapGet ([] : List (Nat × Nat)) i = none := rfl
      simp only [hm]
      rw [hd i]
      by_cases h3 : i ≥ st
      · simp only [h3, if_true]
        have hn : mapGet upd i = none := by
          cases hg : mapGet upd i with
          | none => rfl
          | some v => have := hk i v hg; omega
        simp only [hn]
        rw [List.getElem?_append_right (by omega), htl]
        have : i - st < pushed.length := by omega
        rw [List.getElem?_eq_getElem this]
      · simp only [h3, if_false]
        cases hg : mapGet upd i with
        | some v => rfl
        | none =>
          simp only
          rw [List.getElem?_append_left (by omega), List.getElem?_take]
          have : i < st := by omega
          simp only [this, if_true]

/-- C03, the write step (raw formats, stored length inside the region): a successful `write()` changes where the
elements live — buffered ones go to the region, overlaid ones are stored in place — and NOT what the vector
contains: every index reads the same before and after -/
theorem C03_write_preserves (s : V) (b : Bool) (h : s.writeRaw.2 = .okB b) (hu : UpdOK s) (hle : s.storedLen ≤ s.disk.length) (i : Nat) :
    (s.writeRaw.1.getAny i).1 = (s.getAny i).1 := by
  have hh : s.writeHeaderIfNeeded.holes = s.holes ∧ s.writeHeaderIfNeeded.storedLen = s.storedLen ∧
      s.writeHeaderIfNeeded.pushed = s.pushed ∧ s.writeHeaderIfNeeded.updated = s.updated ∧ s.writeHeaderIfNeeded.disk = s.disk := by
    unfold writeHeaderIfNeeded; split <;> exact ⟨rfl, rfl, rfl, rfl, rfl⟩
  obtain ⟨k1, k2, k3, k4, k5⟩ := hh
  rw [← getAny_congr s.writeHeaderIfNeeded s k1 k2 k3 k4 k5 i]
  have hu' : UpdOK s.writeHeaderIfNeeded := by unfold UpdOK; rw [k4, k2]; exact hu
  have hle' : s.writeHeaderIfNeeded.storedLen ≤ s.writeHeaderIfNeeded.disk.length := by rw [k2, k5]; exact hle
  unfold writeRaw at h ⊢
  simp only [] at h ⊢
  generalize s.writeHeaderIfNeeded = t at *
  clear k1 k2 k3 k4 k5 hu hle
  split at h
  · rename_i hc; simp only [hc, if_true]
  · rename_i hc
    rw [if_neg hc]
    rw [wrExtend_id t hle'] at h ⊢
    cases h1 : t.wrData (decide (t.storedLen < t.disk.length)) with
    | error e => simp only [h1] at h; cases h
    | ok s1 =>
      simp only [h1] at h ⊢
      obtain ⟨d1, d2, d3, d4, d5⟩ := wrData_spec t s1 hle' h1
      have hexp : decide (t.storedLen > t.disk.length) = false := by simp; omega
      rw [hexp] at h ⊢
      cases h2 : s1.wrOverlay false with
      | error o =>
        simp only [h2] at h
        -- an overlay failure is `panic` or an error, never `okB`
        unfold wrOverlay at h2
        split at h2
        · simp only [Bool.false_eq_true, if_false] at h2
          exfalso
          -- the in-place fold fails only with `.panic`
          have : ∀ (upd : List (Nat × Nat)) (x : V) (o : Out), wrOverlaySet upd x = .error o → o = .panic := by
            intro upd
            unfold wrOverlaySet
            induction upd with
            | nil => intro x o hx; simp at hx
            | cons kv r ih =>
              intro x o hx
              simp only [List.foldl_cons] at hx
              by_cases hl : kv.1 < x.disk.length
              · simp only [hl, if_true] at hx; exact ih _ o hx
              · simp only [hl, if_false] at hx
                clear ih
                induction r with
                | nil => simp at hx; exact hx.symm
                | cons a r ih2 => simp only [List.foldl_cons] at hx; exact ih2 hx
          have := this _ _ _ h2
          subst this
          cases h
        · cases h2
      | ok s2 =>
        simp only [h2] at h ⊢
        obtain ⟨f1, f2⟩ := wrHoles_fields s2 (!t.holes.isEmpty) t.hasStoredHoles
        have fh : (s2.wrHoles (!t.holes.isEmpty) t.hasStoredHoles).1.holes = s2.holes ∧
            (s2.wrHoles (!t.holes.isEmpty) t.hasStoredHoles).1.pushed = s2.pushed ∧
            (s2.wrHoles (!t.holes.isEmpty) t.hasStoredHoles).1.updated = s2.updated := by
          unfold wrHoles; split
          · exact ⟨rfl, rfl, rfl⟩
          · split <;> exact ⟨rfl, rfl, rfl⟩
        -- the overlay stage
        have hov : s2.holes = s1.holes ∧ s2.pushed = s1.pushed ∧ s2.updated = [] ∧ s2.storedLen = s1.storedLen ∧
            ∀ j, s2.disk[j]? = match mapGet t.updated j with | some v => some v | none => s1.disk[j]? := by
          unfold wrOverlay at h2
          split at h2
          · simp only [Bool.false_eq_true, if_false] at h2
            obtain ⟨g1, g2, g3, g4, g5⟩ := wrOverlaySet_spec s1.updated _ s2 (by rw [d5]; exact hu'.1) h2
            exact ⟨g1, g2, g3, g4, fun j => by rw [g5 j, d5]⟩
          · rename_i hne
            cases h2
            have he : s1.updated = [] := by simpa using hne
            refine ⟨rfl, rfl, he, rfl, fun j => ?_⟩
            rw [← d5, he]; rfl
        obtain ⟨o1, o2, o3, o4, o5⟩ := hov
        rw [getAny_itemOf, getAny_itemOf, fh.1, f1, fh.2.1, fh.2.2, f2, o1, o4, o2, o3, d4, d2, d3]
        exact final_item t.holes t.storedLen t.pushed t.updated t.disk s2.disk i hle'
          (fun j v hj => mapGet_lt_of_updOK t hu' j v hj) (fun j => by rw [o5 j, d1])


/-! ### the overlay stays a map over stored slots under every plain edit -/

def KeysSorted (m : List (Nat × Nat)) : Prop := m.Pairwise (fun a b => a.1 < b.1)

theorem sorted_distinct (m : List (Nat × Nat)) (h : KeysSorted m) : KeysDistinct m :=
  List.Pairwise.imp (fun hab => Nat.ne_of_lt hab) h

/-- the invariant of the overlay of a raw vector -/
def UpdInv (s : V) : Prop := KeysSorted s.updated ∧ ∀ kv ∈ s.updated, kv.1 < s.storedLen

theorem updOK_of_inv (s : V) (h : UpdInv s) : UpdOK s := ⟨sorted_distinct _ h.1, h.2⟩

theorem mem_mapInsert (m : List (Nat × Nat)) (k v : Nat) (a : Nat × Nat) (h : a ∈ mapInsert m k v) : a = (k, v) ∨ a ∈ m := by
  induction m with
  | nil => simp [mapInsert] at h; exact Or.inl h
  | cons x t ih =>
    obtain ⟨x1, x2⟩ := x
    simp only [mapInsert] at h
    split at h
    · rcases List.mem_cons.mp h with h1 | h1
      · exact Or.inl h1
      · exact Or.inr h1
    · split at h
      · rcases List.mem_cons.mp h with h1 | h1
        · exact Or.inl h1
        · exact Or.inr (List.mem_cons_of_mem _ h1)
      · rcases List.mem_cons.mp h with h1 | h1
        · exact Or.inr (by rw [h1]; exact List.mem_cons_self ..)
        · rcases ih h1 with h2 | h2
          · exact Or.inl h2
          · exact Or.inr (List.mem_cons_of_mem _ h2)

theorem mapInsert_sorted (m : List (Nat × Nat)) (k v : Nat) (h : KeysSorted m) : KeysSorted (mapInsert m k v) := by
  induction m with
  | nil => simp [mapInsert, KeysSorted]
  | cons x t ih =>
    obtain ⟨x1, x2⟩ := x
    have ht : KeysSorted t := (List.pairwise_cons.mp h).2
    have hx : ∀ a ∈ t, x1 < a.1 := (List.pairwise_cons.mp h).1
    simp only [mapInsert]
    split
    · rename_i hlt
      refine List.pairwise_cons.mpr ⟨?_, h⟩
      intro a ha
      rcases List.mem_cons.mp ha with h1 | h1
      · rw [h1]; exact hlt
      · have := hx a h1; simp only; omega
    · split
      · rename_i _ heq
        subst heq
        exact List.pairwise_cons.mpr ⟨fun a ha => hx a ha, ht⟩
      · rename_i hn1 hn2
        refine List.pairwise_cons.mpr ⟨?_, ih ht⟩
        intro a ha
        rcases mem_mapInsert t k v a ha with h1 | h1
        · rw [h1]; simp only; omega
        · exact hx a h1

theorem updInv_update (s : V) (i v : Nat) (h : UpdInv s) : UpdInv (s.updateAt i v).1 := by
  unfold updateAt
  split
  · split
    · exact h
    · exact h
  · rename_i hlt
    refine ⟨mapInsert_sorted _ _ _ h.1, ?_⟩
    intro kv hkv
    simp only at hkv ⊢
    rcases mem_mapInsert _ _ _ _ hkv with h1 | h1
    · rw [h1]; simp only; omega
    · exact h.2 kv h1

theorem updInv_delete (s : V) (i : Nat) (h : UpdInv s) : UpdInv (s.deleteAt i) := by
  unfold deleteAt; split
  · unfold uncheckedDeleteAt mapErase
    exact ⟨List.Pairwise.sublist List.filter_sublist h.1, fun kv hkv => h.2 kv (List.mem_filter.mp hkv).1⟩
  · exact h

theorem updInv_push (s : V) (v : Nat) (h : UpdInv s) : UpdInv (s.push v) := h

theorem updInv_truncate (s : V) (n : Nat) (hk : s.kind = .raw) (h : UpdInv s) : UpdInv (s.truncate n) := by
  unfold truncate
  simp only [hk]
  obtain ⟨_, _, hu, hs⟩ := truncatePushed_fields (s.truncateDirtyAt n) n
  unfold UpdInv
  rw [hu, hs]
  unfold truncateDirtyAt
  simp only
  refine ⟨List.Pairwise.sublist List.filter_sublist h.1, ?_⟩
  intro kv hkv
  have hm := List.mem_filter.mp hkv
  have h1 := h.2 kv hm.1
  have h2 : kv.1 < n := by simpa using hm.2
  omega

/-- after a successful write the overlay is empty -/
theorem updInv_init (k : Kind) (sz keep : Nat) : UpdInv (V.init k sz keep) := by
  simp [UpdInv, V.init, KeysSorted]

-- the F18 state and a buffered tail: the logical contents survive the write
example : ∀ i, i < 6 → (({ V.init .raw 8 0 with disk := [10, 11, 12], storedLen := 3, pushed := [13, 14], holes := [1], updated := [(2, 99)] } : V).writeRaw.1.getAny i).1
    = (({ V.init .raw 8 0 with disk := [10, 11, 12], storedLen := 3, pushed := [13, 14], holes := [1], updated := [(2, 99)] } : V).getAny i).1 := by
  decide

end AnyDB.C03w
