import AnyDB.Props.C06

/-!
# C19 — computed columns are recomputed exactly when input versions change

Model: `computeInit` (= `validate_computed_version_or_reset` ∘ `truncate_if_needed`) followed by
`runBatches` (`repeat_until_complete`) of `AnyDB/Model/Compute.lean`, with the evaluation log made
explicit: `evalRange versionChanged maxFrom oldLen target` is the index range the user closure is
invoked on.

* `C19_changed`     — version differs ⇒ nothing of the old results survives `computeInit`, the closure
                       is evaluated on exactly `[0, target)` and the result is the formula on the new sources;
* `C19_unchanged`   — version equal ⇒ the first `min maxFrom oldLen` stored elements are kept verbatim
                       and the closure is evaluated on exactly `[min maxFrom oldLen, target)`;
* `C19_never_mixed` — hence every stored element was produced under the recorded version: after a
                       call the result is the formula of the CURRENT sources only (accumulator families,
                       via C06), independent of what was stored under another version.

Tied to the code by the `--c19` stream of the compute engine: the closure handed to
`compute_to` / `compute_transform` logs the indices it is called with; the recorded version is read
back from the header before/after each call and across write + re-import.
-/
namespace AnyDB.C19
open AnyDB Compute C06

/-- indices the closure is evaluated on -/
def evalRange (versionChanged : Bool) (maxFrom oldLen target : Nat) : List Nat :=
  let kept := (computeInit versionChanged maxFrom (List.replicate oldLen 0)).length
  (List.range target).drop kept

theorem computeInit_length (vc : Bool) (maxFrom : Nat) (old : List Nat) :
    (computeInit vc maxFrom old).length = if vc then 0 else min maxFrom old.length := by
  unfold computeInit; cases vc <;> simp

theorem C19_changed (maxFrom oldLen target : Nat) (old : List Nat) :
    computeInit true maxFrom old = [] ∧ evalRange true maxFrom oldLen target = List.range target := by
  unfold evalRange
  simp [computeInit]

theorem C19_unchanged (maxFrom target : Nat) (old : List Nat) :
    computeInit false maxFrom old = old.take maxFrom ∧
    evalRange false maxFrom old.length target = (List.range target).drop (min maxFrom old.length) := by
  unfold evalRange
  simp [computeInit]

/-- whatever was stored under another version, the result is the formula on the current sources -/
theorem C19_never_mixed (f : Nat → Nat → Nat) (init cap : Nat) (hcap : 0 < cap) (stale new : List Nat) (maxFrom : Nat) :
    runBatches (batchScan f init cap new) (new.length + 1) (computeInit true maxFrom stale) = scanF f init new :=
  C06_version_reset f init cap hcap stale new maxFrom

example : evalRange false 3 5 8 = [3, 4, 5, 6, 7] ∧ evalRange true 3 5 8 = [0, 1, 2, 3, 4, 5, 6, 7] ∧ evalRange false 9 5 8 = [5, 6, 7] := by
  decide

end AnyDB.C19
