import AnyDB.Lemmas.LayoutAlign

/-!
# C02 — extents never overlap, for EVERY history (whole-state invariant of the rawdb model)

`LInv s` (`Lemmas/LayoutInv.lean`): no byte of the file belongs to two extents — region reservations, relocation
targets, holes, pending holes —, every extent has positive size, and `Layout::start_to_region` agrees with the region
slots.  Every operation of the model preserves it from ANY state that satisfies it:

* metadata-only and data-only operations leave the layout view alone (`Lemmas/LayoutOps.lean`: truncate, rename, the
  fitting write, region flush, hole punching, file growth);
* `remove` / `retain`: the extent becomes a pending hole; `flush`: pending holes are promoted, merging with their
  neighbours changes the extents and not the bytes covered (`promote_cnt`); `compact` = flush + punching;
* `write_with` beyond the reservation (`Lemmas/LayoutGrow.lean`): the last region grows in place because
  `is_last_anything` means nothing is claimed behind it (`isLast_free`); growth into the adjacent hole takes exactly
  the hole's front; a relocation reserves its target in the best-fitting hole or at `Layout::len()` — at or beyond
  everything claimed (`layoutLen_ge`) — and then moves;
* `create_region_if_needed` (`Lemmas/LayoutCreate.lean`).

`C02_history_partial`: after EVERY sequence of operations from the empty database in which no operation panics and
that contains no `reopen`: no byte in two extents, all extents positive, everything claimed ends at or before
`Layout::len()`, two different live regions never share a byte.
`C02_history_accounted` adds the accounting half: `Acc` (`Lemmas/LayoutAcc.lean`: the claimed bytes form an initial
segment) is preserved too — every operation either leaves the number of extents covering each byte alone (a region
becomes a pending hole, pending holes are promoted and merged, a hole's front becomes a region or a reservation, a
reservation becomes the region) or adds one extent exactly on top of everything claimed (`acc_of_top`: creation or
relocation at `Layout::len()`, the last region growing in place) — so after every such history EVERY byte below
`Layout::len()` belongs to EXACTLY one region, reservation, free extent or pending free extent.
What is missing for the full statement: `reopen` (`Layout::from` over the metadata file — needs the invariant that
the metadata file agrees with the slots) and "inside the data file" as a whole-history invariant (checked by the
harness's extent checker on the real crate after every request).
`C02_history_aligned` (`Lemmas/LayoutAlign.lean`): every extent starts on a page boundary and is a whole number of pages
long — creation takes one page from an aligned hole or at the aligned `Layout::len()`, reservations double, holes are
split at aligned offsets and merged into aligned sums.
-/
namespace AnyDB.C02r
open AnyDB Conc Db


theorem linv_init : LInv Db.init := by
  refine ⟨fun x => by simp [claimedDb, exts, Db.init, cnt], fun e he => by simp [claimedDb, exts, Db.init] at he, ?_, ?_⟩
  · intro i st r hi; simp [vs, Db.init] at hi
  · intro st i hm; simp [Db.init] at hm

theorem linv_step (s : Db) (op : Op) (h : LInv s) (hop : ∀ n, op ≠ .reopen n) :
    IsPanic (step s op).2 ∨ LInv (step s op).1 := by
  cases op with
  | create id => exact linv_create s id h
  | write id d => simp only [step, Db.withRegion]; split; right; exact h; exact linv_writeWith s h _ d none false
  | writeAt id a d => simp only [step, Db.withRegion]; split; right; exact h; exact linv_writeWith s h _ d (some a) false
  | truncate id n => simp only [step, Db.withRegion]; split; right; exact h; right; exact (same_truncate s _ n).linv h
  | truncateWrite id a d => simp only [step, Db.withRegion]; split; right; exact h; exact linv_writeWith s h _ d (some a) true
  | rename id n => simp only [step, Db.withRegion]; split; right; exact h; right; exact (same_rename s _ n).linv h
  | remove id => right; exact linv_removeId s id false h
  | removeHeld id => right; exact linv_removeId s id true h
  | retain ids => right; exact linv_retain s ids h
  | flush => right; exact linv_flush s h
  | regionFlush id => simp only [step, Db.withRegion]; split; right; exact h; right; exact (same_regionFlush s _).linv h
  | compact => right; exact linv_compact s h
  | reopen n => exact absurd rfl (hop n)
  | setMinLen n => right; exact (same_setMinLen s n).linv h
  | setMinRegions n => right; exact (same_setMinRegions s n).linv h

/-- no operation of the history ends in a panic (after a panic the process is gone) -/
def NoPanic (s : Db) : List Op → Prop
  | [] => True
  | op :: t => ¬IsPanic (step s op).2 ∧ NoPanic (step s op).1 t

def NoReopen (ops : List Op) : Prop := ∀ op ∈ ops, ∀ n, op ≠ .reopen n

theorem linv_run (s : Db) (ops : List Op) (h : LInv s) (hr : NoReopen ops) (hp : NoPanic s ops) : LInv (run s ops) := by
  induction ops generalizing s with
  | nil => exact h
  | cons op t ih =>
    have hstep := linv_step s op h (hr op (List.mem_cons_self ..))
    have : run s (op :: t) = run (step s op).1 t := rfl
    rw [this]
    rcases hstep with hpn | hl
    · exact absurd hpn hp.1
    · exact ih _ hl (fun o ho => hr o (List.mem_cons_of_mem _ ho)) hp.2

/-- C02 (partial: no `reopen`, no panicking operation), for every history -/
theorem C02_history_partial (ops : List Op) (hr : NoReopen ops) (hp : NoPanic Db.init ops) :
    (∀ x, cnt (claimedDb (run Db.init ops)) x ≤ 1) ∧ (∀ e ∈ claimedDb (run Db.init ops), 0 < e.2) ∧
    (∀ e ∈ claimedDb (run Db.init ops), e.1 + e.2 ≤ (run Db.init ops).layoutLen) ∧
    (∀ (i j : Nat) (a b : Slot) (x : Nat), i ≠ j → (run Db.init ops).slot? i = some a → (run Db.init ops).slot? j = some b →
        ind (extOf a) x + ind (extOf b) x ≤ 1) := by
  have h := linv_run Db.init ops linv_init hr hp
  refine ⟨h.one, h.pos, fun e he => layoutLen_ge _ h e he, ?_⟩
  intro i j a b x hij ha hb
  have h2 := two_slots (run Db.init ops).slots i j a b x hij ((slot_iff _ i a).mp ha) ((slot_iff _ j b).mp hb)
  have h1 := h.one x
  unfold claimedDb at h1
  simp only [cnt_append] at h1
  omega


theorem acc_step (s : Db) (op : Op) (h : LInv s) (ha : Acc s) (hop : ∀ n, op ≠ .reopen n) :
    IsPanic (step s op).2 ∨ Acc (step s op).1 := by
  cases op with
  | create id => exact acc_create s id h ha
  | write id d => simp only [step, Db.withRegion]; split; right; exact ha; exact acc_writeWith s h ha _ d none false
  | writeAt id a d => simp only [step, Db.withRegion]; split; right; exact ha; exact acc_writeWith s h ha _ d (some a) false
  | truncate id n => simp only [step, Db.withRegion]; split; right; exact ha; right; exact (same_truncate s _ n).acc ha
  | truncateWrite id a d => simp only [step, Db.withRegion]; split; right; exact ha; exact acc_writeWith s h ha _ d (some a) true
  | rename id n => simp only [step, Db.withRegion]; split; right; exact ha; right; exact (same_rename s _ n).acc ha
  | remove id => right; exact acc_removeId s id false h ha
  | removeHeld id => right; exact acc_removeId s id true h ha
  | retain ids => right; exact acc_retain s ids h ha
  | flush => right; exact acc_flush s h ha
  | regionFlush id => simp only [step, Db.withRegion]; split; right; exact ha; right; exact (same_regionFlush s _).acc ha
  | compact => right; exact acc_compact s h ha
  | reopen n => exact absurd rfl (hop n)
  | setMinLen n => right; exact (same_setMinLen s n).acc ha
  | setMinRegions n => right; exact (same_setMinRegions s n).acc ha

theorem acc_run (s : Db) (ops : List Op) (h : LInv s) (ha : Acc s) (hr : NoReopen ops) (hp : NoPanic s ops) : Acc (run s ops) := by
  induction ops generalizing s with
  | nil => exact ha
  | cons op t ih =>
    have hno := hr op (List.mem_cons_self ..)
    have hstep := linv_step s op h hno
    have hacc := acc_step s op h ha hno
    have : run s (op :: t) = run (step s op).1 t := rfl
    rw [this]
    rcases hstep with hpn | hl
    · exact absurd hpn hp.1
    · rcases hacc with hpn | hac
      · exact absurd hpn hp.1
      · exact ih _ hl hac (fun o ho => hr o (List.mem_cons_of_mem _ ho)) hp.2

/-- C02, accounting half (partial: no `reopen`, no panicking operation), for every history:
every byte below the end of the allocated area belongs to exactly one extent -/
theorem C02_history_accounted (ops : List Op) (hr : NoReopen ops) (hp : NoPanic Db.init ops) :
    ∀ x, x < (run Db.init ops).layoutLen → cnt (claimedDb (run Db.init ops)) x = 1 := by
  have h := linv_run Db.init ops linv_init hr hp
  have ha := acc_run Db.init ops linv_init acc_init hr hp
  intro x hx
  have h1 := h.one x
  rcases layoutLen_attained _ h with h0 | hl
  · omega
  · have := ha x ((run Db.init ops).layoutLen - 1) (by omega) hl
    omega


theorem al_run (s : Db) (ops : List Op) (h : LInv s) (ha : Al s) (hr : NoReopen ops) (hp : NoPanic s ops) : Al (run s ops) := by
  induction ops generalizing s with
  | nil => exact ha
  | cons op t ih =>
    have hno := hr op (List.mem_cons_self ..)
    have hstep := linv_step s op h hno
    have hal := al_step s op h ha hno
    have : run s (op :: t) = run (step s op).1 t := rfl
    rw [this]
    rcases hstep with hpn | hl
    · exact absurd hpn hp.1
    · rcases hal with hpn | hac
      · exact absurd hpn hp.1
      · exact ih _ hl hac (fun o ho => hr o (List.mem_cons_of_mem _ ho)) hp.2

/-- C02, alignment (partial: no `reopen`, no panicking operation), for every history: every extent — region reservation,
relocation target, free extent, pending free extent — starts on a page boundary and is a whole number of pages long,
and so is `Layout::len()` -/
theorem C02_history_aligned (ops : List Op) (hr : NoReopen ops) (hp : NoPanic Db.init ops) :
    (∀ e ∈ claimedDb (run Db.init ops), e.1 % Gen.PAGE_SIZE = 0 ∧ e.2 % Gen.PAGE_SIZE = 0) ∧
    (run Db.init ops).layoutLen % Gen.PAGE_SIZE = 0 := by
  have h := linv_run Db.init ops linv_init hr hp
  have ha := al_run Db.init ops linv_init al_init hr hp
  exact ⟨ha, layoutLen_aligned _ h ha⟩

-- non-vacuity: a history with creation, removal, flush and reuse of the freed extent
example : NoReopen [Op.create [97], .create [98], .remove [98], .flush, .create [99]] ∧
    (run Db.init [Op.create [97], .create [98], .remove [98], .flush, .create [99]]).regions = [(0, 0), (4096, 1)] := by
  refine ⟨?_, by decide⟩
  intro op hop n
  simp only [List.mem_cons, List.not_mem_nil, or_false] at hop
  rcases hop with rfl | rfl | rfl | rfl | rfl <;> (intro h; cases h)

end AnyDB.C02r
