import AnyDB.Lemmas.ReopenRel
/-!
# C01 / C02 for every well-formed history — reopen at any point, any number of times

`C01_history_all`, `C02_history_all`: the whole-history theorems of `Props/C01Total.lean` without the restriction "no reopen".
Hypotheses: `OKRun` (valid names; no region beyond 2^39 bytes in the reference — conditions on the requests only) and `ReadyRun`:
a reopen happens only in states in which every live region has been written at least once — the property promises survival
exactly for those ("a region that ever held data or was renamed survives flush and reopen"); a region that was created and never
touched is not in the metadata file and `Database::open` does not see it.

Conclusion: no request panics; after the history the database shows in every slot exactly what the reference shows
(name, length, bytes — the reference is compared slot by slot, trailing free slots do not count: the slot table is as long as
the metadata file after a reopen); extents are disjoint, fully accounted, page-aligned, inside the file, contents inside their
reservation, and the metadata file agrees with the slot table.

What made this possible: every invariant holds again in the state `Database::open` rebuilds (`reopen_inv`: the holes of
`Layout::from` start at the origin or at the end of a region and end where a region starts — `lfs_holes`), the reopened database
shows what it showed (`rel_reopen`), and the reference step commutes with padding by free slots (`refStep_pad`).
-/
namespace AnyDB.C01r
open AnyDB Conc Db C02r Mem

/-- a reopen happens only when every live region has been written at least once -/
def ReadyRun (s : Db) : List Op → Prop
  | [] => True
  | op :: t => (∀ n, op = .reopen n → ∀ idx sl, s.slot? idx = some sl → sl.st ≠ .needsWrite) ∧ ReadyRun (step s op).1 t

/-- everything the induction carries: the state shows the reference (up to trailing free slots) and satisfies every invariant -/
structure Good (s : Db) (ρ : Ref) : Prop where
  rel : ∃ ρ', Rel s ρ' ∧ EqUpTo ρ ρ'
  rinv : RInv s
  acc : Acc s
  al : Al s
  inf : InF s
  finv : FInv s

theorem good_init : Good Db.init [] :=
  ⟨⟨[], rel_init.1, EqUpTo.refl _⟩, rel_init.2, acc_init, al_init, inf_init, finv_init⟩

theorem good_step (s : Db) (ρ : Ref) (op : Op) (g : Good s ρ) (hn : NamesValid op) (hsm : Small (refStep ρ op))
    (hready : ∀ n, op = .reopen n → ∀ idx sl, s.slot? idx = some sl → sl.st ≠ .needsWrite) :
    Fine (step s op).2 ∧ Good (step s op).1 (refStep ρ op) := by
  obtain ⟨ρ', hrel, he⟩ := g.rel
  by_cases hre : ∃ n, op = .reopen n
  · obtain ⟨n, rfl⟩ := hre
    have hw := hready n rfl
    obtain ⟨hok, i1, i2, i3, i4, i5⟩ := reopen_inv s n g.finv g.rinv g.al g.inf hw
    obtain ⟨ρ'', r1, r2⟩ := rel_reopen s ρ' n hrel g.finv g.rinv g.al hw hok
    refine ⟨by show Fine (s.reopen n).2; rw [hok]; exact fine_ok, ⟨⟨ρ'', r1, he.trans r2⟩, i1, i2, i3, i4, i5⟩⟩
  · have hno : ∀ n, op ≠ .reopen n := fun n h => hre ⟨n, h⟩
    have hes := eqUpTo_step ρ ρ' op he
    have hsm' : Small (refStep ρ' op) := (small_eqUpTo _ _ hes).mp hsm
    have hf := fine_step s op g.rinv g.inf hno (opFits_of_ok s ρ' op hrel hn hsm')
    have hnorm := normal_of_fine s op g.rinv hf
    obtain ⟨r1, r2⟩ := rel_step s ρ' op hrel g.rinv hno hnorm
    refine ⟨hf, ⟨⟨_, r1, hes⟩, r2, ?_, ?_, inf_step s op g.rinv.lay g.inf hno, ?_⟩⟩
    · rcases acc_step s op g.rinv.lay g.acc hno with h | h
      · exact absurd h hf.1
      · exact h
    · rcases al_step s op g.rinv.lay g.al hno with h | h
      · exact absurd h hf.1
      · exact h
    · rcases finv_step s op g.finv hno with h | h
      · exact absurd h hf.1
      · exact h

theorem good_run (s : Db) (ρ : Ref) (ops : List Op) (g : Good s ρ) (hok : OKRun ρ ops) (hready : ReadyRun s ops) :
    FineRun s ops ∧ Good (run s ops) (ops.foldl refStep ρ) := by
  induction ops generalizing s ρ with
  | nil => exact ⟨trivial, g⟩
  | cons op t ih =>
    obtain ⟨h1, h2⟩ := good_step s ρ op g hok.1 hok.2.1 hready.1
    obtain ⟨i1, i2⟩ := ih _ _ h2 hok.2.2 hready.2
    exact ⟨⟨h1, i1⟩, i2⟩

/-- **C01 for every well-formed history, reopen included** -/
theorem C01_history_all (ops : List Op) (hok : OKRun [] ops) (hready : ReadyRun Db.init ops) :
    NoPanic Db.init ops ∧
    ∀ idx, viewAt (run Db.init ops) idx = ((refRun ops)[idx]?.join).map liftE := by
  obtain ⟨hf, g⟩ := good_run Db.init [] ops good_init hok hready
  refine ⟨noPanic_of_fine Db.init ops hf, fun idx => ?_⟩
  obtain ⟨ρ', hrel, a, b, he⟩ := g.rel
  rw [hrel.2 idx]
  have h1 := join_pad (refRun ops) a idx
  have h2 := join_pad ρ' b idx
  unfold refRun at *
  rw [← h2, ← he, h1]

/-- **C02 for every well-formed history, reopen included** -/
theorem C02_history_all (ops : List Op) (hok : OKRun [] ops) (hready : ReadyRun Db.init ops) :
    RInv (run Db.init ops) ∧ Acc (run Db.init ops) ∧ Al (run Db.init ops) ∧ InF (run Db.init ops) ∧ FInv (run Db.init ops) := by
  obtain ⟨_, g⟩ := good_run Db.init [] ops good_init hok hready
  exact ⟨g.rinv, g.acc, g.al, g.inf, g.finv⟩

instance decReady : (s : Db) → (ops : List Op) → Decidable (ReadyRun s ops)
  | _, [] => isTrue trivial
  | s, op :: t => by
    unfold ReadyRun
    have : Decidable (∀ n, op = .reopen n → ∀ idx sl, s.slot? idx = some sl → sl.st ≠ .needsWrite) := by
      cases op with
      | reopen m =>
        -- all live slots are written
        refine decidable_of_iff ((List.range s.slots.length).all (fun i => match s.slot? i with | some sl => decide (sl.st ≠ .needsWrite) | none => true) = true) ?_
        rw [List.all_eq_true]
        constructor
        · intro h n _ idx sl hs
          have hlt : idx < s.slots.length := by
            unfold Db.slot? at hs
            cases hg : s.slots[idx]? with
            | none => rw [hg] at hs; cases hs
            | some o => rw [List.getElem?_eq_some_iff] at hg; exact hg.1
          have := h idx (List.mem_range.mpr hlt)
          rw [hs] at this; simpa using this
        · intro h i _
          cases hs : s.slot? i with
          | none => rfl
          | some sl => simpa using h m rfl i sl hs
      | _ => exact isTrue (fun n h => by cases h)
    exact @instDecidableAnd _ _ this (decReady (step s op).1 t)

/-- non-vacuity: two reopens in the middle of a history, with growth, relocation, removal and reuse around them -/
def exOpsR : List Op := [.create [97], .write [97] [1, 2, 3], .flush, .reopen 0, .create [98], .write [98] (List.replicate 50 7),
  .write [97] [4], .flush, .reopen 0, .remove [97], .create [99], .write [99] [5]]
example : OKRun [] exOpsR := by decide

end AnyDB.C01r
