import AnyDB.Model.Import

/-!
# C14 — import keeps matching data; discards only on a real version/format change

Model: `AnyDB/Model/Import.lean`.

* `C14_same_entry_kept`     — same user version, same format, SAME entry point as at creation ⇒ the
                               stored contents are returned (plain→plain and forced→forced);
* `C14_plain_mismatch_untouched` — a plain import whose effective version or format differs fails with the
                               matching error and leaves the stored data exactly as it was;
* `C14_forced_discards_iff` — a forced import discards stored data if and only if the verification of the
                               stored header fails with DifferentVersion / DifferentFormat (the model has no
                               other path to `discarded`: lock and I/O errors are propagated by
                               `forced_import_with`'s `_ => res` arm, which the extractor pins);
* `C14_corrupt_refused`     — matching header but a region length that is no multiple of the element size (raw formats):
                               refused with CorruptedRegion through both entry points, nothing removed;
* `C14_forced_result_empty` — after a forced import with a mismatch an empty vector of the requested
                               version and format is stored;
* `C14_full` / `C14_counterexample` / `C14_partial` — the full statement ("same user version and format ⇒
                               kept, through either entry point") is FALSE of the code: creating with the
                               plain entry point and reopening with the forced one (or vice versa) with the
                               very same user version compares `v + L` with `v + 2L` (known finding F2);
                               it holds whenever creation and reopening use the same entry point.
-/
namespace AnyDB.C14
open AnyDB Import Codec

/-- a vector created through entry `e` with user version `v`, format `f`, then filled with `n` elements -/
def created (e : Entry) (v : Nat) (f : Format) (n : Nat) : Stored :=
  { version := effectiveVersion e f v, format := f, len := n }

theorem C14_same_entry_kept (e : Entry) (v n : Nat) (f : Format) :
    importVec (some (created e v f n)) e v f = (.kept n, some (created e v f n)) := by
  unfold importVec verify created
  simp

theorem C14_plain_mismatch_untouched (s : Stored) (v : Nat) (f : Format)
    (h : s.version ≠ effectiveVersion .plain f v ∨ s.format ≠ f) :
    ((importVec (some s) .plain v f).1 = .errVersion ∨ (importVec (some s) .plain v f).1 = .errFormat) ∧
    (importVec (some s) .plain v f).2 = some s := by
  unfold importVec verify
  by_cases h1 : s.version ≠ effectiveVersion .plain f v
  · simp [h1]
  · rcases h with h | h
    · exact absurd h h1
    · simp [h1, h]

theorem C14_forced_discards_iff (s : Stored) (v : Nat) (f : Format) :
    (importVec (some s) .forced v f).1 = .discarded ↔ (s.version ≠ effectiveVersion .forced f v ∨ s.format ≠ f) := by
  unfold importVec verify
  by_cases h1 : s.version ≠ effectiveVersion .forced f v
  · simp [h1]
  · by_cases h2 : s.format ≠ f
    · simp [h1, h2]
    · simp [h1, h2]
      split <;> simp

theorem C14_forced_result_empty (s : Stored) (v : Nat) (f : Format)
    (h : (importVec (some s) .forced v f).1 = .discarded) :
    (importVec (some s) .forced v f).2 = some { version := effectiveVersion .forced f v, format := f, len := 0 } := by
  unfold importVec verify at h ⊢
  by_cases h1 : s.version ≠ effectiveVersion .forced f v
  · simp [h1]
  · by_cases h2 : s.format ≠ f
    · simp [h1, h2]
    · simp [h1, h2] at h
      split at h <;> simp at h

/-- matching version and format but an impossible region length (raw formats): refused through BOTH entry points and
    nothing is removed — the forced entry point resets on a version/format mismatch only -/
theorem C14_corrupt_refused (s : Stored) (e : Entry) (v : Nat) (f : Format)
    (hv : s.version = effectiveVersion e f v) (hf : s.format = f) (hc : s.corrupt = true) (hr : isRaw f = true) :
    importVec (some s) e v f = (.errCorrupt, some s) := by
  unfold importVec verify
  simp [hv, hf, hc, hr]

theorem C14_nothing_stored (e : Entry) (v : Nat) (f : Format) : (importVec none e v f).1 = .fresh := rfl

/-- the property as stated: same user version and format ⇒ kept, whatever the entry points -/
def C14_full : Prop :=
  ∀ (e₁ e₂ : Entry) (v n : Nat) (f : Format), (importVec (some (created e₁ v f n)) e₂ v f).1 = .kept n

/-- F2: created through `import`, reopened through `forced_import` with the same version ⇒ discarded -/
theorem C14_counterexample : ¬ C14_full := by
  intro h
  have := h .plain .forced 1 10 .bytes
  revert this
  decide

/-- … and the other way round the plain import refuses with DifferentVersion -/
theorem C14_counterexample_rev : (importVec (some (created .forced 1 .pco 10)) .plain 1 .pco).1 = .errVersion := by
  decide

theorem C14_partial (e : Entry) (v n : Nat) (f : Format) : (importVec (some (created e v f n)) e v f).1 = .kept n := by
  rw [C14_same_entry_kept]

/-- the forced entry point removes stored data exactly on the four listed error kinds; every other
    error (lock, I/O) is returned unchanged by its `_ => res` arm — pinned on the extracted match arms -/
theorem C14_reset_arms :
    Gen.rawResetArms = ["WrongEndian", "WrongLength", "DifferentFormat", "DifferentVersion"] ∧
    Gen.compResetArms = ["WrongEndian", "WrongLength", "DifferentFormat", "DifferentVersion"] ∧
    Gen.headerVerifyOrder = ["headerVersion", "vecVersion", "format"] := by decide

/-- the double addition behind F2, on the extracted call structure -/
theorem C14_double_add : forcedAdds .bytes = 2 ∧ plainAdds .bytes = 1 ∧ forcedAdds .pco = 2 ∧ plainAdds .pco = 1 := by decide

end AnyDB.C14
