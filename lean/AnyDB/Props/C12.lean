import AnyDB.Lemmas.MemLaws
import AnyDB.Model.Rawdb
import AnyDB.Generated.Orders

/-!
# C12 — compaction only ever discards bytes nobody can reach

Model: `Db.compact` = `Db.flush` then `Db.punchHoles` (`AnyDB/Model/Rawdb.lean`): one candidate range per
live region — the unused tail of its reserve `[start + ceilPage len, start + reserved)` — and one per free
extent; a candidate is punched when the sampling heuristic sees data in it.

* `C12_meta_unchanged`   — `punch_holes` changes no slot, no layout map and not the file length
                            (`KEEP_SIZE`): length, name and placement of every live region are untouched;
* `C12_frame`            — every byte range that is disjoint from all candidate ranges reads the same before
                            and after `punch_holes`;
* `C12_tail_above_data`  — the tail candidate of a region starts at or above the end of its contents and on a
                            page boundary: no live byte of the region shares a page with a punched byte;
* `C12_compact_len`      — `compact` never changes the logical file length;
* `C12_order`            — `compact` flushes first (extracted order), and by `C05_order` freed extents are
                            promoted — hence become candidates — only after the metadata sync that made their
                            release durable (this was violated on the no-dirty-region path: F10, repaired).

Free extents are disjoint from live regions by C02's invariant; that hypothesis of `C12_frame` is checked on
the real layout before every `compact` by the crash engine, which also verifies on the implementation that
bytes/length/placement of every live region and the file length are unchanged and that every punched range
lies in a free extent or a reserve tail, at every crash point inside `compact` (C05 oracles).
-/
namespace AnyDB.C12
open AnyDB Mem Gen

/-- fields other than the bytes and the event log -/
def sameMeta (a b : Db) : Prop :=
  a.fileLen = b.fileLen ∧ a.slots = b.slots ∧ a.rfile = b.rfile ∧ a.regions = b.regions ∧ a.holes = b.holes ∧
  a.reserved = b.reserved ∧ a.pending = b.pending ∧ a.mem.size = b.mem.size

theorem sameMeta_refl (a : Db) : sameMeta a a := ⟨rfl, rfl, rfl, rfl, rfl, rfl, rfl, rfl⟩
theorem sameMeta_trans {a b c : Db} (h1 : sameMeta a b) (h2 : sameMeta b c) : sameMeta a c := by
  obtain ⟨a1, a2, a3, a4, a5, a6, a7, a8⟩ := h1
  obtain ⟨b1, b2, b3, b4, b5, b6, b7, b8⟩ := h2
  exact ⟨a1.trans b1, a2.trans b2, a3.trans b3, a4.trans b4, a5.trans b5, a6.trans b6, a7.trans b7, a8.trans b8⟩

theorem punchIfData_meta (acc : Db × Nat) (start len : Nat) : sameMeta (Db.punchIfData acc start len).1 acc.1 := by
  unfold Db.punchIfData
  split
  · exact ⟨rfl, rfl, rfl, rfl, rfl, rfl, rfl, size_punch _ _ _⟩
  · exact sameMeta_refl _

/-- a range disjoint from the candidate keeps its bytes -/
theorem punchIfData_frame (acc : Db × Nat) (start len o l : Nat) (hd : o + l ≤ start ∨ start + len ≤ o) :
    (Db.punchIfData acc start len).1.mem.read o l = acc.1.mem.read o l := by
  unfold Db.punchIfData
  split
  · exact read_punch_frame _ _ _ _ _ hd
  · rfl

/-- candidate ranges of `punch_holes` -/
def tailOf (sl : Slot) : Nat × Nat := (sl.md.start + ceilPage sl.md.len, sl.md.reserved - ceilPage sl.md.len)

def disjointFrom (o l : Nat) (r : Nat × Nat) : Prop := o + l ≤ r.1 ∨ r.1 + r.2 ≤ o

theorem fold_holes (hs : List (Nat × Nat)) (acc : Db × Nat) (o l : Nat)
    (hd : ∀ h ∈ hs, disjointFrom o l h) :
    sameMeta (hs.foldl (fun acc h => Db.punchIfData acc h.1 h.2) acc).1 acc.1 ∧
    (hs.foldl (fun acc h => Db.punchIfData acc h.1 h.2) acc).1.mem.read o l = acc.1.mem.read o l := by
  induction hs generalizing acc with
  | nil => exact ⟨sameMeta_refl _, rfl⟩
  | cons h t ih =>
    simp only [List.foldl_cons]
    have := ih (Db.punchIfData acc h.1 h.2) (fun x hx => hd x (by simp [hx]))
    refine ⟨sameMeta_trans this.1 (punchIfData_meta acc h.1 h.2), ?_⟩
    rw [this.2]
    exact punchIfData_frame acc h.1 h.2 o l (hd h (by simp))

/-- the per-slot step of `punch_holes` -/
def tailStep (acc : Db × Nat) (i : Nat) : Db × Nat :=
  match acc.1.slot? i with
  | none => acc
  | some sl =>
    let ceilLen := ceilPage sl.md.len
    if ceilLen < sl.md.reserved then Db.punchIfData acc (sl.md.start + ceilLen) (sl.md.reserved - ceilLen) else acc

theorem tailStep_meta (acc : Db × Nat) (i : Nat) : sameMeta (tailStep acc i).1 acc.1 := by
  unfold tailStep
  split
  · exact sameMeta_refl _
  · simp only []
    split
    · exact punchIfData_meta _ _ _
    · exact sameMeta_refl _

theorem fold_tails (is : List Nat) (acc : Db × Nat) (o l : Nat)
    (hd : ∀ i ∈ is, ∀ sl, acc.1.slot? i = some sl → disjointFrom o l (tailOf sl)) :
    sameMeta (is.foldl tailStep acc).1 acc.1 ∧ (is.foldl tailStep acc).1.mem.read o l = acc.1.mem.read o l := by
  induction is generalizing acc with
  | nil => exact ⟨sameMeta_refl _, rfl⟩
  | cons i t ih =>
    simp only [List.foldl_cons]
    have hm := tailStep_meta acc i
    have hslots : ∀ j, (tailStep acc i).1.slot? j = acc.1.slot? j := by
      intro j; unfold Db.slot?; rw [hm.2.1]
    have := ih (tailStep acc i) (fun j hj sl hs => hd j (by simp [hj]) sl (by rw [← hslots]; exact hs))
    refine ⟨sameMeta_trans this.1 hm, ?_⟩
    rw [this.2]
    unfold tailStep
    cases hs : acc.1.slot? i with
    | none => rfl
    | some sl =>
      simp only []
      split
      · have := hd i (by simp) sl hs
        exact punchIfData_frame acc _ _ o l this
      · rfl

theorem punchHoles_eq (s : Db) :
    s.punchHoles =
      (let acc := (List.range s.slots.length).foldl tailStep (s, 0)
       let holesSorted := s.holes.foldl (fun l h => sortedInsert l h.1 h.2) []
       let acc := holesSorted.foldl (fun acc h => Db.punchIfData acc h.1 h.2) acc
       if acc.2 > 0 then acc.1.emit (.sync .data) else acc.1) := by
  unfold Db.punchHoles tailStep
  rfl

theorem mem_sortedInsert (l : List (Nat × Nat)) (k v : Nat) (x : Nat × Nat) (h : x ∈ sortedInsert l k v) : x = (k, v) ∨ x ∈ l := by
  induction l with
  | nil => simp [sortedInsert] at h; left; exact h
  | cons a t ih =>
    obtain ⟨a1, a2⟩ := a
    simp only [sortedInsert] at h
    split at h
    · simp at h; rcases h with h | h | h
      · left; exact h
      · right; simp [h]
      · right; simp [h]
    · split at h
      · simp at h; rcases h with h | h
        · left; exact h
        · right; simp [h]
      · simp at h; rcases h with h | h
        · right; simp [h]
        · rcases ih h with h' | h'
          · left; exact h'
          · right; simp [h']

theorem mem_holesSorted (hs : List (Nat × Nat)) (acc : List (Nat × Nat)) (x : Nat × Nat)
    (h : x ∈ hs.foldl (fun l h => sortedInsert l h.1 h.2) acc) : x ∈ acc ∨ x ∈ hs := by
  induction hs generalizing acc with
  | nil => left; exact h
  | cons a t ih =>
    simp only [List.foldl_cons] at h
    rcases ih _ h with h' | h'
    · rcases mem_sortedInsert _ _ _ _ h' with e | e
      · right; simp [e]
      · left; exact e
    · right; simp [h']

/-- `punch_holes` touches neither metadata nor the file length -/
theorem C12_meta_unchanged (s : Db) : sameMeta s.punchHoles s := by
  rw [punchHoles_eq]
  simp only []
  have h1 := (fold_tails (List.range s.slots.length) (s, 0) 0 0 (by intro i _ sl _; left; omega)).1
  have h2 := (fold_holes (s.holes.foldl (fun l h => sortedInsert l h.1 h.2) []) ((List.range s.slots.length).foldl tailStep (s, 0)) 0 0
    (by intro h _; left; omega)).1
  split
  · exact sameMeta_trans (show sameMeta _ _ from ⟨rfl, rfl, rfl, rfl, rfl, rfl, rfl, rfl⟩) (sameMeta_trans h2 h1)
  · exact sameMeta_trans h2 h1

/-- bytes outside every candidate range survive `punch_holes` -/
theorem C12_frame (s : Db) (o l : Nat)
    (htails : ∀ i sl, s.slot? i = some sl → disjointFrom o l (tailOf sl))
    (hholes : ∀ h ∈ s.holes, disjointFrom o l h) :
    s.punchHoles.mem.read o l = s.mem.read o l := by
  rw [punchHoles_eq]
  simp only []
  have h1 := fold_tails (List.range s.slots.length) (s, 0) o l (fun i _ sl hs => htails i sl hs)
  have h2 := fold_holes (s.holes.foldl (fun l h => sortedInsert l h.1 h.2) []) ((List.range s.slots.length).foldl tailStep (s, 0)) o l
    (by intro h hh
        rcases mem_holesSorted _ _ _ hh with e | e
        · simp at e
        · exact hholes h e)
  split
  · show (Db.emit _ _).mem.read o l = _
    simp only [Db.emit]
    rw [h2.2, h1.2]
  · rw [h2.2, h1.2]

theorem le_ceilPage (n : Nat) : n ≤ ceilPage n ∧ ceilPage n % PAGE_SIZE = 0 := by
  unfold ceilPage; simp only [PAGE_SIZE]; omega

/-- the punched tail of a region lies above its contents, on a page boundary -/
theorem C12_tail_above_data (sl : Slot) (hal : sl.md.start % PAGE_SIZE = 0) :
    disjointFrom sl.md.start sl.md.len (tailOf sl) ∧ (tailOf sl).1 % PAGE_SIZE = 0 := by
  have ⟨h1, h2⟩ := le_ceilPage sl.md.len
  unfold disjointFrom tailOf
  simp only [PAGE_SIZE] at *
  constructor
  · left; omega
  · omega

theorem flush_fileLen (s : Db) : (s.flush).1.fileLen = s.fileLen := by
  unfold Db.flush
  simp only []
  split
  · simp only []; split <;> rfl
  · simp only []
    have : ∀ (l : List (Nat × Slot × Option (Nat × Nat))) (t : Db), (l.foldl Db.markCleanStep t).fileLen = t.fileLen := by
      intro l
      induction l with
      | nil => intro t; rfl
      | cons x r ih =>
        intro t
        simp only [List.foldl_cons]
        rw [ih]
        unfold Db.markCleanStep
        split <;> rfl
    show (List.foldl Db.markCleanStep _ _).fileLen = _
    rw [this]
    simp only [Db.emit, Db.takeAllDirty]
    split <;> rfl

/-- `compact` never changes the logical file length -/
theorem C12_compact_len (s : Db) : (s.compact).1.fileLen = s.fileLen := by
  unfold Db.compact
  cases h : s.flush with
  | mk s' o =>
    simp only []
    have hf : s'.fileLen = s.fileLen := by have := flush_fileLen s; rw [h] at this; exact this
    cases o with
    | okN n => simp only []; rw [(C12_meta_unchanged s').1, hf]
    | ok => exact hf
    | err k => exact hf
    | panic m => exact hf

theorem C12_order : compactOrder = ["flush", "punchHoles"] := by decide

/-- non-vacuity: one region with 1 byte in a 3-page reserve, one free page behind it -/
example : tailOf { md := { start := 0, len := 1, reserved := 12288, id := [97] }, st := .clean, dmin := USIZE_MAX, dmax := 0 } = (4096, 8192) := by decide

end AnyDB.C12
