import AnyDB.Props.C04Raw
/-!
# C03 as a refinement — raw formats, every plain history

`C03_refinement_raw`: for EVERY sequence of pushes, updates (accepted or refused), deletions, truncations and
`write()`s applied by the model's own functions to an empty raw vector, the list of what the vector shows
(`itemsL`: `getAny` at every index below `len`) equals the same sequence folded over a plain `List (Option Nat)` —
the reference vector of the property.  One refinement lemma per operation (`push_refines`, `update_refines`,
`delete_refines`, `truncate_refines`, `write_refines`), each also preserving the state invariant `RawInv`; under
that invariant `write()` cannot fail (`writeRaw_ok`).  No hypothesis on the history remains.

Not covered here: the compressed write (C07's lossless theorems + correspondence), stamped writes / rollback (C04),
reset and re-import (correspondence).
-/
namespace AnyDB.C03r
open AnyDB VecM VecM.V C03 C03w C20 C04r

/-! # C03 as a refinement: a raw vector behaves like a list of optional values -/

/-- what the vector shows, index by index -/
def itemsL (s : V) : List (Option Nat) := (List.range s.len).map (fun i => (s.getAny i).1)

theorem itemsL_length (s : V) : (itemsL s).length = s.len := by simp [itemsL]
theorem itemsL_get (s : V) (i : Nat) (h : i < s.len) : (itemsL s)[i]? = some (s.getAny i).1 := by
  simp [itemsL, h]

/-- two states that show the same thing at every index below the same length -/
theorem itemsL_ext (a b : V) (hl : a.len = b.len) (h : ∀ i, i < b.len → (a.getAny i).1 = (b.getAny i).1) : itemsL a = itemsL b := by
  unfold itemsL; rw [hl]
  apply List.map_congr_left
  intro i hi
  exact h i (List.mem_range.mp hi)

/-- the state invariant of plain histories on a raw vector -/
structure RawInv (s : V) : Prop where
  kind : s.kind = .raw
  upd : UpdInv s
  holes : HolesBelowLen s
  stored : s.storedLen ≤ s.disk.length

theorem rawInv_init (sz keep : Nat) : RawInv (V.init .raw sz keep) :=
  ⟨rfl, updInv_init .raw sz keep, by intro h hh; simp [V.init] at hh, by simp [V.init]⟩

/-! ## push -/

theorem push_refines (s : V) (v : Nat) (h : RawInv s) : itemsL (s.push v) = itemsL s ++ [some v] ∧ RawInv (s.push v) := by
  refine ⟨?_, ⟨h.kind, updInv_push s v h.upd, ?_, h.stored⟩⟩
  · apply List.ext_getElem?
    intro i
    by_cases hi : i < s.len
    · rw [itemsL_get _ i (by rw [C03_len_push]; omega), List.getElem?_append_left (by rw [itemsL_length]; exact hi), itemsL_get s i hi]
      exact congrArg some (C03_push_old s v i hi)
    · by_cases hi2 : i = s.len
      · subst hi2
        rw [itemsL_get _ _ (by rw [C03_len_push]; omega), List.getElem?_append_right (by rw [itemsL_length]; exact Nat.le_refl _), itemsL_length]
        simp only [Nat.sub_self, List.getElem?_cons_zero]
        exact congrArg some (C03_push_new s v h.holes)
      · rw [List.getElem?_eq_none (by rw [itemsL_length, C03_len_push]; omega),
          List.getElem?_eq_none (by simp [itemsL_length]; omega)]
  · intro x hx
    have := h.holes x hx
    rw [C03_len_push]; omega


/-! ## update -/

theorem updateAt_len (s : V) (i v : Nat) : (s.updateAt i v).1.len = s.len := by
  unfold updateAt V.len; split
  · split <;> simp
  · rfl

theorem updateAt_ok (s : V) (i v : Nat) (hi : i < s.len) : (s.updateAt i v).2 = .ok := by
  unfold updateAt; split
  · rename_i hge
    have : i - s.storedLen < s.pushed.length := by unfold V.len at hi; omega
    simp [this]
  · rfl

theorem update_refines (s : V) (i v : Nat) (h : RawInv s) (hi : i < s.len) :
    itemsL (s.updateAt i v).1 = (itemsL s).set i (some v) ∧ RawInv (s.updateAt i v).1 := by
  have hok := updateAt_ok s i v hi
  refine ⟨?_, ⟨?_, updInv_update s i v h.upd, ?_, ?_⟩⟩
  · apply List.ext_getElem?
    intro j
    by_cases hj : j < s.len
    · rw [itemsL_get _ j (by rw [updateAt_len]; exact hj)]
      by_cases hji : j = i
      · subst hji
        rw [List.getElem?_set_self (by rw [itemsL_length]; exact hj)]
        exact congrArg some (C03_update_same s j v hok)
      · rw [List.getElem?_set_ne (Ne.symm hji), itemsL_get s j hj]
        exact congrArg some (C03_update_other s i v j hji)
    · rw [List.getElem?_eq_none (by rw [itemsL_length, updateAt_len]; omega),
        List.getElem?_eq_none (by simp [itemsL_length]; omega)]
  · unfold updateAt; split
    · split <;> exact h.kind
    · exact h.kind
  · intro x hx
    rw [updateAt_len]
    have : x ∈ s.holes := by
      unfold updateAt at hx; split at hx
      · split at hx
        · exact (List.mem_filter.mp hx).1
        · exact hx
      · exact (List.mem_filter.mp hx).1
    exact h.holes x this
  · unfold updateAt; split
    · split <;> exact h.stored
    · exact h.stored

/-! ## delete -/

theorem deleteAt_len (s : V) (i : Nat) : (s.deleteAt i).len = s.len := by
  unfold deleteAt; split <;> rfl

theorem delete_refines (s : V) (i : Nat) (h : RawInv s) :
    itemsL (s.deleteAt i) = (if i < s.len then (itemsL s).set i none else itemsL s) ∧ RawInv (s.deleteAt i) := by
  refine ⟨?_, ⟨?_, updInv_delete s i h.upd, ?_, ?_⟩⟩
  · split
    · rename_i hi
      apply List.ext_getElem?
      intro j
      by_cases hj : j < s.len
      · rw [itemsL_get _ j (by rw [deleteAt_len]; exact hj)]
        by_cases hji : j = i
        · subst hji
          rw [List.getElem?_set_self (by rw [itemsL_length]; exact hj)]
          exact congrArg some (C03_delete_same s j hi)
        · rw [List.getElem?_set_ne (Ne.symm hji), itemsL_get s j hj]
          exact congrArg some (C03_delete_other s i j hji)
      · rw [List.getElem?_eq_none (by rw [itemsL_length, deleteAt_len]; omega),
          List.getElem?_eq_none (by simp [itemsL_length]; omega)]
    · rename_i hi
      unfold deleteAt; simp only [hi, if_false]
  · unfold deleteAt; split <;> exact h.kind
  · intro x hx
    rw [deleteAt_len]
    unfold deleteAt at hx; split at hx
    · rename_i hi
      unfold uncheckedDeleteAt at hx
      rcases (mem_setInsert _ _ _).mp hx with h1 | h1
      · exact h.holes x h1
      · rw [h1]; exact hi
    · exact h.holes x hx
  · unfold deleteAt; split <;> exact h.stored


/-! ## truncate -/

theorem truncatePushed_pushed (t : V) (n : Nat) (i : Nat) (hi : t.storedLen ≤ i) (hin : i < n) :
    (t.truncatePushed n).pushed[i - t.storedLen]? = t.pushed[i - t.storedLen]? := by
  unfold truncatePushed
  split
  · rfl
  · have hn : ¬(n ≤ t.storedLen) := by omega
    have hn2 : ¬(n < t.storedLen) := by omega
    simp only [hn, hn2, if_false]
    rw [List.getElem?_take]
    have : i - t.storedLen < n - t.storedLen := by omega
    simp [this]

theorem truncate_item (s : V) (n i : Nat) (hk : s.kind = .raw) (hi : i < n) : ((s.truncate n).getAny i).1 = (s.getAny i).1 := by
  have he : s.truncate n = (s.truncateDirtyAt n).truncatePushed n := by unfold truncate; rw [hk]
  rw [he, getAny_itemOf, getAny_itemOf]
  obtain ⟨f1, f2, f3, f4⟩ := truncatePushed_fields (s.truncateDirtyAt n) n
  rw [f1, f2, f3, f4]
  have d1 : (s.truncateDirtyAt n).disk = s.disk := rfl
  have d2 : (s.truncateDirtyAt n).holes = s.holes.filter (· < n) := rfl
  have d3 : (s.truncateDirtyAt n).updated = s.updated.filter (fun kv => decide (kv.1 < n)) := rfl
  have d4 : (s.truncateDirtyAt n).storedLen = s.storedLen := rfl
  have d5 : (s.truncateDirtyAt n).pushed = s.pushed := rfl
  rw [d1, d2, d3, d4]
  unfold itemOf
  have hh : (i ∈ s.holes.filter (· < n)) ↔ i ∈ s.holes := by simp [List.mem_filter, hi]
  by_cases h1 : i ∈ s.holes
  · have : i ∈ s.holes.filter (· < n) := hh.mpr h1
    simp only [h1, this, if_true]
  · have : ¬ i ∈ s.holes.filter (· < n) := fun hc => h1 (hh.mp hc)
    simp only [h1, this, if_false]
    by_cases h2 : i ≥ s.storedLen
    · have h3 : i ≥ min n s.storedLen := by omega
      simp only [h2, h3, if_true]
      have hm : min n s.storedLen = s.storedLen := by omega
      rw [hm]
      have := truncatePushed_pushed (s.truncateDirtyAt n) n i (by rw [d4]; exact h2) hi
      rw [d4, d5] at this
      exact this
    · have h3 : ¬(i ≥ min n s.storedLen) := by omega
      simp only [h2, h3, if_false]
      rw [mapGet_filter_lt _ _ _ hi]

theorem truncate_refines (s : V) (n : Nat) (h : RawInv s) : itemsL (s.truncate n) = (itemsL s).take n ∧ RawInv (s.truncate n) := by
  have hlen := C03_truncate_len s n
  have he : s.truncate n = (s.truncateDirtyAt n).truncatePushed n := by unfold truncate; rw [h.kind]
  obtain ⟨f1, f2, f3, f4⟩ := truncatePushed_fields (s.truncateDirtyAt n) n
  refine ⟨?_, ⟨?_, updInv_truncate s n h.kind h.upd, ?_, ?_⟩⟩
  · apply List.ext_getElem?
    intro i
    by_cases hi : i < min n s.len
    · rw [itemsL_get _ i (by rw [hlen]; exact hi), List.getElem?_take]
      have : i < n := by omega
      simp only [this, if_true]
      rw [itemsL_get s i (by omega)]
      exact congrArg some (truncate_item s n i h.kind this)
    · rw [List.getElem?_eq_none (by rw [itemsL_length, hlen]; omega),
        List.getElem?_eq_none (by simp [itemsL_length]; omega)]
  · rw [he]
    unfold truncatePushed truncateDirtyAt
    split
    · exact h.kind
    · split <;> split <;> exact h.kind
  · intro x hx
    rw [hlen]
    rw [he, f2] at hx
    have hx' : x ∈ s.holes.filter (· < n) := hx
    have := List.mem_filter.mp hx'
    have h1 := h.holes x this.1
    have h2 : x < n := by simpa using this.2
    omega
  · rw [he, f4, f1]
    have : (s.truncateDirtyAt n).storedLen = s.storedLen := rfl
    have d : (s.truncateDirtyAt n).disk = s.disk := rfl
    rw [this, d]
    have := h.stored; omega


/-! ## write -/

theorem writeRaw_len (s : V) (b : Bool) (h : s.writeRaw.2 = .okB b) (hu : UpdOK s) (hle : s.storedLen ≤ s.disk.length) :
    s.writeRaw.1.len = s.len ∧ s.writeRaw.1.holes = s.holes ∧ s.writeRaw.1.updated = [] := by
  by_cases hd : s.pushed ≠ [] ∨ s.updated ≠ [] ∨ s.storedLen < s.disk.length
  · obtain ⟨w1, w2, w3, w4, _⟩ := writeRaw_spec s b h hu hle hd
    exact ⟨by unfold V.len; rw [w3, w2]; simp, w4, w1⟩
  · -- nothing buffered, overlaid or cut: `write()` may still store the deleted-slot table
    have hp : s.pushed = [] := by
      cases hps : s.pushed with
      | nil => rfl
      | cons a t => exact absurd (Or.inl (by rw [hps]; simp)) hd
    have hup : s.updated = [] := by
      cases hus : s.updated with
      | nil => rfl
      | cons a t => exact absurd (Or.inr (Or.inl (by rw [hus]; simp))) hd
    have hst : s.storedLen = s.disk.length := by
      have : ¬(s.storedLen < s.disk.length) := fun hc => hd (Or.inr (Or.inr hc))
      omega
    have hh : s.writeHeaderIfNeeded.holes = s.holes ∧ s.writeHeaderIfNeeded.storedLen = s.storedLen ∧
        s.writeHeaderIfNeeded.pushed = s.pushed ∧ s.writeHeaderIfNeeded.updated = s.updated ∧ s.writeHeaderIfNeeded.disk = s.disk := by
      unfold writeHeaderIfNeeded; split <;> exact ⟨rfl, rfl, rfl, rfl, rfl⟩
    obtain ⟨k1, k2, k3, k4, k5⟩ := hh
    unfold V.len
    rw [← k1, ← k2, ← k3]
    have hp' : s.writeHeaderIfNeeded.pushed = [] := by rw [k3]; exact hp
    have hup' : s.writeHeaderIfNeeded.updated = [] := by rw [k4]; exact hup
    have hst' : s.writeHeaderIfNeeded.storedLen = s.writeHeaderIfNeeded.disk.length := by rw [k2, k5]; exact hst
    unfold writeRaw at h ⊢
    simp only [] at h ⊢
    generalize s.writeHeaderIfNeeded = t at *
    split at h
    · rename_i hc; rw [if_pos hc]; exact ⟨rfl, rfl, hup'⟩
    · rename_i hc
      rw [if_neg hc]
      rw [wrExtend_id t (by omega)] at h ⊢
      have hdata : t.wrData (decide (t.storedLen < t.disk.length)) = .ok t := by
        unfold wrData
        have h1 : (!t.pushed.isEmpty) = false := by rw [hp']; rfl
        have h2 : decide (t.storedLen < t.disk.length) = false := by simp; omega
        simp only [h1, h2, Bool.false_eq_true, if_false]
      rw [hdata] at h ⊢
      simp only at h ⊢
      have hov : t.wrOverlay (decide (t.storedLen > t.disk.length)) = .ok t := by
        unfold wrOverlay
        have h1 : (!t.updated.isEmpty) = false := by rw [hup']; rfl
        simp only [h1, Bool.false_eq_true, if_false]
      rw [hov] at h ⊢
      simp only at h ⊢
      have fh : (t.wrHoles (!t.holes.isEmpty) t.hasStoredHoles).1.holes = t.holes ∧
          (t.wrHoles (!t.holes.isEmpty) t.hasStoredHoles).1.pushed = t.pushed ∧
          (t.wrHoles (!t.holes.isEmpty) t.hasStoredHoles).1.updated = t.updated := by
        unfold wrHoles; split
        · exact ⟨rfl, rfl, rfl⟩
        · split <;> exact ⟨rfl, rfl, rfl⟩
      obtain ⟨f1, _⟩ := wrHoles_fields t (!t.holes.isEmpty) t.hasStoredHoles
      exact ⟨by rw [f1, fh.2.1], fh.1, by rw [fh.2.2]; exact hup'⟩

theorem write_refines (s : V) (b : Bool) (h : RawInv s) (hok : s.writeRaw.2 = .okB b) :
    itemsL s.writeRaw.1 = itemsL s ∧ RawInv s.writeRaw.1 := by
  have hu := updOK_of_inv s h.upd
  obtain ⟨l1, l2, l3⟩ := writeRaw_len s b hok hu h.stored
  refine ⟨itemsL_ext _ _ l1 (fun i _ => C03_write_preserves s b hok hu h.stored i), ⟨?_, ?_, ?_, ?_⟩⟩
  · rw [writeRaw_kind s b hok h.stored]; exact h.kind
  · unfold UpdInv KeysSorted; rw [l3]; exact ⟨List.Pairwise.nil, by simp⟩
  · intro x hx; rw [l1]; rw [l2] at hx; exact h.holes x hx
  · exact C20_writeRaw_le s b hok


/-! ## under the invariant `write()` cannot fail -/

theorem wrOverlaySet_ok (upd : List (Nat × Nat)) (t : V) (hk : ∀ kv ∈ upd, kv.1 < t.disk.length) : ∃ r, wrOverlaySet upd t = .ok r := by
  unfold wrOverlaySet
  induction upd generalizing t with
  | nil => exact ⟨t, rfl⟩
  | cons kv r ih =>
    have h1 : kv.1 < t.disk.length := hk kv (List.mem_cons_self ..)
    simp only [List.foldl_cons, h1, if_true]
    exact ih _ (fun x hx => by simp only [List.length_set]; exact hk x (List.mem_cons_of_mem _ hx))

theorem writeRaw_ok (s : V) (h : RawInv s) : ∃ b, s.writeRaw.2 = .okB b := by
  have hh : s.writeHeaderIfNeeded.storedLen = s.storedLen ∧ s.writeHeaderIfNeeded.updated = s.updated ∧ s.writeHeaderIfNeeded.disk = s.disk := by
    unfold writeHeaderIfNeeded; split <;> exact ⟨rfl, rfl, rfl⟩
  have hle : s.writeHeaderIfNeeded.storedLen ≤ s.writeHeaderIfNeeded.disk.length := by rw [hh.1, hh.2.2]; exact h.stored
  have hkeys : ∀ kv ∈ s.writeHeaderIfNeeded.updated, kv.1 < s.writeHeaderIfNeeded.storedLen := by rw [hh.1, hh.2.1]; exact h.upd.2
  unfold writeRaw
  simp only []
  generalize s.writeHeaderIfNeeded = t at *
  split
  · exact ⟨false, rfl⟩
  · rw [wrExtend_id t hle]
    cases h1 : t.wrData (decide (t.storedLen < t.disk.length)) with
    | error e =>
      exfalso
      unfold wrData at h1
      split at h1
      · simp only at h1; split at h1
        · omega
        · cases h1
      · split at h1 <;> cases h1
    | ok s1 =>
      simp only
      obtain ⟨d1, d2, _, _, d5⟩ := wrData_spec t s1 hle h1
      have hexp : decide (t.storedLen > t.disk.length) = false := by simp; omega
      rw [hexp]
      have hov : ∃ s2, s1.wrOverlay false = .ok s2 := by
        unfold wrOverlay
        split
        · simp only [Bool.false_eq_true, if_false]
          apply wrOverlaySet_ok
          intro kv hkv
          rw [d5] at hkv
          have := hkeys kv hkv
          simp only
          rw [d1]; simp; omega
        · exact ⟨s1, rfl⟩
      obtain ⟨s2, h2⟩ := hov
      rw [h2]
      simp only
      unfold wrHoles
      split
      · exact ⟨true, rfl⟩
      · split <;> exact ⟨true, rfl⟩

/-! ## every history -/

inductive Edit
  | push (v : Nat) | update (i v : Nat) | delete (i : Nat) | truncate (n : Nat) | write
deriving Repr

/-- the edits on the vector (the model's own functions) -/
def applyEdit (s : V) : Edit → V
  | .push v => s.push v
  | .update i v => (s.updateAt i v).1
  | .delete i => s.deleteAt i
  | .truncate n => s.truncate n
  | .write => s.writeRaw.1

/-- the same edits on a plain list of optional values: the reference vector of C03 -/
def refEdit (l : List (Option Nat)) : Edit → List (Option Nat)
  | .push v => l ++ [some v]
  | .update i v => if i < l.length then l.set i (some v) else l
  | .delete i => if i < l.length then l.set i none else l
  | .truncate n => l.take n
  | .write => l

theorem updateAt_refused (s : V) (i v : Nat) (hi : ¬ i < s.len) : (s.updateAt i v).1 = s := by
  unfold updateAt
  have h1 : i ≥ s.storedLen := by unfold V.len at hi; omega
  have h2 : ¬(i - s.storedLen < s.pushed.length) := by unfold V.len at hi; omega
  simp [h1, h2]

theorem edit_refines (s : V) (e : Edit) (h : RawInv s) : itemsL (applyEdit s e) = refEdit (itemsL s) e ∧ RawInv (applyEdit s e) := by
  cases e with
  | push v => exact push_refines s v h
  | update i v =>
    simp only [applyEdit, refEdit, itemsL_length]
    by_cases hi : i < s.len
    · simp only [hi, if_true]; exact update_refines s i v h hi
    · simp only [hi, if_false]; rw [updateAt_refused s i v hi]; exact ⟨rfl, h⟩
  | delete i =>
    simp only [applyEdit, refEdit, itemsL_length]
    exact delete_refines s i h
  | truncate n => exact truncate_refines s n h
  | write =>
    obtain ⟨b, hb⟩ := writeRaw_ok s h
    exact write_refines s b h hb

/-- C03 for the raw formats, plain histories: after EVERY sequence of pushes, updates (accepted or refused), deletions,
truncations and writes from the empty vector, the vector shows exactly what the reference list shows — same length,
same value or same "deleted" at every index — and `write()` never fails on the way -/
theorem C03_refinement_raw (es : List Edit) (sz keep : Nat) :
    itemsL (es.foldl applyEdit (V.init .raw sz keep)) = es.foldl refEdit [] ∧ RawInv (es.foldl applyEdit (V.init .raw sz keep)) := by
  suffices hh : ∀ (s : V) (l : List (Option Nat)), RawInv s → itemsL s = l →
      itemsL (es.foldl applyEdit s) = es.foldl refEdit l ∧ RawInv (es.foldl applyEdit s) from
    hh _ _ (rawInv_init sz keep) (by simp [itemsL, V.init, V.len])
  induction es with
  | nil => intro s l h hl; exact ⟨hl, h⟩
  | cons e t ih =>
    intro s l h hl
    simp only [List.foldl_cons]
    obtain ⟨r1, r2⟩ := edit_refines s e h
    exact ih _ _ r2 (by rw [r1, hl])

-- non-vacuity: a history on the model, evaluated
example : itemsL ([Edit.push 1, .push 2, .push 3, .write, .delete 1, .update 2 9, .push 4, .truncate 3, .write].foldl applyEdit (V.init .raw 8 0))
    = [some 1, none, some 9] := by decide

end AnyDB.C03r
