import AnyDB.Model.LockOrder

/-!
# C11 — no interleaving of library calls from different threads can deadlock

Model: `AnyDB/Lemmas/Locks.lean` — threads with a stack of held locks and a program of
acquisitions/releases; read-write locks are WRITER-PREFERRING (a reader also waits for any thread whose
next action is a write acquisition of the same lock); `enabled`, `unfinished`, the discipline
`OK held prog` (every acquisition ranks strictly above everything held; only held locks are released;
a finished thread holds nothing).

* `C11_progress`       — in every well-formed state in which some thread is unfinished, some thread is
                          enabled: no set of threads blocks forever, for ANY number of threads, programs
                          and schedules (proof: among the blocked requests take the highest lock; its holder —
                          or the holder blocking the queued writer — is itself blocked on a higher one);
* `C11_step_preserves` — every step of every thread preserves well-formedness, so the statement holds in
                          every reachable state (`C11_reachable_progress`);
* `C11_check_sound`    — the executable per-trace check used by the driver (`okB`) is exactly the
                          discipline `OK`: a trace the driver accepts is a program the theorem covers;
* `C11_rank_strict`    — the rank table is injective on the classes it lists (a linear order).

The theorem turns "for all combinations of operations, allocator states and schedules" into a
per-operation, single-thread obligation: every acquisition trace of every public operation respects the
order.  The sched engine records those traces on the real code (guarded lock shim) for 48 operation ×
state scenarios and the driver checks each.  Findings: the pinned tree violated the order in
`Region::flush` (metadata guard held while taking the file lock, F12 — repaired by a `fix:` commit) and
still does on the read paths of compressed vectors, which take the page-index lock while holding the
mapping / metadata lock whereas `write()` holds the page-index lock across `Pages::flush` (F13, known
finding, reported with the two offending edges).
-/
namespace AnyDB.C11
open AnyDB Locks LockOrder

theorem C11_progress (s : Sys) (hwf : WF s) (hu : ∃ i, unfinished s i) : ∃ i, enabled s i :=
  progress s hwf hu

/-- thread `i` performs its next action -/
def stepThread (t : T) : T :=
  match t.prog with
  | [] => t
  | Act.acq l m :: rest => { held := (l, m) :: t.held, prog := rest }
  | Act.rel l :: rest => { held := t.held.filter (·.1 != l), prog := rest }

def step (s : Sys) (i : Nat) : Sys :=
  match s[i]? with
  | some t => s.set i (stepThread t)
  | none => s

theorem stepThread_ok (t : T) (h : OK t.held t.prog) : OK (stepThread t).held (stepThread t).prog := by
  unfold stepThread
  cases hp : t.prog with
  | nil => simpa [hp] using h
  | cons a rest =>
    rw [hp] at h
    cases a with
    | acq l m => simp only [OK] at h; exact h.2
    | rel l => simp only [OK] at h; exact h.2

theorem C11_step_preserves (s : Sys) (i : Nat) (hwf : WF s) : WF (step s i) := by
  unfold step
  cases hi : s[i]? with
  | none => exact hwf
  | some t =>
    intro j u hj
    simp only [] at hj
    by_cases hji : j = i
    · subst hji
      have hlt : j < s.length := by
        cases h : s[j]? with
        | none => simp [h] at hi
        | some _ => exact (List.getElem?_eq_some_iff.mp h).1
      rw [List.getElem?_set_self hlt] at hj
      cases hj
      exact stepThread_ok t (hwf j t hi)
    · rw [List.getElem?_set_ne (by omega)] at hj
      exact hwf j u hj

/-- states reachable by any schedule -/
inductive Reachable (s0 : Sys) : Sys → Prop
  | init : Reachable s0 s0
  | step (s : Sys) (i : Nat) : Reachable s0 s → Reachable s0 (step s i)

theorem C11_reachable_progress (s0 s : Sys) (h0 : WF s0) (hr : Reachable s0 s) (hu : ∃ i, unfinished s i) :
    ∃ i, enabled s i := by
  have hwf : WF s := by
    clear hu
    induction hr with
    | init => exact h0
    | step s' i _ ih => exact C11_step_preserves s' i ih
  exact progress s hwf hu

/-- the executable discipline check -/
def okB : List (Nat × Mode) → List Act → Bool
  | held, [] => held.isEmpty
  | held, Act.acq l m :: rest => held.all (fun h => decide (h.1 < l)) && okB ((l, m) :: held) rest
  | held, Act.rel l :: rest => held.any (fun h => h.1 == l) && okB (held.filter (·.1 != l)) rest

theorem C11_check_sound (held : List (Nat × Mode)) (prog : List Act) : okB held prog = true ↔ OK held prog := by
  induction prog generalizing held with
  | nil => simp [okB, OK, List.isEmpty_iff]
  | cons a rest ih =>
    cases a with
    | acq l m =>
      simp only [okB, OK, Bool.and_eq_true, List.all_eq_true, decide_eq_true_eq, ih]
    | rel l =>
      simp only [okB, OK, Bool.and_eq_true, List.any_eq_true, ih]
      constructor
      · rintro ⟨⟨h, hm, he⟩, hr⟩
        refine ⟨⟨h.2, ?_⟩, hr⟩
        have : h.1 = l := by simpa using he
        rw [← this]; exact hm
      · rintro ⟨⟨m, hm⟩, hr⟩
        exact ⟨⟨(l, m), hm, by simp⟩, hr⟩

/-- a system built from accepted traces is well formed -/
theorem C11_accepted_traces_wf (progs : List (List Act)) (h : ∀ p ∈ progs, okB [] p = true) :
    WF (progs.map (fun p => ({ held := [], prog := p } : T))) := by
  intro i t hi
  rw [List.getElem?_map] at hi
  cases hp : progs[i]? with
  | none => simp [hp] at hi
  | some p =>
    simp [hp] at hi
    subst hi
    exact (C11_check_sound [] p).mp (h p (List.mem_of_getElem? hp))

theorem C11_rank_strict :
    (["ExitLock", "BgTasks", "BgSync", "HeaderInner", "Pages", "Layout", "Regions", "MmapMut", "File", "RegionMetadata", "DirtyBounds"].map rank)
      = [some 0, some 1, some 2, some 3, some 4, some 5, some 6, some 7, some 8, some 9, some 10] := by
  decide

/-- non-vacuity: the recorded trace of a region write that extends the last region respects the order;
    the F13 reader edge does not -/
example : respectsOrder [.acq "RegionMetadata" 0 false, .rel "RegionMetadata" 0, .acq "Layout" 1 true, .acq "RegionMetadata" 0 true,
    .rel "RegionMetadata" 0, .rel "Layout" 1, .acq "MmapMut" 2 false, .rel "MmapMut" 2] = true := by decide
example : checkFrom [] [.acq "MmapMut" 0 false, .acq "Pages" 1 false] = .violation "MmapMut" "Pages" := by decide

end AnyDB.C11
