import AnyDB.Model.Vec

/-!
# C07 — compressed storage is lossless and its page index stays well-formed

Model: `writeComp` of `AnyDB/Model/Vec.lean` (three regimes: fast raw append, partial-page
re-encode, fresh pages), `encChunks`, `buildPages`, `splitChunks`, `pagesFlush`.

Proved here for every page list, every chunking and every compressor answer (no bound):

* `C07_split_concat`     — cutting the values into pages loses and reorders nothing;
* `C07_split_sizes`      — every page but the last is full, no page is empty or over-full;
* `C07_enc_flags`        — a page is stored raw exactly when it is not full, a raw page occupies
                            `values · size` bytes, and the encoded contents are the chunks, in order;
* `C07_build_chained`    — the new pages form a gap-free run starting where the kept pages end;
* `C07_write_chained`    — hence the page list after the general `write()` path is a gap-free run
                            from the header, if it was one before (truncation point + new pages);
* `C07_fast_chained`     — the same for the fast raw-append path;
* `C07_flush_sync`       — after `Pages::flush` the page-index region equals the in-memory index,
                            provided the unflushed suffix starts at `change_at`;
* `C07_lossless_pages`   — decoding the pages (`pagesValues`) after the general path returns the
                            kept pages' values followed by exactly the values written.

The compressor itself (pco / lz4 / zstd round trip) is assumed, sampled by the correspondence on
extreme integers and float bit patterns; its output size is an input of the model.
-/
namespace AnyDB.C07
open AnyDB VecM VecM.V

/-- gap-free run of pages starting at `x` -/
def Chained : Nat → List Page → Prop
  | _, [] => True
  | x, p :: t => p.start = x ∧ Chained p.stop t

/-- where a run that starts at `x` ends -/
def chainEnd : Nat → List Page → Nat
  | x, [] => x
  | _, p :: t => chainEnd p.stop t

theorem chained_append (x : Nat) (a b : List Page) (ha : Chained x a) (hb : Chained (chainEnd x a) b) :
    Chained x (a ++ b) := by
  induction a generalizing x with
  | nil => simpa [chainEnd] using hb
  | cons p t ih =>
    simp only [List.cons_append, Chained] at ha ⊢
    exact ⟨ha.1, ih _ ha.2 (by simpa [chainEnd] using hb)⟩

theorem chained_take (x : Nat) (l : List Page) (n : Nat) (h : Chained x l) : Chained x (l.take n) := by
  induction l generalizing x n with
  | nil => simp [Chained]
  | cons p t ih =>
    cases n with
    | zero => simp [Chained]
    | succ n => simp only [List.take_succ_cons, Chained] at h ⊢; exact ⟨h.1, ih _ _ h.2⟩

theorem nextStart_eq_chainEnd (l : List Page) : nextStart l = chainEnd HEADER l := by
  unfold nextStart
  induction l with
  | nil => rfl
  | cons p t ih =>
    cases t with
    | nil => simp [chainEnd]
    | cons q r =>
      have : (p :: q :: r).getLast? = (q :: r).getLast? := by simp [List.getLast?_cons_cons]
      rw [this]
      -- the end of the run does not depend on its first page once a later page exists
      have gen : ∀ (x y : Nat) (l : List Page), l ≠ [] → chainEnd x l = chainEnd y l := by
        intro x y l hl
        cases l with
        | nil => exact absurd rfl hl
        | cons a b => rfl
      rw [ih]
      simp only [chainEnd]

theorem C07_build_chained (x : Nat) (enc : List (Nat × Nat × Bool × List Nat)) :
    Chained x (buildPages x enc) := by
  induction enc generalizing x with
  | nil => simp [buildPages, Chained]
  | cons e t ih => simp only [buildPages, Chained, Page.stop, true_and]; exact ih _

/-- the page list after the general path of `write()`: kept prefix + freshly laid out pages -/
theorem C07_write_chained (pages : List Page) (spi : Nat) (enc : List (Nat × Nat × Bool × List Nat))
    (h : Chained HEADER pages) :
    Chained HEADER (pages.take spi ++ buildPages (nextStart (pages.take spi)) enc) := by
  apply chained_append _ _ _ (chained_take _ _ _ h)
  rw [nextStart_eq_chainEnd]
  exact C07_build_chained _ _

/-- the fast path replaces the last (raw, partial) page by a longer one with the same start -/
theorem C07_fast_chained (pages : List Page) (spi : Nat) (page np : Page)
    (h : Chained HEADER pages) (hp : pages[spi]? = some page) (hs : np.start = page.start) :
    Chained HEADER (pages.take spi ++ [np]) := by
  apply chained_append _ _ _ (chained_take _ _ _ h)
  simp only [Chained, and_true]
  rw [hs]
  -- the page at position spi of a run starts where the first spi pages end
  have key : ∀ (x : Nat) (l : List Page) (n : Nat) (p : Page), Chained x l → l[n]? = some p →
      p.start = chainEnd x (l.take n) := by
    intro x l
    induction l generalizing x with
    | nil => intro n p _ hn; simp at hn
    | cons a t ih =>
      intro n p hc hn
      cases n with
      | zero => simp at hn; subst hn; simpa [chainEnd] using hc.1
      | succ n =>
        simp only [List.getElem?_cons_succ] at hn
        simp only [List.take_succ_cons, chainEnd]
        exact ih _ _ _ hc.2 hn
  exact key _ _ _ _ h hp

/-! ### chunking -/

theorem C07_split_concat (fuel n : Nat) (l : List Nat) (hn : 0 < n) (hf : l.length < fuel) :
    (splitChunks fuel n l).flatten = l := by
  induction fuel generalizing l with
  | zero => omega
  | succ f ih =>
    cases n with
    | zero => omega
    | succ m =>
      simp only [splitChunks]
      by_cases he : l.isEmpty
      · simp [he]; simpa using he
      · simp only [he, Bool.false_eq_true, if_false, List.flatten_cons]
        have hl : 0 < l.length := by
          cases l with
          | nil => simp at he
          | cons a t => simp
        rw [ih (l.drop (m + 1)) (by simp; omega)]
        exact List.take_append_drop _ _

theorem C07_split_sizes (fuel n : Nat) (l : List Nat) (hn : 0 < n) :
    ∀ ch ∈ splitChunks fuel n l, 0 < ch.length ∧ ch.length ≤ n := by
  induction fuel generalizing l with
  | zero => intro ch h; simp [splitChunks] at h
  | succ f ih =>
    cases n with
    | zero => omega
    | succ m =>
      intro ch h
      simp only [splitChunks] at h
      by_cases he : l.isEmpty
      · simp [he] at h
      · simp only [he, Bool.false_eq_true, if_false, List.mem_cons] at h
        rcases h with rfl | h
        · have hl : 0 < l.length := by
            cases l with
            | nil => simp at he
            | cons a t => simp
          simp; omega
        · exact ih _ _ h

/-- all pages but the last are full -/
theorem C07_split_full (fuel n : Nat) (l : List Nat) (hn : 0 < n) :
    ∀ (i : Nat), i + 1 < (splitChunks fuel n l).length → ((splitChunks fuel n l)[i]?.map List.length) = some n := by
  induction fuel generalizing l with
  | zero => intro i h; simp [splitChunks] at h
  | succ f ih =>
    cases n with
    | zero => omega
    | succ m =>
      intro i h
      simp only [splitChunks] at h ⊢
      by_cases he : l.isEmpty
      · simp [he] at h
      · simp only [he, Bool.false_eq_true, if_false, List.length_cons] at h ⊢
        cases i with
        | zero =>
          simp only [List.getElem?_cons_zero, Option.map_some, List.length_take]
          -- a following chunk exists, so the remainder is not empty: l is longer than n
          have : (splitChunks f (m + 1) (l.drop (m + 1))).length > 0 := by omega
          have hne : ¬ (l.drop (m + 1)).isEmpty := by
            intro hc
            cases f with
            | zero => simp [splitChunks] at this
            | succ f' => simp [splitChunks, hc] at this
          have : (l.drop (m + 1)).length > 0 := by
            cases hd : l.drop (m + 1) with
            | nil => simp [hd] at hne
            | cons a t => simp
          simp at this
          congr 1; omega
        | succ j =>
          simp only [List.getElem?_cons_succ]
          exact ih _ j (by omega)

/-- raw ⇔ not full; raw pages occupy values·size bytes; contents are the chunks -/
theorem C07_enc_flags (pp sz : Nat) (chunks : List (List Nat)) (cs : List Nat) :
    (∀ e ∈ encChunks pp sz chunks cs, (e.2.2.1 = true ↔ e.2.1 ≠ pp) ∧ (e.2.2.1 = true → e.1 = e.2.1 * sz) ∧ e.2.1 = e.2.2.2.length) ∧
    (encChunks pp sz chunks cs).map (·.2.2.2) = chunks := by
  induction chunks generalizing cs with
  | nil => simp [encChunks]
  | cons ch t ih =>
    simp only [encChunks]
    by_cases hf : ch.length = pp
    · simp only [hf, if_true]
      cases cs with
      | nil =>
        have := ih []
        refine ⟨?_, by simp [this.2]⟩
        intro e he
        simp only [List.mem_cons] at he
        rcases he with rfl | he
        · simp [hf]
        · exact this.1 e he
      | cons c cs' =>
        have := ih cs'
        refine ⟨?_, by simp [this.2]⟩
        intro e he
        simp only [List.mem_cons] at he
        rcases he with rfl | he
        · simp [hf]
        · exact this.1 e he
    · simp only [hf, if_false]
      have := ih cs
      refine ⟨?_, by simp [this.2]⟩
      intro e he
      simp only [List.mem_cons] at he
      rcases he with rfl | he
      · simp [hf]
      · exact this.1 e he

theorem pagesValues_build (x : Nat) (enc : List (Nat × Nat × Bool × List Nat)) :
    pagesValues (buildPages x enc) = (enc.map (·.2.2.2)).flatten := by
  unfold pagesValues
  induction enc generalizing x with
  | nil => simp [buildPages]
  | cons e t ih => simp only [buildPages, List.flatMap_cons, List.map_cons, List.flatten_cons]; rw [ih]

/-- decoding after the general path: the kept pages' values, then exactly the values written -/
theorem C07_lossless_pages (kept : List Page) (pp sz : Nat) (values cs : List Nat) (hpp : 0 < pp) :
    pagesValues (kept ++ buildPages (nextStart kept) (encChunks pp sz (splitChunks (values.length + 1) pp values) cs))
      = pagesValues kept ++ values := by
  unfold pagesValues
  rw [List.flatMap_append]
  congr 1
  have := pagesValues_build (nextStart kept) (encChunks pp sz (splitChunks (values.length + 1) pp values) cs)
  unfold pagesValues at this
  rw [this, (C07_enc_flags pp sz _ cs).2, C07_split_concat _ _ _ hpp (by omega)]

/-- `Pages::flush` brings the index region in line with memory -/
theorem C07_flush_sync (s : V) (c : Nat) (hc : s.changeAt = some c) (hle : c ≤ s.pagesDisk.length)
    (hpre : s.pagesDisk.take c = (s.pages.take c).map Page.entry) :
    (s.pagesFlush).2 = true ∧ (s.pagesFlush).1.pagesDisk = s.pages.map Page.entry ∧ (s.pagesFlush).1.changeAt = none := by
  have hn : ¬ c > s.pagesDisk.length := by omega
  have e : s.pagesFlush = ({ s with changeAt := none, pagesDisk := s.pagesDisk.take c ++ (s.pages.drop c).map Page.entry }, true) := by
    unfold V.pagesFlush; simp only [hc, hn, if_false]
  rw [e]
  refine ⟨rfl, ?_, rfl⟩
  show s.pagesDisk.take c ++ (s.pages.drop c).map Page.entry = _
  rw [hpre, ← List.map_append, List.take_append_drop]

/-- non-vacuity: three pages of capacity 4 from 9 values; the last one raw -/
example : (encChunks 4 8 (splitChunks 10 4 [1,2,3,4,5,6,7,8,9]) [17, 19]).map (fun e => (e.1, e.2.1, e.2.2.1)) =
    [(17, 4, false), (19, 4, false), (8, 1, true)] := by decide
example : Chained HEADER (buildPages HEADER (encChunks 4 8 (splitChunks 10 4 [1,2,3,4,5,6,7,8,9]) [17, 19])) :=
  C07_build_chained _ _

end AnyDB.C07
