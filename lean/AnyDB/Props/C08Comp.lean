import AnyDB.Props.C03Comp
import AnyDB.Props.C08Pages
/-!
# C08 for compressed vectors in every reachable state

`C08_comp_history`: after EVERY history of pushes, truncations and writes on a compressed vector (any compressor answers),
the page loop of `read_stored_pages_into` over the vector's own page index returns, for every range inside the stored part,
exactly the slice of the reference list — the hypothesis of `C08_pages_range` (all pages but the last full, none over-full)
is the invariant `CInv` that `C03Comp` proves for every reachable state.
-/
namespace AnyDB.C08
open AnyDB VecM VecM.V ReadPaths C03c

theorem wf_full (pp : Nat) (pages : List Page) (h : PagesWF pp pages) :
    Full (pages.map (·.content)) pp ∧ ∀ p ∈ pages.map (·.content), p.length ≤ pp := by
  constructor
  · intro pi hpi
    rw [List.length_map] at hpi
    have hlt : pi < pages.length := by omega
    have hg : pages[pi]? = some pages[pi] := List.getElem?_eq_getElem hlt
    obtain ⟨g1, g2, g3⟩ := wf_get pp pages pi _ h hg
    rw [List.getD_eq_getElem?_getD, List.getElem?_map, hg]
    simp only [Option.map_some, Option.getD_some]
    rw [g1, g3 hpi]
  · intro c hc
    obtain ⟨p, hp, rfl⟩ := List.mem_map.mp hc
    obtain ⟨i, hi, hpi⟩ := List.getElem_of_mem hp
    have hg : pages[i]? = some p := by rw [List.getElem?_eq_getElem hi, hpi]
    obtain ⟨g1, g2, _⟩ := wf_get pp pages i p h hg
    rw [g1]; exact g2

theorem flatten_contents (pages : List Page) : (pages.map (·.content)).flatten = pagesValues pages := by
  unfold pagesValues; rw [List.flatMap_def]

/-- a range inside the stored part reads the same from the decoded pages as from what the vector shows -/
theorem slice_shown (s : V) (h : CInv s) (from_ to : Nat) (hft : from_ < to) (hto : to ≤ s.storedLen) :
    sliceOf (pagesValues s.pages) from_ to = sliceOf (shown s) from_ to := by
  have hst := h.stored
  have hl : ((pagesValues s.pages).take s.storedLen).length = s.storedLen := by rw [List.length_take, Nat.min_eq_left hst]
  unfold sliceOf shown
  rw [List.length_append, hl, Nat.min_eq_left (by omega), Nat.min_eq_left (by omega)]
  rw [List.drop_append_of_le_length (by rw [hl]; omega), List.take_append_of_le_length (by rw [List.length_drop, hl]; omega)]
  rw [List.drop_take, List.take_take, Nat.min_eq_left (by omega)]

/-- **C08, compressed formats, every reachable state** -/
theorem C08_comp_history (es : List CEdit) (sz keep : Nat) (h1 : 0 < sz) (h2 : sz ≤ MAX_PAGE) (from_ to : Nat) (hft : from_ < to)
    (hto : to ≤ (runC (V.init .comp sz keep) es).1.storedLen) :
    pagesRead ((runC (V.init .comp sz keep) es).1.pages.map (·.content)) (runC (V.init .comp sz keep) es).1.perPage from_ to
      = sliceOf (es.foldl refC []) from_ to := by
  obtain ⟨hi, hs⟩ := cinv_init sz keep h1 h2
  obtain ⟨r1, _, r3, _⟩ := run_refines _ es hi hs
  obtain ⟨f1, f2⟩ := wf_full _ _ r3.wf
  rw [C08_pages_range _ _ _ _ r3.pp f1 f2 hft (by rw [flatten_contents]; have := r3.stored; omega), flatten_contents,
    slice_shown _ r3 _ _ hft hto, r1]
  rfl

end AnyDB.C08
