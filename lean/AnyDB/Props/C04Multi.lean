import AnyDB.Props.C20Undo
namespace AnyDB.C04m
open AnyDB VecM VecM.V C03 C03w C04r C04b C04c C20

/-! # C04 — any number of rollbacks in a row (raw formats)

A committed state is described logically by a snapshot: stamp, stored length, deleted slots and the value of every stored
slot (deleted or not).  `Shows r c`: the physical state `r` — whatever is in its overlay and in the region — presents
snapshot `c`.  `undo_shows`: undoing a record that is faithful for the step `c0 → c` on ANY state that shows `c` gives a
state that shows `c0`.  Induction over the chain of records gives the property for any number of consecutive rollbacks. -/

/-- the value slot `i` holds, deleted or not: overlay entry, else the region -/
def slotVal (s : V) (i : Nat) : Nat :=
  match mapGet s.updated i with
  | some v => v
  | none => s.disk.getD i garbage

structure Snap where
  stamp : Nat
  storedLen : Nat
  holes : List Nat
  vals : List Nat

def Shows (r : V) (c : Snap) : Prop :=
  r.kind = .raw ∧ r.pushed = [] ∧ r.storedLen = c.storedLen ∧ r.holes = c.holes ∧ r.stamp = c.stamp ∧
    ∀ i, i < c.storedLen → slotVal r i = c.vals.getD i 0

/-- the record written when committing `c` on top of `c0`: previous stamp, length, deleted slots; the truncated tail of
`c0` from `ts` on; the previous values of every slot below `ts` whose value differs between `c0` and `c` (and maybe more) -/
structure FaithfulS (c0 c : Snap) (ch : Change) : Prop where
  stamp : ch.prevStamp = c0.stamp
  psl : ch.prevStoredLen = c0.storedLen
  pp : ch.prevPushed = []
  ph : ch.prevHoles = c0.holes
  tsle : ch.truncatedStart ≤ c0.storedLen ∧ ch.truncatedStart ≤ c.storedLen
  tvlen : ch.truncatedValues.length = c0.storedLen - ch.truncatedStart
  tv : ∀ j, j < ch.truncatedValues.length → ch.truncatedValues.getD j 0 = c0.vals.getD (ch.truncatedStart + j) 0
  modsDistinct : KeysDistinct ch.mods
  modsVals : ∀ kv ∈ ch.mods, kv.1 < c0.storedLen ∧ kv.2 = c0.vals.getD kv.1 0
  cover : ∀ i, i < ch.truncatedStart → mapGet ch.mods i = none → c.vals.getD i 0 = c0.vals.getD i 0

theorem mapGet_filter_lt (m : List (Nat × Nat)) (n i : Nat) (h : i < n) :
    mapGet (m.filter (fun kv => decide (kv.1 < n))) i = mapGet m i := by
  unfold mapGet
  induction m with
  | nil => rfl
  | cons a t ih =>
    by_cases ha : a.1 < n
    · rw [List.filter_cons_of_pos (by simpa using ha)]
      by_cases hk : a.1 = i
      · simp [List.find?_cons, hk]
      · rw [List.find?_cons_of_neg (by simpa using hk), List.find?_cons_of_neg (by simpa using hk)]; exact ih
    · rw [List.filter_cons_of_neg (by simpa using ha)]
      have hk : ¬ a.1 = i := by omega
      rw [List.find?_cons_of_neg (by simpa using hk)]; exact ih

theorem insertTruncated_kind (s : V) (ts : Nat) (tv : List Nat) : (insertTruncated s ts tv).kind = s.kind := by
  unfold insertTruncated
  generalize List.range tv.length = l
  induction l generalizing s with
  | nil => rfl
  | cons a t ih => simp only [List.foldl_cons]; exact ih _

theorem updateAt_kind (s : V) (k v : Nat) : (s.updateAt k v).1.kind = s.kind := by
  unfold updateAt
  split
  · split <;> rfl
  · rfl

theorem applyMods_kind (s : V) (mods : List (Nat × Nat)) : (applyMods s mods).1.kind = s.kind := by
  unfold applyMods
  suffices h : ∀ (acc : V × Out), (mods.foldl (fun (acc : V × Out) (kv : Nat × Nat) =>
      match acc.2 with
      | .ok => acc.1.updateAt kv.1 kv.2
      | _ => acc) acc).1.kind = acc.1.kind from h (s, .ok)
  induction mods with
  | nil => intro acc; rfl
  | cons kv t ih =>
    intro acc
    simp only [List.foldl_cons]
    rw [ih]
    split
    · exact updateAt_kind _ _ _
    · rfl

theorem undoRaw_kind (s : V) (ch : Change) : (undoRaw s ch).1.kind = s.kind := by
  unfold undoRaw
  simp only []
  have k0 : (if ch.prevStoredLen < s.storedLen then s.truncateDirtyAt ch.prevStoredLen else s).kind = s.kind := by split <;> rfl
  generalize (if ch.prevStoredLen < s.storedLen then s.truncateDirtyAt ch.prevStoredLen else s) = s0 at k0
  have k1 : (s0.applyRollback ch.prevStamp ch.prevStoredLen ch.prevPushed).kind = s0.kind := by
    unfold V.applyRollback V.updateStamp; split <;> rfl
  generalize s0.applyRollback ch.prevStamp ch.prevStoredLen ch.prevPushed = s1 at k1
  have k2 := insertTruncated_kind s1 ch.truncatedStart ch.truncatedValues
  generalize insertTruncated s1 ch.truncatedStart ch.truncatedValues = s2 at k2
  have k3 := applyMods_kind s2 ch.mods
  generalize applyMods s2 ch.mods = r at k3
  split
  · unfold finishUndo
    simp only []
    split <;> (first | (simp only []; rw [k3, k2, k1, k0]) | rw [k3, k2, k1, k0] | (show r.1.kind = s.kind; rw [k3, k2, k1, k0]))
  · rw [k3, k2, k1, k0]

/-- undoing a record that is faithful for `c0 → c` on any state that shows `c`: the state then shows `c0` -/
theorem undo_shows (r : V) (c0 c : Snap) (ch : Change) (bytes : List UInt8) (hs : Shows r c) (hf : FaithfulS c0 c ch)
    (hparse : parseChange r.kind r.sz bytes = .ok ch) :
    (r.undo bytes).2 = .ok ∧ Shows (r.undo bytes).1 c0 := by
  obtain ⟨s1, s2, s3, s4, s5, s6⟩ := hs
  have hm : ∀ kv ∈ ch.mods, kv.1 < ch.prevStoredLen := fun kv hkv => by rw [hf.psl]; exact (hf.modsVals kv hkv).1
  obtain ⟨u1, u2, u3, u4, u5, u6, _⟩ := C04_raw_undo_items r bytes ch s1 hparse hm hf.modsDistinct
  have hov := C20b.undo_raw_overlay r bytes ch s1 hparse hm hf.modsDistinct
  have hkind : (r.undo bytes).1.kind = .raw := by rw [undo_raw_eq r bytes ch s1 hparse, undoRaw_kind, s1]
  refine ⟨u1, hkind, by rw [u4, hf.pp], by rw [u3, hf.psl], by rw [u5, hf.ph], by rw [u2, hf.stamp], fun i hi => ?_⟩
  unfold slotVal
  rw [hov i, u6]
  cases hmod : mapGet ch.mods i with
  | some v =>
    simp only
    exact (hf.modsVals (i, v) (mem_of_mapGet _ _ _ hmod)).2
  | none =>
    simp only
    by_cases h3 : ch.truncatedStart ≤ i ∧ i < ch.truncatedStart + ch.truncatedValues.length
    · rw [if_pos h3]
      simp only
      have := hf.tv (i - ch.truncatedStart) (by omega)
      rw [this]; congr 1; omega
    · rw [if_neg h3]
      have hlt : i < ch.truncatedStart := by have := hf.tvlen; omega
      have hb : mapGet (baseUpdated r ch) i = mapGet r.updated i := by
        unfold baseUpdated
        split
        · exact mapGet_filter_lt _ _ _ (by rw [hf.psl]; exact hi)
        · rfl
      rw [hb]
      have hsv := s6 i (by have := hf.tsle.2; omega)
      unfold slotVal at hsv
      rw [hsv]
      exact hf.cover i hlt hmod


theorem insertTruncated_sz (s : V) (ts : Nat) (tv : List Nat) : (insertTruncated s ts tv).sz = s.sz := by
  unfold insertTruncated
  generalize List.range tv.length = l
  induction l generalizing s with
  | nil => rfl
  | cons a t ih => simp only [List.foldl_cons]; exact ih _

theorem updateAt_sz (s : V) (k v : Nat) : (s.updateAt k v).1.sz = s.sz := by
  unfold updateAt
  split
  · split <;> rfl
  · rfl

theorem applyMods_sz (s : V) (mods : List (Nat × Nat)) : (applyMods s mods).1.sz = s.sz := by
  unfold applyMods
  suffices h : ∀ (acc : V × Out), (mods.foldl (fun (acc : V × Out) (kv : Nat × Nat) =>
      match acc.2 with
      | .ok => acc.1.updateAt kv.1 kv.2
      | _ => acc) acc).1.sz = acc.1.sz from h (s, .ok)
  induction mods with
  | nil => intro acc; rfl
  | cons kv t ih =>
    intro acc
    simp only [List.foldl_cons]
    rw [ih]
    split
    · exact updateAt_sz _ _ _
    · rfl

theorem undoRaw_sz (s : V) (ch : Change) : (undoRaw s ch).1.sz = s.sz := by
  unfold undoRaw
  simp only []
  have k0 : (if ch.prevStoredLen < s.storedLen then s.truncateDirtyAt ch.prevStoredLen else s).sz = s.sz := by split <;> rfl
  generalize (if ch.prevStoredLen < s.storedLen then s.truncateDirtyAt ch.prevStoredLen else s) = s0 at k0
  have k1 : (s0.applyRollback ch.prevStamp ch.prevStoredLen ch.prevPushed).sz = s0.sz := by
    unfold V.applyRollback V.updateStamp; split <;> rfl
  generalize s0.applyRollback ch.prevStamp ch.prevStoredLen ch.prevPushed = s1 at k1
  have k2 := insertTruncated_sz s1 ch.truncatedStart ch.truncatedValues
  generalize insertTruncated s1 ch.truncatedStart ch.truncatedValues = s2 at k2
  have k3 := applyMods_sz s2 ch.mods
  generalize applyMods s2 ch.mods = r at k3
  split
  · unfold finishUndo
    simp only []
    split <;> (first | (simp only []; rw [k3, k2, k1, k0]) | rw [k3, k2, k1, k0] | (show r.1.sz = s.sz; rw [k3, k2, k1, k0]))
  · rw [k3, k2, k1, k0]

/-! ## any number of rollbacks -/

abbrev Step := Snap × List UInt8 × Change

/-- the snapshot reached after undoing all steps, starting from `c` -/
def bottom : Snap → List Step → Snap
  | c, [] => c
  | _, st :: t => bottom st.1 t

/-- every step's record parses to a change that is faithful for the pair of snapshots it connects -/
def StepsOK (sz : Nat) : Snap → List Step → Prop
  | _, [] => True
  | c, st :: t => FaithfulS st.1 c st.2.2 ∧ parseChange .raw sz st.2.1 = .ok st.2.2 ∧ StepsOK sz st.1 t

def undoAll (r : V) (steps : List Step) : V := steps.foldl (fun r st => (r.undo st.2.1).1) r

/-- C04 for the raw formats, repeatedly: from ANY state that shows the newest committed snapshot, undoing the retained records
one after the other — each faithful for its commit — never fails and ends in a state that shows the oldest snapshot of the
chain: its stamp, stored length, deleted slots and the value of every stored slot -/
theorem C04_rollbacks_raw (steps : List Step) (r : V) (c : Snap) (hs : Shows r c) (hok : StepsOK r.sz c steps) :
    Shows (undoAll r steps) (bottom c steps) ∧ (undoAll r steps).sz = r.sz := by
  induction steps generalizing r c with
  | nil => exact ⟨hs, rfl⟩
  | cons st t ih =>
    obtain ⟨h1, h2, h3⟩ := hok
    have hparse : parseChange r.kind r.sz st.2.1 = .ok st.2.2 := by rw [hs.1]; exact h2
    obtain ⟨_, hshow⟩ := undo_shows r st.1 c st.2.2 st.2.1 hs h1 hparse
    have hsz : (r.undo st.2.1).1.sz = r.sz := by rw [undo_raw_eq r st.2.1 st.2.2 hs.1 hparse, undoRaw_sz]
    have := ih (r.undo st.2.1).1 st.1 hshow (by rw [hsz]; exact h3)
    simp only [undoAll, List.foldl_cons, bottom] at this ⊢
    exact ⟨this.1, by rw [this.2, hsz]⟩

/-- what a state that shows a snapshot reads at every index: nothing at a deleted slot or beyond the stored length, the
snapshot's value everywhere else -/
theorem shows_getAny (r : V) (c : Snap) (hs : Shows r c) (i : Nat) :
    (r.getAny i).1 = if i ∈ c.holes then none else if i ≥ c.storedLen then none else some (c.vals.getD i 0) := by
  obtain ⟨s1, s2, s3, s4, s5, s6⟩ := hs
  rw [getAny_itemOf]
  unfold itemOf
  rw [s4, s3, s2]
  by_cases h1 : i ∈ c.holes
  · simp only [h1, if_true]
  · simp only [h1, if_false]
    by_cases h2 : i ≥ c.storedLen
    · simp only [h2, if_true]; simp
    · simp only [h2, if_false]
      have := s6 i (by omega)
      unfold slotVal at this
      rw [← this]
      cases hm : mapGet r.updated i with
      | some v => rfl
      | none =>
        simp only
        cases hd : r.disk[i]? with
        | some v => simp [List.getD_eq_getElem?_getD, hd]
        | none => simp [List.getD_eq_getElem?_getD, hd]



/-! ## tie to the model's own commits -/

/-- the snapshot a cleanly committed state presents -/
def snapOf (p : V) : Snap := ⟨p.stamp, p.storedLen, p.holes, p.disk⟩

theorem shows_clean (p : V) (hp : CleanCommitted p) : Shows p (snapOf p) := by
  refine ⟨hp.raw, hp.pushed, rfl, rfl, rfl, fun i hi => ?_⟩
  unfold slotVal snapOf
  simp only
  rw [hp.updated]
  have hi' : i < p.disk.length := by rw [← hp.stored]; exact hi
  simp [mapGet, List.getD_eq_getElem?_getD, List.getElem?_eq_getElem hi']

/-- the record of the model's commit (`Faithful`, from `faithful_recordOf`) is faithful for the two snapshots -/
theorem faithfulS_of_faithful (p0 s0 p : V) (ch : Change) (hp0 : CleanCommitted p0) (ha : After p0 s0) (hw : Written s0 p)
    (hpl : s0.storedLen ≤ p.storedLen) (hf : Faithful p0 s0 ch) : FaithfulS (snapOf p0) (snapOf p) ch := by
  have hlen : ((p0.disk.drop s0.storedLen).take (p0.storedLen - s0.storedLen)).length = p0.storedLen - s0.storedLen := by
    simp only [List.length_take, List.length_drop]; rw [← hp0.stored]; omega
  refine ⟨hf.stamp, hf.psl, hf.pp, hf.ph, ⟨by rw [hf.ts]; exact ha.le, by rw [hf.ts]; exact hpl⟩, by rw [hf.tv, hf.ts]; exact hlen, ?_,
    hf.modsDistinct, ?_, ?_⟩
  · intro j hj
    rw [hf.tv] at hj ⊢
    rw [hf.ts]
    rw [hlen] at hj
    have hk : j < ((p0.disk.drop s0.storedLen).take (p0.storedLen - s0.storedLen)).length := by rw [hlen]; exact hj
    have hd : s0.storedLen + j < p0.disk.length := by rw [← hp0.stored]; omega
    simp only [snapOf]
    rw [List.getD_eq_getElem?_getD, List.getElem?_eq_getElem hk, List.getD_eq_getElem?_getD, List.getElem?_eq_getElem hd]
    simp only [List.getElem_take, List.getElem_drop, Option.getD_some]
  · intro kv hkv
    obtain ⟨m1, m2⟩ := hf.modsVals kv hkv
    refine ⟨m1, ?_⟩
    simp only [snapOf]
    rw [List.getD_eq_getElem?_getD, m2]; rfl
  · intro i hi hmod
    rw [hf.ts] at hi
    simp only [snapOf]
    have hsu : mapGet s0.updated i = none := by
      cases hx : mapGet s0.updated i with
      | none => rfl
      | some v => have := hf.modsCover i v hx; rw [hmod] at this; simp at this
    have hsl : s0.storedLen ≤ s0.disk.length := by rw [ha.disk, ← hp0.stored]; exact ha.le
    have hd := hw.disk i
    rw [hsu] at hd
    simp only at hd
    rw [List.getElem?_append_left (by simp; omega), List.getElem?_take, if_pos hi, ha.disk] at hd
    rw [List.getD_eq_getElem?_getD, hd, ← List.getD_eq_getElem?_getD]

/-- a chain of the model's commits, newest first: each entry is (the committed state before, the edited state that was
committed, the record bytes, the record) -/
abbrev CStep := V × V × List UInt8 × Change

def CommitsOK (sz : Nat) : V → List CStep → Prop
  | _, [] => True
  | p, st :: t => CleanCommitted st.1 ∧ After st.1 st.2.1 ∧ Written st.2.1 p ∧ st.2.1.storedLen ≤ p.storedLen ∧
      Faithful st.1 st.2.1 st.2.2.2 ∧ parseChange .raw sz st.2.2.1 = .ok st.2.2.2 ∧ CommitsOK sz st.1 t

def toSteps (l : List CStep) : List Step := l.map (fun st => (snapOf st.1, st.2.2.1, st.2.2.2))

def oldest : V → List CStep → V
  | p, [] => p
  | _, st :: t => oldest st.1 t

theorem stepsOK_of_commits (sz : Nat) (p : V) (l : List CStep) (h : CommitsOK sz p l) : StepsOK sz (snapOf p) (toSteps l) := by
  induction l generalizing p with
  | nil => trivial
  | cons st t ih =>
    obtain ⟨c1, c2, c3, c4, c5, c6, c7⟩ := h
    exact ⟨faithfulS_of_faithful st.1 st.2.1 p st.2.2.2 c1 c2 c3 c4 c5, c6, ih st.1 c7⟩

theorem bottom_toSteps (p : V) (l : List CStep) : bottom (snapOf p) (toSteps l) = snapOf (oldest p l) := by
  induction l generalizing p with
  | nil => rfl
  | cons st t ih => simp only [toSteps, List.map_cons, bottom, oldest]; exact ih st.1

theorem oldest_clean (p : V) (l : List CStep) (hp : CleanCommitted p) (sz : Nat) (h : CommitsOK sz p l) : CleanCommitted (oldest p l) := by
  induction l generalizing p with
  | nil => exact hp
  | cons st t ih => exact ih st.1 h.1 h.2.2.2.2.2.2

/-- C04, raw formats, repeatedly: commit any number of times (each time after any pushes, truncations, updates and deletions),
then roll back through ALL the records, one after the other, from the newest committed state — every index then reads exactly
what it read in the oldest committed state, deleted slots included, and the stamp is that state's -/
theorem C04_commits_then_rollbacks_raw (p : V) (l : List CStep) (hp : CleanCommitted p) (h : CommitsOK p.sz p l) :
    (undoAll p (toSteps l)).stamp = (oldest p l).stamp ∧ (undoAll p (toSteps l)).len = (oldest p l).len ∧
    ∀ i, ((undoAll p (toSteps l)).getAny i).1 = ((oldest p l).getAny i).1 := by
  obtain ⟨hs, _⟩ := C04_rollbacks_raw (toSteps l) p (snapOf p) (shows_clean p hp) (stepsOK_of_commits p.sz p l h)
  rw [bottom_toSteps] at hs
  have ho := shows_clean (oldest p l) (oldest_clean p l hp p.sz h)
  refine ⟨by rw [hs.2.2.2.2.1, ho.2.2.2.2.1], ?_, fun i => by rw [shows_getAny _ _ hs i, shows_getAny _ _ ho i]⟩
  unfold V.len
  rw [hs.2.1, hs.2.2.1, ho.2.1, ho.2.2.1]


end AnyDB.C04m
