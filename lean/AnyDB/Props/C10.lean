import AnyDB.Generated.ConcOrders

/-!
# C10 — concurrent work on distinct regions is isolated; no foreign bytes read

Model (this file, `AnyDB.Conc`): the shared layout of one database — region extents, in-flight relocation targets
(`start_to_reserved`), holes, pending holes — changed only by SECTIONS that run atomically under the layout write
lock.  The sections are the ones `Region::write_with`, `create_region_if_needed`, `Region::remove` and `flush`
execute between taking and dropping that lock; `C10_sections` pins, on the call orders extracted from the source,
that every claim of space (`set_reserved`, `reserve`, `insert_region`, `move_region`) happens INSIDE the section
that established the space was free.

* `applySec_inv`, `C10_extents_disjoint`  for EVERY schedule of sections of ANY number of threads no byte of the
  file belongs to two extents — so each region's bytes are written by its own thread only (with C01's
  single-region laws this is "contents as in isolation") and C02's extent invariant holds at every quiescent point
  AND in between;
* `C10_regions_disjoint`  two different regions never share a byte;
* `C10_reader_no_foreign_partial`  a held reader's snapshot `[start, start+len)` never belongs to another region as
  long as no flush promotes pending holes while it is held (relocation of its own region, removals, creations
  and growth of neighbours included);
* `C10_reader_counterexample` (F15)  with a flush in between it does: the full reader clause is false of the model
  and of the code (known finding).
What the model cannot exhibit: the file-length side (F14: a region placed beyond the mapped file), hole punching
against an in-flight write (F16, C12's note) — both are exercised by the directed schedules of the sched engine.
-/
namespace AnyDB.Conc

/-! M10 — the shared layout of one database under concurrent operations, at the granularity of the
sections that run under the layout write lock. -/

abbrev E := Nat × Nat          -- (start, size)

/-- how many extents of `l` cover byte `x` -/
def cnt : List E → Nat → Nat
  | [], _ => 0
  | e :: t, x => (if e.1 ≤ x ∧ x < e.1 + e.2 then 1 else 0) + cnt t x

theorem cnt_append (a b : List E) (x : Nat) : cnt (a ++ b) x = cnt a x + cnt b x := by
  induction a with
  | nil => simp [cnt]
  | cons e t ih => simp only [List.cons_append, cnt, ih]; omega

theorem cnt_erase (l : List E) (e : E) (x : Nat) (h : e ∈ l) :
    cnt (l.erase e) x + (if e.1 ≤ x ∧ x < e.1 + e.2 then 1 else 0) = cnt l x := by
  induction l with
  | nil => cases h
  | cons a t ih =>
    by_cases hae : a = e
    · subst hae; simp only [List.erase_cons_head, cnt]; omega
    · have : e ∈ t := by
        rcases List.mem_cons.mp h with h1 | h1
        · exact absurd h1.symm hae
        · exact h1
      have hb : (a == e) = false := by simp [hae]
      simp only [List.erase_cons, hb, cnt]
      have := ih this
      simp only [Bool.false_eq_true, if_false, cnt]
      omega

structure St where
  regs : List (Nat × E)        -- region id ↦ (start, reserved)
  resv : List E                -- targets of relocations in flight (`start_to_reserved`)
  holes : List E
  pending : List E             -- freed, not yet reusable (`pending_holes`)

def St.exts (s : St) : List E := s.regs.map (·.2)
def St.claimed (s : St) : List E := s.exts ++ s.resv ++ s.holes ++ s.pending

/-- no byte of the file belongs to two extents -/
def Inv (s : St) : Prop := ∀ x, cnt s.claimed x ≤ 1

/-- nothing is claimed at or beyond `e` (`Layout::len() ≤ e`) -/
def FreeFrom (s : St) (e : Nat) : Prop := ∀ x, e ≤ x → cnt s.claimed x = 0


def ind (e : E) (x : Nat) : Nat := if e.1 ≤ x ∧ x < e.1 + e.2 then 1 else 0

theorem cnt_cons (e : E) (t : List E) (x : Nat) : cnt (e :: t) x = ind e x + cnt t x := rfl
theorem cnt_erase_ind (l : List E) (e : E) (x : Nat) (h : e ∈ l) : cnt (l.erase e) x + ind e x = cnt l x := cnt_erase l e x h

theorem cnt_map_erase (regs : List (Nat × E)) (r : Nat × E) (x : Nat) (h : r ∈ regs) :
    cnt ((regs.erase r).map (·.2)) x + ind r.2 x = cnt (regs.map (·.2)) x := by
  induction regs with
  | nil => cases h
  | cons a t ih =>
    by_cases hae : a = r
    · subst hae; simp only [List.erase_cons_head, List.map_cons, cnt_cons]; omega
    · have : r ∈ t := by
        rcases List.mem_cons.mp h with h1 | h1
        · exact absurd h1.symm hae
        · exact h1
      have hb : (a == r) = false := by simp [hae]
      simp only [List.erase_cons, hb, Bool.false_eq_true, if_false, List.map_cons, cnt_cons]
      have := ih this
      omega

theorem claimed_cnt (s : St) (x : Nat) :
    cnt s.claimed x = cnt s.exts x + cnt s.resv x + cnt s.holes x + cnt s.pending x := by
  simp only [St.claimed, cnt_append]

/-! ### the sections that run under the layout write lock -/

/-- `remove_or_compress_hole(h.start, n)`: the front `n` bytes leave hole `h` -/
def takeHole (holes : List E) (h : E) (n : Nat) : List E :=
  holes.erase h ++ (if n < h.2 then [(h.1 + n, h.2 - n)] else [])

theorem takeHole_cnt (holes : List E) (h : E) (n x : Nat) (hm : h ∈ holes) (hn : n ≤ h.2) :
    cnt (takeHole holes h n) x + ind (h.1, n) x = cnt holes x := by
  have := cnt_erase_ind holes h x hm
  unfold takeHole
  rw [cnt_append]
  split
  · simp only [cnt_cons, cnt, ind] at this ⊢
    split <;> split <;> split at this <;> omega
  · simp only [cnt, ind] at this ⊢
    split <;> split at this <;> omega

/-- create_region_if_needed, hole branch -/
def createInHole (s : St) (id : Nat) (h : E) (n : Nat) : St :=
  { s with regs := (id, (h.1, n)) :: s.regs, holes := takeHole s.holes h n }

theorem createInHole_inv (s : St) (id : Nat) (h : E) (n : Nat) (hi : Inv s) (hm : h ∈ s.holes) (hn : n ≤ h.2) :
    Inv (createInHole s id h n) := by
  intro x
  have := hi x
  have t := takeHole_cnt s.holes h n x hm hn
  rw [claimed_cnt] at this ⊢
  simp only [createInHole, St.exts, List.map_cons, cnt_cons] at this ⊢
  omega

/-- create_region_if_needed / relocation target, end-of-file branch: `start = layout.len()` -/
def createAtEnd (s : St) (id e n : Nat) : St := { s with regs := (id, (e, n)) :: s.regs }

theorem createAtEnd_inv (s : St) (id e n : Nat) (hi : Inv s) (hf : FreeFrom s e) : Inv (createAtEnd s id e n) := by
  intro x
  have := hi x
  rw [claimed_cnt] at this ⊢
  simp only [createAtEnd, St.exts, List.map_cons, cnt_cons, ind] at this ⊢
  split
  · rename_i hx
    have := hf x hx.1
    rw [claimed_cnt] at this
    simp only [St.exts] at this
    omega
  · omega

/-- write_with, "extend last region": the region's `reserved` grows in place, IN THE SECTION that established
that nothing lies behind it -/
def growRegion (s : St) (r : Nat × E) (r' : Nat) : St := { s with regs := (r.1, (r.2.1, r')) :: s.regs.erase r }

theorem growLast_inv (s : St) (r : Nat × E) (r' : Nat) (hi : Inv s) (hm : r ∈ s.regs)
    (hf : FreeFrom s (r.2.1 + r.2.2)) : Inv (growRegion s r r') := by
  intro x
  have h1 := hi x
  have e := cnt_map_erase s.regs r x hm
  rw [claimed_cnt] at h1 ⊢
  simp only [growRegion, St.exts, List.map_cons, cnt_cons, ind] at h1 e ⊢
  by_cases hx : r.2.1 + r.2.2 ≤ x
  · have := hf x hx
    rw [claimed_cnt] at this
    simp only [St.exts] at this
    split <;> omega
  · split <;> split at e <;> omega

/-- write_with, "expand into adjacent hole" -/
def growIntoHole (s : St) (r : Nat × E) (h : E) (added : Nat) : St :=
  { s with regs := (r.1, (r.2.1, r.2.2 + added)) :: s.regs.erase r, holes := takeHole s.holes h added }

theorem growIntoHole_inv (s : St) (r : Nat × E) (h : E) (added : Nat) (hi : Inv s) (hm : r ∈ s.regs) (hh : h ∈ s.holes)
    (hadj : h.1 = r.2.1 + r.2.2) (hn : added ≤ h.2) : Inv (growIntoHole s r h added) := by
  intro x
  have h1 := hi x
  have e := cnt_map_erase s.regs r x hm
  have t := takeHole_cnt s.holes h added x hh hn
  rw [claimed_cnt] at h1 ⊢
  simp only [growIntoHole, St.exts, List.map_cons, cnt_cons, ind] at h1 e t ⊢
  split <;> split at e <;> split at t <;> omega

/-- write_with, relocation, first section: the target is taken from a hole and RESERVED before the lock is dropped -/
def reserveInHole (s : St) (h : E) (n : Nat) : St := { s with resv := (h.1, n) :: s.resv, holes := takeHole s.holes h n }

theorem reserveInHole_inv (s : St) (h : E) (n : Nat) (hi : Inv s) (hm : h ∈ s.holes) (hn : n ≤ h.2) :
    Inv (reserveInHole s h n) := by
  intro x
  have := hi x
  have t := takeHole_cnt s.holes h n x hm hn
  rw [claimed_cnt] at this ⊢
  simp only [reserveInHole, St.exts, cnt_cons] at this ⊢
  omega

def reserveAtEnd (s : St) (e n : Nat) : St := { s with resv := (e, n) :: s.resv }

theorem reserveAtEnd_inv (s : St) (e n : Nat) (hi : Inv s) (hf : FreeFrom s e) : Inv (reserveAtEnd s e n) := by
  intro x
  have := hi x
  rw [claimed_cnt] at this ⊢
  simp only [reserveAtEnd, St.exts, cnt_cons, ind] at this ⊢
  split
  · rename_i hx
    have := hf x hx.1
    rw [claimed_cnt] at this
    simp only [St.exts] at this
    omega
  · omega

/-- relocation, last section (`move_region` + `take_reserved`): the region takes its reservation, its old extent
becomes a pending hole -/
def moveRegion (s : St) (r : Nat × E) (t : E) : St :=
  { s with regs := (r.1, t) :: s.regs.erase r, resv := s.resv.erase t, pending := r.2 :: s.pending }

theorem moveRegion_inv (s : St) (r : Nat × E) (t : E) (hi : Inv s) (hm : r ∈ s.regs) (ht : t ∈ s.resv) :
    Inv (moveRegion s r t) := by
  intro x
  have h1 := hi x
  have e := cnt_map_erase s.regs r x hm
  have e2 := cnt_erase_ind s.resv t x ht
  rw [claimed_cnt] at h1 ⊢
  simp only [moveRegion, St.exts, List.map_cons, cnt_cons] at h1 e e2 ⊢
  omega

/-- `Region::remove`: the extent becomes a pending hole -/
def removeRegion (s : St) (r : Nat × E) : St := { s with regs := s.regs.erase r, pending := r.2 :: s.pending }

theorem removeRegion_inv (s : St) (r : Nat × E) (hi : Inv s) (hm : r ∈ s.regs) : Inv (removeRegion s r) := by
  intro x
  have h1 := hi x
  have e := cnt_map_erase s.regs r x hm
  rw [claimed_cnt] at h1 ⊢
  simp only [removeRegion, St.exts, cnt_cons] at h1 e ⊢
  omega

/-- `flush`: pending holes become reusable (coalescing is C02's concern: it keeps the covered bytes) -/
def promote (s : St) : St := { s with holes := s.holes ++ s.pending, pending := [] }

theorem promote_inv (s : St) (hi : Inv s) : Inv (promote s) := by
  intro x
  have h1 := hi x
  rw [claimed_cnt] at h1 ⊢
  simp only [promote, St.exts, cnt_append, cnt] at h1 ⊢
  omega

/-- a failed relocation gives its reservation back (`take_reserved` on the error path) -/
def dropReservation (s : St) (t : E) : St := { s with resv := s.resv.erase t, holes := t :: s.holes }

theorem dropReservation_inv (s : St) (t : E) (hi : Inv s) (ht : t ∈ s.resv) : Inv (dropReservation s t) := by
  intro x
  have h1 := hi x
  have e2 := cnt_erase_ind s.resv t x ht
  rw [claimed_cnt] at h1 ⊢
  simp only [dropReservation, St.exts, cnt_cons] at h1 e2 ⊢
  omega

/-! ### any interleaving of sections -/

/-- `Layout::len()`: the largest end of anything claimed -/
def endOf : List E → Nat
  | [] => 0
  | e :: t => max (e.1 + e.2) (endOf t)

theorem cnt_zero_of_endOf (l : List E) (x : Nat) (h : endOf l ≤ x) : cnt l x = 0 := by
  induction l with
  | nil => rfl
  | cons e t ih =>
    simp only [endOf] at h
    simp only [cnt]
    have := ih (by omega)
    split <;> omega

theorem freeFrom_endOf (s : St) (e : Nat) (h : endOf s.claimed ≤ e) : FreeFrom s e :=
  fun x hx => cnt_zero_of_endOf _ x (by omega)

inductive Sec
  | createInHole (id : Nat) (h : E) (n : Nat)
  | createAtEnd (id n : Nat)
  | growLast (r : Nat × E) (r' : Nat)
  | growIntoHole (r : Nat × E) (h : E) (added : Nat)
  | reserveInHole (h : E) (n : Nat)
  | reserveAtEnd (n : Nat)
  | moveRegion (r : Nat × E) (t : E)
  | removeRegion (r : Nat × E)
  | promote
  | dropReservation (t : E)
deriving Repr

/-- one section, executed atomically (it holds the layout write lock); a section whose precondition does not hold
in the state it finds is not enabled -/
def applySec (s : St) : Sec → Option St
  | .createInHole id h n => if h ∈ s.holes ∧ n ≤ h.2 then some (createInHole s id h n) else none
  | .createAtEnd id n => some (createAtEnd s id (endOf s.claimed) n)
  | .growLast r r' => if r ∈ s.regs ∧ endOf s.claimed ≤ r.2.1 + r.2.2 ∧ r.2.2 ≤ r' then some (growRegion s r r') else none
  | .growIntoHole r h added =>
    if r ∈ s.regs ∧ h ∈ s.holes ∧ h.1 = r.2.1 + r.2.2 ∧ added ≤ h.2 then some (growIntoHole s r h added) else none
  | .reserveInHole h n => if h ∈ s.holes ∧ n ≤ h.2 then some (reserveInHole s h n) else none
  | .reserveAtEnd n => some (reserveAtEnd s (endOf s.claimed) n)
  | .moveRegion r t => if r ∈ s.regs ∧ t ∈ s.resv then some (moveRegion s r t) else none
  | .removeRegion r => if r ∈ s.regs then some (removeRegion s r) else none
  | .promote => some (promote s)
  | .dropReservation t => if t ∈ s.resv then some (dropReservation s t) else none

theorem applySec_inv (s s' : St) (c : Sec) (hi : Inv s) (h : applySec s c = some s') : Inv s' := by
  cases c with
  | createInHole id h0 n =>
    simp only [applySec] at h; split at h
    · rename_i hc; cases h; exact createInHole_inv s id h0 n hi hc.1 hc.2
    · cases h
  | createAtEnd id n =>
    simp only [applySec] at h; cases h
    exact createAtEnd_inv s id _ n hi (freeFrom_endOf s _ (Nat.le_refl _))
  | growLast r r' =>
    simp only [applySec] at h; split at h
    · rename_i hc; cases h; exact growLast_inv s r r' hi hc.1 (freeFrom_endOf s _ hc.2.1)
    · cases h
  | growIntoHole r h0 added =>
    simp only [applySec] at h; split at h
    · rename_i hc; cases h; exact growIntoHole_inv s r h0 added hi hc.1 hc.2.1 hc.2.2.1 hc.2.2.2
    · cases h
  | reserveInHole h0 n =>
    simp only [applySec] at h; split at h
    · rename_i hc; cases h; exact reserveInHole_inv s h0 n hi hc.1 hc.2
    · cases h
  | reserveAtEnd n =>
    simp only [applySec] at h; cases h
    exact reserveAtEnd_inv s _ n hi (freeFrom_endOf s _ (Nat.le_refl _))
  | moveRegion r t =>
    simp only [applySec] at h; split at h
    · rename_i hc; cases h; exact moveRegion_inv s r t hi hc.1 hc.2
    · cases h
  | removeRegion r =>
    simp only [applySec] at h; split at h
    · rename_i hc; cases h; exact removeRegion_inv s r hi hc
    · cases h
  | promote => simp only [applySec] at h; cases h; exact promote_inv s hi
  | dropReservation t =>
    simp only [applySec] at h; split at h
    · rename_i hc; cases h; exact dropReservation_inv s t hi hc
    · cases h

/-- a schedule: the sections of all threads in the order in which they got the layout lock; sections that are not
enabled when their turn comes are skipped -/
def runSecs (s : St) : List Sec → St
  | [] => s
  | c :: cs => match applySec s c with
    | some s' => runSecs s' cs
    | none => runSecs s cs

def St.empty : St := { regs := [], resv := [], holes := [], pending := [] }

theorem inv_empty : Inv St.empty := by intro x; simp [St.claimed, St.exts, St.empty, cnt]

/-- C10, extents: for EVERY schedule of sections of ANY number of threads, no byte of the file ever belongs to two
extents — regions, in-flight relocation targets, holes, pending holes.  In particular distinct regions never overlap,
at quiescence and in between. -/
theorem C10_extents_disjoint (cs : List Sec) : Inv (runSecs St.empty cs) := by
  suffices h : ∀ s, Inv s → Inv (runSecs s cs) from h _ inv_empty
  induction cs with
  | nil => intro s hs; exact hs
  | cons c t ih =>
    intro s hs
    simp only [runSecs]
    cases hc : applySec s c with
    | none => exact ih s hs
    | some s' => exact ih s' (applySec_inv s s' c hs hc)

theorem C10_extents_disjoint_from (s : St) (cs : List Sec) (hs : Inv s) : Inv (runSecs s cs) := by
  induction cs generalizing s with
  | nil => exact hs
  | cons c t ih =>
    simp only [runSecs]
    cases hc : applySec s c with
    | none => exact ih s hs
    | some s' => exact ih s' (applySec_inv s s' c hs hc)

/-- two different regions never share a byte -/
theorem C10_regions_disjoint (s : St) (hi : Inv s) (a b : Nat × E) (ha : a ∈ s.regs) (hb : b ∈ s.regs.erase a) (x : Nat) :
    ind a.2 x + ind b.2 x ≤ 1 := by
  have := hi x
  have e1 := cnt_map_erase s.regs a x ha
  have e2 := cnt_map_erase (s.regs.erase a) b x hb
  rw [claimed_cnt] at this
  simp only [St.exts] at this
  omega

/-! ### what a held reader can see -/

/-- every byte of the reader's snapshot `[st, st+len)` of region `id` still belongs to that region, or is a pending
hole (the region moved away or was removed after the reader was created) -/
def RdOK (s : St) (id st len : Nat) : Prop :=
  ∀ x, st ≤ x → x < st + len → (∃ r ∈ s.regs, r.1 = id ∧ ind r.2 x = 1) ∨ 1 ≤ cnt s.pending x

/-- a reader is created on a live region: its snapshot lies inside the region's extent -/
theorem rdOK_create (s : St) (r : Nat × E) (len : Nat) (hm : r ∈ s.regs) (hl : len ≤ r.2.2) : RdOK s r.1 r.2.1 len := by
  intro x h1 h2
  left; exact ⟨r, hm, rfl, by simp only [ind]; split <;> omega⟩

theorem mem_erase_ne (l : List (Nat × E)) (a b : Nat × E) (h : a ∈ l) (hne : a ≠ b) : a ∈ l.erase b :=
  (List.mem_erase_of_ne hne).mpr h

/-- every section except `promote` keeps a held reader's bytes with its region or in a pending hole -/
theorem rdOK_step (s s' : St) (c : Sec) (id st len : Nat) (h : RdOK s id st len) (hc : applySec s c = some s')
    (hnp : ∀ (_ : c = Sec.promote), False) : RdOK s' id st len := by
  intro x h1 h2
  have hx := h x h1 h2
  cases c with
  | createInHole i h0 n =>
    simp only [applySec] at hc; split at hc
    · cases hc
      rcases hx with ⟨r, hr, hid, hin⟩ | hp
      · left; exact ⟨r, List.mem_cons_of_mem _ hr, hid, hin⟩
      · right; exact hp
    · cases hc
  | createAtEnd i n =>
    simp only [applySec] at hc; cases hc
    rcases hx with ⟨r, hr, hid, hin⟩ | hp
    · left; exact ⟨r, List.mem_cons_of_mem _ hr, hid, hin⟩
    · right; exact hp
  | growLast r0 r' =>
    simp only [applySec] at hc; split at hc
    · rename_i hcond
      cases hc
      rcases hx with ⟨r, hr, hid, hin⟩ | hp
      · by_cases he : r = r0
        · subst he
          have hg : r.2.2 ≤ r' := hcond.2.2
          left; refine ⟨(r.1, (r.2.1, r')), List.mem_cons_self .., hid, ?_⟩
          simp only [ind] at hin ⊢; split at hin <;> split <;> omega
        · left; exact ⟨r, List.mem_cons_of_mem _ (mem_erase_ne _ _ _ hr he), hid, hin⟩
      · right; exact hp
    · cases hc
  | growIntoHole r0 h0 added =>
    simp only [applySec] at hc; split at hc
    · cases hc
      rcases hx with ⟨r, hr, hid, hin⟩ | hp
      · by_cases he : r = r0
        · subst he
          left; refine ⟨(r.1, (r.2.1, r.2.2 + added)), List.mem_cons_self .., hid, ?_⟩
          simp only [ind] at hin ⊢; split at hin <;> split <;> omega
        · left; exact ⟨r, List.mem_cons_of_mem _ (mem_erase_ne _ _ _ hr he), hid, hin⟩
      · right; exact hp
    · cases hc
  | reserveInHole h0 n =>
    simp only [applySec] at hc; split at hc
    · cases hc; exact hx
    · cases hc
  | reserveAtEnd n => simp only [applySec] at hc; cases hc; exact hx
  | moveRegion r0 t =>
    simp only [applySec] at hc; split at hc
    · cases hc
      rcases hx with ⟨r, hr, hid, hin⟩ | hp
      · by_cases he : r = r0
        · subst he; right; simp only [moveRegion, cnt_cons]; omega
        · left; exact ⟨r, List.mem_cons_of_mem _ (mem_erase_ne _ _ _ hr he), hid, hin⟩
      · right; simp only [moveRegion, cnt_cons]; omega
    · cases hc
  | removeRegion r0 =>
    simp only [applySec] at hc; split at hc
    · cases hc
      rcases hx with ⟨r, hr, hid, hin⟩ | hp
      · by_cases he : r = r0
        · subst he; right; simp only [removeRegion, cnt_cons]; omega
        · left; exact ⟨r, mem_erase_ne _ _ _ hr he, hid, hin⟩
      · right; simp only [removeRegion, cnt_cons]; omega
    · cases hc
  | promote => exact absurd rfl (fun h => hnp h)
  | dropReservation t =>
    simp only [applySec] at hc; split at hc
    · cases hc; exact hx
    · cases hc

/-- schedules without a flush -/
def NoPromote : List Sec → Prop
  | [] => True
  | c :: cs => (∀ (_ : c = Sec.promote), False) ∧ NoPromote cs

theorem rdOK_run (s : St) (cs : List Sec) (id st len : Nat) (h : RdOK s id st len) (hn : NoPromote cs) :
    RdOK (runSecs s cs) id st len := by
  induction cs generalizing s with
  | nil => exact h
  | cons c t ih =>
    simp only [runSecs]
    cases hc : applySec s c with
    | none => exact ih s h hn.2
    | some s' => exact ih s' (rdOK_step s s' c id st len h hc hn.1) hn.2

/-- C10, readers (partial: no flush while the reader is held): after ANY schedule of sections of ANY threads —
relocations of the reader's own region, removals, creations, growth of neighbours — no byte of the reader's
snapshot belongs to another region -/
theorem C10_reader_no_foreign_partial (s : St) (cs : List Sec) (r : Nat × E) (len : Nat) (hi : Inv s) (hm : r ∈ s.regs)
    (hl : len ≤ r.2.2) (hn : NoPromote cs) :
    ∀ x, r.2.1 ≤ x → x < r.2.1 + len → ∀ o ∈ (runSecs s cs).regs, o.1 ≠ r.1 → ind o.2 x = 0 := by
  intro x h1 h2 o ho hne
  have hinv : Inv (runSecs s cs) := C10_extents_disjoint_from s cs hi
  have hrd := rdOK_run s cs r.1 r.2.1 len (rdOK_create s r len hm hl) hn x h1 h2
  have hc := hinv x
  rw [claimed_cnt] at hc
  have eo := cnt_map_erase (runSecs s cs).regs o x ho
  simp only [St.exts] at hc
  rcases hrd with ⟨q, hq, hqid, hqin⟩ | hp
  · have hqo : q ≠ o := fun e => hne (by rw [← e]; exact hqid)
    have hq2 : q ∈ (runSecs s cs).regs.erase o := mem_erase_ne _ _ _ hq hqo
    have eq := cnt_map_erase ((runSecs s cs).regs.erase o) q x hq2
    omega
  · omega

/-- F15 — the full statement fails: a reader held across a relocation of its region, a flush and a creation reads
the new region's bytes (region 1 at [0,4096) relocates to the end, flush, region 2 is created in the hole) -/
theorem C10_reader_counterexample :
    let s0 : St := { regs := [(1, (0, 4096))], resv := [], holes := [], pending := [] }
    let s := runSecs s0 [.reserveAtEnd 8192, .moveRegion (1, (0, 4096)) (4096, 8192), .promote, .createInHole 2 (0, 4096) 4096]
    ∃ o ∈ s.regs, o.1 ≠ 1 ∧ ind o.2 0 = 1 := by
  decide

-- non-vacuity of the partial theorem: the same schedule without the flush leaves byte 0 to nobody else
example :
    let s0 : St := { regs := [(1, (0, 4096))], resv := [], holes := [], pending := [] }
    let s := runSecs s0 [.reserveAtEnd 8192, .moveRegion (1, (0, 4096)) (4096, 8192), .createInHole 2 (0, 4096) 4096, .createAtEnd 2 4096]
    s.regs = [(2, (12288, 4096)), (1, (4096, 8192))] ∧ s.pending = [(0, 4096)] := by
  decide

/-! ### the executable check the driver runs on real layouts, and the pins on the extracted orders -/

/-- pairwise disjointness, executable -/
def pwDisj : List E → Bool
  | [] => true
  | e :: t => t.all (fun f => decide (e.1 + e.2 ≤ f.1 ∨ f.1 + f.2 ≤ e.1)) && pwDisj t

theorem cnt_zero_of_all_disj (e : E) (t : List E) (x : Nat)
    (h : t.all (fun f => decide (e.1 + e.2 ≤ f.1 ∨ f.1 + f.2 ≤ e.1)) = true) (hx : e.1 ≤ x ∧ x < e.1 + e.2) : cnt t x = 0 := by
  induction t with
  | nil => rfl
  | cons f r ih =>
    simp only [List.all_cons, Bool.and_eq_true, decide_eq_true_eq] at h
    simp only [cnt]
    have := ih h.2
    split <;> omega

/-- what the driver answers `ok` for really is a state in which no byte belongs to two extents -/
theorem C10_check_sound (l : List E) (h : pwDisj l = true) : ∀ x, cnt l x ≤ 1 := by
  induction l with
  | nil => intro x; simp [cnt]
  | cons e t ih =>
    intro x
    simp only [pwDisj, Bool.and_eq_true] at h
    simp only [cnt]
    split
    · rename_i hx
      have := cnt_zero_of_all_disj e t x h.1 hx
      omega
    · have := ih h.2 x; omega

/-- the part of a path of `write_with` that runs before the layout write lock is dropped for the first time -/
def firstSection (l : List String) : List String := l.takeWhile (· != "dropLayout")

end AnyDB.Conc
