import AnyDB.Props.C04Raw

/-!
# C04 / C17 — the change record of a raw vector round-trips through its bytes

`C04_record_roundtrip`: for every raw vector state whose numbers fit their fields (`RecBounds`: stamps, lengths and
slot numbers below 2^64, element values below 256^sz, the whole record below 2^64 bytes), what `parse_change_data` +
`parse_raw_change_data` read from the bytes `serialize_changes` wrote is exactly `recordOf s`: previous stamp,
previous stored length, truncation point, truncated values, previous buffer, modification table, deleted slots.
Proved with the cursor's checked arithmetic as modelled (`Cur.check`, `readU64`, `readValues`, `skip`), field by
field in the "what is left of the bytes" view (`readU64_view`, `readValues_view`, `skip_view`).
-/
namespace AnyDB.C04b
open AnyDB VecM VecM.V C03 C03w C04r

/-! cursor lemmas in the "what is left" view: `bytes.drop pos = field ++ rest` -/

theorem leBytes_length (w n : Nat) : (leBytes w n).length = w := by
  induction w generalizing n with
  | zero => rfl
  | succ k ih => simp [leBytes, ih]

theorem le_rt (w n : Nat) (h : n < 256 ^ w) : leVal (leBytes w n) = n := by
  induction w generalizing n with
  | zero => simp at h; subst h; rfl
  | succ k ih =>
    simp only [leBytes, leVal]
    have h1 : n / 256 < 256 ^ k := by
      rw [Nat.pow_succ] at h
      exact Nat.div_lt_of_lt_mul (by omega)
    rw [ih _ h1]
    have : (UInt8.ofNat (n % 256)).toNat = n % 256 := by
      simp [UInt8.toNat_ofNat]
    rw [this]
    omega

theorem u64b_length (n : Nat) : (u64b n).length = 8 := by unfold u64b; exact leBytes_length 8 n

theorem readU64_view (bytes : List UInt8) (pos n : Nat) (rest : List UInt8)
    (hv : bytes.drop pos = u64b n ++ rest) (hn : n < 2 ^ 64) (hb : bytes.length < U64) :
    Cur.readU64 { bytes := bytes, pos := pos } = .ok (n, { bytes := bytes, pos := pos + 8 }) ∧ bytes.drop (pos + 8) = rest := by
  have hl : (bytes.drop pos).length = 8 + rest.length := by rw [hv]; simp [u64b_length]
  have hpos : pos + 8 ≤ bytes.length := by simp at hl; omega
  unfold Cur.readU64 Cur.check
  have h1 : ¬(pos + 8 ≥ U64) := by omega
  have h2 : ¬(pos + 8 > bytes.length) := by omega
  simp only [h1, h2, if_false]
  have h256 : (256 : Nat) ^ 8 = 2 ^ 64 := by decide
  refine ⟨?_, ?_⟩
  · congr 2
    rw [hv, List.take_append_of_le_length (by rw [u64b_length]; exact Nat.le_refl _),
      List.take_of_length_le (by rw [u64b_length]; exact Nat.le_refl _)]
    unfold u64b
    exact le_rt 8 n (by rw [h256]; exact hn)
  · have : bytes.drop (pos + 8) = (bytes.drop pos).drop 8 := by rw [List.drop_drop]
    rw [this, hv, List.drop_append_of_le_length (by rw [u64b_length]; exact Nat.le_refl _),
      List.drop_of_length_le (by rw [u64b_length]; exact Nat.le_refl _)]
    simp


theorem encVals_length (sz : Nat) (vs : List Nat) : (encVals sz vs).length = sz * vs.length := by
  unfold encVals
  induction vs with
  | nil => simp
  | cons v t ih =>
    simp only [List.flatMap_cons, List.length_append, List.length_cons, ih]
    rw [leBytes_length, Nat.mul_succ]; omega

theorem chunkVals_encVals (sz : Nat) (vs : List Nat) (rest : List UInt8) (hv : ∀ v ∈ vs, v < 256 ^ sz) :
    chunkVals vs.length sz (encVals sz vs ++ rest) = vs := by
  induction vs with
  | nil => rfl
  | cons v t ih =>
    have e : encVals sz (v :: t) = leBytes sz v ++ encVals sz t := by simp [encVals]
    rw [e]
    simp only [List.length_cons, chunkVals, List.append_assoc]
    rw [List.take_append_of_le_length (by rw [leBytes_length]; exact Nat.le_refl _),
      List.take_of_length_le (by rw [leBytes_length]; exact Nat.le_refl _),
      List.drop_append_of_le_length (by rw [leBytes_length]; exact Nat.le_refl _),
      List.drop_of_length_le (by rw [leBytes_length]; exact Nat.le_refl _)]
    simp only [List.nil_append]
    rw [le_rt sz v (hv v (List.mem_cons_self ..)), ih (fun x hx => hv x (List.mem_cons_of_mem _ hx))]

theorem chunkVals_take (k sz : Nat) (l : List UInt8) : chunkVals k sz (l.take (sz * k)) = chunkVals k sz l := by
  induction k generalizing l with
  | zero => rfl
  | succ m ih =>
    simp only [chunkVals]
    have h1 : (l.take (sz * (m + 1))).take sz = l.take sz := by
      rw [List.take_take]; congr 1; rw [Nat.mul_succ]; omega
    have h2 : (l.take (sz * (m + 1))).drop sz = (l.drop sz).take (sz * m) := by
      rw [List.drop_take]; congr 1; rw [Nat.mul_succ]; omega
    rw [h1, h2, ih]

theorem readValues_view (bytes : List UInt8) (pos sz : Nat) (vs : List Nat) (rest : List UInt8)
    (hv : bytes.drop pos = encVals sz vs ++ rest) (hb : bytes.length < U64) (hp : pos ≤ bytes.length) (hvals : ∀ v ∈ vs, v < 256 ^ sz) :
    Cur.readValues { bytes := bytes, pos := pos } vs.length sz = .ok (vs, { bytes := bytes, pos := pos + sz * vs.length }) ∧
    bytes.drop (pos + sz * vs.length) = rest := by
  have hl : (bytes.drop pos).length = sz * vs.length + rest.length := by rw [hv]; simp [encVals_length]
  have hpos : pos + sz * vs.length ≤ bytes.length := by simp at hl; omega
  unfold Cur.readValues Cur.check
  have h0 : ¬(sz * vs.length ≥ U64) := by omega
  have h1 : ¬(pos + sz * vs.length ≥ U64) := by omega
  have h2 : ¬(pos + sz * vs.length > bytes.length) := by omega
  simp only [h0, h1, h2, if_false]
  refine ⟨?_, ?_⟩
  · congr 2
    rw [chunkVals_take, hv]
    exact chunkVals_encVals sz vs rest hvals
  · have : bytes.drop (pos + sz * vs.length) = (bytes.drop pos).drop (sz * vs.length) := by rw [List.drop_drop]
    rw [this, hv, List.drop_append_of_le_length (by rw [encVals_length]; exact Nat.le_refl _),
      List.drop_of_length_le (by rw [encVals_length]; exact Nat.le_refl _)]
    simp

theorem skip_view (bytes : List UInt8) (pos n : Nat) (pre rest : List UInt8)
    (hv : bytes.drop pos = pre ++ rest) (hn : pre.length = n) (hb : bytes.length < U64) (hp : pos ≤ bytes.length) :
    Cur.skip { bytes := bytes, pos := pos } n = .ok { bytes := bytes, pos := pos + n } ∧ bytes.drop (pos + n) = rest := by
  have hl : (bytes.drop pos).length = n + rest.length := by rw [hv]; simp [hn]
  have hpos : pos + n ≤ bytes.length := by simp at hl; omega
  unfold Cur.skip Cur.check
  have h1 : ¬(pos + n ≥ U64) := by omega
  have h2 : ¬(pos + n > bytes.length) := by omega
  simp only [h1, h2, if_false]
  refine ⟨trivial, ?_⟩
  have : bytes.drop (pos + n) = (bytes.drop pos).drop n := by rw [List.drop_drop]
  rw [this, hv, List.drop_append_of_le_length (by omega), List.drop_of_length_le (by omega)]
  simp


/-! ### the record of a raw vector, field by field -/

def recTrunc (s : V) : Nat := s.prevStoredLen - s.storedLen
def recTv (s : V) : List Nat := if recTrunc s > 0 then (s.collectStoredRaw s.storedLen s.prevStoredLen).1 else []
def recKeys (s : V) : List Nat := (s.updated.map (·.1) ++ s.prevUpdated.map (·.1)).foldl setInsert []
def recVals (s : V) : List Nat :=
  ((recKeys s).foldl (fun (acc : List Nat × Bool) i =>
    match mapGet s.prevUpdated i with
    | some v => (acc.1 ++ [v], acc.2)
    | none => let r := s.diskRead i; (acc.1 ++ [r.1], acc.2 || r.2))
    ([], (if recTrunc s > 0 then s.collectStoredRaw s.storedLen s.prevStoredLen else ([], false)).2)).1

theorem serialize_shape (s : V) (hk : s.kind = .raw) :
    s.serializeChanges.1 =
      u64b s.stamp ++ (u64b s.prevStoredLen ++ (u64b s.storedLen ++ (u64b (recTrunc s) ++ (encVals s.sz (recTv s) ++
      (u64b s.prevPushed.length ++ (encVals s.sz s.prevPushed ++ (u64b s.pushed.length ++ (encVals s.sz s.pushed ++
      (u64b (recKeys s).length ++ (encVals 8 (recKeys s) ++ (encVals s.sz (recVals s) ++
      (u64b s.prevHoles.length ++ encVals 8 s.prevHoles)))))))))))) := by
  unfold serializeChanges recTv recVals recKeys recTrunc
  simp only [hk, List.append_assoc]
  by_cases h : s.prevStoredLen - s.storedLen > 0
  · simp only [h, if_true]; rfl
  · simp only [h, if_false]; rfl


theorem foldl_len1 {β : Type} (l : List β) (f : List Nat × Bool → β → List Nat × Bool)
    (hf : ∀ acc x, (f acc x).1.length = acc.1.length + 1) (acc : List Nat × Bool) :
    (l.foldl f acc).1.length = acc.1.length + l.length := by
  induction l generalizing acc with
  | nil => rfl
  | cons x t ih => simp only [List.foldl_cons, List.length_cons]; rw [ih, hf]; omega

theorem collectStoredRaw_length (s : V) (a b : Nat) : (s.collectStoredRaw a b).1.length = b - a := by
  unfold collectStoredRaw
  rw [foldl_len1]
  · simp
  · intro acc x
    simp only []
    split <;> simp

theorem recTv_length (s : V) : (recTv s).length = recTrunc s := by
  unfold recTv
  split
  · rw [collectStoredRaw_length]; rfl
  · rename_i h; simp at h; simp [h]

theorem recVals_length (s : V) : (recVals s).length = (recKeys s).length := by
  unfold recVals
  rw [foldl_len1]
  · simp
  · intro acc x
    simp only []
    split <;> simp

/-- everything in the record fits its field -/
structure RecBounds (s : V) : Prop where
  stamp : s.stamp < 2 ^ 64
  psl : s.prevStoredLen < 2 ^ 64
  sl : s.storedLen < 2 ^ 64
  tvv : ∀ v ∈ recTv s, v < 256 ^ s.sz
  ppv : ∀ v ∈ s.prevPushed, v < 256 ^ s.sz
  keysv : ∀ k ∈ recKeys s, k < 256 ^ 8
  valsv : ∀ v ∈ recVals s, v < 256 ^ s.sz
  phv : ∀ h ∈ s.prevHoles, h < 256 ^ 8
  ppl : s.prevPushed.length < 2 ^ 64
  pl : s.pushed.length < 2 ^ 64
  kl : (recKeys s).length < 2 ^ 64
  phl : s.prevHoles.length < 2 ^ 64
  total : s.serializeChanges.1.length < U64


/-- the record `serializeChanges` writes for a raw vector, as `parseChange` reads it back -/
def recordOf (s : V) : Change :=
  { prevStamp := s.stamp, prevStoredLen := s.prevStoredLen, truncatedStart := s.prevStoredLen - recTrunc s,
    truncatedValues := recTv s, prevPushed := s.prevPushed, mods := (recKeys s).zip (recVals s),
    prevHoles := s.prevHoles.foldl setInsert [] }

/-- C17/C04: the change record of a raw vector round-trips: what `parse_change_data` + `parse_raw_change_data` read
from the bytes `serialize_changes` wrote is exactly the record's content (all five base fields, the modification
table, the deleted slots) -/
theorem C04_record_roundtrip (s : V) (hk : s.kind = .raw) (hb : RecBounds s) :
    parseChange .raw s.sz s.serializeChanges.1 = .ok (recordOf s) := by
  have shape := serialize_shape s hk
  have tot := hb.total
  generalize hbytes : s.serializeChanges.1 = bytes at shape tot
  have tl := recTv_length s
  have vl := recVals_length s
  have htr : recTrunc s < 2 ^ 64 := by unfold recTrunc; have := hb.psl; omega
  have hlen : ∀ (l : List Nat), encVals s.sz l ≠ [] ∨ True := fun _ => Or.inr trivial
  -- field 1: stamp
  obtain ⟨r1, v1⟩ := readU64_view bytes 0 s.stamp _ (by rw [List.drop_zero]; exact shape) hb.stamp tot
  obtain ⟨r2, v2⟩ := readU64_view bytes (0 + 8) s.prevStoredLen _ v1 hb.psl tot
  obtain ⟨r3, v3⟩ := readU64_view bytes (0 + 8 + 8) s.storedLen _ v2 hb.sl tot
  obtain ⟨r4, v4⟩ := readU64_view bytes (0 + 8 + 8 + 8) (recTrunc s) _ v3 htr tot
  have pos_le : ∀ p rest, bytes.drop p = rest → rest ≠ [] → p ≤ bytes.length := by
    intro p rest h hne
    by_cases hp : p ≤ bytes.length
    · exact hp
    · rw [List.drop_of_length_le (by omega)] at h; exact absurd h.symm hne
  have p4 : 0 + 8 + 8 + 8 + 8 ≤ bytes.length :=
    pos_le _ _ v4 (by intro h; have := congrArg List.length h; simp [u64b_length] at this)
  obtain ⟨r5, v5⟩ := readValues_view bytes (0 + 8 + 8 + 8 + 8) s.sz (recTv s) _ v4 tot p4 hb.tvv
  have ne_u64 : ∀ (n : Nat) (r : List UInt8), u64b n ++ r ≠ [] := by
    intro n r h; have := congrArg List.length h; simp [u64b_length] at this
  -- previous buffer
  have p5 := pos_le _ _ v5 (ne_u64 _ _)
  obtain ⟨r6, v6⟩ := readU64_view bytes _ s.prevPushed.length _ v5 hb.ppl tot
  have hz : True := trivial
  · have p6 : 0 + 8 + 8 + 8 + 8 + s.sz * (recTv s).length + 8 ≤ bytes.length := by
      have := congrArg List.length v5
      simp only [List.length_drop, List.length_append, u64b_length] at this
      omega
    obtain ⟨r7, v7⟩ := readValues_view bytes _ s.sz s.prevPushed _ v6 tot p6 hb.ppv
    -- the buffer being written: length, then skipped
    obtain ⟨r8, v8⟩ := readU64_view bytes _ s.pushed.length _ v7 hb.pl tot
    have p8 : 0 + 8 + 8 + 8 + 8 + s.sz * (recTv s).length + 8 + s.sz * s.prevPushed.length + 8 ≤ bytes.length := by
      have := congrArg List.length v7
      simp only [List.length_drop, List.length_append, u64b_length] at this
      omega
    obtain ⟨r9, v9⟩ := skip_view bytes _ (s.sz * s.pushed.length) (encVals s.sz s.pushed) _ v8 (encVals_length _ _) tot p8
    -- modification table
    obtain ⟨r10, v10⟩ := readU64_view bytes _ (recKeys s).length _ v9 hb.kl tot
    have p10 : 0 + 8 + 8 + 8 + 8 + s.sz * (recTv s).length + 8 + s.sz * s.prevPushed.length + 8 + s.sz * s.pushed.length + 8 ≤ bytes.length := by
      have := congrArg List.length v9
      simp only [List.length_drop, List.length_append, u64b_length] at this
      omega
    obtain ⟨r11, v11⟩ := readValues_view bytes _ 8 (recKeys s) _ v10 tot p10 hb.keysv
    have p11 : 0 + 8 + 8 + 8 + 8 + s.sz * (recTv s).length + 8 + s.sz * s.prevPushed.length + 8 + s.sz * s.pushed.length + 8
        + 8 * (recKeys s).length ≤ bytes.length := by
      by_cases hv : (recVals s) = []
      · have := congrArg List.length v11
        simp only [List.length_drop, List.length_append, u64b_length, hv, encVals_length] at this
        omega
      · have := congrArg List.length v11
        simp only [List.length_drop, List.length_append, u64b_length] at this
        omega
    obtain ⟨r12, v12⟩ := readValues_view bytes _ s.sz (recVals s) _ v11 tot p11 hb.valsv
    -- deleted slots
    obtain ⟨r13, v13⟩ := readU64_view bytes _ s.prevHoles.length _ v12 hb.phl tot
    have p13 : 0 + 8 + 8 + 8 + 8 + s.sz * (recTv s).length + 8 + s.sz * s.prevPushed.length + 8 + s.sz * s.pushed.length + 8
        + 8 * (recKeys s).length + s.sz * (recVals s).length + 8 ≤ bytes.length := by
      have := congrArg List.length v12
      simp only [List.length_drop, List.length_append, u64b_length] at this
      omega
    have v13' : bytes.drop (0 + 8 + 8 + 8 + 8 + s.sz * (recTv s).length + 8 + s.sz * s.prevPushed.length + 8 + s.sz * s.pushed.length + 8
        + 8 * (recKeys s).length + s.sz * (recVals s).length + 8) = encVals 8 s.prevHoles ++ [] := by rw [List.append_nil]; exact v13
    obtain ⟨r14, _⟩ := readValues_view bytes _ 8 s.prevHoles _ v13' tot p13 hb.phv
    -- assemble
    unfold parseChange
    simp only [r1, r2, r3, r4]
    have g1 : ¬(recTrunc s ≠ s.prevStoredLen - s.storedLen) := by unfold recTrunc; simp
    have g2 : ¬(recTrunc s > s.prevStoredLen) := by unfold recTrunc; omega
    simp only [g1, g2, if_false]
    rw [← tl]
    simp only [r5, r6, r7, r8]
    have g3 : ¬(s.sz * s.pushed.length ≥ U64) := by
      have := congrArg List.length v8
      simp only [List.length_drop, List.length_append, encVals_length] at this
      omega
    simp only [g3, if_false, r9, r10, r11]
    rw [vl] at r12 r13 r14
    simp only [r12, r13, r14]
    unfold recordOf
    rw [← tl]

end AnyDB.C04b
