import AnyDB.Props.C04Commit

/-!
# C20 across a rollback (raw formats)

`undo_raw_overlay`: the overlay after `deserialize_then_undo_changes`, entry by entry.
`C20_undo_covered`: after undoing ANY record whose modifications address stored slots, whose truncated tail starts
inside the region and reaches up to the restored stored length (what `serialize_changes` writes: `faithful_recordOf`),
every slot between the end of the region and the stored length is deleted or overlaid — the invariant `Covered` of
`Props/C20.lean` under which no read path of the read-write vector leaves the region.  This closes the step that
`Props/C20.lean` left to the access-tap oracle for the histories of `C04_commit_then_rollback_raw`.
-/
namespace AnyDB.C20b
open AnyDB VecM VecM.V C03 C03w C04r C20

/-- the overlay after a raw undo -/
theorem undo_raw_overlay (s : V) (bytes : List UInt8) (ch : Change) (hk : s.kind = .raw)
    (hp : parseChange s.kind s.sz bytes = .ok ch)
    (hm : ∀ kv ∈ ch.mods, kv.1 < ch.prevStoredLen) (hd : KeysDistinct ch.mods) (i : Nat) :
    mapGet (s.undo bytes).1.updated i =
      match mapGet ch.mods i with
      | some v => some v
      | none => if ch.truncatedStart ≤ i ∧ i < ch.truncatedStart + ch.truncatedValues.length
                then some (ch.truncatedValues.getD (i - ch.truncatedStart) 0) else mapGet (baseUpdated s ch) i := by
  rw [undo_raw_eq s bytes ch hk hp]
  unfold undoRaw
  simp only []
  generalize hs0 : (if ch.prevStoredLen < s.storedLen then s.truncateDirtyAt ch.prevStoredLen else s) = s0
  have h0 : s0.updated = baseUpdated s ch := by
    rw [← hs0]; unfold baseUpdated; split <;> rfl
  obtain ⟨_, _, _, b4, _⟩ := C04.C04_baseline s0 ch.prevStamp ch.prevStoredLen ch.prevPushed
  have b6 : (s0.applyRollback ch.prevStamp ch.prevStoredLen ch.prevPushed).updated = s0.updated := by
    unfold V.applyRollback V.updateStamp; split <;> rfl
  generalize s0.applyRollback ch.prevStamp ch.prevStoredLen ch.prevPushed = s1 at b4 b6
  obtain ⟨_, t2, _, _, _, _⟩ := insertTruncated_fields s1 ch.truncatedStart ch.truncatedValues
  have t7 := insertTruncated_get s1 ch.truncatedStart ch.truncatedValues
  generalize insertTruncated s1 ch.truncatedStart ch.truncatedValues = s2 at t2 t7
  obtain ⟨m1, _, _, _, _, _, m7⟩ := applyMods_spec s2 ch.mods (by rw [t2, b4]; exact hm) hd
  generalize applyMods s2 ch.mods = r at m1 m7
  rw [m1]
  simp only
  obtain ⟨_, _, _, _, f5, _⟩ := finishUndo_fields r.1 ch
  rw [f5, m7 i, t7 i, b6, h0]
  cases mapGet ch.mods i <;> rfl

/-- C20 across a rollback (raw formats): after undoing ANY record whose truncated tail starts inside the region and
reaches up to the restored stored length, every slot between the end of the region and the stored length is answered
from the overlay (or is deleted) — `Covered` — so no read path of the vector leaves the region (`C20_getAny`,
`C20_items_raw`); clones and stored sources are clamped anyway (`C20_cloneGet`). -/
theorem C20_undo_covered (s : V) (bytes : List UInt8) (ch : Change) (hk : s.kind = .raw)
    (hp : parseChange s.kind s.sz bytes = .ok ch)
    (hm : ∀ kv ∈ ch.mods, kv.1 < ch.prevStoredLen) (hd : KeysDistinct ch.mods)
    (hts : ch.truncatedStart ≤ s.disk.length)
    (hlen : ch.truncatedStart + ch.truncatedValues.length = ch.prevStoredLen ∨ ch.prevStoredLen ≤ s.disk.length) :
    Covered (s.undo bytes).1 := by
  obtain ⟨_, _, u3, _, _, u6, u7⟩ := C04_raw_undo_items s bytes ch hk hp hm hd
  intro i h1 h2
  rw [u6] at h1
  rw [u3] at h2
  rcases hlen with hl | hl
  · -- i lies in the truncated tail: the overlay has it unless a modification or a deleted mark does
    by_cases hh : i ∈ (s.undo bytes).1.holes
    · exact Or.inl hh
    · right
      rw [undo_raw_overlay s bytes ch hk hp hm hd i]
      cases mapGet ch.mods i with
      | some v => rfl
      | none =>
        have : ch.truncatedStart ≤ i ∧ i < ch.truncatedStart + ch.truncatedValues.length := by omega
        simp only [this, and_self, if_true]
        rfl
  · omega

end AnyDB.C20b
