import AnyDB.Props.C04Comp
import AnyDB.Props.C16
namespace AnyDB.C16w
open AnyDB VecM VecM.V C03c C04c C07

/-! # C16 over whole histories (compressed formats): the retention window -/

def takeLast {α : Type} (k : Nat) (l : List α) : List α := l.drop (l.length - k)

theorem takeLast_append_one {α : Type} (k : Nat) (l : List α) (x : α) (hk : 1 ≤ k) :
    takeLast k (l ++ [x]) = takeLast (k - 1) l ++ [x] := by
  unfold takeLast
  simp only [List.length_append, List.length_singleton]
  have : l.length + 1 - k = l.length - (k - 1) := by omega
  rw [this, List.drop_append_of_le_length (by omega)]

theorem takeLast_takeLast_append {α : Type} (k : Nat) (l : List α) (x : α) (hk : 1 ≤ k) :
    takeLast k (takeLast k l ++ [x]) = takeLast k (l ++ [x]) := by
  rw [takeLast_append_one k _ x hk, takeLast_append_one k l x hk]
  congr 1
  unfold takeLast
  simp only [List.length_drop, List.drop_drop]
  congr 1
  omega

theorem takeLast_reverse {α : Type} (k : Nat) (l : List α) : takeLast k l.reverse = (l.take k).reverse := by
  unfold takeLast
  rw [List.length_reverse, List.drop_reverse]
  congr 1
  by_cases h : k ≤ l.length
  · have : l.length - (l.length - k) = k := by omega
    rw [this]
  · have : l.length - (l.length - k) = l.length := by omega
    rw [this, List.take_length, List.take_of_length_le (by omega)]

/-- the change directory after a successful commit of a compressed vector: records at or above the new stamp dropped,
the oldest beyond `keep - 1` pruned, the new record appended; retention and the new stamp are in place -/
theorem commit_dir (s : V) (st : Nat) (cs : List Nat) (b : Bool) (hk : s.kind = .comp) (hkeep : s.keep ≠ 0)
    (hc : (s.commit st cs).2 = .okB b) :
    (s.commit st cs).1.changes = (s.changes.filter (·.1 < st)).drop ((s.changes.filter (·.1 < st)).length - (s.keep - 1)) ++ [(st, s.serializeChanges.1)] ∧
    (s.commit st cs).1.keep = s.keep ∧ (s.commit st cs).1.stamp = st := by
  generalize hs1 : (({ s with oob := s.oob || s.serializeChanges.2 } : V).saveChangeFile st s.serializeChanges.1).updateStamp st = s1 at *
  have f1 : s1.kind = s.kind ∧ s1.stamp = st ∧ s1.keep = s.keep ∧
      s1.changes = (s.changes.filter (·.1 < st)).drop ((s.changes.filter (·.1 < st)).length - (s.keep - 1)) ++ [(st, s.serializeChanges.1)] := by
    rw [← hs1]
    unfold V.updateStamp V.saveChangeFile
    split
    · rename_i he; exact ⟨rfl, he, rfl, rfl⟩
    · exact ⟨rfl, rfl, rfl, rfl⟩
  obtain ⟨k1, k2, k3, k4⟩ := f1
  obtain ⟨w1, w2, w3, w4⟩ := writeComp_frame s1 cs
  unfold V.commit V.stampedWrite V.write at hc ⊢
  simp only [hkeep, if_false] at hc ⊢
  rw [hs1] at hc ⊢
  simp only [k1, hk] at hc ⊢
  cases hw : (s1.writeComp cs).2 with
  | okB bb =>
    simp only [hw, w4, k1, hk] at hc ⊢
    exact ⟨by rw [w2, k4], by rw [w3, k3], by rw [w1, k2]⟩
  | ok => simp only [hw] at hc; cases hc
  | okS _ => simp only [hw] at hc; cases hc
  | okV _ => simp only [hw] at hc; cases hc
  | okI _ => simp only [hw] at hc; cases hc
  | err _ => simp only [hw] at hc; cases hc
  | panic => simp only [hw] at hc; cases hc

end AnyDB.C16w
