import AnyDB.Model.Compute

/-!
# C06 — incrementally maintained computed columns equal a from-scratch run

Model: `AnyDB/Model/Compute.lean`.  `spec` holds the defining formula of 32 exact `compute_*`
methods; the implementation's incremental results are compared with it (and with a from-scratch
run of the implementation itself) after every call by the compute engine.

For the **accumulator families** — every method whose batch closure resumes from the last stored
output and folds the new source elements into it: `compute_cumulative`, `_cumulative_binary`,
`_cumulative_transformed_binary` (`f = +` over a pre-combined source), `compute_cumulative_count`
(`f acc x = if p x then acc+1 else acc`), `compute_all_time_high` (`f = max`) — the incremental
algorithm itself is modelled (`batchScan`, `runBatches`, `computeInit`) and proved equal to the
formula for EVERY step function `f`, initial state, batch capacity `cap ≥ 1`, resume point and
history of the sources:

* `C06_scan_causal`          — the formula is causal: results below `p` depend on sources below `p` only;
* `C06_batch_extends`        — one batch from a correct prefix of length `n` yields the correct prefix
                               of length `min (n+cap) len`;
* `C06_run_correct`          — `repeat_until_complete` terminates (fuel = missing elements + 1 suffices)
                               and ends on the full formula;
* `C06_incremental_eq_scratch` — old result for the old sources, sources changed from index `p` on
                               (append, truncate-and-regrow), caller passes `max_from ≤ p`:
                               the stored result equals the formula on the new sources and is as long
                               as the source;
* `C06_batch_independent`    — the result does not depend on the batch capacity;
* `C06_redundant_call`       — calling again with nothing changed changes nothing.

Known finding kept visible (F3): `compute_all_time_low_(exclude_default = true)` is NOT an
accumulator of its last output — `C06_allTimeLowExcl_counterexample` shows, on the model, that
resuming from the stored output differs from the formula (src [5,0] then 7).

Window, lookback, index-group and multi-source families: formula in `spec`, tied by the
three-way comparison only (their incremental algorithms are not modelled yet).
-/
namespace AnyDB.C06
open AnyDB Compute

variable (f : Nat → Nat → Nat)

theorem scanF_length (acc : Nat) (l : List Nat) : (scanF f acc l).length = l.length := by
  induction l generalizing acc with
  | nil => rfl
  | cons x xs ih => simp [scanF, ih]

theorem scanF_append (acc : Nat) (a b : List Nat) :
    scanF f acc (a ++ b) = scanF f acc a ++ scanF f ((scanF f acc a).getLastD acc) b := by
  induction a generalizing acc with
  | nil => simp [scanF]
  | cons x xs ih =>
    simp only [List.cons_append, scanF, ih]
    congr 2
    cases h : scanF f (f acc x) xs with
    | nil => simp
    | cons y ys => simp [List.getLastD]

theorem scanF_take (acc : Nat) (l : List Nat) (n : Nat) : (scanF f acc l).take n = scanF f acc (l.take n) := by
  induction l generalizing acc n with
  | nil => simp [scanF]
  | cons x xs ih =>
    cases n with
    | zero => simp [scanF]
    | succ k => simp [scanF, ih]

/-- causality: the first `p` results depend on the first `p` source elements only -/
theorem C06_scan_causal (init : Nat) (a b : List Nat) (p : Nat) (h : a.take p = b.take p) :
    (scanF f init a).take p = (scanF f init b).take p := by
  rw [scanF_take, scanF_take, h]

/-- the last stored output is the running state needed to resume -/
theorem last_of_prefix (init : Nat) (src : List Nat) (n : Nat) (hn : 0 < n) (hle : n ≤ src.length) :
    ((scanF f init src).take n).getD (n - 1) init = (scanF f init (src.take n)).getLastD init := by
  rw [scanF_take]
  have hlen : (scanF f init (src.take n)).length = n := by simp [scanF_length]; omega
  generalize scanF f init (src.take n) = l at hlen
  rw [List.getLastD_eq_getLast?, List.getLast?_eq_getElem?, hlen]
  simp [List.getD]

theorem C06_batch_extends (init cap : Nat) (src : List Nat) (n : Nat) (hn : n ≤ src.length) :
    batchScan f init cap src ((scanF f init src).take n) = (scanF f init src).take (min (n + cap) src.length) := by
  have hlen : ((scanF f init src).take n).length = n := by simp [scanF_length]; omega
  unfold batchScan
  simp only [hlen]
  by_cases hge : n ≥ min (n + cap) src.length
  · simp only [hge, if_true]
    have : min (n + cap) src.length = n := by omega
    rw [this]
  · simp only [hge, if_false]
    have hsplit : src.take (min (n + cap) src.length) = src.take n ++ (src.drop n).take (min (n + cap) src.length - n) := by
      rw [← List.take_append_drop n (src.take (min (n + cap) src.length))]
      congr 1
      · rw [List.take_take]; congr 1; omega
      · rw [List.drop_take]
    rw [scanF_take f init src (min (n + cap) src.length), hsplit, scanF_append]
    congr 1
    · rw [scanF_take]
    · congr 1
      by_cases h0 : n > 0
      · simp only [h0, if_true]
        exact last_of_prefix f init src n h0 hn
      · have : n = 0 := by omega
        subst this
        simp [scanF]

theorem C06_run_correct (init cap : Nat) (hcap : 0 < cap) (src : List Nat) (fuel n : Nat) (hn : n ≤ src.length)
    (hf : src.length - n < fuel) :
    runBatches (batchScan f init cap src) fuel ((scanF f init src).take n) = scanF f init src := by
  induction fuel generalizing n with
  | zero => omega
  | succ k ih =>
    simp only [runBatches]
    rw [C06_batch_extends f init cap src n hn]
    have hl1 : ((scanF f init src).take (min (n + cap) src.length)).length = min (n + cap) src.length := by
      simp [scanF_length]
    have hl2 : ((scanF f init src).take n).length = n := by simp [scanF_length]; omega
    by_cases hdone : min (n + cap) src.length = n
    · simp only [hl1, hl2, hdone, if_true]
      have : n = src.length := by omega
      subst this
      apply List.take_of_length_le
      simp [scanF_length]
    · simp only [hl1, hl2, hdone, if_false]
      exact ih (min (n + cap) src.length) (by omega) (by omega)

/-- incremental = from scratch, over any change of the sources from index `p` on -/
theorem C06_incremental_eq_scratch (init cap : Nat) (hcap : 0 < cap) (old new : List Nat) (p maxFrom : Nat)
    (hagree : old.take p = new.take p) (hp : p ≤ old.length) (hp' : p ≤ new.length) (hm : maxFrom ≤ p) :
    runBatches (batchScan f init cap new) (new.length + 1) (computeInit false maxFrom (scanF f init old)) = scanF f init new ∧
    (runBatches (batchScan f init cap new) (new.length + 1) (computeInit false maxFrom (scanF f init old))).length = new.length := by
  have hpre : (scanF f init old).take maxFrom = (scanF f init new).take maxFrom := by
    rw [scanF_take, scanF_take]
    have : old.take maxFrom = new.take maxFrom := by
      have h1 : old.take maxFrom = (old.take p).take maxFrom := by rw [List.take_take]; congr 1; omega
      have h2 : new.take maxFrom = (new.take p).take maxFrom := by rw [List.take_take]; congr 1; omega
      rw [h1, h2, hagree]
    rw [this]
  have key := C06_run_correct f init cap hcap new (new.length + 1) maxFrom (by omega) (by omega)
  unfold computeInit
  simp only [Bool.false_eq_true, if_false]
  rw [hpre, key]
  exact ⟨rfl, scanF_length f init new⟩

/-- a version change discards everything and recomputes from 0 (shared with C19) -/
theorem C06_version_reset (init cap : Nat) (hcap : 0 < cap) (old new : List Nat) (maxFrom : Nat) :
    runBatches (batchScan f init cap new) (new.length + 1) (computeInit true maxFrom old) = scanF f init new := by
  unfold computeInit
  simp only [if_true, List.take_nil]
  have := C06_run_correct f init cap hcap new (new.length + 1) 0 (by omega) (by omega)
  simpa using this

/-- the result does not depend on how the work is split into write batches -/
theorem C06_batch_independent (init cap₁ cap₂ : Nat) (h₁ : 0 < cap₁) (h₂ : 0 < cap₂) (old new : List Nat) (p maxFrom : Nat)
    (hagree : old.take p = new.take p) (hp : p ≤ old.length) (hp' : p ≤ new.length) (hm : maxFrom ≤ p) :
    runBatches (batchScan f init cap₁ new) (new.length + 1) (computeInit false maxFrom (scanF f init old)) =
    runBatches (batchScan f init cap₂ new) (new.length + 1) (computeInit false maxFrom (scanF f init old)) := by
  rw [(C06_incremental_eq_scratch f init cap₁ h₁ old new p maxFrom hagree hp hp' hm).1,
      (C06_incremental_eq_scratch f init cap₂ h₂ old new p maxFrom hagree hp hp' hm).1]

/-- a redundant call (nothing changed, any `max_from` up to the length) changes nothing -/
theorem C06_redundant_call (init cap : Nat) (hcap : 0 < cap) (src : List Nat) (maxFrom : Nat) (hm : maxFrom ≤ src.length) :
    runBatches (batchScan f init cap src) (src.length + 1) (computeInit false maxFrom (scanF f init src)) = scanF f init src :=
  (C06_incremental_eq_scratch f init cap hcap src src src.length maxFrom rfl (Nat.le_refl _) (Nat.le_refl _) hm).1

/-- instances: the formulas of `spec` for the accumulator methods are `scanF` -/
theorem C06_spec_cumulative (w fr : Nat) (a : List Nat) : spec "cumulative" w fr [a] = some (scanF (· + ·) 0 a) := by
  simp [spec, getS]
theorem C06_spec_all_time_high (w fr : Nat) (a : List Nat) : spec "all_time_high" w fr [a] = some (scanF max 0 a) := by
  simp [spec, getS]
theorem C06_spec_cumulative_count (w fr : Nat) (a : List Nat) :
    spec "cumulative_count" w fr [a] = some (scanF (fun acc x => if even x then acc + 1 else acc) 0 a) := by
  simp [spec, getS]

/-- F3 on the model: resuming `all_time_low_(exclude_default)` from the stored output is not the formula.
    src [5,0] gives [5,0]; append 7: resuming with prev = last output 0 yields min(0,7)=0, the formula 5. -/
theorem C06_allTimeLowExcl_counterexample :
    scanLowExcl none [5, 0, 7] = [5, 0, 5] ∧
    (scanLowExcl none [5, 0]) ++ scanLowExcl (some ((scanLowExcl none [5, 0]).getLastD 0)) [7] = [5, 0, 0] := by
  decide

/-- non-vacuity: truncate-and-regrow history of a cumulative sum with capacity 2 -/
example :
    runBatches (batchScan (· + ·) 0 2 [1, 2, 9, 9, 9]) 6 (computeInit false 2 (scanF (· + ·) 0 [1, 2, 3, 4])) = [1, 3, 12, 21, 30] := by
  decide

end AnyDB.C06
