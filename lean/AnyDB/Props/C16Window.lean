import AnyDB.Props.C16Linked
/-!
# C16 over whole histories: the retention window (compressed formats)

`C16_window_comp`: a compressed vector with retention `k ≥ 1` and an empty change directory; ANY number `n` of rounds of
pushes and truncations each followed by a `commit` under a strictly increasing stamp (whatever the compressor answers);
then `rollback` — the model's own, which looks the record up by the current stamp — again and again:

* every one of the first `min k n` rollbacks succeeds, and after `t ≤ min k n` of them the vector shows exactly what it
  showed at the `t`-th last commit (stamp and contents);
* the next rollback is refused (`io`: no record for the current stamp) and leaves the state untouched — never more than
  `k`, never more than the number of commits;
* on the way, the change directory holds exactly the last `min k n` records (`hist_dir`).

The records travel through their bytes (`serializeChanges`, `parseChange`).  What is assumed: the side conditions of the byte
format at every commit (`RoundsOK`: values fit the element size, lengths fit 64 bits, retention on).
Raw formats: the same chain of commits is covered by `C04_commits_then_rollbacks_raw` (faithful records) and the per-step
lemmas of `Props/C16.lean`; the directory arithmetic (`commit_dir`-style) is not repeated for them — correspondence.
-/
namespace AnyDB.C16w
open AnyDB VecM VecM.V C03c C04c C07

theorem hist_length (p : V) (rs : List Round) : (hist p rs).2.length = rs.length := by
  induction rs generalizing p with
  | nil => rfl
  | cons r t ih => simp only [hist, List.length_append, List.length_cons, List.length_nil]; rw [ih]

theorem hist_linked (p : V) (rs : List Round) (hb : BaseC p) (hok : RoundsOK p rs) (hin : Incr p.stamp rs) :
    ∃ top, ShowsC (hist p rs).1 top ∧ Linked p.sz top (hist p rs).2 ∧ bottomE top (hist p rs).2 = ⟨p.stamp, shown p⟩ ∧
      (hist p rs).1.sz = p.sz := by
  induction rs generalizing p with
  | nil =>
    refine ⟨⟨p.stamp, shown p⟩, ?_, trivial, rfl, rfl⟩
    show ShowsC p _
    refine ⟨hb.inv.kind, hb.inv.stored, ?_, rfl, rfl⟩
    unfold realStoredLen; rw [hb.inv.kind]; exact pagesStoredLen_eq _ _ hb.inv.wf
  | cons r t ih =>
    obtain ⟨hkeep, hrec, hrest⟩ := hok
    obtain ⟨hlt, hin'⟩ := hin
    obtain ⟨hsince, hi, hsy, _⟩ := since_edits p r.1 hb
    obtain ⟨_, hshow, hic, hsyc, hsz, hpu, hpsl, hpp, _, hparse, hfaith⟩ :=
      commit_facts p (r.1.foldl applyP p) r.2.1 r.2.2 hb.inv hsince hi hsy hkeep hrec
    have hbc : BaseC ((r.1.foldl applyP p).commit r.2.1 r.2.2).1 := ⟨hic, hsyc, hpsl, by rw [hpp, hpu]⟩
    have hst : ((r.1.foldl applyP p).commit r.2.1 r.2.2).1.stamp = r.2.1 := hshow.2.2.2.1
    obtain ⟨top, i1, i2, i3, i4⟩ := ih _ hbc hrest (by rw [hst]; exact hin')
    have hszc : ((r.1.foldl applyP p).commit r.2.1 r.2.2).1.sz = p.sz := by rw [hsz, hsince.sz]
    rw [hszc] at i2
    rw [hst, hshow.2.2.2.2] at i3
    simp only [hist]
    refine ⟨top, i1, ?_, ?_, by rw [i4, hszc]⟩
    · refine linked_append p.sz top _ _ i2 ?_
      rw [i3]
      exact ⟨rfl, hfaith, by rw [← hsince.sz]; exact hparse, hlt, trivial⟩
    · rw [bottomE_append, i3]; rfl

theorem undo_comp_changes (r : V) (bytes : List UInt8) (hk : r.kind = .comp) : (r.undo bytes).1.changes = r.changes := by
  unfold V.undo
  split
  · rfl
  · simp only [hk]
    unfold V.applyRollback V.updateStamp
    split <;> rfl

/-- the model's `rollback`, `n` times; the answers are collected -/
def rollbackN (r : V) : Nat → V × List Out
  | 0 => (r, [])
  | n + 1 => let x := r.rollback; let q := rollbackN x.1 n; (q.1, x.2 :: q.2)

theorem rollbacks_ok (sz t : Nat) (r : V) (top : SnapC) (H : List Entry) (hs : ShowsC r top) (hsz : r.sz = sz) (hl : Linked sz top H)
    (hfind : ∀ e ∈ H.take t, r.changes.find? (·.1 == e.stamp) = some e.pair) (ht : t ≤ H.length) :
    (∀ o ∈ (rollbackN r t).2, o = .ok) ∧ ShowsC (rollbackN r t).1 (bottomE top (H.take t)) ∧
    (rollbackN r t).1.changes = r.changes ∧ (rollbackN r t).1.sz = sz := by
  induction t generalizing r top H with
  | zero => exact ⟨fun o ho => by simp [rollbackN] at ho, by simpa [rollbackN, bottomE] using hs, rfl, hsz⟩
  | succ n ih =>
    cases H with
    | nil => simp at ht
    | cons e H' =>
      have hf := hfind e (by simp)
      have hstamp : r.stamp = e.stamp := by rw [hs.2.2.2.1, hl.1]
      have hrb := (C04.C04_rollback_uses_current_stamp r e.stamp e.bytes (by rw [hstamp]; exact hf)).1
      obtain ⟨u1, u2⟩ := undo_shows_c r e.before top e.ch e.bytes hs hl.2.1 (by rw [hs.1, hsz]; exact hl.2.2.1)
      have hch := undo_comp_changes r e.bytes hs.1
      have hsz' : (r.undo e.bytes).1.sz = sz := by rw [(undo_comp_fields r e.bytes hs.1).2.1]; exact hsz
      obtain ⟨i1, i2, i3, i4⟩ := ih (r.undo e.bytes).1 e.before H' u2 hsz' hl.2.2.2.2
        (by intro x hx; rw [hch]; exact hfind x (by simp only [List.take_succ_cons, List.mem_cons]; exact Or.inr hx))
        (by simp at ht; omega)
      simp only [rollbackN, hrb, List.take_succ_cons, bottomE]
      refine ⟨?_, i2, by rw [i3, hch], i4⟩
      intro o ho
      simp only [List.mem_cons] at ho
      rcases ho with rfl | ho
      · exact u1
      · exact i1 o ho

/-- **C16, compressed formats, for every history of commits**: exactly `min k n` rollbacks, never more -/
theorem C16_window_comp (p : V) (rs : List Round) (hb : BaseC p) (hok : RoundsOK p rs) (hin : Incr p.stamp rs)
    (hch : p.changes = []) (t : Nat) (ht : t ≤ min p.keep rs.length) :
    ∃ top,
      -- the directory holds the last min k n records
      (hist p rs).1.changes = (((hist p rs).2.take p.keep).map Entry.pair).reverse ∧
      -- t rollbacks succeed and show the t-th last commit
      (∀ o ∈ (rollbackN (hist p rs).1 t).2, o = .ok) ∧
      ShowsC (rollbackN (hist p rs).1 t).1 (bottomE top ((hist p rs).2.take t)) ∧
      -- after min k n of them the next one is refused and changes nothing
      (t = min p.keep rs.length → (rollbackN (hist p rs).1 t).1.rollback = ((rollbackN (hist p rs).1 t).1, .err .io)) := by
  obtain ⟨top, s1, s2, s3, s4⟩ := hist_linked p rs hb hok hin
  obtain ⟨d1, d2⟩ := hist_dir p rs p.stamp hb hok hin (by rw [hch]; intro x hx; cases hx) (by rw [hch]; exact Nat.zero_le _)
  have hlen := hist_length p rs
  have hD : (hist p rs).1.changes = (((hist p rs).2.take p.keep).map Entry.pair).reverse := by
    rw [d1, hch, List.nil_append, takeLast_reverse, List.map_take]
  have hdist := linked_distinct p.sz top _ (linked_take p.sz top _ p.keep s2)
  have hfindAll : ∀ e ∈ (hist p rs).2.take p.keep, (hist p rs).1.changes.find? (·.1 == e.stamp) = some e.pair := by
    intro e he
    rw [hD]
    exact find_of_distinct _ e.pair (List.pairwise_reverse.mpr (hdist.imp (fun h => Ne.symm h))) (List.mem_reverse.mpr (List.mem_map_of_mem he))
  obtain ⟨r1, r2, r3, r4⟩ := rollbacks_ok p.sz t (hist p rs).1 top (hist p rs).2 s1 s4 s2
    (by intro e he; exact hfindAll e (List.take_subset_take_left _ (by omega) he)) (by rw [hlen]; omega)
  refine ⟨top, hD, r1, r2, ?_⟩
  intro hte
  apply C16.C16_missing_refused
  rw [r3, hD, r2.2.2.2.1]
  have htake : (hist p rs).2.take t = (hist p rs).2.take p.keep := by
    rw [hte]
    by_cases hkn : p.keep ≤ rs.length
    · rw [Nat.min_eq_left hkn]
    · rw [Nat.min_eq_right (by omega), List.take_of_length_le (by rw [hlen]; exact Nat.le_refl _), List.take_of_length_le (by rw [hlen]; omega)]
  rw [htake]
  have hlt := bottom_lt p.sz top _ (linked_take p.sz top _ p.keep s2)
  rw [List.find?_eq_none]
  intro x hx
  obtain ⟨e, he, rfl⟩ := List.mem_map.mp (List.mem_reverse.mp hx)
  have := hlt e he
  simp only [Entry.pair, beq_iff_eq]
  omega

/-- non-vacuity: retention 2, three commits — two rollbacks succeed, the third is refused; the directory holds two records -/
def exRounds3 : List Round := [([.push 1, .push 2], 1, []), ([.truncate 1, .push 9], 2, []), ([.push 5], 3, [])]
example : (rollbackN (hist (V.init .comp 8 2) exRounds3).1 3).2 = [.ok, .ok, .err .io] := by decide
example : ((hist (V.init .comp 8 2) exRounds3).1.changes.map (·.1)) = [2, 3] := by decide
example : shown (rollbackN (hist (V.init .comp 8 2) exRounds3).1 2).1 = [1, 2] := by decide

end AnyDB.C16w
