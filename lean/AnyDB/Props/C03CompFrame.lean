import AnyDB.Props.C03Comp
namespace AnyDB.C03c
open AnyDB VecM VecM.V C07

theorem pagesFlush_frame (s : V) : (s.pagesFlush).1.stamp = s.stamp ∧ (s.pagesFlush).1.changes = s.changes ∧ (s.pagesFlush).1.keep = s.keep ∧ (s.pagesFlush).1.kind = s.kind := by
  unfold pagesFlush
  split
  · exact ⟨rfl, rfl, rfl, rfl⟩
  · split <;> exact ⟨rfl, rfl, rfl, rfl⟩

theorem hdr_frame (s : V) : s.writeHeaderIfNeeded.stamp = s.stamp ∧ s.writeHeaderIfNeeded.changes = s.changes ∧ s.writeHeaderIfNeeded.keep = s.keep ∧ s.writeHeaderIfNeeded.kind = s.kind := by
  unfold writeHeaderIfNeeded; split <;> exact ⟨rfl, rfl, rfl, rfl⟩

/-- a compressed `write()` touches neither the stamp nor the change records -/
theorem writeComp_frame (s : V) (cs : List Nat) :
    (s.writeComp cs).1.stamp = s.stamp ∧ (s.writeComp cs).1.changes = s.changes ∧ (s.writeComp cs).1.keep = s.keep ∧ (s.writeComp cs).1.kind = s.kind := by
  obtain ⟨a1, a2, a3, a4⟩ := hdr_frame s
  have hf := fun t => pagesFlush_frame t
  unfold writeComp
  simp only []
  repeat' split
  all_goals first
    | exact ⟨a1, a2, a3, a4⟩
    | exact ⟨(hf _).1.trans a1, (hf _).2.1.trans a2, (hf _).2.2.1.trans a3, (hf _).2.2.2.trans a4⟩

end AnyDB.C03c
