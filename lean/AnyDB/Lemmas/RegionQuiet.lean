import AnyDB.Lemmas.RegionMeta
namespace AnyDB.C01r
open AnyDB Conc Db C02r Mem

/-! ## operations that change no region: flush, region flush, growth, hole punching -/

/-- the metadata of every slot -/
def mds (s : Db) : List (Option Meta) := s.slots.map (Option.map (·.md))

theorem mds_slot (s s' : Db) (h : mds s' = mds s) (j : Nat) : (s'.slot? j).map (·.md) = (s.slot? j).map (·.md) := by
  have := congrArg (fun l => l[j]?) h
  unfold mds at this
  simp only [List.getElem?_map] at this
  unfold Db.slot?
  cases h1 : s'.slots[j]? <;> cases h2 : s.slots[j]? <;> simp [h1, h2] at this ⊢
  rename_i a b
  cases a <;> cases b <;> simp at this ⊢
  exact this

/-- no slot's metadata changes, the file does not shrink, every live region's bytes stay -/
def Quiet (s s' : Db) : Prop :=
  mds s' = mds s ∧ s.mem.size ≤ s'.mem.size ∧
    ∀ j sl, s.slot? j = some sl → ∀ i, i < sl.md.len → s'.mem.get? (sl.md.start + i) = s.mem.get? (sl.md.start + i)

theorem quiet_of_eq (s s' : Db) (h1 : mds s' = mds s) (h2 : s'.mem = s.mem) : Quiet s s' :=
  ⟨h1, by rw [h2]; exact Nat.le_refl _, fun _ _ _ _ _ => by rw [h2]⟩

theorem Quiet.trans {a b c : Db} (h1 : Quiet a b) (h2 : Quiet b c) : Quiet a c := by
  refine ⟨h2.1.trans h1.1, Nat.le_trans h1.2.1 h2.2.1, fun j sl hs i hi => ?_⟩
  have hm := mds_slot a b h1.1 j
  rw [hs] at hm
  cases hb : b.slot? j with
  | none => rw [hb] at hm; simp at hm
  | some sl' =>
    rw [hb] at hm
    simp only [Option.map_some, Option.some.injEq] at hm
    have := h2.2.2 j sl' hb i (by rw [hm]; exact hi)
    rw [hm] at this
    rw [this, h1.2.2 j sl hs i hi]

theorem rel_quiet (s s' : Db) (r : Ref) (hrel : Rel s r) (hinv : RInv s) (hlay : LInv s') (hq : Quiet s s') : Rel s' r ∧ RInv s' := by
  have hlen : s'.slots.length = s.slots.length := by
    have := congrArg List.length hq.1; unfold mds at this; simpa using this
  refine ⟨⟨by rw [hrel.1, hlen], fun j => ?_⟩, ⟨hlay, fun j slj hj => ?_⟩⟩
  · rw [← hrel.2 j]
    have hm := mds_slot s s' hq.1 j
    unfold viewAt
    cases hs : s.slot? j with
    | none =>
      rw [hs] at hm
      cases hs' : s'.slot? j with
      | none => rfl
      | some x => rw [hs'] at hm; simp at hm
    | some sl =>
      rw [hs] at hm
      cases hs' : s'.slot? j with
      | none => rw [hs'] at hm; simp at hm
      | some sl' =>
        rw [hs'] at hm
        simp only [Option.map_some, Option.some.injEq] at hm ⊢
        rw [hm]
        simp only [Prod.mk.injEq, true_and]
        exact read_congr _ _ _ _ (fun i hi => hq.2.2 j sl hs i hi)
  · have hm := mds_slot s s' hq.1 j
    rw [hj] at hm
    cases hs : s.slot? j with
    | none => rw [hs] at hm; simp at hm
    | some sl =>
      rw [hs] at hm
      simp only [Option.map_some, Option.some.injEq] at hm
      have := hinv.bnd j sl hs
      rw [hm]
      exact ⟨this.1, by have := hq.2.1; omega⟩

/-! ### the pieces -/

theorem mds_emit (s : Db) (e : Event) : mds (s.emit e) = mds s := rfl
theorem mem_emit (s : Db) (e : Event) : (s.emit e).mem = s.mem := rfl

theorem mds_takeAllDirty (s : Db) : mds s.takeAllDirty = mds s := by
  unfold mds Db.takeAllDirty
  simp only [List.map_map]
  apply List.map_congr_left
  intro o _
  cases o with
  | none => rfl
  | some sl => simp only [Function.comp, Option.map_some]; split <;> rfl

theorem mds_setSlot_same (s : Db) (idx : Nat) (old X : Slot) (h : s.slot? idx = some old) (hx : X.md = old.md) :
    mds (s.setSlot idx (some X)) = mds s := by
  unfold mds Db.setSlot
  simp only [List.map_set, Option.map_some, hx]
  have := (slot_iff s idx old).mp h
  apply List.ext_getElem?
  intro j
  by_cases hj : j = idx
  · subst hj
    rw [List.getElem?_set_self (by rw [List.length_map]; exact slot_lt s j old h), List.getElem?_map, this]; rfl
  · rw [List.getElem?_set_ne (Ne.symm hj)]

theorem quietEq_markCleanStep (s : Db) (x : Nat × Slot × Option (Nat × Nat)) : mds (s.markCleanStep x) = mds s ∧ (s.markCleanStep x).mem = s.mem := by
  unfold Db.markCleanStep
  cases hs : s.slot? x.1 with
  | none => exact ⟨rfl, rfl⟩
  | some sl => exact ⟨mds_setSlot_same s x.1 sl _ hs rfl, rfl⟩

theorem quietEq_markCleanFold (l : List (Nat × Slot × Option (Nat × Nat))) (s : Db) :
    mds (l.foldl Db.markCleanStep s) = mds s ∧ (l.foldl Db.markCleanStep s).mem = s.mem := by
  induction l generalizing s with
  | nil => exact ⟨rfl, rfl⟩
  | cons a t ih =>
    simp only [List.foldl_cons]
    obtain ⟨h1, h2⟩ := quietEq_markCleanStep s a
    obtain ⟨h3, h4⟩ := ih (s.markCleanStep a)
    exact ⟨h3.trans h1, h4.trans h2⟩

theorem quietEq_flushPre (s : Db) : mds (flushPre s) = mds s ∧ (flushPre s).mem = s.mem := by
  unfold flushPre
  simp only []
  have h0 := mds_takeAllDirty s
  have m0 : s.takeAllDirty.mem = s.mem := rfl
  split
  · split
    · exact ⟨h0, m0⟩
    · exact ⟨h0, m0⟩
  · obtain ⟨h1, h2⟩ := quietEq_markCleanFold s.flushCandidates
      ((((if (s.flushCandidates.foldl (fun (acc : Nat × Nat) (x : Nat × Slot × Option (Nat × Nat)) =>
          match x.2.2 with
          | some (mn, mx) => (min acc.1 (x.2.1.md.start + mn), max acc.2 (x.2.1.md.start + mx))
          | none => acc) (USIZE_MAX, 0)).1 < (s.flushCandidates.foldl (fun (acc : Nat × Nat) (x : Nat × Slot × Option (Nat × Nat)) =>
          match x.2.2 with
          | some (mn, mx) => (min acc.1 (x.2.1.md.start + mn), max acc.2 (x.2.1.md.start + mx))
          | none => acc) (USIZE_MAX, 0)).2 then s.takeAllDirty.emit (.flushAsync .data _ _) else s.takeAllDirty).emit (.flushAsyncAll .regions)).emit (.sync .data)).emit (.sync .regions))
    refine ⟨h1.trans ?_, h2.trans ?_⟩
    · simp only [mds_emit]; split <;> simp only [mds_emit, h0]
    · simp only [mem_emit]; split <;> simp only [mem_emit, m0]

theorem quiet_flush (s : Db) : Quiet s s.flush.1 := by
  rw [flush_eq]
  obtain ⟨h1, h2⟩ := quietEq_flushPre s
  exact quiet_of_eq s _ h1 h2

theorem rel_flush (s : Db) (r : Ref) (hrel : Rel s r) (hinv : RInv s) : Rel s.flush.1 r ∧ RInv s.flush.1 :=
  rel_quiet s _ r hrel hinv (linv_flush s hinv.lay) (quiet_flush s)

theorem quiet_regionFlush (s : Db) (idx : Nat) : Quiet s (s.regionFlush idx).1 := by
  unfold Db.regionFlush
  cases hs : s.slot? idx with
  | none => exact quiet_of_eq s s rfl rfl
  | some sl =>
    simp only
    have hX : (if (if sl.dmin < sl.dmax then some (sl.dmin, sl.dmax) else none).isSome = true then { sl with dmin := USIZE_MAX, dmax := 0 } else sl).md = sl.md := by
      split <;> rfl
    generalize (if (if sl.dmin < sl.dmax then some (sl.dmin, sl.dmax) else none).isSome = true then { sl with dmin := USIZE_MAX, dmax := 0 } else sl) = X at hX
    have h1 := mds_setSlot_same s idx sl X hs hX
    have hslot : (s.setSlot idx (some X)).slot? idx = some X := slot_set_eq s _ idx X rfl (slot_lt s idx sl hs)
    have hstep : ∀ t : Db, mds t = mds s → t.mem = s.mem → t.slot? idx = some X →
        mds (t.setSlot idx (some { X with st := .clean })) = mds s := fun t h1 _ h3 => (mds_setSlot_same t idx X { X with st := .clean } h3 rfl).trans h1
    split <;> split <;> (try split) <;>
      first
      | exact quiet_of_eq s _ h1 rfl
      | exact quiet_of_eq s _ (hstep _ h1 rfl hslot) rfl
      | exact quiet_of_eq s _ (hstep _ (by simp only [mds_emit]; exact h1) rfl (by exact hslot)) rfl

theorem quiet_setMinLen (s : Db) (n : Nat) (hb : Bounds s) : Quiet s (s.setMinLen n) := by
  obtain ⟨g1, g2, g3⟩ := setMinLen_shape s n
  exact ⟨by unfold mds; rw [g1], g2, fun j sl hs i hi => g3 _ (by have := hb j sl hs; omega)⟩

theorem quiet_regionsSetMinSlots (s : Db) (n : Nat) : Quiet s (s.regionsSetMinSlots n) := by
  unfold Db.regionsSetMinSlots; split <;> exact quiet_of_eq s _ rfl rfl


/-! ### hole punching -/

theorem le_ceilPage' (n : Nat) : n ≤ ceilPage n := by
  unfold ceilPage; simp only [Gen.PAGE_SIZE]; omega

/-- a free extent and a live region are apart -/
theorem hole_apart (s : Db) (h : LInv s) (e : E) (he : e ∈ s.holes) (j : Nat) (sl : Slot) (hs : s.slot? j = some sl) :
    e.1 + e.2 ≤ sl.md.start ∨ sl.md.start + sl.md.reserved ≤ e.1 := by
  have hm1 : extOf sl ∈ exts s.slots := (mem_exts s.slots _).mpr ⟨j, sl, (slot_iff s j sl).mp hs, rfl⟩
  have hc1 : extOf sl ∈ claimedDb s := (mem_claimed s _).mpr (Or.inl hm1)
  have hc2 : e ∈ claimedDb s := (mem_claimed s _).mpr (Or.inr (Or.inr (Or.inl he)))
  have hne : e ≠ extOf sl := fun heq => cross_start s h (extOf sl) e hm1 (Or.inr (Or.inl he)) (by rw [heq])
  have := apart_of_ind e (extOf sl) (fun x => by
    have h2 := two_cover (claimedDb s) e (extOf sl) x hc2 hc1 hne
    have h1 := h.one x
    omega) (h.pos e hc2) (h.pos _ hc1)
  exact this

/-- what the punching loops keep: slots, file size, and every live region's bytes -/
def Kept (s : Db) (t : Db) : Prop :=
  t.slots = s.slots ∧ t.mem.size = s.mem.size ∧
    ∀ j sl, s.slot? j = some sl → ∀ i, i < sl.md.len → t.mem.get? (sl.md.start + i) = s.mem.get? (sl.md.start + i)

theorem kept_punchIfData (s : Db) (acc : Db × Nat) (a b : Nat) (hk : Kept s acc.1)
    (hav : ∀ j sl, s.slot? j = some sl → ∀ i, i < sl.md.len → ¬(a ≤ sl.md.start + i ∧ sl.md.start + i < a + b)) :
    Kept s (punchIfData acc a b).1 := by
  unfold punchIfData
  split
  · refine ⟨hk.1, by simp only [size_punch]; exact hk.2.1, fun j sl hs i hi => ?_⟩
    simp only
    rw [get?_punch_frame _ _ _ _ (hav j sl hs i hi)]
    exact hk.2.2 j sl hs i hi
  · exact hk

theorem kept_fold {β : Type} (s : Db) (l : List β) (f : Db × Nat → β → Db × Nat) (P : β → Prop)
    (hf : ∀ acc x, P x → Kept s acc.1 → Kept s (f acc x).1) (hP : ∀ x ∈ l, P x) (acc : Db × Nat) (hk : Kept s acc.1) :
    Kept s (l.foldl f acc).1 := by
  induction l generalizing acc with
  | nil => exact hk
  | cons a t ih =>
    simp only [List.foldl_cons]
    exact ih (fun x hx => hP x (List.mem_cons_of_mem _ hx)) _ (hf acc a (hP a (List.mem_cons_self ..)) hk)

theorem mem_holesSorted (hs : List E) (e : E) (acc : List E) (h : e ∈ hs.foldl (fun l h => sortedInsert l h.1 h.2) acc) : e ∈ acc ∨ e ∈ hs := by
  induction hs generalizing acc with
  | nil => exact Or.inl h
  | cons a t ih =>
    simp only [List.foldl_cons] at h
    rcases ih _ h with h1 | h1
    · rcases mem_sortedInsert acc a.1 a.2 e h1 with h2 | h2
      · exact Or.inr (by rw [h2]; exact List.mem_cons_self ..)
      · exact Or.inl h2
    · exact Or.inr (List.mem_cons_of_mem _ h1)

theorem quiet_punchHoles (s : Db) (hinv : RInv s) : Quiet s s.punchHoles := by
  have hk0 : Kept s s := ⟨rfl, rfl, fun _ _ _ _ _ => rfl⟩
  have h1 := kept_fold s (List.range s.slots.length)
    (fun (acc : Db × Nat) i => match acc.1.slot? i with
      | none => acc
      | some sl => if ceilPage sl.md.len < sl.md.reserved then punchIfData acc (sl.md.start + ceilPage sl.md.len) (sl.md.reserved - ceilPage sl.md.len) else acc)
    (fun _ => True)
    (by
      intro acc x _ hk
      have hsx : acc.1.slot? x = s.slot? x := by unfold Db.slot?; rw [hk.1]
      split
      · exact hk
      · rename_i sl hsl
        split
        · rename_i hc
          rw [hsx] at hsl
          apply kept_punchIfData s acc _ _ hk
          intro j slj hj i hi
          have hcl := le_ceilPage' sl.md.len
          by_cases hjx : j = x
          · subst hjx
            rw [hsl] at hj; cases hj
            omega
          · have hap := slots_apart s hinv.lay j x slj sl hjx hj hsl
            have hb := hinv.bnd j slj hj
            omega
        · exact hk)
    (fun _ _ => trivial) (s, 0) hk0
  have h2 := fun acc hk => kept_fold s (s.holes.foldl (fun l h => sortedInsert l h.1 h.2) [])
    (fun (acc : Db × Nat) (h : Nat × Nat) => punchIfData acc h.1 h.2) (fun e => e ∈ s.holes)
    (by
      intro acc e he hk
      apply kept_punchIfData s acc _ _ hk
      intro j slj hj i hi
      have hap := hole_apart s hinv.lay e he j slj hj
      have hb := hinv.bnd j slj hj
      omega)
    (by
      intro e he
      rcases mem_holesSorted s.holes e [] he with h | h
      · cases h
      · exact h) acc hk
  have h3 := h2 _ h1
  unfold Db.punchHoles
  simp only []
  have hq : ∀ t : Db, Kept s t → Quiet s t := fun t hk => ⟨by unfold mds; rw [hk.1], by rw [hk.2.1]; exact Nat.le_refl _, hk.2.2⟩
  split
  · exact (hq _ h3).trans (quiet_of_eq _ _ rfl rfl)
  · exact hq _ h3

theorem rel_compact (s : Db) (r : Ref) (hrel : Rel s r) (hinv : RInv s) : Rel s.compact.1 r ∧ RInv s.compact.1 := by
  have hlc := linv_compact s hinv.lay
  obtain ⟨f1, f2⟩ := rel_flush s r hrel hinv
  unfold Db.compact at hlc ⊢
  generalize s.flush = rr at hlc f1 f2
  obtain ⟨s1, o⟩ := rr
  simp only at hlc f1 f2 ⊢
  cases o <;> first | exact ⟨f1, f2⟩ | exact rel_quiet s1 _ r f1 f2 hlc (quiet_punchHoles s1 f2)

end AnyDB.C01r
