/-! Prototype: hole lists, promotion of pending holes, invariant preservation. -/
namespace AnyDB.Alloc

structure Ext where
  start : Nat
  size : Nat
deriving Repr, DecidableEq

def Ext.stop (e : Ext) : Nat := e.start + e.size

def disj (a b : Ext) : Prop := a.stop ≤ b.start ∨ b.stop ≤ a.start

/-- hole with the greatest start strictly below `s` (BTreeMap::range(..s).next_back()) -/
def prevHole : List Ext → Nat → Option Ext
  | [], _ => none
  | h :: t, s =>
    match prevHole t s with
    | none => if h.start < s then some h else none
    | some a => if h.start < s ∧ a.start < h.start then some h else some a

def findHole (hs : List Ext) (s : Nat) : Option Ext := hs.find? (·.start == s)
def eraseHole (hs : List Ext) (s : Nat) : List Ext := hs.filter (·.start != s)

/-- one iteration of the loop body of `promote_pending_holes` -/
def promoteOne (hs : List Ext) (p : Ext) : List Ext :=
  let r1 : List Ext × Nat × Nat :=
    match prevHole hs p.start with
    | some h => if h.start + h.size = p.start then (eraseHole hs h.start, h.start, p.size + h.size) else (hs, p.start, p.size)
    | none => (hs, p.start, p.size)
  let r2 : List Ext × Nat :=
    match findHole r1.1 (r1.2.1 + r1.2.2) with
    | some a => (eraseHole r1.1 (r1.2.1 + r1.2.2), r1.2.2 + a.size)
    | none => (r1.1, r1.2.2)
  r2.1 ++ [⟨r1.2.1, r2.2⟩]

def promote (hs : List Ext) (pending : List Ext) : List Ext := pending.foldl promoteOne hs

/-! ### facts about the search helpers -/

theorem prevHole_some {hs : List Ext} {s : Nat} {h : Ext} (e : prevHole hs s = some h) :
    h ∈ hs ∧ h.start < s ∧ ∀ h' ∈ hs, h'.start < s → h'.start ≤ h.start := by
  induction hs generalizing h with
  | nil => simp [prevHole] at e
  | cons x t ih =>
    simp only [prevHole] at e
    cases hp : prevHole t s with
    | none =>
      simp [hp] at e
      obtain ⟨hx, rfl⟩ := e
      refine ⟨by simp, hx, ?_⟩
      intro h' hm hlt
      simp at hm
      rcases hm with rfl | hm
      · exact Nat.le_refl _
      · -- prevHole t s = none means no element of t is below s
        exfalso
        clear ih
        induction t with
        | nil => simp at hm
        | cons y t' ih2 =>
          simp only [prevHole] at hp
          cases hq : prevHole t' s with
          | none =>
            simp [hq] at hp
            simp at hm
            rcases hm with rfl | hm
            · omega
            · exact ih2 hq hm
          | some a => simp [hq] at hp; split at hp <;> simp at hp
    | some a =>
      have ⟨ha1, ha2, ha3⟩ := ih hp
      simp [hp] at e
      split at e
      · rename_i hc
        simp at e; subst e
        refine ⟨by simp, hc.1, ?_⟩
        intro h' hm hlt
        simp at hm
        rcases hm with rfl | hm
        · exact Nat.le_refl _
        · have := ha3 h' hm hlt; omega
      · rename_i hc
        simp at e; subst e
        refine ⟨by simp [ha1], ha2, ?_⟩
        intro h' hm hlt
        simp at hm
        rcases hm with rfl | hm
        · by_cases hh : h'.start < s
          · simp [hh] at hc; exact hc
          · omega
        · exact ha3 h' hm hlt

theorem prevHole_none {hs : List Ext} {s : Nat} (e : prevHole hs s = none) :
    ∀ h ∈ hs, ¬ h.start < s := by
  induction hs with
  | nil => simp
  | cons x t ih =>
    simp only [prevHole] at e
    cases hp : prevHole t s with
    | none =>
      simp [hp] at e
      intro h hm
      simp at hm
      rcases hm with rfl | hm
      · omega
      · exact ih hp h hm
    | some a => simp [hp] at e; split at e <;> simp at e

theorem findHole_some {hs : List Ext} {s : Nat} {a : Ext} (e : findHole hs s = some a) :
    a ∈ hs ∧ a.start = s := by
  unfold findHole at e
  exact ⟨List.mem_of_find?_eq_some e, by have := List.find?_some e; simpa using this⟩

theorem findHole_none {hs : List Ext} {s : Nat} (e : findHole hs s = none) :
    ∀ h ∈ hs, h.start ≠ s := by
  unfold findHole at e
  intro h hm
  have := List.find?_eq_none.mp e h hm
  simpa using this

theorem mem_eraseHole {hs : List Ext} {s : Nat} {x : Ext} :
    x ∈ eraseHole hs s ↔ x ∈ hs ∧ x.start ≠ s := by
  simp [eraseHole]

end AnyDB.Alloc

namespace AnyDB.Alloc

structure HInv (hs : List Ext) : Prop where
  pos : ∀ a ∈ hs, 0 < a.size
  dj : ∀ a ∈ hs, ∀ b ∈ hs, a = b ∨ disj a b
  mg : ∀ a ∈ hs, ∀ b ∈ hs, a.stop ≠ b.start

def inExt (e : Ext) (x : Nat) : Prop := e.start ≤ x ∧ x < e.stop
def cov (l : List Ext) (x : Nat) : Prop := ∃ e ∈ l, inExt e x

theorem start_inj {hs : List Ext} (hI : HInv hs) {a b : Ext} (ha : a ∈ hs) (hb : b ∈ hs)
    (h : a.start = b.start) : a = b := by
  rcases hI.dj a ha b hb with e | d
  · exact e
  · have := hI.pos a ha; have := hI.pos b hb
    simp [disj, Ext.stop] at d; omega

/-- Membership characterisation of `promoteOne`: the result is the old holes minus at most two
    (the one ending at `p.start`, the one starting at `p.stop`) plus one new hole spanning them. -/
theorem promoteOne_spec (hs : List Ext) (p : Ext) (hI : HInv hs) (hp : 0 < p.size)
    (hd : ∀ a ∈ hs, disj a p) :
    ∃ (N : Ext) (bef aft : Option Ext),
      (∀ b, bef = some b → b ∈ hs ∧ b.stop = p.start) ∧
      (bef = none → ∀ h ∈ hs, h.stop ≠ p.start) ∧
      (∀ a, aft = some a → a ∈ hs ∧ a.start = p.stop) ∧
      (aft = none → ∀ h ∈ hs, h.start ≠ p.stop) ∧
      N.start = (match bef with | some b => b.start | none => p.start) ∧
      N.stop = (match aft with | some a => a.stop | none => p.stop) ∧
      (∀ x, x ∈ promoteOne hs p ↔ x = N ∨ (x ∈ hs ∧ some x ≠ bef ∧ some x ≠ aft)) := by
  -- first stage: the hole before
  have stage1 : ∃ (bef : Option Ext) (l1 : List Ext) (fs sz : Nat),
      (match prevHole hs p.start with
        | some h => if h.start + h.size = p.start then (eraseHole hs h.start, h.start, p.size + h.size) else (hs, p.start, p.size)
        | none => (hs, p.start, p.size)) = (l1, fs, sz) ∧
      (∀ b, bef = some b → b ∈ hs ∧ b.stop = p.start) ∧
      (bef = none → ∀ h ∈ hs, h.stop ≠ p.start) ∧
      fs = (match bef with | some b => b.start | none => p.start) ∧
      fs + sz = p.stop ∧
      (∀ x, x ∈ l1 ↔ x ∈ hs ∧ some x ≠ bef) := by
    cases hq : prevHole hs p.start with
    | none =>
      refine ⟨none, hs, p.start, p.size, rfl, by simp, ?_, rfl, rfl, by simp⟩
      intro _ h hm hst
      have := prevHole_none hq h hm
      have := hI.pos h hm
      simp [Ext.stop] at hst; omega
    | some h =>
      obtain ⟨hm, hlt, hmax⟩ := prevHole_some hq
      by_cases hadj : h.start + h.size = p.start
      · refine ⟨some h, eraseHole hs h.start, h.start, p.size + h.size, by simp [hadj], ?_, by simp, rfl, ?_, ?_⟩
        · intro b hb; simp at hb; subst hb; exact ⟨hm, by simp [Ext.stop, hadj]⟩
        · simp [Ext.stop]; omega
        · intro x
          rw [mem_eraseHole]
          constructor
          · rintro ⟨hx, hne⟩
            refine ⟨hx, ?_⟩
            intro e; simp at e; subst e; exact hne rfl
          · rintro ⟨hx, hne⟩
            refine ⟨hx, ?_⟩
            intro e; exact hne (by rw [start_inj hI hx hm e])
      · refine ⟨none, hs, p.start, p.size, by simp [hadj], by simp, ?_, rfl, rfl, by simp⟩
        intro _ h' hm' hst
        have hp' := hI.pos h' hm'
        have hph := hI.pos h hm
        have hlt' : h'.start < p.start := by simp [Ext.stop] at hst; omega
        have hle := hmax h' hm' hlt'
        rcases hI.dj h' hm' h hm with e | d
        · subst e; simp [Ext.stop] at hst; omega
        · simp [disj, Ext.stop] at d hst; omega
  obtain ⟨bef, l1, fs, sz, e1, hb1, hb2, hfs, hsum, hl1⟩ := stage1
  -- second stage: the hole after
  have hsub : ∀ x ∈ l1, x ∈ hs := fun x hx => ((hl1 x).mp hx).1
  cases hf : findHole l1 (fs + sz) with
  | none =>
    refine ⟨⟨fs, sz⟩, bef, none, hb1, hb2, by simp, ?_, by simpa using hfs, by simp [Ext.stop, hsum], ?_⟩
    · intro _ h hm hst
      have hn := findHole_none hf
      by_cases hx : h ∈ l1
      · exact hn h hx (by omega)
      · -- h was removed as `bef`
        have : some h = bef := by
          by_cases hc : some h = bef
          · exact hc
          · exact absurd ((hl1 h).mpr ⟨hm, hc⟩) hx
        have ⟨_, hbs⟩ := hb1 h this.symm
        have := hI.pos h hm
        have e1 : p.stop = p.start + p.size := rfl
        have e2 : h.stop = h.start + h.size := rfl
        omega
    · intro x
      simp only [promoteOne, e1, hf, List.mem_append, List.mem_singleton]
      constructor
      · rintro (hx | hx)
        · right; exact ⟨((hl1 x).mp hx).1, ((hl1 x).mp hx).2, by simp⟩
        · left; exact hx
      · rintro (hx | ⟨hx, hne, _⟩)
        · right; exact hx
        · left; exact (hl1 x).mpr ⟨hx, hne⟩
  | some a =>
    obtain ⟨ham, hast⟩ := findHole_some hf
    refine ⟨⟨fs, sz + a.size⟩, bef, some a, hb1, hb2, ?_, by simp, by simpa using hfs, ?_, ?_⟩
    · intro a' ha'; simp at ha'; subst ha'; exact ⟨hsub _ ham, by omega⟩
    · simp [Ext.stop]; omega
    · intro x
      simp only [promoteOne, e1, hf, List.mem_append, List.mem_singleton, mem_eraseHole]
      constructor
      · rintro (⟨hx, hne⟩ | hx)
        · right
          refine ⟨((hl1 x).mp hx).1, ((hl1 x).mp hx).2, ?_⟩
          intro e; simp at e; subst e; exact hne hast
        · left; exact hx
      · rintro (hx | ⟨hx, hne, hna⟩)
        · right; exact hx
        · left
          refine ⟨(hl1 x).mpr ⟨hx, hne⟩, ?_⟩
          intro e
          exact hna (by rw [start_inj hI hx (hsub _ ham) (by omega)])

end AnyDB.Alloc

namespace AnyDB.Alloc

/-- numeric closer: unfold the interval vocabulary everywhere, then linear arithmetic -/
macro "ext_omega" : tactic => `(tactic| (simp only [Ext.stop, disj, inExt] at * <;> omega))

theorem promoteOne_inv (hs : List Ext) (p : Ext) (hI : HInv hs) (hp : 0 < p.size)
    (hd : ∀ a ∈ hs, disj a p) :
    HInv (promoteOne hs p) ∧
    (∀ x, cov (promoteOne hs p) x ↔ cov hs x ∨ inExt p x) ∧
    (∀ q : Ext, 0 < q.size → (∀ a ∈ hs, disj a q) → disj p q → ∀ a ∈ promoteOne hs p, disj a q) := by
  obtain ⟨N, bef, aft, hb1, hb2, ha1, ha2, hNs, hNe, hmem⟩ := promoteOne_spec hs p hI hp hd
  obtain ⟨hpos, hdj, hmg⟩ := hI
  -- N spans exactly bef ∪ p ∪ aft
  have hNfacts : N.start ≤ p.start ∧ p.stop ≤ N.stop ∧ 0 < N.size ∧
      (∀ x, inExt N x ↔ inExt p x ∨ (∃ b, bef = some b ∧ inExt b x) ∨ (∃ a, aft = some a ∧ inExt a x)) := by
    cases bef with
    | none =>
      cases aft with
      | none =>
        simp only at hNs hNe
        refine ⟨by omega, by omega, by ext_omega, ?_⟩
        intro x; simp; ext_omega
      | some a =>
        have ⟨ham, has⟩ := ha1 a rfl
        have := hpos a ham
        simp only at hNs hNe
        refine ⟨by omega, by ext_omega, by ext_omega, ?_⟩
        intro x; simp; ext_omega
    | some b =>
      have ⟨hbm, hbs⟩ := hb1 b rfl
      have := hpos b hbm
      cases aft with
      | none =>
        simp only at hNs hNe
        refine ⟨by ext_omega, by omega, by ext_omega, ?_⟩
        intro x; simp; ext_omega
      | some a =>
        have ⟨ham, has⟩ := ha1 a rfl
        have := hpos a ham
        simp only at hNs hNe
        refine ⟨by ext_omega, by ext_omega, by ext_omega, ?_⟩
        intro x; simp; ext_omega
  obtain ⟨hN1, hN2, hNpos, hNcov⟩ := hNfacts
  -- anything positive, disjoint from p and from the merged neighbours, is disjoint from N
  have hNdisj : ∀ q : Ext, 0 < q.size → disj p q → (∀ b, bef = some b → disj b q) →
      (∀ a, aft = some a → disj a q) → disj N q := by
    intro q hq hpq hqb hqa
    cases bef with
    | none =>
      cases aft with
      | none => simp only at hNs hNe; ext_omega
      | some a =>
        have ⟨ham, has⟩ := ha1 a rfl
        have hda := hqa a rfl
        have := hpos a ham
        simp only at hNs hNe; ext_omega
    | some b =>
      have ⟨hbm, hbs⟩ := hb1 b rfl
      have hdb := hqb b rfl
      have := hpos b hbm
      cases aft with
      | none => simp only at hNs hNe; ext_omega
      | some a =>
        have ⟨ham, has⟩ := ha1 a rfl
        have hda := hqa a rfl
        have := hpos a ham
        simp only at hNs hNe; ext_omega
  have hdsym : ∀ a b : Ext, disj a b → disj b a := by intro a b h; ext_omega
  -- a surviving old hole is disjoint from N
  have hsurv : ∀ c ∈ hs, some c ≠ bef → some c ≠ aft → disj N c := by
    intro c hc hcb hca
    refine hNdisj c (hpos c hc) (hdsym _ _ (hd c hc)) ?_ ?_
    · intro b hb
      rcases hdj b (hb1 b hb).1 c hc with e | d
      · subst e; exact absurd hb.symm hcb
      · exact d
    · intro a ha
      rcases hdj a (ha1 a ha).1 c hc with e | d
      · subst e; exact absurd ha.symm hca
      · exact d
  refine ⟨⟨?_, ?_, ?_⟩, ?_, ?_⟩
  · -- positivity
    intro a ha
    rcases (hmem a).mp ha with rfl | ⟨h, _, _⟩
    · exact hNpos
    · exact hpos a h
  · -- pairwise disjoint
    intro a ha b hb
    rcases (hmem a).mp ha with rfl | ⟨ha', hab, haa⟩ <;> rcases (hmem b).mp hb with rfl | ⟨hb', hbb, hba⟩
    · left; rfl
    · right; exact hsurv b hb' hbb hba
    · right; exact hdsym _ _ (hsurv a ha' hab haa)
    · exact hdj a ha' b hb'
  · -- merged: no two holes adjacent
    intro a ha b hb
    rcases (hmem a).mp ha with rfl | ⟨ha', hab, haa⟩ <;> rcases (hmem b).mp hb with rfl | ⟨hb', hbb, hba⟩
    · ext_omega
    · -- N.stop ≠ b.start for a surviving b
      cases aft with
      | none =>
        have := ha2 rfl b hb'
        simp only at hNe; ext_omega
      | some a' =>
        have ⟨ham, _⟩ := ha1 a' rfl
        have := hmg a' ham b hb'
        simp only at hNe; ext_omega
    · -- a.stop ≠ N.start for a surviving a
      cases bef with
      | none =>
        have := hb2 rfl a ha'
        simp only at hNs; ext_omega
      | some b' =>
        have ⟨hbm, _⟩ := hb1 b' rfl
        have := hmg a ha' b' hbm
        simp only at hNs; ext_omega
    · exact hmg a ha' b hb'
  · -- coverage
    intro x
    constructor
    · rintro ⟨e, he, hx⟩
      rcases (hmem e).mp he with rfl | ⟨h, _, _⟩
      · rcases (hNcov x).mp hx with h1 | ⟨b, hb, h2⟩ | ⟨a, ha, h3⟩
        · right; exact h1
        · left; exact ⟨b, (hb1 b hb).1, h2⟩
        · left; exact ⟨a, (ha1 a ha).1, h3⟩
      · left; exact ⟨e, h, hx⟩
    · rintro (⟨e, he, hx⟩ | hx)
      · by_cases h1 : some e = bef
        · exact ⟨N, (hmem N).mpr (Or.inl rfl), (hNcov x).mpr (Or.inr (Or.inl ⟨e, h1.symm, hx⟩))⟩
        · by_cases h2 : some e = aft
          · exact ⟨N, (hmem N).mpr (Or.inl rfl), (hNcov x).mpr (Or.inr (Or.inr ⟨e, h2.symm, hx⟩))⟩
          · exact ⟨e, (hmem e).mpr (Or.inr ⟨he, h1, h2⟩), hx⟩
      · exact ⟨N, (hmem N).mpr (Or.inl rfl), (hNcov x).mpr (Or.inl hx)⟩
  · intro q hq hqs hpq a ha
    rcases (hmem a).mp ha with rfl | ⟨h, _, _⟩
    · exact hNdisj q hq hpq (fun b hb => hqs b (hb1 b hb).1) (fun a ha => hqs a (ha1 a ha).1)
    · exact hqs a h

end AnyDB.Alloc

namespace AnyDB.Alloc

/-- Promotion of a whole batch of pending holes (processed in list order, as the BTreeMap iterates). -/
theorem promote_inv (pending hs : List Ext) (hI : HInv hs)
    (hpp : ∀ p ∈ pending, 0 < p.size)
    (hph : ∀ p ∈ pending, ∀ a ∈ hs, disj a p)
    (hpd : pending.Pairwise disj) :
    HInv (promote hs pending) ∧
    (∀ x, cov (promote hs pending) x ↔ cov hs x ∨ cov pending x) ∧
    (∀ q : Ext, 0 < q.size → (∀ a ∈ hs, disj a q) → (∀ p ∈ pending, disj p q) →
        ∀ a ∈ promote hs pending, disj a q) := by
  induction pending generalizing hs with
  | nil =>
    refine ⟨hI, ?_, ?_⟩
    · intro x; simp [promote, cov]
    · intro q _ hqs _ a ha; exact hqs a (by simpa [promote] using ha)
  | cons p t ih =>
    have hp : 0 < p.size := hpp p (by simp)
    have hd : ∀ a ∈ hs, disj a p := hph p (by simp)
    obtain ⟨hI1, hc1, hq1⟩ := promoteOne_inv hs p hI hp hd
    rw [List.pairwise_cons] at hpd
    obtain ⟨hpt, htt⟩ := hpd
    have ih' := ih (promoteOne hs p) hI1 (fun q hq => hpp q (by simp [hq]))
      (fun q hq a ha => hq1 q (hpp q (by simp [hq])) (fun b hb => hph q (by simp [hq]) b hb) (hpt q hq) a ha)
      htt
    obtain ⟨hI2, hc2, hq2⟩ := ih'
    refine ⟨hI2, ?_, ?_⟩
    · intro x
      have : promote hs (p :: t) = promote (promoteOne hs p) t := rfl
      rw [this, hc2 x, hc1 x]
      simp only [cov, List.mem_cons]
      constructor
      · rintro ((h | h) | ⟨e, he, hx⟩)
        · left; exact h
        · right; exact ⟨p, Or.inl rfl, h⟩
        · right; exact ⟨e, Or.inr he, hx⟩
      · rintro (h | ⟨e, rfl | he, hx⟩)
        · left; left; exact h
        · left; right; exact hx
        · right; exact ⟨e, he, hx⟩
    · intro q hq hqs hqp a ha
      have : promote hs (p :: t) = promote (promoteOne hs p) t := rfl
      rw [this] at ha
      refine hq2 q hq ?_ (fun r hr => hqp r (by simp [hr])) a ha
      intro b hb
      exact hq1 q hq hqs (hqp p (by simp)) b hb

example : promote [⟨30,10⟩] [⟨10,10⟩, ⟨20,10⟩] = [⟨10,30⟩] := by decide

end AnyDB.Alloc
