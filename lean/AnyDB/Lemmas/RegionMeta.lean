import AnyDB.Lemmas.RegionPaths
namespace AnyDB.C01r
open AnyDB Conc Db C02r Mem

/-! ## operations that touch one slot's metadata only -/

theorem read_take (m : Mem) (o l n : Nat) (h : n ≤ l) : m.read o n = (m.read o l).take n := by
  apply List.ext_getElem?
  intro i
  rw [List.getElem?_take, read_getElem?, read_getElem?]
  by_cases h1 : i < n
  · rw [if_pos h1, if_pos h1, if_pos (by omega)]
  · rw [if_neg h1, if_neg h1]

/-- slot `idx` gets new metadata with the same extent and a length not above the old one; memory is untouched -/
theorem rel_meta (s s' : Db) (r : Ref) (idx : Nat) (sl X : Slot) (hrel : Rel s r) (hinv : RInv s) (hlay : LInv s')
    (hs : s.slot? idx = some sl) (hslots : s'.slots = s.slots.set idx (some X)) (hmem : s'.mem = s.mem)
    (h1 : X.md.start = sl.md.start) (h2 : X.md.reserved = sl.md.reserved) (h3 : X.md.len ≤ sl.md.len) :
    ∃ e, r[idx]?.join = some e ∧ Rel s' (r.set idx (some (X.md.id, e.2.take X.md.len))) ∧ RInv s' := by
  obtain ⟨e, he, e1, e2, e3⟩ := rel_get s r idx sl hrel hs
  have hidx := slot_lt s idx sl hs
  have hnewslot := slot_set_eq s s' idx X hslots hidx
  have hb := hinv.bnd idx sl hs
  refine ⟨e, he, ⟨by rw [List.length_set, hrel.1, hslots, List.length_set], fun j => ?_⟩, ⟨hlay, fun j slj hj => ?_⟩⟩
  · by_cases hj : j = idx
    · subst hj
      rw [List.getElem?_set_self (by rw [hrel.1]; exact hidx)]
      have hv := hrel.2 j
      unfold viewAt at hv ⊢
      rw [hs, he] at hv
      rw [hnewslot, hmem]
      simp only [Option.map_some, Option.join_some, liftE, Option.some.injEq, Prod.mk.injEq] at hv ⊢
      refine ⟨trivial, ?_⟩
      rw [h1, read_take _ _ _ _ h3, hv.2, List.map_take]
    · rw [List.getElem?_set_ne (Ne.symm hj), ← hrel.2 j]
      exact viewAt_congr s s' j (slot_set_ne s s' idx j _ hslots hj) hmem
  · by_cases hjx : j = idx
    · subst hjx
      rw [hnewslot] at hj; cases hj
      rw [hmem]; omega
    · rw [slot_set_ne s s' idx j _ hslots hjx] at hj
      rw [hmem]; exact hinv.bnd j slj hj

theorem rel_truncate (s : Db) (r : Ref) (idx n : Nat) (sl : Slot) (hrel : Rel s r) (hinv : RInv s) (hs : s.slot? idx = some sl) :
    ∃ e, r[idx]?.join = some e ∧ e.2.length = sl.md.len ∧
      Rel (s.truncate idx n).1 (r.set idx (if n > e.2.length then some e else some (e.1, e.2.take n))) ∧ RInv (s.truncate idx n).1 := by
  obtain ⟨e, he, e1, e2, _⟩ := rel_get s r idx sl hrel hs
  have hidx := slot_lt s idx sl hs
  have hself : r.set idx (some e) = r := by
    apply List.ext_getElem?
    intro j
    by_cases hj : j = idx
    · subst hj
      rw [List.getElem?_set_self (by rw [hrel.1]; exact hidx)]
      cases hr : r[j]? with
      | none => simp [hr] at he
      | some o => simp [hr] at he; rw [he]
    · rw [List.getElem?_set_ne (Ne.symm hj)]
  refine ⟨e, he, e2, ?_⟩
  unfold Db.truncate
  simp only [hs]
  split
  · rename_i heq
    have : ¬ n > e.2.length := by omega
    rw [if_neg this]
    have ht : e.2.take n = e.2 := List.take_of_length_le (by omega)
    rw [ht]
    exact ⟨by rw [show (e.1, e.2) = e from rfl, hself]; exact hrel, hinv⟩
  · split
    · rename_i hgt
      rw [if_pos (by omega), hself]
      exact ⟨hrel, hinv⟩
    · rename_i hne hgt
      rw [if_neg (by omega)]
      obtain ⟨X, x1, x2, x3⟩ := writeIfDirty_shape s idx (metaSetLen sl n)
      have hlay : LInv (s.writeIfDirty idx (metaSetLen sl n)) := by
        have := (same_truncate s idx n).linv hinv.lay
        unfold Db.truncate at this
        simp only [hs, if_neg hne, if_neg hgt] at this
        exact this
      have hx : X.md = { sl.md with len := n } := by rw [x1, md_metaSetLen]
      obtain ⟨e', he', hr', hi'⟩ := rel_meta s _ r idx sl X hrel hinv hlay hs x2 x3 (by rw [hx]) (by rw [hx]) (by rw [hx]; simp only; omega)
      rw [he] at he'; cases he'
      rw [hx] at hr'
      simp only at hr'
      rw [e1]
      exact ⟨hr', hi'⟩

theorem rel_rename (s : Db) (r : Ref) (idx : Nat) (nid : RegionId) (sl : Slot) (hrel : Rel s r) (hinv : RInv s) (hs : s.slot? idx = some sl)
    (hok : (s.rename idx nid).2 = .ok) :
    s.findId nid = none ∧ ∃ e, r[idx]?.join = some e ∧ Rel (s.rename idx nid).1 (r.set idx (some (nid, e.2))) ∧ RInv (s.rename idx nid).1 := by
  have hlay0 := (same_rename s idx nid).linv hinv.lay
  unfold Db.rename at hok hlay0 ⊢
  simp only [hs] at hok hlay0 ⊢
  split at hok
  · cases hok
  · rename_i hf
    rw [if_neg hf] at hlay0 ⊢
    split at hok
    · cases hok
    · rename_i hv
      rw [if_neg hv] at hlay0 ⊢
      refine ⟨by simpa using hf, ?_⟩
      obtain ⟨X, x1, x2, x3⟩ := writeIfDirty_shape s idx (metaSetId sl nid)
      obtain ⟨e, he, hr, hi⟩ := rel_meta s _ r idx sl X hrel hinv hlay0 hs x2 x3 (by rw [x1, md_metaSetId]) (by rw [x1, md_metaSetId])
        (by rw [x1, md_metaSetId]; exact Nat.le_refl _)
      obtain ⟨e0, he0, _, e2, _⟩ := rel_get s r idx sl hrel hs
      rw [he] at he0; cases he0
      refine ⟨e, he, ?_, hi⟩
      rw [x1, md_metaSetId] at hr
      simp only at hr
      rw [List.take_of_length_le (by omega)] at hr
      exact hr


/-! ## removal -/

theorem rel_drop (s s' : Db) (r : Ref) (idx : Nat) (hrel : Rel s r) (hinv : RInv s) (hlay : LInv s')
    (hslots : s'.slots = s.slots.set idx none) (hmem : s'.mem = s.mem) : Rel s' (r.set idx none) ∧ RInv s' := by
  refine ⟨⟨by rw [List.length_set, hrel.1, hslots, List.length_set], fun j => ?_⟩, ⟨hlay, fun j slj hj => ?_⟩⟩
  · by_cases hj : j = idx
    · subst hj
      unfold viewAt Db.slot?
      rw [hslots]
      by_cases hl : j < s.slots.length
      · rw [List.getElem?_set_self hl, List.getElem?_set_self (by rw [hrel.1]; exact hl)]; rfl
      · rw [List.getElem?_eq_none (by rw [List.length_set]; omega), List.getElem?_eq_none (by rw [List.length_set, hrel.1]; omega)]; rfl
    · rw [List.getElem?_set_ne (Ne.symm hj), ← hrel.2 j]
      exact viewAt_congr s s' j (slot_set_ne s s' idx j _ hslots hj) hmem
  · have hjx : j ≠ idx := by
      intro he; subst he
      unfold Db.slot? at hj
      rw [hslots] at hj
      by_cases hl : j < s.slots.length
      · rw [List.getElem?_set_self hl] at hj; cases hj
      · rw [List.getElem?_eq_none (by rw [List.length_set]; omega)] at hj; cases hj
    rw [slot_set_ne s s' idx j _ hslots hjx] at hj
    rw [hmem]; exact hinv.bnd j slj hj

theorem remove_shape (s : Db) (idx : Nat) (sl : Slot) (hlay : LInv s) (hs : s.slot? idx = some sl) :
    (s.remove idx false).2 = .ok ∧ (s.remove idx false).1.slots = s.slots.set idx none ∧ (s.remove idx false).1.mem = s.mem := by
  have hv : (vs s)[idx]? = some (some (sl.md.start, sl.md.reserved)) := (vs_get s idx _).mpr ⟨sl, hs, rfl⟩
  have hg := regions_get s hlay idx _ _ hv
  unfold Db.remove Db.layoutRemoveRegion
  simp only [hs, hg, if_true, Bool.not_true, Bool.false_eq_true, if_false]
  refine ⟨?_, ?_, ?_⟩ <;> first | rfl | trivial

theorem rel_remove (s : Db) (r : Ref) (idx : Nat) (sl : Slot) (hrel : Rel s r) (hinv : RInv s) (hs : s.slot? idx = some sl) :
    Rel (s.remove idx false).1 (r.set idx none) ∧ RInv (s.remove idx false).1 := by
  obtain ⟨_, h2, h3⟩ := remove_shape s idx sl hinv.lay hs
  exact rel_drop s _ r idx hrel hinv (linv_remove s idx false hinv.lay) h2 h3

theorem retain_fold (vs : List Nat) (acc : Db × Out) (hl : LInv acc.1) (ho : acc.2 = .ok) (hn : vs.Nodup)
    (hlive : ∀ v ∈ vs, (acc.1.slot? v).isSome) :
    let res := vs.foldl (fun (acc : Db × Out) i => match acc.2 with | .ok => acc.1.remove i false | _ => acc) acc
    res.2 = .ok ∧ res.1.mem = acc.1.mem ∧ res.1.slots.length = acc.1.slots.length ∧
      ∀ j, res.1.slot? j = if j ∈ vs then none else acc.1.slot? j := by
  induction vs generalizing acc with
  | nil => exact ⟨ho, rfl, rfl, fun j => by simp⟩
  | cons v t ih =>
    simp only [List.foldl_cons]
    have hv := hlive v (List.mem_cons_self ..)
    cases hsv : acc.1.slot? v with
    | none => rw [hsv] at hv; cases hv
    | some sl =>
      obtain ⟨r1, r2, r3⟩ := remove_shape acc.1 v sl hl hsv
      have hstep : (match acc.2 with | .ok => acc.1.remove v false | _ => acc) = acc.1.remove v false := by rw [ho]
      rw [hstep]
      have hnd := List.nodup_cons.mp hn
      obtain ⟨q1, q2, q3, q4⟩ := ih (acc.1.remove v false) (linv_remove acc.1 v false hl) r1 hnd.2 (by
        intro w hw
        have hwv : w ≠ v := fun he => hnd.1 (he ▸ hw)
        rw [slot_set_ne acc.1 _ v w _ r2 hwv]
        exact hlive w (List.mem_cons_of_mem _ hw))
      refine ⟨q1, by rw [q2, r3], by rw [q3, r2, List.length_set], fun j => ?_⟩
      rw [q4 j]
      by_cases hjt : j ∈ t
      · simp [hjt]
      · by_cases hjv : j = v
        · subst hjv
          simp only [hjt, if_false, List.mem_cons, true_or, if_true]
          unfold Db.slot?; rw [r2]
          by_cases hl2 : j < acc.1.slots.length
          · rw [List.getElem?_set_self hl2]; rfl
          · rw [List.getElem?_eq_none (by rw [List.length_set]; omega)]; rfl
        · simp only [hjt, if_false, List.mem_cons, hjv, or_self]
          exact slot_set_ne acc.1 _ v j _ r2 hjv

theorem rel_retain (s : Db) (r : Ref) (keep : List RegionId) (hrel : Rel s r) (hinv : RInv s) :
    Rel (s.retain keep).1 (refRetain r keep) ∧ RInv (s.retain keep).1 := by
  have hlay := linv_retain s keep hinv.lay
  unfold Db.retain at hlay ⊢
  have hvs : ∀ v, v ∈ (List.range s.slots.length).filter (fun i => match s.slot? i with | some sl => !keep.contains sl.md.id | none => false) ↔
      ∃ sl, s.slot? v = some sl ∧ keep.contains sl.md.id = false := by
    intro v
    rw [List.mem_filter, List.mem_range]
    constructor
    · rintro ⟨_, h2⟩
      cases hs : s.slot? v with
      | none => simp [hs] at h2
      | some sl => simp [hs] at h2; exact ⟨sl, rfl, by simpa using h2⟩
    · rintro ⟨sl, h1, h2⟩
      exact ⟨slot_lt s v sl h1, by rw [h1]; simp only; rw [h2]; rfl⟩
  obtain ⟨q1, q2, q3, q4⟩ := retain_fold _ (s, .ok) hinv.lay rfl (List.Nodup.sublist List.filter_sublist List.nodup_range) (by
    intro v hv
    obtain ⟨sl, h1, _⟩ := (hvs v).mp hv
    rw [h1]; rfl)
  generalize ((List.range s.slots.length).filter _).foldl _ (s, Out.ok) = res at *
  simp only at q2 q3 q4
  refine ⟨⟨by unfold refRetain; rw [List.length_map, hrel.1, q3], fun j => ?_⟩, ⟨hlay, fun j slj hj => ?_⟩⟩
  · have hv := hrel.2 j
    unfold viewAt at hv ⊢
    rw [q4 j, q2]
    unfold refRetain
    rw [List.getElem?_map]
    cases hs : s.slot? j with
    | none =>
      have : j ∉ (List.range s.slots.length).filter (fun i => match s.slot? i with | some sl => !keep.contains sl.md.id | none => false) := by
        intro hm; obtain ⟨sl, h1, _⟩ := (hvs j).mp hm; rw [hs] at h1; cases h1
      rw [if_neg this]
      rw [hs] at hv
      cases hr : r[j]? with
      | none => rfl
      | some o =>
        cases o with
        | none => rfl
        | some e => rw [hr] at hv; simp at hv
    | some sl =>
      rw [hs] at hv
      cases hr : r[j]? with
      | none => rw [hr] at hv; simp at hv
      | some o =>
        cases o with
        | none => rw [hr] at hv; simp at hv
        | some e =>
          rw [hr] at hv
          simp only [Option.map_some, Option.join_some, liftE, Option.some.injEq, Prod.mk.injEq] at hv
          by_cases hk : keep.contains e.1 = true
          · have : j ∉ (List.range s.slots.length).filter (fun i => match s.slot? i with | some sl => !keep.contains sl.md.id | none => false) := by
              intro hm; obtain ⟨sl', h1, h2⟩ := (hvs j).mp hm
              rw [hs] at h1; cases h1; rw [hv.1, hk] at h2; cases h2
            rw [if_neg this]
            simp only [Option.map_some, hk, if_true, Option.join_some, liftE, Option.some.injEq, Prod.mk.injEq]
            exact hv
          · have hk' : keep.contains e.1 = false := by simpa using hk
            have : j ∈ (List.range s.slots.length).filter (fun i => match s.slot? i with | some sl => !keep.contains sl.md.id | none => false) :=
              (hvs j).mpr ⟨sl, hs, by rw [hv.1, hk']⟩
            rw [if_pos this]
            have hm : ¬ e.1 ∈ keep := by simpa using hk'
            simp [hm]
  · rw [q4 j] at hj
    split at hj
    · cases hj
    · rw [q2]; exact hinv.bnd j slj hj

end AnyDB.C01r
