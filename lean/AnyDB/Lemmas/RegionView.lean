import AnyDB.Props.C01
import AnyDB.Lemmas.LayoutCreate
namespace AnyDB.C01r
open AnyDB Conc Db C02r Mem

/-! ## what a region shows, memory frames -/

/-- what region slot `idx` shows: its name and the bytes `[start, start+len)` as a reader sees them -/
def viewAt (s : Db) (idx : Nat) : Option (RegionId × List (Option UInt8)) :=
  (s.slot? idx).map (fun sl => (sl.md.id, s.mem.read sl.md.start sl.md.len))

/-- memory changes only inside `[a, a+n)`, and the file does not shrink -/
def MemFrame (m m' : Mem) (a n : Nat) : Prop :=
  m.size ≤ m'.size ∧ ∀ x, x < m.size → ¬(a ≤ x ∧ x < a + n) → m'.get? x = m.get? x

theorem MemFrame.refl (m : Mem) (a n : Nat) : MemFrame m m a n := ⟨Nat.le_refl _, fun _ _ _ => rfl⟩

theorem MemFrame.trans {m1 m2 m3 : Mem} {a n : Nat} (h1 : MemFrame m1 m2 a n) (h2 : MemFrame m2 m3 a n) : MemFrame m1 m3 a n :=
  ⟨Nat.le_trans h1.1 h2.1, fun x hx hn => by rw [h2.2 x (by have := h1.1; omega) hn, h1.2 x hx hn]⟩

theorem MemFrame.mono {m m' : Mem} {a n b k : Nat} (h : MemFrame m m' a n) (hs : ∀ x, a ≤ x ∧ x < a + n → b ≤ x ∧ x < b + k) :
    MemFrame m m' b k :=
  ⟨h.1, fun x hx hn => h.2 x hx (fun hc => hn (hs x hc))⟩

theorem memFrame_writeAt {m m' : Mem} {off : Nat} {d : List UInt8} (h : m.writeAt off d = some m') : MemFrame m m' off d.length :=
  ⟨by rw [size_writeAt h]; exact Nat.le_refl _, fun x _ hn => by rw [get?_writeAt h, if_neg hn]⟩

theorem memFrame_grow (m : Mem) (n a k : Nat) : MemFrame m (m.grow n) a k :=
  ⟨by rw [size_grow]; omega, fun x hx _ => by rw [get?_grow, if_pos hx]⟩

theorem get?_punch_frame (m : Mem) (off len x : Nat) (hd : ¬(off ≤ x ∧ x < off + len)) : (m.punch off len).get? x = m.get? x := by
  have := read_punch_frame m off len x 1 (by omega)
  unfold Mem.read at this
  simpa using this

theorem memFrame_punch (m : Mem) (off len : Nat) : MemFrame m (m.punch off len) off len :=
  ⟨by rw [size_punch]; exact Nat.le_refl _, fun x _ hn => get?_punch_frame m off len x hn⟩

theorem read_congr (m m' : Mem) (o l : Nat) (h : ∀ i, i < l → m'.get? (o + i) = m.get? (o + i)) : m'.read o l = m.read o l := by
  unfold Mem.read
  apply List.map_congr_left
  intro i hi
  exact h i (List.mem_range.mp hi)

theorem read_getElem? (m : Mem) (o l i : Nat) : (m.read o l)[i]? = if i < l then some (m.get? (o + i)) else none := by
  unfold Mem.read
  by_cases h : i < l <;> simp [h]

theorem read_length (m : Mem) (o l : Nat) : (m.read o l).length = l := by unfold Mem.read; simp

/-- a read inside the old file and outside the frame's window is unchanged -/
theorem MemFrame.read_eq {m m' : Mem} {a n : Nat} (h : MemFrame m m' a n) (o l : Nat) (hin : o + l ≤ m.size)
    (hd : o + l ≤ a ∨ a + n ≤ o) : m'.read o l = m.read o l :=
  read_congr m m' o l (fun i hi => h.2 (o + i) (by omega) (by omega))

/-! ## the bounds half of the invariant -/

/-- contents lie inside the reservation and inside the file -/
def Bounds (s : Db) : Prop := ∀ idx sl, s.slot? idx = some sl → sl.md.len ≤ sl.md.reserved ∧ (0 < sl.md.len → sl.md.start + sl.md.len ≤ s.mem.size)

structure RInv (s : Db) : Prop where
  lay : LInv s
  bnd : Bounds s

/-- two intervals that never cover the same byte, both non-empty, are apart -/
theorem apart_of_ind (a b : E) (h : ∀ x, ind a x + ind b x ≤ 1) (pa : 0 < a.2) (pb : 0 < b.2) :
    a.1 + a.2 ≤ b.1 ∨ b.1 + b.2 ≤ a.1 := by
  by_cases hc : a.1 + a.2 ≤ b.1 ∨ b.1 + b.2 ≤ a.1
  · exact hc
  · exfalso
    have hx := h (max a.1 b.1)
    rw [show a = (a.1, a.2) from rfl, show b = (b.1, b.2) from rfl] at hx
    rw [ind_pos _ _ _ (by omega), ind_pos _ _ _ (by omega)] at hx
    omega

/-- two different live slots are apart -/
theorem slots_apart (s : Db) (h : LInv s) (i j : Nat) (a b : Slot) (hij : i ≠ j) (ha : s.slot? i = some a) (hb : s.slot? j = some b) :
    a.md.start + a.md.reserved ≤ b.md.start ∨ b.md.start + b.md.reserved ≤ a.md.start := by
  have hva : (vs s)[i]? = some (some (extOf a)) := (vs_get s i _).mpr ⟨a, ha, rfl⟩
  have hvb : (vs s)[j]? = some (some (extOf b)) := (vs_get s j _).mpr ⟨b, hb, rfl⟩
  have pa := h.pos _ (ext_mem s i _ hva)
  have pb := h.pos _ (ext_mem s j _ hvb)
  refine apart_of_ind (extOf a) (extOf b) (fun x => ?_) pa pb
  have h2 := two_slots s.slots i j a b x hij ((slot_iff s i a).mp ha) ((slot_iff s j b).mp hb)
  have h1 := h.one x
  unfold claimedDb at h1
  simp only [cnt_append] at h1
  omega

/-- slot `j` keeps what it shows when its slot is untouched and memory changed only inside a window apart from its extent -/
theorem other_unchanged (s s' : Db) (j : Nat) (slj : Slot) (a n : Nat)
    (h1 : s.slot? j = some slj) (h2 : s'.slot? j = some slj) (hb : slj.md.len ≤ slj.md.reserved ∧ (0 < slj.md.len → slj.md.start + slj.md.len ≤ s.mem.size))
    (hf : MemFrame s.mem s'.mem a n) (hd : slj.md.start + slj.md.reserved ≤ a ∨ a + n ≤ slj.md.start) :
    viewAt s' j = viewAt s j := by
  unfold viewAt
  rw [h1, h2]
  simp only [Option.map_some]
  by_cases h0 : slj.md.len = 0
  · rw [h0]; rfl
  · rw [hf.read_eq _ _ (hb.2 (by omega)) (by omega)]

/-- … or when the memory is the same -/
theorem viewAt_congr (s s' : Db) (j : Nat) (h1 : s'.slot? j = s.slot? j) (h2 : s'.mem = s.mem) : viewAt s' j = viewAt s j := by
  unfold viewAt; rw [h1, h2]

/-- … or when only the metadata-irrelevant part of the slot changed -/
theorem viewAt_md (s s' : Db) (j : Nat) (h1 : (s'.slot? j).map (·.md) = (s.slot? j).map (·.md)) (h2 : s'.mem = s.mem) :
    viewAt s' j = viewAt s j := by
  unfold viewAt; rw [h2]
  cases ha : s'.slot? j <;> cases hb : s.slot? j <;> simp [ha, hb] at h1 ⊢
  rw [h1]; exact ⟨rfl, rfl⟩

/-! ## the reference: one independent byte vector per region -/

abbrev Ref := List (Option (RegionId × List UInt8))

def liftE (e : RegionId × List UInt8) : RegionId × List (Option UInt8) := (e.1, e.2.map some)

/-- the model state shows exactly the reference -/
def Rel (s : Db) (r : Ref) : Prop := r.length = s.slots.length ∧ ∀ idx, viewAt s idx = (r[idx]?.join).map liftE

def refFind (r : Ref) (id : RegionId) : Option Nat :=
  r.findIdx? (fun o => match o with | some e => e.1 == id | none => false)

def refWrite (old : List UInt8) (at_ : Option Nat) (trunc : Bool) (d : List UInt8) : List UInt8 :=
  let wo := at_.getD old.length
  old.take wo ++ d ++ (if trunc then [] else old.drop (wo + d.length))

/-- apply `f` to the bytes of the region called `id` (nothing happens when there is none) -/
def refOn (r : Ref) (id : RegionId) (f : RegionId × List UInt8 → Option (RegionId × List UInt8)) : Ref :=
  match refFind r id with
  | none => r
  | some i => match r[i]?.join with
    | none => r
    | some e => r.set i (f e)

/-- one write on one region's byte vector: refused (nothing happens) when the offset lies beyond the end -/
def refWriteE (at_ : Option Nat) (trunc : Bool) (d : List UInt8) (e : RegionId × List UInt8) : Option (RegionId × List UInt8) :=
  if Db.outOfBounds at_ e.2.length then some e else some (e.1, refWrite e.2 at_ trunc d)

/-- the reference's `retain`: every region whose name is not kept disappears -/
def refRetain (r : Ref) (keep : List RegionId) : Ref :=
  r.map (fun o => match o with | some e => if keep.contains e.1 then some e else none | none => none)

/-- the reference model of C01: named, independent byte vectors; an operation touches the one entry it names -/
def refStep (r : Ref) : Op → Ref
  | .create id =>
    match refFind r id with
    | some _ => r
    | none => match r.findIdx? (·.isNone) with
      | some i => r.set i (some (id, []))
      | none => r ++ [some (id, [])]
  | .write id d => refOn r id (refWriteE none false d)
  | .writeAt id a d => refOn r id (refWriteE (some a) false d)
  | .truncateWrite id a d => refOn r id (refWriteE (some a) true d)
  | .truncate id n => refOn r id (fun e => if n > e.2.length then some e else some (e.1, e.2.take n))
  | .rename id n => if (refFind r n).isSome then r else refOn r id (fun e => some (n, e.2))
  | .remove id => refOn r id (fun _ => none)
  | .retain ids => refRetain r ids
  | _ => r

end AnyDB.C01r
