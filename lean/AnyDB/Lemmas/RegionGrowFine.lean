import AnyDB.Lemmas.RegionNoPanic
namespace AnyDB.C01r
open AnyDB Conc Db C02r Mem

/-- the doubling loop stops below twice the need -/
theorem growReserved_lt (fuel cur need n : Nat) (h : growReserved fuel cur need = some n) (hc : cur < need) : n < 2 * need := by
  induction fuel generalizing cur with
  | zero => simp [growReserved] at h
  | succ k ih =>
    unfold growReserved at h
    rw [if_pos hc] at h
    split at h
    · cases h
    · by_cases h2 : cur * 2 < need
      · exact ih _ h h2
      · cases k with
        | zero => simp [growReserved] at h
        | succ j =>
          unfold growReserved at h
          rw [if_neg (by omega)] at h
          cases h; omega

/-- … and finds a size whenever the need is below 2^63 -/
theorem growReserved_some (f cur need : Nat) (hc : 0 < cur) (hn : need ≤ cur * 2 ^ f) (h63 : need ≤ 2 ^ 63) :
    ∃ n, growReserved (f + 1) cur need = some n := by
  induction f generalizing cur with
  | zero =>
    unfold growReserved
    rw [if_neg (by simp at hn; omega)]; exact ⟨_, rfl⟩
  | succ k ih =>
    unfold growReserved
    by_cases h : need > cur
    · rw [if_pos h, if_neg (by omega)]
      exact ih (cur * 2) (by omega) (by rw [Nat.pow_succ] at hn; rw [Nat.mul_assoc]; rw [Nat.mul_comm 2]; exact hn)
    · rw [if_neg h]; exact ⟨_, rfl⟩

/-- the largest length (512 GiB) up to which a region can always grow: the doubled reservation stays within `MAX_RESERVED_SIZE` -/
def MAX_LEN : Nat := 2 ^ 39

theorem writeGrow_fine (s : Db) (hinv : RInv s) (hi : InF s) (idx : Nat) (sl : Slot) (d : List UInt8) (wo nl cl : Nat)
    (hs : s.slot? idx = some sl) (hnl : sl.md.reserved < nl) (hcl : cl ≤ sl.md.len)
    (h1 : wo + d.length ≤ nl) (hsmall : nl ≤ MAX_LEN) :
    ¬IsPanic (s.writeGrow idx sl d wo nl cl).2 ∧ (s.writeGrow idx sl d wo nl cl).2 ≠ .err .regionSizeOverflow := by
  have hb := hinv.bnd idx sl hs
  have hpos : 0 < sl.md.reserved := by
    have hm1 : extOf sl ∈ exts s.slots := (mem_exts s.slots _).mpr ⟨idx, sl, (slot_iff s idx sl).mp hs, rfl⟩
    exact hinv.lay.pos _ ((mem_claimed s _).mpr (Or.inl hm1))
  have h39 : (2:Nat) ^ 39 ≤ 2 ^ 63 := by decide
  have hmx : 2 * 2 ^ 39 = Gen.MAX_RESERVED_SIZE := by decide
  unfold MAX_LEN at hsmall
  have h63 : nl ≤ sl.md.reserved * 2 ^ 63 := by
    have : 1 * 2 ^ 63 ≤ sl.md.reserved * 2 ^ 63 := Nat.mul_le_mul_right _ hpos
    omega
  obtain ⟨nr, hg⟩ := growReserved_some 63 sl.md.reserved nl hpos h63 (by omega)
  have hlt := growReserved_lt 64 _ _ _ hg hnl
  have hge := growReserved_ge 64 _ _ _ hg
  have hneed := growReserved_need 64 _ _ _ hg
  have hmax : nr ≤ Gen.MAX_RESERVED_SIZE := by omega
  unfold Db.writeGrow
  simp only []
  rw [if_neg (by omega), hg]
  simp only
  split
  · exact ⟨writeExtendLast_nopanic s idx sl d wo nl nr hi h1 hneed hmax, fun hk => absurd hk (Db.writeExtendLast_out _ _ _ _ _ _ _ _)⟩
  · split
    · rename_i hce
      exact ⟨writeExpand_nopanic s idx sl d wo nl nr hi hce hge h1 hneed hmax, fun hk => absurd hk (writeExpand_noerr s idx sl d wo nl nr _ hce)⟩
    · obtain ⟨r, hp⟩ := placeRelocation_ok s hinv.lay nr
      obtain ⟨p, ns⟩ := r
      simp only [hp]
      obtain ⟨p1, p2, p3, p4⟩ := linv_placeRelocation s p hinv.lay nr ns (by omega) hp
      have pa := inf_placeRelocation s p hi nr ns hp
      have hv : (vs p)[idx]? = some (some (extOf sl)) := by rw [p3]; exact (vs_get s idx _).mpr ⟨sl, hs, rfl⟩
      obtain ⟨cur, hc1, hc2⟩ := (vs_get p idx _).mp hv
      exact ⟨writeRelocate_nopanic p p1 pa idx sl cur d wo nl nr cl ns hc1 hc2 p2 hcl hb.1 hge h1 hneed hmax,
        fun hk => absurd hk (writeRelocate_noerr p p1 idx sl cur d wo nl nr cl ns _ hc1 hc2 p2 (by omega) (by omega))⟩

end AnyDB.C01r
