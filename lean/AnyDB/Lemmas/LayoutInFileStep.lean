import AnyDB.Lemmas.LayoutInFileWrite
namespace AnyDB.C02r
open AnyDB Conc Db Mem

theorem layoutLen_setMinLen (s : Db) (n : Nat) : (s.setMinLen n).layoutLen = s.layoutLen := by
  unfold Db.setMinLen; simp only []; split <;> rfl
theorem holes_setMinLen (s : Db) (n : Nat) : (s.setMinLen n).holes = s.holes := by
  unfold Db.setMinLen; simp only []; split <;> rfl

theorem inf_create (s : Db) (id : RegionId) (hi : InF s) : InF (s.create id).1 := by
  unfold Db.create
  cases hf : s.findId id with
  | some i => exact hi
  | none =>
    simp only
    generalize hs0 : (if (bestFit s.holes Gen.PAGE_SIZE).isNone = true then s.setMinLen (s.layoutLen + Gen.PAGE_SIZE) else s) = s0
    have hi0 : InF s0 := by rw [← hs0]; split; exact inf_setMinLen _ _ hi; exact hi
    have hroom : bestFit s0.holes Gen.PAGE_SIZE = none → s0.layoutLen + Gen.PAGE_SIZE ≤ s0.mem.size := by
      intro hb
      rw [← hs0] at hb ⊢
      split
      · rw [layoutLen_setMinLen]; exact (setMinLen_inf s _ hi.1).2.2
      · rename_i hn
        split at hb
        · rename_i hy; exact absurd hy hn
        · rw [hb] at hn; exact absurd rfl hn
    have key : ∀ (s1 : Db) (start : Nat), InF s1 → start + Gen.PAGE_SIZE ≤ s1.mem.size →
        InF (if (!idValid id) = true then (s1, Out.panic "validate_id") else
          (let idx := match s1.slots.findIdx? (·.isNone) with | some i => i | none => s1.slots.length
           let s2 := s1.regionsSetMinSlots (idx + 1)
           let sl : Slot := { md := { start := start, len := 0, reserved := Gen.PAGE_SIZE, id := id }, st := .needsWrite, dmin := USIZE_MAX, dmax := 0 }
           let s3 := if idx < s2.slots.length then s2.setSlot idx (some sl) else { s2 with slots := s2.slots ++ [some sl] }
           ({ s3 with regions := s3.regions ++ [(start, idx)] }, Out.okN idx))).1 := by
      intro s1 start hi1 hst
      split
      · exact hi1
      · simp only []
        generalize hidx : (match s1.slots.findIdx? (·.isNone) with | some i => i | none => s1.slots.length) = idx
        have hs2 := same_regionsSetMinSlots s1 (idx + 1)
        have hm2 := ms_regionsSetMinSlots s1 (idx + 1)
        have hi2 := hs2.inf' hm2 hi1
        obtain ⟨a1, a2, a3, a4⟩ := (inf_parts _ _).mp hi2.2
        have hst2 : start + Gen.PAGE_SIZE ≤ (s1.regionsSetMinSlots (idx + 1)).mem.size := by rw [hm2.2]; exact hst
        split
        · refine ⟨hi2.1, (inf_parts _ _).mpr ⟨?_, a2, a3, a4⟩⟩
          exact inL_exts_set _ idx _ _ a1 (fun x hx => by cases hx; exact hst2)
        · refine ⟨hi2.1, (inf_parts _ _).mpr ⟨?_, a2, a3, a4⟩⟩
          show InL (exts ((s1.regionsSetMinSlots (idx + 1)).slots ++ [some _])) _
          rw [exts_append]
          refine inL_append _ _ _ a1 ?_
          intro e he
          simp [exts] at he
          rw [he]; exact hst2
    obtain ⟨a1, a2, a3, a4⟩ := (inf_parts s0 _).mp hi0.2
    cases hb : bestFit s0.holes Gen.PAGE_SIZE with
    | some hstart =>
      simp only
      cases hrc : removeOrCompress s0.holes hstart Gen.PAGE_SIZE with
      | error e => exact hi0
      | ok hs =>
        simp only
        obtain ⟨b, hb1, hb2, hb3, _⟩ := bestFit_some hb
        have := a3 b hb1
        exact key { s0 with holes := hs } hstart ⟨hi0.1, (inf_parts _ _).mpr ⟨a1, a2, inL_removeOrCompress _ _ _ _ _ a3 hrc, a4⟩⟩
          (by show hstart + Gen.PAGE_SIZE ≤ s0.mem.size; omega)
    | none =>
      simp only
      exact key s0 s0.layoutLen hi0 (hroom hb)

/-- **every request keeps every extent inside the data file** (and the cached file length equal to
    the size of the mapping) -/
theorem inf_step (s : Db) (op : Op) (h : LInv s) (hi : InF s) (hop : ∀ n, op ≠ .reopen n) : InF (step s op).1 := by
  cases op with
  | create id => exact inf_create s id hi
  | write id d => simp only [step, Db.withRegion]; split; exact hi; exact inf_writeWith s h hi _ d none false
  | writeAt id a d => simp only [step, Db.withRegion]; split; exact hi; exact inf_writeWith s h hi _ d (some a) false
  | truncate id n => simp only [step, Db.withRegion]; split; exact hi; exact (same_truncate s _ n).inf' (ms_truncate s _ n) hi
  | truncateWrite id a d => simp only [step, Db.withRegion]; split; exact hi; exact inf_writeWith s h hi _ d (some a) true
  | rename id n => simp only [step, Db.withRegion]; split; exact hi; exact (same_rename s _ n).inf' (ms_rename s _ n) hi
  | remove id => exact inf_removeId s id false h hi
  | removeHeld id => exact inf_removeId s id true h hi
  | retain ids => exact inf_retain s ids h hi
  | flush => exact inf_flush s hi
  | regionFlush id => simp only [step, Db.withRegion]; split; exact hi; exact (same_regionFlush s _).inf' (ms_regionFlush s _) hi
  | compact => exact inf_compact s hi
  | reopen n => exact absurd rfl (hop n)
  | setMinLen n => exact inf_setMinLen s n hi
  | setMinRegions n =>
    simp only [step, Db.setMinRegions]
    exact inf_setMinLen _ _ ((same_regionsSetMinSlots s n).inf' (ms_regionsSetMinSlots s n) hi)

end AnyDB.C02r
