/-! Prototype: lock-order discipline ⇒ progress (no deadlock), writer-preferring RW locks. -/
namespace AnyDB.Locks

inductive Mode | R | W
deriving DecidableEq, Repr

inductive Act
  | acq (l : Nat) (m : Mode)
  | rel (l : Nat)
deriving DecidableEq, Repr

structure T where
  held : List (Nat × Mode)
  prog : List Act
deriving Repr

def T.holds (t : T) (l : Nat) : Prop := ∃ m, (l, m) ∈ t.held
def T.holdsW (t : T) (l : Nat) : Prop := (l, Mode.W) ∈ t.held

/-- discipline: every acquisition is above everything currently held; releases are of held locks;
    a finished thread holds nothing -/
def OK : List (Nat × Mode) → List Act → Prop
  | held, [] => held = []
  | held, Act.acq l m :: rest => (∀ h ∈ held, h.1 < l) ∧ OK ((l, m) :: held) rest
  | held, Act.rel l :: rest => (∃ m, (l, m) ∈ held) ∧ OK (held.filter (·.1 != l)) rest

abbrev Sys := List T

/-- thread `i`'s next action is enabled in `s` (writer-preferring: a reader also waits for any
    other thread that is about to take the same lock for writing) -/
def enabled (s : Sys) (i : Nat) : Prop :=
  match s[i]? with
  | none => False
  | some t =>
    match t.prog with
    | [] => False
    | Act.rel _ :: _ => True
    | Act.acq l Mode.W :: _ => ∀ (j : Nat) (u : T), s[j]? = some u → ¬ u.holds l
    | Act.acq l Mode.R :: _ =>
        (∀ (j : Nat) (u : T), s[j]? = some u → ¬ u.holdsW l) ∧
        (∀ (j : Nat) (u : T), j ≠ i → s[j]? = some u → ∀ rest, u.prog ≠ Act.acq l Mode.W :: rest)

def unfinished (s : Sys) (i : Nat) : Prop := ∃ t : T, s[i]? = some t ∧ t.prog ≠ []

def WF (s : Sys) : Prop := ∀ (i : Nat) (t : T), s[i]? = some t → OK t.held t.prog

/-- requested lock of a thread whose next action is an acquisition -/
def req (t : T) : Option Nat :=
  match t.prog with
  | Act.acq l _ :: _ => some l
  | _ => none

theorem holder_unfinished {t : T} (h : OK t.held t.prog) {l : Nat} (hl : t.holds l) : t.prog ≠ [] := by
  intro e
  rw [e] at h
  simp [OK] at h
  obtain ⟨m, hm⟩ := hl
  rw [h] at hm; simp at hm

theorem progress (s : Sys) (hwf : WF s) (hu : ∃ i, unfinished s i) : ∃ i, enabled s i := by
  -- Suppose nobody is enabled.
  apply Classical.byContradiction
  intro hne
  have hne : ∀ i : Nat, ¬ enabled s i := fun i hi => hne ⟨i, hi⟩
  -- every unfinished thread requests some lock
  have hreq : ∀ (i : Nat) (t : T), s[i]? = some t → t.prog ≠ [] → ∃ l, req t = some l := by
    intro i t hi hp
    have := hne i
    unfold enabled at this
    rw [hi] at this
    simp only at this
    cases hprog : t.prog with
    | nil => exact absurd hprog hp
    | cons a rest =>
      cases a with
      | rel l => rw [hprog] at this; simp at this
      | acq l m => exact ⟨l, by simp [req, hprog]⟩
  -- pick an unfinished thread with maximal requested lock: do it by strong induction on a bound
  -- the set of requested locks is finite; take the maximum over the list
  have hmax : ∃ (i : Nat) (t : T) (l : Nat), s[i]? = some t ∧ t.prog ≠ [] ∧ req t = some l ∧
      ∀ (j : Nat) (u : T) (l' : Nat), s[j]? = some u → u.prog ≠ [] → req u = some l' → l' ≤ l := by
    obtain ⟨i0, t0, hi0, hp0⟩ := hu
    obtain ⟨l0, hl0⟩ := hreq i0 t0 hi0 hp0
    -- maximise by induction on the number of candidates above: use well-founded argument on
    -- (bound - l) where bound is the max over the finite list
    let bound := (s.filterMap req).foldl max 0
    have hb : ∀ (j : Nat) (u : T) (l' : Nat), s[j]? = some u → req u = some l' → l' ≤ bound := by
      intro j u l' hj hr
      have hm : l' ∈ s.filterMap req := by
        rw [List.mem_filterMap]
        exact ⟨u, List.mem_of_getElem? hj, hr⟩
      have key : ∀ (xs : List Nat) (a : Nat), (∀ x ∈ xs, x ≤ xs.foldl max a) ∧ a ≤ xs.foldl max a := by
        intro xs
        induction xs with
        | nil => intro a; simp
        | cons y ys ih =>
          intro a
          simp only [List.foldl_cons]
          have ⟨h1, h2⟩ := ih (max a y)
          refine ⟨?_, by omega⟩
          intro x hx
          simp at hx
          rcases hx with rfl | hx
          · omega
          · exact h1 x hx
      exact (key _ 0).1 l' hm
    -- now a decreasing search from l0
    have search : ∀ (k l i : Nat) (t : T), bound - l = k → s[i]? = some t → t.prog ≠ [] → req t = some l →
        ∃ (i : Nat) (t : T) (l : Nat), s[i]? = some t ∧ t.prog ≠ [] ∧ req t = some l ∧
          ∀ (j : Nat) (u : T) (l' : Nat), s[j]? = some u → u.prog ≠ [] → req u = some l' → l' ≤ l := by
      intro k
      induction k using Nat.strongRecOn with
      | _ k ih =>
        intro l i t hk hi hp hr
        by_cases hex : ∃ (j : Nat) (u : T) (l' : Nat), s[j]? = some u ∧ u.prog ≠ [] ∧ req u = some l' ∧ l < l'
        · obtain ⟨j, u, l', hj, hup, hur, hlt⟩ := hex
          have := hb j u l' hj hur
          exact ih (bound - l') (by omega) l' j u rfl hj hup hur
        · refine ⟨i, t, l, hi, hp, hr, ?_⟩
          intro j u l' hj hup hur
          apply Classical.byContradiction
          intro hgt
          exact hex ⟨j, u, l', hj, hup, hur, by omega⟩
    exact search _ l0 i0 t0 rfl hi0 hp0 hl0
  obtain ⟨i, t, l, hi, hp, hr, hmaxl⟩ := hmax
  -- a holder of `l` other than ourselves yields a contradiction with maximality
  have holder_contra : ∀ (j : Nat) (u : T), s[j]? = some u → u.holds l → False := by
    intro j u hj hh
    have hok := hwf j u hj
    have hup := holder_unfinished hok hh
    obtain ⟨l', hl'⟩ := hreq j u hj hup
    have hle := hmaxl j u l' hj hup hl'
    -- by OK, everything u holds is below l'
    cases hprog : u.prog with
    | nil => exact hup hprog
    | cons a rest =>
      cases a with
      | rel x => simp [req, hprog] at hl'
      | acq x m =>
        simp [req, hprog] at hl'
        subst hl'
        rw [hprog] at hok
        simp only [OK] at hok
        obtain ⟨m', hm'⟩ := hh
        have := hok.1 (l, m') hm'
        simp at this
        omega
  -- why is thread i disabled?
  have hdis := hne i
  unfold enabled at hdis
  rw [hi] at hdis
  simp only at hdis
  cases hprog : t.prog with
  | nil => exact hp hprog
  | cons a rest =>
    cases a with
    | rel x => simp [req, hprog] at hr
    | acq x m =>
      simp [req, hprog] at hr
      subst hr
      rw [hprog] at hdis
      cases m with
      | W =>
        simp only at hdis
        apply hdis
        intro j u hj hh
        exact holder_contra j u hj hh
      | R =>
        simp only at hdis
        apply hdis
        refine ⟨?_, ?_⟩
        · intro j u hj hh
          exact holder_contra j u hj ⟨Mode.W, hh⟩
        · intro j u hji hj rest' hq
          -- u is a queued writer on x; u is disabled, so someone holds x
          have hdu := hne j
          unfold enabled at hdu
          rw [hj] at hdu
          simp only [hq] at hdu
          apply hdu
          intro k v hk hh
          exact holder_contra k v hk hh

end AnyDB.Locks
