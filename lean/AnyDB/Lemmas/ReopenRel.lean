import AnyDB.Lemmas.RefPad
namespace AnyDB.C01r
open AnyDB Conc Db C02r Mem

theorem join_pad (r : Ref) (k i : Nat) : (r ++ nones k)[i]?.join = r[i]?.join := by
  by_cases h : i < r.length
  · rw [List.getElem?_append_left h]
  · rw [List.getElem?_append_right (by omega), List.getElem?_eq_none (l := r) (by omega)]
    unfold nones
    rw [List.getElem?_replicate]
    split <;> rfl

theorem ext_join (l1 l2 : Ref) (hl : l1.length = l2.length) (h : ∀ i : Nat, l1[i]?.join = l2[i]?.join) : l1 = l2 := by
  apply List.ext_getElem?
  intro i
  by_cases hi : i < l1.length
  · have h1 : l1[i]? = some l1[i] := List.getElem?_eq_getElem hi
    have h2 : l2[i]? = some l2[i] := List.getElem?_eq_getElem (by omega)
    have := h i
    rw [h1, h2] at this ⊢
    simp only [Option.join_some] at this
    rw [this]
  · rw [List.getElem?_eq_none (by omega), List.getElem?_eq_none (by omega)]

/-- what the reopened database shows is what it showed, up to trailing free slots -/
theorem rel_reopen (s : Db) (ρ : Ref) (n : Nat) (hrel : Rel s ρ) (hf : FInv s) (hr : RInv s) (ha : Al s)
    (hw : ∀ idx sl, s.slot? idx = some sl → sl.st ≠ .needsWrite) (hok : (s.reopen n).2 = .ok) :
    ∃ ρ', Rel (s.reopen n).1 ρ' ∧ EqUpTo ρ ρ' := by
  have hview := reopen_view s n hf hr ha hw hok
  obtain ⟨_, _, hlen, _⟩ := reopen_slot s n hf hr ha hw hok 0
  -- beyond the metadata file nothing is shown
  have hbeyond : ∀ i, s.rfile.length ≤ i → ρ[i]?.join = none := by
    intro i hi
    have hv := hrel.2 i
    have hs : s.slot? i = none := by
      cases hsl : s.slot? i with
      | none => rfl
      | some sl => have := (hf.live i sl hsl).1; omega
    unfold viewAt at hv
    rw [hs] at hv
    cases hj : ρ[i]?.join with
    | none => rfl
    | some e => rw [hj] at hv; cases hv
  have hget : ∀ i : Nat, ((List.range s.rfile.length).map (fun i => ρ[i]?.join))[i]?.join = ρ[i]?.join := by
    intro i
    by_cases hi : i < s.rfile.length
    · rw [List.getElem?_map, List.getElem?_range hi]; rfl
    · rw [List.getElem?_eq_none (by simp; omega), hbeyond i (by omega)]; rfl
  refine ⟨(List.range s.rfile.length).map (fun i => ρ[i]?.join), ⟨by rw [hlen]; simp, fun idx => ?_⟩, ?_⟩
  · rw [hview idx, hrel.2 idx, hget idx]
  · refine ⟨s.rfile.length - ρ.length, ρ.length - s.rfile.length, ext_join _ _ (by simp [nones]; omega) (fun i => ?_)⟩
    rw [join_pad, join_pad, hget i]

end AnyDB.C01r
