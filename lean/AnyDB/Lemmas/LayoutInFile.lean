import AnyDB.Lemmas.LayoutAlign
import AnyDB.Lemmas.MemLaws
namespace AnyDB.C02r
open AnyDB Conc Db Mem

/-! # every extent lies inside the data file, for every history -/

def InL (l : List E) (n : Nat) : Prop := ∀ e ∈ l, e.1 + e.2 ≤ n

/-- the cached file length is the size of the mapping, and every extent ends inside it -/
def InF (s : Db) : Prop := s.fileLen = s.mem.size ∧ InL (claimedDb s) s.mem.size

theorem inL_mono (l : List E) (n m : Nat) (h : InL l n) (hm : n ≤ m) : InL l m := fun e he => Nat.le_trans (h e he) hm

theorem inf_parts (s : Db) (n : Nat) : InL (claimedDb s) n ↔ InL (exts s.slots) n ∧ InL s.reserved n ∧ InL s.holes n ∧ InL s.pending n := by
  unfold InL
  constructor
  · intro h
    exact ⟨fun e he => h e ((mem_claimed s e).mpr (Or.inl he)), fun e he => h e ((mem_claimed s e).mpr (Or.inr (Or.inl he))),
      fun e he => h e ((mem_claimed s e).mpr (Or.inr (Or.inr (Or.inl he)))), fun e he => h e ((mem_claimed s e).mpr (Or.inr (Or.inr (Or.inr he))))⟩
  · rintro ⟨h1, h2, h3, h4⟩ e he
    rcases (mem_claimed s e).mp he with h | h | h | h
    · exact h1 e h
    · exact h2 e h
    · exact h3 e h
    · exact h4 e h

theorem inf_init : InF Db.init := ⟨rfl, fun e he => by simp [claimedDb, exts, Db.init] at he⟩

/-- same layout view, same file length and mapping size -/
theorem Same.inf {s s' : Db} (h : Same s s') (h1 : s'.fileLen = s.fileLen) (h2 : s'.mem.size = s.mem.size) (hi : InF s) : InF s' := by
  unfold InF; rw [same_claimed s s' h, h1, h2]; exact hi

/-- same layout view, the file grew consistently -/
theorem Same.inf_grow {s s' : Db} (h : Same s s') (h1 : s'.fileLen = s'.mem.size) (h2 : s.mem.size ≤ s'.mem.size) (hi : InF s) : InF s' := by
  unfold InF; rw [same_claimed s s' h]; exact ⟨h1, inL_mono _ _ _ hi.2 h2⟩

theorem le_ceilPage2 (n : Nat) : n ≤ ceilPage n := by
  unfold ceilPage; simp only [Gen.PAGE_SIZE]; omega

/-- `set_min_len`: the file is at least as long as asked, the cache agrees with the mapping -/
theorem setMinLen_inf (s : Db) (n : Nat) (hi : s.fileLen = s.mem.size) :
    (s.setMinLen n).fileLen = (s.setMinLen n).mem.size ∧ s.mem.size ≤ (s.setMinLen n).mem.size ∧ n ≤ (s.setMinLen n).mem.size := by
  unfold Db.setMinLen
  simp only []
  have h1 := le_ceilPage2 n
  split
  · exact ⟨hi, Nat.le_refl _, by omega⟩
  · rename_i hlt
    have h2 := le_ceilPage2 (max (max (ceilPage n) (s.fileLen * Gen.GROW_FACTOR)) Gen.GROW_FLOOR)
    simp only [size_grow]
    refine ⟨by omega, by omega, by omega⟩

theorem inf_setMinLen (s : Db) (n : Nat) (hi : InF s) : InF (s.setMinLen n) := by
  obtain ⟨a, b, _⟩ := setMinLen_inf s n hi.1
  exact (same_setMinLen s n).inf_grow a b hi

/-! ## list-level lemmas -/

theorem inL_alErase (l : List E) (k n : Nat) (h : InL l n) : InL (alErase l k) n := fun e he => h e (List.mem_filter.mp he).1

theorem inL_sortedInsert (l : List E) (k v n : Nat) (h : InL l n) (hk : k + v ≤ n) : InL (sortedInsert l k v) n := by
  intro e he
  rcases mem_sortedInsert l k v e he with h1 | h1
  · rw [h1]; exact hk
  · exact h e h1

theorem inL_append (a b : List E) (n : Nat) (ha : InL a n) (hb : InL b n) : InL (a ++ b) n := by
  intro e he
  rcases List.mem_append.mp he with h | h
  · exact ha e h
  · exact hb e h

theorem inL_single (e : E) (n : Nat) (h : e.1 + e.2 ≤ n) : InL [e] n := by
  intro x hx; simp at hx; rw [hx]; exact h

theorem inL_removeOrCompress (holes hs : List E) (start by_ n : Nat) (h : InL holes n)
    (hrc : removeOrCompress holes start by_ = .ok hs) : InL hs n := by
  unfold removeOrCompress at hrc
  cases hg : alGet holes start with
  | none => simp [hg] at hrc; rw [← hrc]; exact h
  | some size =>
    simp only [hg] at hrc
    have hm := h _ (mem_of_alGet holes start size hg)
    simp only at hm
    split at hrc
    · cases hrc; exact inL_alErase _ _ _ h
    · split at hrc
      · cases hrc
        refine inL_append _ _ _ (inL_alErase _ _ _ h) (inL_single _ _ ?_)
        simp only; omega
      · cases hrc

theorem inL_promoteOne (hs : List E) (p : E) (n : Nat) (h : InL hs n) (hp : p.1 + p.2 ≤ n) : InL (promoteOne hs p) n := by
  rw [promoteOne_eq]
  have hl : InL (joinLeft hs p).1 n ∧ (joinLeft hs p).2.1 + (joinLeft hs p).2.2 ≤ n := by
    unfold joinLeft
    cases hph : prevHole hs p.1 with
    | none => exact ⟨h, hp⟩
    | some x =>
      simp only
      have hx := h x (mem_of_prevHole hs p.1 x hph)
      split
      · rename_i hadj
        refine ⟨inL_alErase _ _ _ h, ?_⟩
        simp only; omega
      · exact ⟨h, hp⟩
  generalize joinLeft hs p = r1 at hl
  obtain ⟨hl1, hl2⟩ := hl
  unfold joinRight
  cases hg : alGet r1.1 (r1.2.1 + r1.2.2) with
  | none => exact inL_append _ _ _ hl1 (inL_single _ _ hl2)
  | some a =>
    simp only
    have hm := hl1 _ (mem_of_alGet r1.1 _ a hg)
    simp only at hm
    refine inL_append _ _ _ (inL_alErase _ _ _ hl1) (inL_single _ _ ?_)
    simp only; omega

theorem inL_promote (hs pending : List E) (n : Nat) (h : InL hs n) (hp : InL pending n) : InL (promote hs pending) n := by
  unfold promote
  induction pending generalizing hs with
  | nil => exact h
  | cons p t ih =>
    simp only [List.foldl_cons]
    exact ih _ (inL_promoteOne hs p n h (hp p (List.mem_cons_self ..))) (fun e he => hp e (List.mem_cons_of_mem _ he))

theorem inE_slot (s : Db) (hi : InF s) (idx : Nat) (sl : Slot) (hs : s.slot? idx = some sl) : sl.md.start + sl.md.reserved ≤ s.mem.size :=
  hi.2 _ ((mem_claimed s _).mpr (Or.inl ((mem_exts s.slots _).mpr ⟨idx, sl, (slot_iff s idx sl).mp hs, rfl⟩)))

theorem inL_exts_set (slots : List (Option Slot)) (idx n : Nat) (o : Option Slot) (h : InL (exts slots) n)
    (ho : ∀ sl, o = some sl → sl.md.start + sl.md.reserved ≤ n) : InL (exts (slots.set idx o)) n := by
  intro e he
  obtain ⟨j, slj, hj, rfl⟩ := (mem_exts _ e).mp he
  by_cases hji : j = idx
  · subst hji
    rw [List.getElem?_set] at hj
    split at hj
    · split at hj
      · simp at hj; exact ho slj hj
      · cases hj
    · exact absurd rfl ‹¬(j = j)›
  · rw [List.getElem?_set_ne (Ne.symm hji)] at hj
    exact h _ ((mem_exts slots _).mpr ⟨j, slj, hj, rfl⟩)

end AnyDB.C02r
