import AnyDB.Model.Rawdb
import AnyDB.Lemmas.Alloc

/-!
Bridge between the allocator lemmas (stated over `Alloc.Ext`) and the hole lists of the rawdb
model (`List (Nat × Nat)` = `(start, size)` in insertion order), plus the lemmas about
`removeOrCompress` (hole split) and `bestFit` (smallest adequate hole).
-/
namespace AnyDB
open Alloc

def toExt (p : Nat × Nat) : Ext := ⟨p.1, p.2⟩
def toExts (l : List (Nat × Nat)) : List Ext := l.map toExt

@[simp] theorem toExt_start (p : Nat × Nat) : (toExt p).start = p.1 := rfl
@[simp] theorem toExt_size (p : Nat × Nat) : (toExt p).size = p.2 := rfl
@[simp] theorem toExt_stop (p : Nat × Nat) : (toExt p).stop = p.1 + p.2 := rfl

theorem toExt_inj {a b : Nat × Nat} (h : toExt a = toExt b) : a = b := by
  cases a; cases b; simp [toExt] at h; simp [h]

theorem mem_toExts {l : List (Nat × Nat)} {e : Ext} : e ∈ toExts l ↔ (e.start, e.size) ∈ l := by
  unfold toExts
  constructor
  · intro h
    obtain ⟨p, hp, rfl⟩ := List.mem_map.mp h
    simpa [toExt] using hp
  · intro h
    exact List.mem_map.mpr ⟨(e.start, e.size), h, rfl⟩

theorem prevHole_map (hs : List (Nat × Nat)) (s : Nat) :
    (prevHole hs s).map toExt = Alloc.prevHole (toExts hs) s := by
  induction hs with
  | nil => rfl
  | cons h t ih =>
    simp only [toExts, List.map_cons, Alloc.prevHole]
    simp only [toExts] at ih
    rw [← ih]
    simp only [prevHole]
    cases hp : prevHole t s with
    | none =>
      simp only [Option.map_none]
      by_cases hc : h.1 < s <;> simp [hc, toExt]
    | some a =>
      simp only [Option.map_some]
      by_cases hc : h.1 < s ∧ a.1 < h.1 <;> simp [hc, toExt]

theorem alErase_map (hs : List (Nat × Nat)) (s : Nat) :
    toExts (alErase hs s) = eraseHole (toExts hs) s := by
  unfold toExts alErase eraseHole
  induction hs with
  | nil => rfl
  | cons h t ih =>
    simp only [List.filter_cons, List.map_cons, toExt_start]
    split <;> simp_all

theorem alErase_map' (hs : List (Nat × Nat)) (s : Nat) :
    List.map toExt (alErase hs s) = eraseHole (List.map toExt hs) s := alErase_map hs s

theorem alGet_map (hs : List (Nat × Nat)) (s : Nat) :
    alGet hs s = (findHole (toExts hs) s).map (·.size) := by
  unfold alGet findHole toExts
  induction hs with
  | nil => rfl
  | cons h t ih =>
    simp only [List.find?_cons, List.map_cons, toExt_start]
    split <;> simp_all [toExt]

theorem promoteOne_map (hs : List (Nat × Nat)) (p : Nat × Nat) :
    toExts (promoteOne hs p) = Alloc.promoteOne (toExts hs) (toExt p) := by
  unfold promoteOne Alloc.promoteOne
  simp only [toExt_start, toExt_size]
  rw [← prevHole_map]
  cases hprev : prevHole hs p.1 with
  | none =>
    simp only [Option.map_none]
    rw [alGet_map]
    cases hf : findHole (toExts hs) (p.1 + p.2) with
    | none => simp [toExts, toExt]
    | some a => simp [toExts, toExt, alErase_map']
  | some h =>
    simp only [Option.map_some, toExt_start, toExt_size]
    by_cases hadj : h.1 + h.2 = p.1
    · simp only [hadj, if_true]
      rw [alGet_map, alErase_map]
      cases hf : findHole (eraseHole (toExts hs) h.1) (h.1 + (p.2 + h.2)) with
      | none => simp [toExts, toExt, alErase_map']
      | some a => simp [toExts, toExt, alErase_map']
    · simp only [hadj, if_false]
      rw [alGet_map]
      cases hf : findHole (toExts hs) (p.1 + p.2) with
      | none => simp [toExts, toExt]
      | some a => simp [toExts, toExt, alErase_map']

theorem promote_map (pending hs : List (Nat × Nat)) :
    toExts (promote hs pending) = Alloc.promote (toExts hs) (toExts pending) := by
  induction pending generalizing hs with
  | nil => rfl
  | cons p t ih =>
    show toExts (promote (promoteOne hs p) t) = Alloc.promote (Alloc.promoteOne (toExts hs) (toExt p)) (toExts t)
    rw [← promoteOne_map]; exact ih _

/-! ### hole invariants on pair lists -/

/-- the invariant of the free list: positive sizes, pairwise disjoint, no two adjacent -/
def HolesOK (hs : List (Nat × Nat)) : Prop := HInv (toExts hs)

/-- byte `x` lies in some extent of `l` -/
def covers (l : List (Nat × Nat)) (x : Nat) : Prop := ∃ e ∈ l, e.1 ≤ x ∧ x < e.1 + e.2

def pdisj (a b : Nat × Nat) : Prop := a.1 + a.2 ≤ b.1 ∨ b.1 + b.2 ≤ a.1

theorem covers_iff (l : List (Nat × Nat)) (x : Nat) : covers l x ↔ cov (toExts l) x := by
  unfold covers cov toExts
  constructor
  · rintro ⟨e, he, h⟩; exact ⟨toExt e, List.mem_map.mpr ⟨e, he, rfl⟩, by simpa [inExt] using h⟩
  · rintro ⟨e, he, h⟩
    obtain ⟨p, hp, rfl⟩ := List.mem_map.mp he
    exact ⟨p, hp, by simpa [inExt] using h⟩

theorem holesOK_iff (hs : List (Nat × Nat)) :
    HolesOK hs ↔ (∀ a ∈ hs, 0 < a.2) ∧ (∀ a ∈ hs, ∀ b ∈ hs, a = b ∨ pdisj a b) ∧
      (∀ a ∈ hs, ∀ b ∈ hs, a.1 + a.2 ≠ b.1) := by
  unfold HolesOK toExts
  constructor
  · rintro ⟨hp, hd, hm⟩
    refine ⟨fun a ha => hp (toExt a) (List.mem_map.mpr ⟨a, ha, rfl⟩), fun a ha b hb => ?_, fun a ha b hb => ?_⟩
    · rcases hd (toExt a) (List.mem_map.mpr ⟨a, ha, rfl⟩) (toExt b) (List.mem_map.mpr ⟨b, hb, rfl⟩) with e | d
      · left; exact toExt_inj e
      · right; simpa [disj, pdisj] using d
    · simpa using hm (toExt a) (List.mem_map.mpr ⟨a, ha, rfl⟩) (toExt b) (List.mem_map.mpr ⟨b, hb, rfl⟩)
  · rintro ⟨hp, hd, hm⟩
    refine ⟨fun a ha => ?_, fun a ha b hb => ?_, fun a ha b hb => ?_⟩
    · obtain ⟨p, h, rfl⟩ := List.mem_map.mp ha; exact hp p h
    · obtain ⟨p, h, rfl⟩ := List.mem_map.mp ha
      obtain ⟨q, h', rfl⟩ := List.mem_map.mp hb
      rcases hd p h q h' with e | d
      · left; rw [e]
      · right; simpa [disj, pdisj] using d
    · obtain ⟨p, h, rfl⟩ := List.mem_map.mp ha
      obtain ⟨q, h', rfl⟩ := List.mem_map.mp hb
      simpa using hm p h q h'

/-! ### `removeOrCompress` (hole split / removal) -/

theorem alGet_some {hs : List (Nat × Nat)} {s sz : Nat} (h : alGet hs s = some sz) :
    ∃ e ∈ hs, e.1 = s ∧ e.2 = sz := by
  unfold alGet at h
  cases hf : hs.find? (·.1 == s) with
  | none => simp [hf] at h
  | some e =>
    simp [hf] at h
    exact ⟨e, List.mem_of_find?_eq_some hf, by simpa using List.find?_some hf, h⟩

theorem mem_alErase {hs : List (Nat × Nat)} {s : Nat} {x : Nat × Nat} :
    x ∈ alErase hs s ↔ x ∈ hs ∧ x.1 ≠ s := by
  simp [alErase]

/-- Taking `by_` bytes from the front of the hole at `start`: the result is again a well-formed
    free list, it covers exactly the old free bytes minus `[start, start+by_)`, and anything
    disjoint from the old holes stays disjoint from the new ones. -/
theorem removeOrCompress_ok {hs hs' : List (Nat × Nat)} {start by_ sz : Nat}
    (hI : HolesOK hs) (hg : alGet hs start = some sz) (hb : 0 < by_)
    (h : removeOrCompress hs start by_ = .ok hs') :
    by_ ≤ sz ∧ HolesOK hs' ∧
    (∀ x, covers hs' x ↔ covers hs x ∧ ¬ (start ≤ x ∧ x < start + by_)) ∧
    (∀ q : Nat × Nat, (∀ a ∈ hs, pdisj a q) → ∀ a ∈ hs', pdisj a q) := by
  obtain ⟨e, hem, he1, he2⟩ := alGet_some hg
  rw [holesOK_iff] at hI
  obtain ⟨hpos, hdj, hmg⟩ := hI
  have huniq : ∀ a ∈ hs, a.1 = start → a = e := by
    intro a ha h1
    rcases hdj a ha e hem with r | d
    · exact r
    · have := hpos a ha; have := hpos e hem; simp [pdisj] at d; omega
  unfold removeOrCompress at h
  simp only [hg] at h
  by_cases h1 : sz = by_
  · simp [h1] at h; subst h
    refine ⟨by omega, ?_, ?_, ?_⟩
    · rw [holesOK_iff]
      refine ⟨fun a ha => hpos a (mem_alErase.mp ha).1, fun a ha b hb => hdj a (mem_alErase.mp ha).1 b (mem_alErase.mp hb).1,
        fun a ha b hb => hmg a (mem_alErase.mp ha).1 b (mem_alErase.mp hb).1⟩
    · intro x
      constructor
      · rintro ⟨a, ha, hx⟩
        have ⟨ham, hne⟩ := mem_alErase.mp ha
        refine ⟨⟨a, ham, hx⟩, ?_⟩
        rcases hdj a ham e hem with r | d
        · subst r; exact absurd he1 hne
        · simp [pdisj] at d; omega
      · rintro ⟨⟨a, ha, hx⟩, hnx⟩
        refine ⟨a, mem_alErase.mpr ⟨ha, ?_⟩, hx⟩
        intro h1'
        have := huniq a ha h1'; subst this; omega
    · intro q hq a ha; exact hq a (mem_alErase.mp ha).1
  · by_cases h2 : sz > by_
    · simp [h1, h2] at h; subst h
      refine ⟨by omega, ?_, ?_, ?_⟩
      · rw [holesOK_iff]
        have hmem : ∀ a, a ∈ alErase hs start ++ [(start + by_, sz - by_)] ↔
            (a ∈ hs ∧ a.1 ≠ start) ∨ a = (start + by_, sz - by_) := by
          intro a; simp [mem_alErase]
        refine ⟨?_, ?_, ?_⟩
        · intro a ha
          rcases (hmem a).mp ha with ⟨h, _⟩ | rfl
          · exact hpos a h
          · simp; omega
        · intro a ha b hb
          rcases (hmem a).mp ha with ⟨h, hn⟩ | rfl <;> rcases (hmem b).mp hb with ⟨h', hn'⟩ | rfl
          · exact hdj a h b h'
          · right
            rcases hdj a h e hem with r | d
            · subst r; exact absurd he1 hn
            · have := hpos a h; simp [pdisj] at d ⊢; omega
          · right
            rcases hdj b h' e hem with r | d
            · subst r; exact absurd he1 hn'
            · have := hpos b h'; simp [pdisj] at d ⊢; omega
          · left; rfl
        · intro a ha b hb
          rcases (hmem a).mp ha with ⟨h, hn⟩ | rfl <;> rcases (hmem b).mp hb with ⟨h', hn'⟩ | rfl
          · exact hmg a h b h'
          · -- a.stop ≠ start + by_ : a is disjoint from e and e covers start+by_
            rcases hdj a h e hem with r | d
            · subst r; exact absurd he1 hn
            · have := hpos a h; simp [pdisj] at d; simp; omega
          · have := hmg e hem b h'; simp; omega
          · simp; omega
      · intro x
        constructor
        · rintro ⟨a, ha, hx⟩
          rcases (by simpa [mem_alErase] using ha : (a ∈ hs ∧ a.1 ≠ start) ∨ a = (start + by_, sz - by_)) with ⟨h, hn⟩ | rfl
          · refine ⟨⟨a, h, hx⟩, ?_⟩
            rcases hdj a h e hem with r | d
            · subst r; exact absurd he1 hn
            · simp [pdisj] at d; omega
          · simp at hx
            exact ⟨⟨e, hem, by omega⟩, by omega⟩
        · rintro ⟨⟨a, ha, hx⟩, hnx⟩
          by_cases hae : a.1 = start
          · have := huniq a ha hae; subst this
            refine ⟨(start + by_, sz - by_), by simp, ?_⟩
            simp; omega
          · exact ⟨a, by simp [mem_alErase]; exact Or.inl ⟨ha, hae⟩, hx⟩
      · intro q hq a ha
        rcases (by simpa [mem_alErase] using ha : (a ∈ hs ∧ a.1 ≠ start) ∨ a = (start + by_, sz - by_)) with ⟨h, _⟩ | rfl
        · exact hq a h
        · have := hq e hem; simp [pdisj] at this ⊢; omega
    · simp [h1, h2] at h

/-! ### `bestFit` -/

theorem bestFit_fold_spec (hs : List (Nat × Nat)) (need : Nat) (acc : Option (Nat × Nat))
    (hacc : ∀ b, acc = some b → need ≤ b.2) :
    let r := hs.foldl (bestFitStep need) acc
    (∀ b, r = some b → need ≤ b.2 ∧ (acc = some b ∨ b ∈ hs) ∧ (∀ h ∈ hs, need ≤ h.2 → b.2 ≤ h.2) ∧
        (∀ a, acc = some a → b.2 ≤ a.2)) ∧
    (r = none → acc = none ∧ ∀ h ∈ hs, h.2 < need) := by
  induction hs generalizing acc with
  | nil =>
    simp only [List.foldl_nil]
    refine ⟨fun b hb => ⟨hacc b hb, Or.inl hb, by simp, fun a ha => by rw [hb] at ha; cases ha; omega⟩, fun h => ⟨h, by simp⟩⟩
  | cons x t ih =>
    simp only [List.foldl_cons]
    by_cases hx : x.2 < need
    · simp only [bestFitStep, hx, if_true]
      have := ih acc hacc
      refine ⟨fun b hb => ?_, fun hn => ?_⟩
      · obtain ⟨h1, h2, h3, h4⟩ := this.1 b hb
        refine ⟨h1, ?_, ?_, h4⟩
        · rcases h2 with h | h
          · exact Or.inl h
          · exact Or.inr (by simp [h])
        · intro h hm hn
          simp at hm
          rcases hm with rfl | hm
          · omega
          · exact h3 h hm hn
      · obtain ⟨h1, h2⟩ := this.2 hn
        exact ⟨h1, by intro h hm; simp at hm; rcases hm with rfl | hm; exact hx; exact h2 h hm⟩
    · simp only [bestFitStep, hx, if_false]
      cases acc with
      | none =>
        have := ih (some x) (by intro b hb; cases hb; omega)
        refine ⟨fun b hb => ?_, fun hn => ?_⟩
        · obtain ⟨h1, h2, h3, h4⟩ := this.1 b hb
          refine ⟨h1, ?_, ?_, by simp⟩
          · rcases h2 with h | h
            · cases h; exact Or.inr (by simp)
            · exact Or.inr (by simp [h])
          · intro h hm hn
            simp at hm
            rcases hm with rfl | hm
            · exact h4 _ rfl
            · exact h3 h hm hn
        · have := (this.2 hn).1; simp at this
      | some a =>
        by_cases hlt : x.2 < a.2
        · simp only [hlt, if_true]
          have := ih (some x) (by intro b hb; cases hb; omega)
          refine ⟨fun b hb => ?_, fun hn => ?_⟩
          · obtain ⟨h1, h2, h3, h4⟩ := this.1 b hb
            refine ⟨h1, ?_, ?_, ?_⟩
            · rcases h2 with h | h
              · cases h; exact Or.inr (by simp)
              · exact Or.inr (by simp [h])
            · intro h hm hn
              simp at hm
              rcases hm with rfl | hm
              · exact h4 _ rfl
              · exact h3 h hm hn
            · intro a' ha'; cases ha'; have := h4 x rfl; omega
          · have := (this.2 hn).1; simp at this
        · simp only [hlt, if_false]
          have := ih (some a) hacc
          refine ⟨fun b hb => ?_, fun hn => ?_⟩
          · obtain ⟨h1, h2, h3, h4⟩ := this.1 b hb
            refine ⟨h1, ?_, ?_, h4⟩
            · rcases h2 with h | h
              · exact Or.inl h
              · exact Or.inr (by simp [h])
            · intro h hm hn
              simp at hm
              rcases hm with rfl | hm
              · have := h4 a rfl; omega
              · exact h3 h hm hn
          · have := (this.2 hn).1; simp at this

/-- `find_smallest_adequate_hole`: the chosen hole exists, is large enough and no adequate hole
    is smaller -/
theorem bestFit_some {hs : List (Nat × Nat)} {need s : Nat} (h : bestFit hs need = some s) :
    ∃ b ∈ hs, b.1 = s ∧ need ≤ b.2 ∧ ∀ h ∈ hs, need ≤ h.2 → b.2 ≤ h.2 := by
  unfold bestFit at h
  have sp := bestFit_fold_spec hs need none (by simp)
  simp only at sp
  cases hr : hs.foldl (bestFitStep need) none with
  | none => simp [hr] at h
  | some b =>
    simp [hr] at h
    obtain ⟨h1, h2, h3, _⟩ := sp.1 b hr
    rcases h2 with h2 | h2
    · simp at h2
    · exact ⟨b, h2, h, h1, h3⟩

/-- … and it answers `none` only when no hole is large enough (so the file grows only then) -/
theorem bestFit_none {hs : List (Nat × Nat)} {need : Nat} (h : bestFit hs need = none) :
    ∀ b ∈ hs, b.2 < need := by
  unfold bestFit at h
  have sp := bestFit_fold_spec hs need none (by simp)
  simp only at sp
  cases hr : hs.foldl (bestFitStep need) none with
  | none => exact (sp.2 hr).2
  | some b => simp [hr] at h

end AnyDB
