import AnyDB.Lemmas.RegionCreate
namespace AnyDB.Db
theorem writeFits_okN (s : Db) (idx : Nat) (sl : Slot) (d : List UInt8) (wo nl n : Nat) : (s.writeFits idx sl d wo nl).2 ≠ .okN n := by
  unfold writeFits; grind
theorem writeExtendLast_okN (s : Db) (idx : Nat) (sl : Slot) (d : List UInt8) (wo nl nr n : Nat) : (s.writeExtendLast idx sl d wo nl nr).2 ≠ .okN n := by
  unfold writeExtendLast; grind
theorem writeExpand_okN (s : Db) (idx : Nat) (sl : Slot) (d : List UInt8) (wo nl nr n : Nat) : (s.writeExpand idx sl d wo nl nr).2 ≠ .okN n := by
  unfold writeExpand; grind
theorem dataCopy_okN (s : Db) (a b c n : Nat) : s.dataCopy a b c ≠ .error (.okN n) := by
  unfold dataCopy; grind
theorem writeRelocate_okN (s : Db) (idx : Nat) (sl : Slot) (d : List UInt8) (wo nl nr cl ns n : Nat) : (s.writeRelocate idx sl d wo nl nr cl ns).2 ≠ .okN n := by
  have := dataCopy_okN s sl.md.start ns cl n
  unfold writeRelocate; grind
theorem writeGrow_okN (s : Db) (idx : Nat) (sl : Slot) (d : List UInt8) (wo nl cl n : Nat) : (s.writeGrow idx sl d wo nl cl).2 ≠ .okN n := by
  unfold writeGrow
  dsimp only
  split
  · simp
  · split
    · simp
    · split
      · apply writeExtendLast_okN
      · split
        · apply writeExpand_okN
        · split
          · simp
          · apply writeRelocate_okN
theorem writeWith_okN (s : Db) (idx : Nat) (d : List UInt8) (a : Option Nat) (t : Bool) (n : Nat) : (s.writeWith idx d a t).2 ≠ .okN n := by
  unfold writeWith
  split
  · simp
  · dsimp only
    split
    · simp
    · split
      · apply writeFits_okN
      · apply writeGrow_okN
end AnyDB.Db

namespace AnyDB.C01r
open AnyDB Conc Db C02r Mem

/-- the answers of the API: success, or one of its documented refusals (no panic, no internal error) -/
def Normal : Out → Prop
  | .ok => True
  | .okN _ => True
  | .err k => k = .writeOutOfBounds ∨ k = .truncateInvalid ∨ k = .regionAlreadyExists ∨ k = .regionNotFound ∨
      k = .regionStillReferenced ∨ k = .noSuchRegion ∨ k = .regionMetadataUnwritten
  | .panic _ => False

theorem refOn_none (r : Ref) (id : RegionId) (f) (h : refFind r id = none) : refOn r id f = r := by
  unfold refOn; rw [h]

theorem refOn_some (r : Ref) (id : RegionId) (f) (idx : Nat) (e : RegionId × List UInt8) (h : refFind r id = some idx)
    (he : r[idx]?.join = some e) : refOn r id f = r.set idx (f e) := by
  unfold refOn; rw [h]; simp only [he]

theorem set_self (r : Ref) (idx : Nat) (e : RegionId × List UInt8) (he : r[idx]?.join = some e) : r.set idx (some e) = r := by
  apply List.ext_getElem?
  intro j
  by_cases hj : j = idx
  · subst hj
    cases hr : r[j]? with
    | none => simp [hr] at he
    | some o =>
      have hl : j < r.length := by rw [List.getElem?_eq_some_iff] at hr; exact hr.1
      rw [List.getElem?_set_self hl]
      simp [hr] at he; rw [he]
  · rw [List.getElem?_set_ne (Ne.symm hj)]

/-- the three write requests share this step -/
theorem rel_write_step (s : Db) (r : Ref) (id : RegionId) (d : List UInt8) (at_ : Option Nat) (tr : Bool)
    (hrel : Rel s r) (hinv : RInv s)
    (hn : Normal (s.withRegion id (fun i => s.writeWith i d at_ tr)).2) :
    Rel (s.withRegion id (fun i => s.writeWith i d at_ tr)).1
      (refOn r id (refWriteE at_ tr d)) ∧
    RInv (s.withRegion id (fun i => s.writeWith i d at_ tr)).1 := by
  unfold Db.withRegion at hn ⊢
  have hfind := rel_findId s r hrel id
  cases hf : s.findId id with
  | none =>
    simp only
    rw [refOn_none _ _ _ (by rw [← hfind, hf])]
    exact ⟨hrel, hinv⟩
  | some idx =>
    simp only [hf] at hn ⊢
    obtain ⟨sl, hs, _⟩ := findId_slot s id idx hf
    obtain ⟨e, he, _, e2, _⟩ := rel_get s r idx sl hrel hs
    rw [refOn_some _ _ _ idx e (by rw [← hfind, hf]) he]
    cases ho : (s.writeWith idx d at_ tr).2 with
    | ok =>
      obtain ⟨hoob, e', he', hr, hi⟩ := rel_writeWith s r idx d at_ tr sl hrel hinv hs ho
      rw [he] at he'; cases he'
      unfold refWriteE
      rw [e2, hoob]
      exact ⟨hr, hi⟩
    | okN n => exact absurd ho (Db.writeWith_okN s idx d at_ tr n)
    | panic m => rw [ho] at hn; exact absurd hn (by simp [Normal])
    | err k =>
      rw [ho] at hn
      have hk : k = .writeOutOfBounds := by
        rw [Db.writeWith_some _ _ _ _ _ _ hs] at ho
        by_cases hc : Db.outOfBounds at_ sl.md.len = true
        · rw [if_pos hc] at ho; simp at ho; exact ho.symm
        · rw [if_neg hc] at ho
          exfalso
          split at ho
          · exact Db.writeFits_out _ _ _ _ _ _ _ ho
          · have := Db.writeGrow_out _ _ _ _ _ _ _ _ ho
            simp only [Normal] at hn
            rcases this with h | h | h | h | h <;> rw [h] at hn <;> simp at hn
      subst hk
      rw [Db.writeWith_oob_unchanged s idx d at_ tr ho]
      obtain ⟨a, ha, hgt⟩ := (Db.writeWith_oob_iff s idx sl d at_ tr hs).mp ho
      have : Db.outOfBounds at_ e.2.length = true := by rw [ha, e2]; simp [Db.outOfBounds, hgt]
      unfold refWriteE
      rw [this, if_pos rfl, set_self r idx e he]
      exact ⟨hrel, hinv⟩


theorem rename_out (s : Db) (idx : Nat) (nid : RegionId) (sl : Slot) (hs : s.slot? idx = some sl) :
    ((s.rename idx nid).2 = .err .regionAlreadyExists ∧ (s.findId nid).isSome = true ∧ (s.rename idx nid).1 = s) ∨
    ((s.findId nid).isSome = false ∧ ((s.rename idx nid).2 = .ok ∨ ∃ m, (s.rename idx nid).2 = .panic m)) := by
  unfold Db.rename
  simp only [hs]
  split
  · rename_i h; exact Or.inl ⟨rfl, h, rfl⟩
  · rename_i h
    right
    refine ⟨by simpa using h, ?_⟩
    split
    · exact Or.inr ⟨_, rfl⟩
    · exact Or.inl rfl

theorem rel_step (s : Db) (r : Ref) (op : Op) (hrel : Rel s r) (hinv : RInv s) (hno : ∀ n, op ≠ .reopen n)
    (hn : Normal (step s op).2) : Rel (step s op).1 (refStep r op) ∧ RInv (step s op).1 := by
  have hfind := fun id => rel_findId s r hrel id
  cases op with
  | create id =>
    simp only [step] at hn ⊢
    refine rel_create s r id hrel hinv (fun hp => ?_) (fun k hk => ?_)
    · cases ho : (s.create id).2 <;> rw [ho] at hn hp <;> simp [Normal, IsPanic] at hn hp
    · rw [hk] at hn
      -- the only error of create is the allocator's internal one
      have : k = .holeTooSmall := by
        unfold Db.create at hk
        split at hk
        · cases hk
        · simp only at hk
          split at hk
          · rename_i e he
            split at he
            · split at he
              · cases he
              · rename_i e' hrc
                cases he
                simp only [Out.err.injEq] at hk
                rw [← hk]
                exact Db.removeOrCompress_err hrc
            · cases he
          · split at hk <;> cases hk
      subst this
      simp [Normal] at hn
  | write id d =>
    simp only [step, refStep] at hn ⊢
    exact rel_write_step s r id d none false hrel hinv hn
  | writeAt id a d =>
    simp only [step, refStep] at hn ⊢
    exact rel_write_step s r id d (some a) false hrel hinv hn
  | truncateWrite id a d =>
    simp only [step, refStep] at hn ⊢
    exact rel_write_step s r id d (some a) true hrel hinv hn
  | truncate id n =>
    simp only [step, refStep, Db.withRegion] at hn ⊢
    cases hf : s.findId id with
    | none =>
      simp only
      rw [refOn_none _ _ _ (by rw [← hfind, hf])]
      exact ⟨hrel, hinv⟩
    | some idx =>
      simp only
      obtain ⟨sl, hs, _⟩ := findId_slot s id idx hf
      obtain ⟨e, he, _, hr, hi⟩ := rel_truncate s r idx n sl hrel hinv hs
      rw [refOn_some _ _ _ idx e (by rw [← hfind, hf]) he]
      exact ⟨hr, hi⟩
  | rename id n =>
    simp only [step, refStep, Db.withRegion] at hn ⊢
    rw [← hfind n]
    cases hf : s.findId id with
    | none =>
      simp only
      rw [refOn_none _ _ _ (by rw [← hfind, hf])]
      simp only [ite_self]
      exact ⟨hrel, hinv⟩
    | some idx =>
      simp only [hf] at hn ⊢
      obtain ⟨sl, hs, _⟩ := findId_slot s id idx hf
      rcases rename_out s idx n sl hs with ⟨_, h2, h3⟩ | ⟨h1, h2⟩
      · rw [h2, if_pos rfl, h3]; exact ⟨hrel, hinv⟩
      · rw [h1]
        simp only [Bool.false_eq_true, if_false]
        rcases h2 with h2 | ⟨m, h2⟩
        · obtain ⟨_, e, he, hr, hi⟩ := rel_rename s r idx n sl hrel hinv hs h2
          rw [refOn_some _ _ _ idx e (by rw [← hfind, hf]) he]
          exact ⟨hr, hi⟩
        · rw [h2] at hn; simp [Normal] at hn
  | remove id =>
    simp only [step, refStep, Db.removeId] at hn ⊢
    cases hf : s.findId id with
    | none =>
      simp only
      rw [refOn_none _ _ _ (by rw [← hfind, hf])]
      exact ⟨hrel, hinv⟩
    | some idx =>
      simp only
      obtain ⟨sl, hs, _⟩ := findId_slot s id idx hf
      obtain ⟨e, he, _⟩ := rel_get s r idx sl hrel hs
      rw [refOn_some _ _ _ idx e (by rw [← hfind, hf]) he]
      exact rel_remove s r idx sl hrel hinv hs
  | removeHeld id =>
    simp only [step, refStep, Db.removeId] at hn ⊢
    cases hf : s.findId id with
    | none => exact ⟨hrel, hinv⟩
    | some idx =>
      simp only
      obtain ⟨sl, hs, _⟩ := findId_slot s id idx hf
      have : s.remove idx true = (s, .err .regionStillReferenced) := by unfold Db.remove; simp only [hs]; rfl
      rw [this]; exact ⟨hrel, hinv⟩
  | retain ids =>
    simp only [step, refStep]
    exact rel_retain s r ids hrel hinv
  | flush =>
    simp only [step, refStep]
    exact rel_flush s r hrel hinv
  | regionFlush id =>
    simp only [step, refStep, Db.withRegion]
    cases hf : s.findId id with
    | none => exact ⟨hrel, hinv⟩
    | some idx => exact rel_quiet s _ r hrel hinv ((same_regionFlush s idx).linv hinv.lay) (quiet_regionFlush s idx)
  | compact =>
    simp only [step, refStep]
    exact rel_compact s r hrel hinv
  | reopen n => exact absurd rfl (hno n)
  | setMinLen n =>
    simp only [step, refStep]
    exact rel_quiet s _ r hrel hinv ((same_setMinLen s n).linv hinv.lay) (quiet_setMinLen s n hinv.bnd)
  | setMinRegions n =>
    simp only [step, refStep, Db.setMinRegions]
    obtain ⟨h1, h2⟩ := rel_quiet s _ r hrel hinv ((same_regionsSetMinSlots s n).linv hinv.lay) (quiet_regionsSetMinSlots s n)
    exact rel_quiet _ _ r h1 h2 ((same_setMinLen _ _).linv h2.lay) (quiet_setMinLen _ _ h2.bnd)

end AnyDB.C01r
