import AnyDB.Lemmas.LayoutInFileOps
namespace AnyDB.C02r
open AnyDB Conc Db Mem

theorem inL_regrow (s : Db) (n : Nat) (hi : InL (claimedDb s) n) (idx : Nat) (sl : Slot) (nr : Nat) (hn : sl.md.start + nr ≤ n) :
    InL (claimedDb (s.setSlot idx (some (metaSetReserved sl nr)))) n := by
  obtain ⟨a1, a2, a3, a4⟩ := (inf_parts s n).mp hi
  refine (inf_parts _ n).mpr ⟨?_, a2, a3, a4⟩
  refine inL_exts_set s.slots idx n _ a1 (fun x hx => ?_)
  cases hx
  have := extOf_metaSetReserved sl nr
  simp only [extOf, Prod.mk.injEq] at this
  rw [this.1, this.2]; exact hn

/-- the common tail of the write paths: the payload write and the metadata update keep the extents -/
theorem inf_tail (t : Db) (hi : InF t) (idx : Nat) (sl' : Slot) (hslot : t.slot? idx = some sl') (off : Nat) (d : List UInt8) (a b c : Nat) :
    InF (match t.dataWrite off d with
      | none => (t, Out.panic "write_to_mmap")
      | some s => (s.finishWrite idx sl' a b c, Out.ok)).1 := by
  cases hw : t.dataWrite off d with
  | none => exact hi
  | some s3 =>
    simp only
    have h3 := same_dataWrite _ s3 _ _ hw
    obtain ⟨old, ho, he⟩ := same_slot _ s3 h3 idx _ hslot
    exact (h3.trans (same_finishWrite s3 idx old _ _ _ _ ho he.symm)).inf' ((ms_dataWrite _ _ _ _ hw).trans (ms_finishWrite _ _ _ _ _ _)) hi

theorem slot_setSlot_self (s : Db) (idx : Nat) (sl x : Slot) (hs : s.slot? idx = some sl) : (s.setSlot idx (some x)).slot? idx = some x := by
  rw [slot_iff]; simp only [Db.setSlot]
  have := (slot_iff s idx sl).mp hs
  rw [List.getElem?_set_self (by rw [List.getElem?_eq_some_iff] at this; exact this.1)]

theorem inf_writeExtendLast (s : Db) (hi : InF s) (idx : Nat) (sl : Slot) (d : List UInt8) (wo nl nr : Nat)
    (hs : s.slot? idx = some sl) : InF (s.writeExtendLast idx sl d wo nl nr).1 := by
  unfold Db.writeExtendLast
  split
  · exact hi
  · simp only []
    have hst : (metaSetReserved sl nr).md.start = sl.md.start := by
      have := extOf_metaSetReserved sl nr
      simp only [extOf, Prod.mk.injEq] at this; exact this.1
    have hfl : (s.setSlot idx (some (metaSetReserved sl nr))).fileLen = (s.setSlot idx (some (metaSetReserved sl nr))).mem.size := hi.1
    obtain ⟨g1, g2, g3⟩ := setMinLen_inf (s.setSlot idx (some (metaSetReserved sl nr))) ((metaSetReserved sl nr).md.start + nr) hfl
    have hslot := slot_setSlot_self s idx sl (metaSetReserved sl nr) hs
    have ht : InF ((s.setSlot idx (some (metaSetReserved sl nr))).setMinLen ((metaSetReserved sl nr).md.start + nr)) := by
      refine ⟨g1, ?_⟩
      rw [same_claimed _ _ (same_setMinLen _ _)]
      exact inL_regrow s _ (inL_mono _ _ _ hi.2 g2) idx sl nr (by omega)
    have hslot2 : ((s.setSlot idx (some (metaSetReserved sl nr))).setMinLen ((metaSetReserved sl nr).md.start + nr)).slot? idx = some (metaSetReserved sl nr) := by
      obtain ⟨x, hx, _⟩ := same_slot _ _ (same_setMinLen (s.setSlot idx (some (metaSetReserved sl nr))) ((metaSetReserved sl nr).md.start + nr)) idx _ hslot
      have : ((s.setSlot idx (some (metaSetReserved sl nr))).setMinLen ((metaSetReserved sl nr).md.start + nr)).slots = (s.setSlot idx (some (metaSetReserved sl nr))).slots := by
        unfold Db.setMinLen; simp only []; split <;> rfl
      rw [slot_iff, this, ← slot_iff]; exact hslot
    exact inf_tail _ ht idx _ hslot2 _ d _ _ _

theorem canExpand_spec (s : Db) (sl : Slot) (nr : Nat) (h : s.canExpand sl nr = true) :
    ∃ gap, alGet s.holes (sl.md.start + sl.md.reserved) = some gap ∧ nr - sl.md.reserved ≤ gap := by
  unfold Db.canExpand at h
  cases hg : alGet s.holes (sl.md.start + sl.md.reserved) with
  | none => simp [hg] at h
  | some gap => simp only [hg, decide_eq_true_eq] at h; exact ⟨gap, rfl, h⟩

theorem inf_writeExpand (s : Db) (hi : InF s) (idx : Nat) (sl : Slot) (d : List UInt8) (wo nl nr : Nat)
    (hs : s.slot? idx = some sl) (hr : sl.md.reserved ≤ nr) (hce : s.canExpand sl nr = true) : InF (s.writeExpand idx sl d wo nl nr).1 := by
  unfold Db.writeExpand
  cases hrc : removeOrCompress s.holes (sl.md.start + sl.md.reserved) (nr - sl.md.reserved) with
  | error e => exact hi
  | ok hs' =>
    simp only
    obtain ⟨a1, a2, a3, a4⟩ := (inf_parts s _).mp hi.2
    obtain ⟨gap, hg, hgap⟩ := canExpand_spec s sl nr hce
    have hm := a3 _ (mem_of_alGet s.holes _ gap hg)
    simp only at hm
    have hmid : InF { s with holes := hs' } := ⟨hi.1, (inf_parts _ _).mpr ⟨a1, a2, inL_removeOrCompress _ _ _ _ _ a3 hrc, a4⟩⟩
    split
    · exact hmid
    · have ht : InF (({ s with holes := hs' } : Db).setSlot idx (some (metaSetReserved sl nr))) :=
        ⟨hi.1, inL_regrow { s with holes := hs' } _ hmid.2 idx sl nr (by show sl.md.start + nr ≤ s.mem.size; omega)⟩
      have hs2 : ({ s with holes := hs' } : Db).slot? idx = some sl := hs
      exact inf_tail _ ht idx _ (slot_setSlot_self _ idx sl _ hs2) _ d _ _ _

end AnyDB.C02r
