import AnyDB.Model.Mem

/-!
Laws of the byte image `Mem`: read-own-write, frame, size, growth, hole punching.
(`write_to_mmap`, `set_len` growth, `fallocate(PUNCH_HOLE)` as modelled in `Model/Mem.lean`.)
-/
namespace AnyDB.Mem

/-- what a reader sees in `[off, off+len)` (`none` beyond the end of the file) -/
def read (m : Mem) (off len : Nat) : List (Option UInt8) := (List.range len).map (fun i => m.get? (off + i))

theorem size_writeList (a : Array UInt8) (off : Nat) (d : List UInt8) : (writeList a off d).size = a.size := by
  induction d generalizing a off with
  | nil => rfl
  | cons b bs ih => simp [writeList, ih]

theorem get?_writeList (a : Array UInt8) (off : Nat) (d : List UInt8) (i : Nat) (h : off + d.length ≤ a.size) :
    (writeList a off d)[i]? = if off ≤ i ∧ i < off + d.length then d[i - off]? else a[i]? := by
  induction d generalizing a off with
  | nil => simp [writeList]; omega
  | cons b bs ih =>
    simp only [writeList]
    rw [ih _ _ (by simp at h ⊢; omega)]
    simp only [List.length_cons]
    by_cases h1 : off + 1 ≤ i ∧ i < off + 1 + bs.length
    · have h2 : off ≤ i ∧ i < off + (bs.length + 1) := by omega
      simp only [h1, h2, and_self, if_true]
      have : i - off = (i - (off + 1)) + 1 := by omega
      rw [this]; simp
    · simp only [h1, if_false]
      rw [Array.getElem?_setIfInBounds]
      by_cases h3 : off = i
      · subst h3
        have h2 : off ≤ off ∧ off < off + (bs.length + 1) := by omega
        have h4 : off < a.size := by simp at h; omega
        simp [h2, h4]
      · have h2 : ¬ (off ≤ i ∧ i < off + (bs.length + 1)) := by omega
        simp [h2, h3]

theorem get?_writeAt {m m' : Mem} {off : Nat} {d : List UInt8} (h : m.writeAt off d = some m') (i : Nat) :
    m'.get? i = if off ≤ i ∧ i < off + d.length then d[i - off]? else m.get? i := by
  unfold Mem.writeAt at h
  split at h
  · rename_i hb
    simp at h; subst h
    exact get?_writeList m.bytes off d i hb
  · simp at h

theorem size_writeAt {m m' : Mem} {off : Nat} {d : List UInt8} (h : m.writeAt off d = some m') : m'.size = m.size := by
  unfold Mem.writeAt at h
  split at h
  · simp at h; subst h; exact size_writeList _ _ _
  · simp at h

/-- frame: a read from a range disjoint from the written one is unchanged -/
theorem read_writeAt_frame {m m' : Mem} {off : Nat} {d : List UInt8} (h : m.writeAt off d = some m')
    (o l : Nat) (hd : o + l ≤ off ∨ off + d.length ≤ o) : m'.read o l = m.read o l := by
  unfold Mem.read
  apply List.map_congr_left
  intro i hi
  simp at hi
  rw [get?_writeAt h]
  have : ¬ (off ≤ o + i ∧ o + i < off + d.length) := by omega
  simp [this]

/-- read-own-write -/
theorem read_writeAt_same {m m' : Mem} {off : Nat} {d : List UInt8} (h : m.writeAt off d = some m') :
    m'.read off d.length = d.map some := by
  unfold Mem.read
  apply List.ext_getElem
  · simp
  · intro i h1 h2
    simp at h1
    simp [get?_writeAt h, h1]

theorem get?_grow (m : Mem) (n i : Nat) :
    (m.grow n).get? i = if i < m.size then m.get? i else if i < n then some 0 else none := by
  unfold Mem.grow Mem.get? Mem.size
  rw [Array.getElem?_append, Array.getElem?_replicate]
  by_cases h : i < m.bytes.size
  · simp [h]
  · have h1 : (i - m.bytes.size < n - m.bytes.size) ↔ i < n := by omega
    simp [h, h1]

/-- growing the file never changes a byte that was already there -/
theorem read_grow (m : Mem) (n o l : Nat) (h : o + l ≤ m.size) : (m.grow n).read o l = m.read o l := by
  unfold Mem.read
  apply List.map_congr_left
  intro i hi
  simp at hi
  rw [get?_grow]
  have : o + i < m.size := by omega
  simp [this]

theorem size_grow (m : Mem) (n : Nat) : (m.grow n).size = max m.size n := by
  unfold Mem.grow Mem.size; simp; omega

/-- hole punching only zeroes bytes inside the punched range -/
theorem read_punch_frame (m : Mem) (off len o l : Nat) (hd : o + l ≤ off ∨ off + len ≤ o) :
    (m.punch off len).read o l = m.read o l := by
  unfold Mem.read
  apply List.map_congr_left
  intro i hi
  simp at hi
  unfold Mem.punch Mem.get?
  simp only []
  by_cases hs : off ≤ m.size
  · rw [get?_writeList _ _ _ _ (by simp only [List.length_replicate]; unfold Mem.size at hs ⊢; omega)]
    have : ¬ (off ≤ o + i ∧ o + i < off + (List.replicate (min len (m.size - off)) (0:UInt8)).length) := by
      simp; omega
    simp only [this, if_false]
  · have : min len (m.size - off) = 0 := by omega
    simp [this, writeList]

theorem size_punch (m : Mem) (off len : Nat) : (m.punch off len).size = m.size := by
  unfold Mem.punch Mem.size; exact size_writeList _ _ _

end AnyDB.Mem
