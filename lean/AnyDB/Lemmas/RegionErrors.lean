import AnyDB.Lemmas.RegionStep
namespace AnyDB.C01r
open AnyDB Conc Db C02r Mem

/-! ## the internal error answers cannot occur under the invariant -/

theorem removeOrCompress_ok (holes : List E) (start by_ size : Nat) (hg : alGet holes start = some size) (hle : by_ ≤ size) :
    ∃ hs, removeOrCompress holes start by_ = .ok hs := by
  unfold removeOrCompress
  rw [hg]
  simp only
  split
  · exact ⟨_, rfl⟩
  · split
    · exact ⟨_, rfl⟩
    · omega

theorem writeExpand_noerr (s : Db) (idx : Nat) (sl : Slot) (d : List UInt8) (wo nl nr : Nat) (k : ErrKind)
    (hc : s.canExpand sl nr = true) : (s.writeExpand idx sl d wo nl nr).2 ≠ .err k := by
  unfold Db.canExpand at hc
  cases hg : alGet s.holes (sl.md.start + sl.md.reserved) with
  | none => simp [hg] at hc
  | some gap =>
    simp only [hg, decide_eq_true_eq] at hc
    obtain ⟨hs, hrc⟩ := removeOrCompress_ok s.holes _ (nr - sl.md.reserved) gap hg hc
    intro h
    have := Db.writeExpand_out s idx sl d wo nl nr k h
    unfold Db.writeExpand at h
    simp only [hrc] at h
    split at h
    · cases h
    · split at h <;> cases h

theorem placeRelocation_ok (s : Db) (h : LInv s) (nr : Nat) : ∃ r, s.placeRelocation nr = .ok r := by
  unfold Db.placeRelocation
  obtain ⟨hp, ho⟩ := holes_pos_one s h
  cases hb : bestFit s.holes nr with
  | none => exact ⟨_, rfl⟩
  | some hstart =>
    simp only
    obtain ⟨size, hg, hsz⟩ := bestFit_alGet s.holes nr hstart hp ho hb
    obtain ⟨hs, hrc⟩ := removeOrCompress_ok s.holes hstart nr size hg hsz
    rw [hrc]
    exact ⟨_, rfl⟩

/-- a reservation and a live region are apart -/
theorem reserved_apart (s : Db) (h : LInv s) (e : E) (he : e ∈ s.reserved) (j : Nat) (sl : Slot) (hs : s.slot? j = some sl) :
    e.1 + e.2 ≤ sl.md.start ∨ sl.md.start + sl.md.reserved ≤ e.1 := by
  have hm1 : extOf sl ∈ exts s.slots := (mem_exts s.slots _).mpr ⟨j, sl, (slot_iff s j sl).mp hs, rfl⟩
  have hc1 : extOf sl ∈ claimedDb s := (mem_claimed s _).mpr (Or.inl hm1)
  have hc2 : e ∈ claimedDb s := (mem_claimed s _).mpr (Or.inr (Or.inl he))
  have hne : e ≠ extOf sl := fun heq => cross_start s h (extOf sl) e hm1 (Or.inr (Or.inr he)) (by rw [heq])
  exact apart_of_ind e (extOf sl) (fun x => by
    have h2 := two_cover (claimedDb s) e (extOf sl) x hc2 hc1 hne
    have h1 := h.one x
    omega) (h.pos e hc2) (h.pos _ hc1)

theorem writeRelocate_noerr (s : Db) (h : LInv s) (idx : Nat) (sl cur : Slot) (d : List UInt8) (wo nl nr cl ns : Nat) (k : ErrKind)
    (hs : s.slot? idx = some cur) (hcur : extOf cur = extOf sl) (hres : (ns, nr) ∈ s.reserved)
    (hcl1 : cl ≤ sl.md.reserved) (hcl2 : cl ≤ nr) : (s.writeRelocate idx sl d wo nl nr cl ns).2 ≠ .err k := by
  have hap := reserved_apart s h (ns, nr) hres idx cur hs
  have hst : cur.md.start = sl.md.start ∧ cur.md.reserved = sl.md.reserved := by
    simp only [extOf, Prod.mk.injEq] at hcur; exact hcur
  simp only at hap
  rw [hst.1, hst.2] at hap
  intro hk
  unfold Db.writeRelocate at hk
  cases hc : s.dataCopy sl.md.start ns cl with
  | error o =>
    simp only [hc] at hk
    subst hk
    -- the copy ranges are apart: the overlap answer is impossible
    unfold Db.dataCopy at hc
    split at hc
    · cases hc
    · split at hc
      · rename_i hov
        simp at hov
        omega
      · split at hc
        · cases hc
        · split at hc <;> cases hc
  | ok s1 =>
    simp only [hc] at hk
    have h1 := same_dataCopy s s1 _ _ _ hc
    cases hw : s1.dataWrite (ns + wo) d with
    | none => simp [hw] at hk
    | some s2 =>
      simp only [hw] at hk
      have h2 := h1.trans (same_dataWrite s1 s2 _ _ hw)
      have hi2 := h2.linv h
      obtain ⟨c2, hc2, he2⟩ := same_slot s s2 h2 idx cur hs
      have hext : extOf c2 = (sl.md.start, sl.md.reserved) := by rw [he2, hcur]; rfl
      have hv2 : (vs s2)[idx]? = some (some (sl.md.start, sl.md.reserved)) := (vs_get s2 idx _).mpr ⟨c2, hc2, hext⟩
      have hg := regions_get s2 hi2 idx _ _ hv2
      unfold Db.layoutRemoveRegion at hk
      simp only [hg, if_true, Bool.not_true, Bool.false_eq_true, if_false] at hk
      split at hk
      · cases hk
      · split at hk <;> cases hk

theorem writeGrow_err (s : Db) (hinv : RInv s) (idx : Nat) (sl : Slot) (d : List UInt8) (wo nl cl : Nat) (k : ErrKind)
    (hs : s.slot? idx = some sl) (hcl : cl ≤ sl.md.len)
    (hk : (s.writeGrow idx sl d wo nl cl).2 = .err k) : k = .regionSizeOverflow := by
  have hb := hinv.bnd idx sl hs
  have hpos : 0 < sl.md.reserved := by
    have hm1 : extOf sl ∈ exts s.slots := (mem_exts s.slots _).mpr ⟨idx, sl, (slot_iff s idx sl).mp hs, rfl⟩
    exact hinv.lay.pos _ ((mem_claimed s _).mpr (Or.inl hm1))
  unfold Db.writeGrow at hk
  simp only [] at hk
  rw [if_neg (by omega)] at hk
  cases hg : growReserved 64 sl.md.reserved nl with
  | none => simp [hg] at hk; exact hk.symm
  | some nr =>
    simp only [hg] at hk
    have hge := growReserved_ge 64 _ _ _ hg
    split at hk
    · exact absurd hk (Db.writeExtendLast_out _ _ _ _ _ _ _ _)
    · split at hk
      · rename_i hc
        exact absurd hk (writeExpand_noerr s idx sl d wo nl nr k hc)
      · obtain ⟨r, hp⟩ := placeRelocation_ok s hinv.lay nr
        obtain ⟨p, ns⟩ := r
        simp only [hp] at hk
        obtain ⟨p1, p2, p3, p4⟩ := linv_placeRelocation s p hinv.lay nr ns (by omega) hp
        have hv : (vs p)[idx]? = some (some (extOf sl)) := by rw [p3]; exact (vs_get s idx _).mpr ⟨sl, hs, rfl⟩
        obtain ⟨cur, hc1, hc2⟩ := (vs_get p idx _).mp hv
        exact absurd hk (writeRelocate_noerr p p1 idx sl cur d wo nl nr cl ns k hc1 hc2 p2 (by omega) (by omega))


theorem create_noerr (s : Db) (h : LInv s) (id : RegionId) (k : ErrKind) : (s.create id).2 ≠ .err k := by
  intro hk
  unfold Db.create at hk
  split at hk
  · cases hk
  · simp only at hk
    generalize hs0 : (if (bestFit s.holes Gen.PAGE_SIZE).isNone = true then s.setMinLen (s.layoutLen + Gen.PAGE_SIZE) else s) = s0 at hk
    have h0s : Same s s0 := by rw [← hs0]; split; exact same_setMinLen _ _; exact Same.refl s
    obtain ⟨hp, ho⟩ := holes_pos_one s0 (h0s.linv h)
    cases hb : bestFit s0.holes Gen.PAGE_SIZE with
    | none =>
      simp only [hb] at hk
      split at hk <;> cases hk
    | some hstart =>
      simp only [hb] at hk
      obtain ⟨size, hg, hsz⟩ := bestFit_alGet s0.holes Gen.PAGE_SIZE hstart hp ho hb
      obtain ⟨hs, hrc⟩ := removeOrCompress_ok s0.holes hstart Gen.PAGE_SIZE size hg hsz
      simp only [hrc] at hk
      split at hk <;> cases hk

/-- an answer that is neither a panic nor `RegionSizeOverflow` (the region would exceed 2^63 bytes) -/
def Fine (o : Out) : Prop := ¬IsPanic o ∧ o ≠ .err .regionSizeOverflow

/-- under the invariant such an answer is a success or one of the API's refusals -/
theorem normal_of_fine (s : Db) (op : Op) (hinv : RInv s) (hf : Fine (step s op).2) : Normal (step s op).2 := by
  have hwrite : ∀ (id : RegionId) (d : List UInt8) (at_ : Option Nat) (tr : Bool),
      Fine (s.withRegion id (fun i => s.writeWith i d at_ tr)).2 → Normal (s.withRegion id (fun i => s.writeWith i d at_ tr)).2 := by
    intro id d at_ tr hf
    unfold Db.withRegion at hf ⊢
    cases hfi : s.findId id with
    | none => simp [Normal]
    | some idx =>
      simp only [hfi] at hf ⊢
      obtain ⟨sl, hs, _⟩ := findId_slot s id idx hfi
      cases ho : (s.writeWith idx d at_ tr).2 with
      | ok => trivial
      | okN n => trivial
      | panic m => rw [ho] at hf; exact absurd trivial hf.1
      | err k =>
        rw [ho] at hf
        rw [Db.writeWith_some _ _ _ _ _ _ hs] at ho
        by_cases hc : Db.outOfBounds at_ sl.md.len = true
        · rw [if_pos hc] at ho; simp at ho; subst ho; simp [Normal]
        · rw [if_neg hc] at ho
          exfalso
          have hwo : at_.getD sl.md.len ≤ sl.md.len := by
            cases at_ with
            | none => simp
            | some a => exact (oob_some _ _).mp (by simpa using hc)
          split at ho
          · exact Db.writeFits_out _ _ _ _ _ _ _ ho
          · have := writeGrow_err s hinv idx sl d _ _ _ k hs (by split <;> omega) ho
            subst this
            exact hf.2 rfl
  cases op with
  | create id =>
    simp only [step] at hf ⊢
    cases ho : (s.create id).2 with
    | ok => trivial
    | okN n => trivial
    | panic m => rw [ho] at hf; exact absurd trivial hf.1
    | err k => exact absurd ho (create_noerr s hinv.lay id k)
  | write id d => exact hwrite id d none false hf
  | writeAt id a d => exact hwrite id d (some a) false hf
  | truncateWrite id a d => exact hwrite id d (some a) true hf
  | truncate id n =>
    simp only [step, Db.withRegion]
    split
    · simp [Normal]
    · unfold Db.truncate
      split
      · simp [Normal]
      · split
        · trivial
        · split
          · simp [Normal]
          · trivial
  | rename id n =>
    simp only [step, Db.withRegion] at hf ⊢
    split
    · simp [Normal]
    · rename_i idx hfi
      simp only [hfi] at hf
      obtain ⟨sl, hs, _⟩ := findId_slot s id idx hfi
      rcases rename_out s idx n sl hs with ⟨h1, _, _⟩ | ⟨_, h2 | ⟨m, h2⟩⟩
      · rw [h1]; simp [Normal]
      · rw [h2]; trivial
      · rw [h2] at hf; exact absurd trivial hf.1
  | remove id =>
    simp only [step, Db.removeId]
    split
    · simp [Normal]
    · rename_i idx hfi
      obtain ⟨sl, hs, _⟩ := findId_slot s id idx hfi
      rw [(remove_shape s idx sl hinv.lay hs).1]; trivial
  | removeHeld id =>
    simp only [step, Db.removeId]
    split
    · simp [Normal]
    · rename_i idx hfi
      obtain ⟨sl, hs, _⟩ := findId_slot s id idx hfi
      have : s.remove idx true = (s, .err .regionStillReferenced) := by unfold Db.remove; simp only [hs]; rfl
      rw [this]; simp [Normal]
  | retain ids =>
    simp only [step]
    unfold Db.retain
    simp only []
    suffices hh : ∀ o : Out, o = .ok → Normal o from hh _ (retain_fold _ (s, .ok) hinv.lay rfl (List.Nodup.sublist List.filter_sublist List.nodup_range) (by
        intro v hv
        rw [List.mem_filter] at hv
        cases hs : s.slot? v with
        | none => rw [hs] at hv; simp at hv
        | some sl => rfl)).1
    intro o ho; rw [ho]; trivial
  | flush =>
    simp only [step]
    unfold Db.flush
    simp only []
    split <;> trivial
  | regionFlush id =>
    simp only [step, Db.withRegion]
    split
    · simp [Normal]
    · unfold Db.regionFlush
      split
      · simp [Normal]
      · simp only
        split
        · simp [Normal]
        · split <;> trivial
        · trivial
  | compact =>
    simp only [step]
    unfold Db.compact
    have : ∃ n, s.flush.2 = .okN n := by
      unfold Db.flush; simp only []; split <;> exact ⟨_, rfl⟩
    obtain ⟨n, hn⟩ := this
    generalize s.flush = r at hn
    obtain ⟨s1, o⟩ := r
    simp only at hn ⊢
    subst hn
    trivial
  | reopen n =>
    simp only [step]
    unfold Db.reopen
    simp only []
    split
    · rename_i hh
      simp only [step] at hf
      unfold Db.reopen at hf
      simp only [hh] at hf
      exact absurd trivial hf.1
    · trivial
  | setMinLen n => trivial
  | setMinRegions n => trivial

end AnyDB.C01r
