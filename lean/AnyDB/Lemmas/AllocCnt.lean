import AnyDB.Props.C10
import AnyDB.Model.Rawdb
import AnyDB.Lemmas.AllocBridge

/-!
Counting lemmas for the free-space bookkeeping of rawdb (`remove_or_compress_hole`, `find_smallest_adequate_hole`,
`promote_pending_holes`) in the style of `Props/C10.lean`: `cnt l x` = number of extents of `l` that cover byte `x`.
Every operation is characterised by what it does to `cnt` at every byte; disjointness is `cnt ≤ 1`.
-/
namespace AnyDB.C02r
open AnyDB Conc

/-! ## counting toolbox on `(start, size)` lists -/

def Pos (l : List E) : Prop := ∀ e ∈ l, 0 < e.2
def One (l : List E) : Prop := ∀ x, cnt l x ≤ 1

theorem ind_le_cnt (l : List E) (e : E) (x : Nat) (h : e ∈ l) : ind e x ≤ cnt l x := by
  have := cnt_erase_ind l e x h; omega

theorem cnt_filter_split (l : List E) (q : E → Bool) (x : Nat) :
    cnt l x = cnt (l.filter q) x + cnt (l.filter (fun e => !q e)) x := by
  induction l with
  | nil => rfl
  | cons a t ih =>
    simp only [List.filter_cons]
    cases hq : q a <;> simp only [hq, Bool.not_true, Bool.not_false, if_true, if_false, Bool.false_eq_true, cnt_cons] <;> omega

theorem cnt_at_start (l : List E) (s : Nat) (hp : Pos l) (hs : ∀ e ∈ l, e.1 = s) : cnt l s = l.length := by
  induction l with
  | nil => rfl
  | cons a t ih =>
    have h1 : a.1 = s := hs a (List.mem_cons_self ..)
    have h2 : 0 < a.2 := hp a (List.mem_cons_self ..)
    simp only [cnt_cons, List.length_cons, ind]
    rw [ih (fun e he => hp e (List.mem_cons_of_mem _ he)) (fun e he => hs e (List.mem_cons_of_mem _ he))]
    have : a.1 ≤ s ∧ s < a.1 + a.2 := by omega
    simp only [this, and_self, if_true]; omega

/-- with positive sizes and no byte in two extents, at most one extent starts at `s` -/
theorem filter_start_singleton (l : List E) (e : E) (hp : Pos l) (ho : One l) (he : e ∈ l) :
    l.filter (fun a => a.1 == e.1) = [e] := by
  have hsub : ∀ a ∈ l.filter (fun a => a.1 == e.1), a.1 = e.1 := by
    intro a ha; have := (List.mem_filter.mp ha).2; simpa using this
  have hpos : Pos (l.filter (fun a => a.1 == e.1)) := fun a ha => hp a (List.mem_filter.mp ha).1
  have hlen := cnt_at_start _ e.1 hpos hsub
  have hle : cnt (l.filter (fun a => a.1 == e.1)) e.1 ≤ 1 := by
    have := cnt_filter_split l (fun a => a.1 == e.1) e.1
    have := ho e.1
    omega
  have hmem : e ∈ l.filter (fun a => a.1 == e.1) := List.mem_filter.mpr ⟨he, by simp⟩
  generalize hl : l.filter (fun a => a.1 == e.1) = f at hmem hlen hle
  match f, hmem, hlen, hle with
  | [], hmem, _, _ => cases hmem
  | [a], hmem, _, _ => simp at hmem; rw [hmem]
  | a :: b :: t, _, hlen, hle => simp at hlen; omega

/-- removing the entry that starts at `e.start` removes exactly `e` -/
theorem cnt_alErase (l : List E) (e : E) (x : Nat) (hp : Pos l) (ho : One l) (he : e ∈ l) :
    cnt (alErase l e.1) x + ind e x = cnt l x := by
  have h1 := cnt_filter_split l (fun a => a.1 == e.1) x
  rw [filter_start_singleton l e hp ho he] at h1
  have : l.filter (fun a => !(a.1 == e.1)) = alErase l e.1 := by
    unfold alErase; congr 1
  rw [this] at h1
  simp only [cnt, ind] at h1 ⊢
  omega

theorem mem_of_alGet (l : List E) (s sz : Nat) (h : alGet l s = some sz) : (s, sz) ∈ l := by
  unfold alGet at h
  cases hf : l.find? (fun a => a.1 == s) with
  | none => simp [hf] at h
  | some a =>
    have hm := List.mem_of_find?_eq_some hf
    have hp := List.find?_some hf
    simp only [hf, Option.map_some, Option.some.injEq] at h
    have : a = (s, sz) := by
      obtain ⟨a1, a2⟩ := a
      simp at hp h
      rw [hp, h]
    rw [← this]; exact hm


/-! ## holes -/

theorem removeOrCompress_cnt (holes hs' : List E) (start by_ size : Nat) (hp : Pos holes) (ho : One holes)
    (hg : alGet holes start = some size) (h : removeOrCompress holes start by_ = .ok hs') (x : Nat) :
    by_ ≤ size ∧ cnt hs' x + ind (start, by_) x = cnt holes x ∧ (0 < by_ → Pos hs') := by
  have hm := mem_of_alGet holes start size hg
  have he := cnt_alErase holes (start, size) x hp ho hm
  have hsz : 0 < size := hp (start, size) hm
  unfold removeOrCompress at h
  simp only [hg] at h
  split at h
  · rename_i heq
    cases h
    subst heq
    refine ⟨Nat.le_refl _, he, fun _ => ?_⟩
    intro a ha
    exact hp a (List.mem_filter.mp ha).1
  · split at h
    · rename_i hne hgt
      cases h
      refine ⟨by omega, ?_, fun hb => ?_⟩
      · rw [cnt_append]
        simp only [cnt, ind] at he ⊢
        split at he <;> split <;> split <;> omega
      · intro a ha
        rcases List.mem_append.mp ha with h1 | h1
        · exact hp a (List.mem_filter.mp h1).1
        · simp at h1; rw [h1]; simp; omega
    · cases h

theorem bestFit_alGet (holes : List E) (need hstart : Nat) (hp : Pos holes) (ho : One holes)
    (h : bestFit holes need = some hstart) : ∃ size, alGet holes hstart = some size ∧ need ≤ size := by
  obtain ⟨b, hb, h1, h2, _⟩ := bestFit_some h
  refine ⟨b.2, ?_, h2⟩
  -- the first entry with that start is `b` itself (starts are unique)
  unfold alGet
  cases hf : holes.find? (fun a => a.1 == hstart) with
  | none =>
    have := List.find?_eq_none.mp hf b hb
    simp [h1] at this
  | some a =>
    have hm := List.mem_of_find?_eq_some hf
    have hpa := List.find?_some hf
    simp at hpa
    have hs := filter_start_singleton holes b hp ho hb
    have ha : a ∈ holes.filter (fun c => c.1 == b.1) := List.mem_filter.mpr ⟨hm, by simp [hpa, h1]⟩
    rw [hs] at ha
    simp at ha
    simp [ha]

/-! ## promotion of pending holes -/

theorem mem_of_prevHole (hs : List E) (s : Nat) (h : E) (e : prevHole hs s = some h) : h ∈ hs := by
  induction hs generalizing h with
  | nil => simp [prevHole] at e
  | cons a t ih =>
    simp only [prevHole] at e
    cases hp : prevHole t s with
    | none =>
      simp only [hp] at e
      split at e
      · cases e; exact List.mem_cons_self ..
      · cases e
    | some b =>
      simp only [hp] at e
      split at e
      · cases e; exact List.mem_cons_self ..
      · have := ih b hp; cases e; exact List.mem_cons_of_mem _ this

theorem alErase_pos (l : List E) (s : Nat) (hp : Pos l) : Pos (alErase l s) :=
  fun a ha => hp a (List.mem_filter.mp ha).1

theorem alErase_one (l : List E) (s : Nat) (ho : One l) : One (alErase l s) := by
  intro x
  have h := cnt_filter_split l (fun a => a.1 != s) x
  have h2 := ho x
  have e : alErase l s = l.filter (fun a => a.1 != s) := rfl
  rw [e]
  omega

def joinLeft (hs : List E) (p : E) : List E × Nat × Nat :=
  match prevHole hs p.1 with
  | some h => if h.1 + h.2 = p.1 then (alErase hs h.1, h.1, p.2 + h.2) else (hs, p.1, p.2)
  | none => (hs, p.1, p.2)

def joinRight (r1 : List E × Nat × Nat) : List E × Nat :=
  match alGet r1.1 (r1.2.1 + r1.2.2) with
  | some a => (alErase r1.1 (r1.2.1 + r1.2.2), r1.2.2 + a)
  | none => (r1.1, r1.2.2)

theorem promoteOne_eq (hs : List E) (p : E) :
    promoteOne hs p = (joinRight (joinLeft hs p)).1 ++ [((joinLeft hs p).2.1, (joinRight (joinLeft hs p)).2)] := rfl

theorem joinLeft_spec (hs : List E) (p : E) (hp : Pos hs) (ho : One hs) (hpp : 0 < p.2) (x : Nat) :
    cnt (joinLeft hs p).1 x + ind ((joinLeft hs p).2.1, (joinLeft hs p).2.2) x = cnt hs x + ind p x ∧
    Pos (joinLeft hs p).1 ∧ One (joinLeft hs p).1 ∧ 0 < (joinLeft hs p).2.2 := by
  unfold joinLeft
  cases hph : prevHole hs p.1 with
  | none => exact ⟨rfl, hp, ho, hpp⟩
  | some h =>
    simp only
    split
    · rename_i hadj
      have hm := mem_of_prevHole hs p.1 h hph
      have he := cnt_alErase hs h x hp ho hm
      have hh := hp h hm
      refine ⟨?_, alErase_pos hs h.1 hp, alErase_one hs h.1 ho, by simp only; omega⟩
      simp only [ind] at he ⊢
      split at he <;> split <;> split <;> omega
    · exact ⟨rfl, hp, ho, hpp⟩

theorem joinRight_spec (r1 : List E × Nat × Nat) (hp : Pos r1.1) (ho : One r1.1) (hsz : 0 < r1.2.2) (x : Nat) :
    cnt ((joinRight r1).1 ++ [(r1.2.1, (joinRight r1).2)]) x = cnt r1.1 x + ind (r1.2.1, r1.2.2) x ∧
    Pos ((joinRight r1).1 ++ [(r1.2.1, (joinRight r1).2)]) := by
  unfold joinRight
  cases hg : alGet r1.1 (r1.2.1 + r1.2.2) with
  | none =>
    simp only
    refine ⟨by rw [cnt_append]; simp only [cnt, ind]; omega, ?_⟩
    intro a ha
    rcases List.mem_append.mp ha with h2 | h2
    · exact hp a h2
    · simp at h2; rw [h2]; exact hsz
  | some a =>
    simp only
    have hm := mem_of_alGet r1.1 _ a hg
    have he := cnt_alErase r1.1 (r1.2.1 + r1.2.2, a) x hp ho hm
    have ha := hp _ hm
    refine ⟨?_, ?_⟩
    · rw [cnt_append]
      simp only [cnt, ind] at he ⊢
      split at he <;> split <;> split <;> omega
    · intro b hb
      rcases List.mem_append.mp hb with h2 | h2
      · exact alErase_pos r1.1 _ hp b h2
      · simp at h2; rw [h2]; simp; omega

/-- one pending hole joins the free list: the bytes covered grow by exactly that hole (merging with the neighbours
changes the extents, not the bytes) -/
theorem promoteOne_cnt (hs : List E) (p : E) (hp : Pos hs) (ho : One hs) (hpp : 0 < p.2) (x : Nat) :
    cnt (promoteOne hs p) x = cnt hs x + ind p x ∧ Pos (promoteOne hs p) := by
  rw [promoteOne_eq]
  obtain ⟨k1, k2, k3, k4⟩ := joinLeft_spec hs p hp ho hpp x
  obtain ⟨j1, j2⟩ := joinRight_spec (joinLeft hs p) k2 k3 k4 x
  exact ⟨by rw [j1, k1], j2⟩


theorem promote_cnt (hs pending : List E) (hp : Pos hs) (hpp : Pos pending) (ho : ∀ x, cnt hs x + cnt pending x ≤ 1) :
    (∀ x, cnt (promote hs pending) x = cnt hs x + cnt pending x) ∧ Pos (promote hs pending) := by
  induction pending generalizing hs with
  | nil => exact ⟨fun x => by simp [promote, cnt], hp⟩
  | cons p t ih =>
    have hone : One hs := fun x => by have := ho x; omega
    have hp0 : 0 < p.2 := hpp p (List.mem_cons_self ..)
    have hstep : promote hs (p :: t) = promote (promoteOne hs p) t := rfl
    rw [hstep]
    have hpo := fun x => promoteOne_cnt hs p hp hone hp0 x
    obtain ⟨i1, i2⟩ := ih (promoteOne hs p) (hpo 0).2 (fun e he => hpp e (List.mem_cons_of_mem _ he))
      (fun x => by have := (hpo x).1; have := ho x; simp only [cnt_cons] at this; omega)
    refine ⟨fun x => ?_, i2⟩
    rw [i1 x, (hpo x).1, cnt_cons]; omega

end AnyDB.C02r
