import AnyDB.Model.Rawdb

/-!
Outcome lemmas for the rawdb model: which error kinds each sub-path of `write_with` can return,
and that the refusing branches return the input state.  Used by C13 (and by C01/C02 to dispose of
the error branches).
-/
namespace AnyDB.Db
open AnyDB

theorem writeFits_out (s : Db) (idx : Nat) (sl : Slot) (d : List UInt8) (wo nl : Nat) (k : ErrKind) :
    (s.writeFits idx sl d wo nl).2 ≠ .err k := by
  unfold writeFits; grind

theorem writeExtendLast_out (s : Db) (idx : Nat) (sl : Slot) (d : List UInt8) (wo nl nr : Nat) (k : ErrKind) :
    (s.writeExtendLast idx sl d wo nl nr).2 ≠ .err k := by
  unfold writeExtendLast; grind

theorem removeOrCompress_err {hs : List (Nat × Nat)} {a b : Nat} {e : ErrKind}
    (h : removeOrCompress hs a b = .error e) : e = .holeTooSmall := by
  unfold removeOrCompress at h; grind

theorem writeExpand_out (s : Db) (idx : Nat) (sl : Slot) (d : List UInt8) (wo nl nr : Nat) (k : ErrKind)
    (h : (s.writeExpand idx sl d wo nl nr).2 = .err k) : k = .holeTooSmall := by
  unfold writeExpand at h
  split at h
  · rename_i e he; simp at h; subst h; exact removeOrCompress_err he
  · grind

theorem placeRelocation_err (s : Db) (nr : Nat) (e : ErrKind) (h : s.placeRelocation nr = .error e) :
    e = .holeTooSmall := by
  unfold placeRelocation at h
  split at h
  · split at h
    · rename_i e' he; simp at h; subst h; exact removeOrCompress_err he
    · simp at h
  · simp at h

theorem dataCopy_err (s : Db) (a b c : Nat) (o : Out) (h : s.dataCopy a b c = .error o) :
    o = .err .overlappingCopyRanges ∨ ∃ m, o = .panic m := by
  unfold dataCopy at h; grind

theorem writeRelocate_out (s : Db) (idx : Nat) (sl : Slot) (d : List UInt8) (wo nl nr cl ns : Nat) (k : ErrKind)
    (h : (s.writeRelocate idx sl d wo nl nr cl ns).2 = .err k) :
    k = .overlappingCopyRanges ∨ k = .regionIndexMismatch := by
  unfold writeRelocate at h
  split at h
  · rename_i o ho
    rcases dataCopy_err _ _ _ _ _ ho with rfl | ⟨m, rfl⟩ <;> simp_all
  · grind

/-- the growth paths only ever fail with *internal* error kinds, never with a refusal -/
theorem writeGrow_out (s : Db) (idx : Nat) (sl : Slot) (d : List UInt8) (wo nl cl : Nat) (k : ErrKind)
    (h : (s.writeGrow idx sl d wo nl cl).2 = .err k) :
    k = .invariantViolation ∨ k = .regionSizeOverflow ∨ k = .holeTooSmall ∨
    k = .overlappingCopyRanges ∨ k = .regionIndexMismatch := by
  unfold writeGrow at h
  dsimp only at h
  by_cases h0 : sl.md.reserved = 0
  · simp [h0] at h; simp [← h]
  · simp only [h0, if_false] at h
    cases hg : growReserved 64 sl.md.reserved nl with
    | none => simp [hg] at h; simp [← h]
    | some nr =>
      simp only [hg] at h
      by_cases h1 : s.isLastAnything idx = true
      · simp only [h1, if_true] at h
        exact absurd h (writeExtendLast_out _ _ _ _ _ _ _ _)
      · rw [if_neg h1] at h
        by_cases h2 : s.canExpand sl nr = true
        · rw [if_pos h2] at h
          have := writeExpand_out _ _ _ _ _ _ _ _ h; simp [this]
        · rw [if_neg h2] at h
          split at h
          · rename_i e he; have := placeRelocation_err _ _ _ he; simp at h; subst h; simp [this]
          · rcases writeRelocate_out _ _ _ _ _ _ _ _ _ _ h with r | r <;> simp [r]

theorem writeWith_some (s : Db) (idx : Nat) (sl : Slot) (d : List UInt8) (a : Option Nat) (t : Bool)
    (hs : s.slot? idx = some sl) :
    s.writeWith idx d a t =
      if outOfBounds a sl.md.len then (s, .err .writeOutOfBounds)
      else if newLenOf a t sl.md.len d.length ≤ sl.md.reserved then
        s.writeFits idx sl d (a.getD sl.md.len) (newLenOf a t sl.md.len d.length)
      else s.writeGrow idx sl d (a.getD sl.md.len) (newLenOf a t sl.md.len d.length)
        (if t then a.getD sl.md.len else sl.md.len) := by
  unfold writeWith; simp only [hs]

theorem writeWith_none (s : Db) (idx : Nat) (d : List UInt8) (a : Option Nat) (t : Bool)
    (hs : s.slot? idx = none) : s.writeWith idx d a t = (s, .err .noSuchRegion) := by
  unfold writeWith; simp only [hs]

/-- `write_with`: a `WriteOutOfBounds` answer leaves the whole state (event log included) as it was -/
theorem writeWith_oob_unchanged (s : Db) (idx : Nat) (d : List UInt8) (a : Option Nat) (t : Bool)
    (h : (s.writeWith idx d a t).2 = .err .writeOutOfBounds) : (s.writeWith idx d a t).1 = s := by
  cases hs : s.slot? idx with
  | none => rw [writeWith_none _ _ _ _ _ hs]
  | some sl =>
    rw [writeWith_some _ _ _ _ _ _ hs] at h ⊢
    by_cases hc : outOfBounds a sl.md.len = true
    · simp [hc]
    · rw [if_neg hc] at h
      exfalso
      split at h
      · exact writeFits_out _ _ _ _ _ _ _ h
      · have := writeGrow_out _ _ _ _ _ _ _ _ h; simp at this

/-- and it is returned exactly when the requested offset lies beyond the current length -/
theorem writeWith_oob_iff (s : Db) (idx : Nat) (sl : Slot) (d : List UInt8) (a : Option Nat) (t : Bool)
    (hs : s.slot? idx = some sl) :
    (s.writeWith idx d a t).2 = .err .writeOutOfBounds ↔ ∃ at_, a = some at_ ∧ at_ > sl.md.len := by
  rw [writeWith_some _ _ _ _ _ _ hs]
  constructor
  · intro h
    by_cases hc : outOfBounds a sl.md.len = true
    · unfold outOfBounds at hc; split at hc <;> simp_all
    · rw [if_neg hc] at h
      exfalso
      split at h
      · exact writeFits_out _ _ _ _ _ _ _ h
      · have := writeGrow_out _ _ _ _ _ _ _ _ h; simp at this
  · rintro ⟨at_, rfl, hgt⟩
    simp [outOfBounds, hgt]

theorem truncate_err_unchanged (s : Db) (idx n : Nat) (k : ErrKind)
    (h : (s.truncate idx n).2 = .err k) : (s.truncate idx n).1 = s := by
  unfold truncate at *; grind

theorem truncate_refused_iff (s : Db) (idx n : Nat) (sl : Slot) (hs : s.slot? idx = some sl) :
    (s.truncate idx n).2 = .err .truncateInvalid ↔ n > sl.md.len := by
  unfold truncate; simp only [hs]; grind

theorem rename_err_unchanged (s : Db) (idx : Nat) (nid : RegionId) (k : ErrKind)
    (h : (s.rename idx nid).2 = .err k) : (s.rename idx nid).1 = s := by
  unfold rename at *; grind

theorem rename_refused_iff (s : Db) (idx : Nat) (nid : RegionId) (sl : Slot) (hs : s.slot? idx = some sl) :
    (s.rename idx nid).2 = .err .regionAlreadyExists ↔ (s.findId nid).isSome := by
  unfold rename; simp only [hs]; grind

theorem removeId_absent_unchanged (s : Db) (id : RegionId) (x : Bool) (h : s.findId id = none) :
    s.removeId id x = (s, .err .regionNotFound) := by
  unfold removeId; simp [h]

end AnyDB.Db
