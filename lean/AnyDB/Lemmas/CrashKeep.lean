import AnyDB.Props.C01Total
import AnyDB.Props.C05
namespace AnyDB.C05r
open AnyDB Conc Db C02r C01r Mem

/-! # what a request stores, and where: the events of a step avoid every region it does not name -/

/-- the event stores nothing into `[a, b)` of the data file and does not cut the file below `b`; it does not write
slot `j` of the metadata file and does not cut that file below the slot -/
def Av (j a b : Nat) : Event → Prop
  | .dataWrite off d => off + d.length ≤ a ∨ b ≤ off
  | .punch off len => off + len ≤ a ∨ b ≤ off
  | .setLen .data n => b ≤ n
  | .setLen .regions n => (j + 1) * Gen.SIZE_OF_REGION_METADATA ≤ n
  | .metaWrite idx _ => idx ≠ j
  | _ => True

/-- `s'` was reached from `s` by steps that left the metadata of slot `j` alone, appended only events that avoid
`[a, b)`, and did not shrink the file -/
def Keep (j a b : Nat) (s s' : Db) : Prop :=
  (s'.slot? j).map (·.md) = (s.slot? j).map (·.md) ∧
  (∃ evs, s'.log = s.log ++ evs ∧ ∀ e ∈ evs, Av j a b e) ∧ s.fileLen ≤ s'.fileLen ∧ s.rfile.length ≤ s'.rfile.length

theorem Keep.refl (j a b : Nat) (s : Db) : Keep j a b s s := ⟨rfl, ⟨[], by simp, by simp⟩, Nat.le_refl _, Nat.le_refl _⟩

theorem Keep.trans {j a b : Nat} {s1 s2 s3 : Db} (h1 : Keep j a b s1 s2) (h2 : Keep j a b s2 s3) : Keep j a b s1 s3 := by
  obtain ⟨a1, ⟨e1, l1, p1⟩, f1, g1⟩ := h1
  obtain ⟨a2, ⟨e2, l2, p2⟩, f2, g2⟩ := h2
  refine ⟨a2.trans a1, ⟨e1 ++ e2, by rw [l2, l1, List.append_assoc], ?_⟩, Nat.le_trans f1 f2, Nat.le_trans g1 g2⟩
  intro e he
  rcases List.mem_append.mp he with h | h
  · exact p1 e h
  · exact p2 e h

theorem keep_of_eq (j a b : Nat) (s s' : Db) (h1 : s'.slots = s.slots) (h2 : s'.log = s.log) (h3 : s'.fileLen = s.fileLen)
    (h4 : s'.rfile = s.rfile) : Keep j a b s s' :=
  ⟨by unfold Db.slot?; rw [h1], ⟨[], by simp [h2], by simp⟩, by rw [h3]; exact Nat.le_refl _, by rw [h4]; exact Nat.le_refl _⟩

theorem keep_emit (j a b : Nat) (s : Db) (e : Event) (h : Av j a b e) : Keep j a b s (s.emit e) :=
  ⟨rfl, ⟨[e], rfl, by intro x hx; simp at hx; rw [hx]; exact h⟩, Nat.le_refl _, Nat.le_refl _⟩

theorem slot_set_other (s : Db) (idx j : Nat) (o : Option Slot) (hj : j ≠ idx) : (s.setSlot idx o).slot? j = s.slot? j := by
  unfold Db.slot? Db.setSlot; simp only []; rw [List.getElem?_set_ne (Ne.symm hj)]

theorem keep_setSlot_ne (j a b : Nat) (s : Db) (idx : Nat) (o : Option Slot) (hj : j ≠ idx) : Keep j a b s (s.setSlot idx o) :=
  ⟨by rw [slot_set_other s idx j o hj], ⟨[], by simp [Db.setSlot], by simp⟩, Nat.le_refl _, Nat.le_refl _⟩

/-- replacing a slot by one with the same metadata -/
theorem keep_setSlot_md (j a b : Nat) (s : Db) (idx : Nat) (old new : Slot) (hs : s.slot? idx = some old) (hm : new.md = old.md) :
    Keep j a b s (s.setSlot idx (some new)) := by
  refine ⟨?_, ⟨[], by simp [Db.setSlot], by simp⟩, Nat.le_refl _, Nat.le_refl _⟩
  by_cases hj : j = idx
  · subst hj
    rw [slot_setSlot_self s j old new hs, hs]; simp [hm]
  · rw [slot_set_other s idx j _ hj]

theorem keep_writeIfDirty_ne (j a b : Nat) (s : Db) (idx : Nat) (sl : Slot) (hj : j ≠ idx) : Keep j a b s (s.writeIfDirty idx sl) := by
  unfold Db.writeIfDirty
  split
  · refine ⟨?_, ⟨[_], rfl, by intro x hx; simp at hx; rw [hx]; exact Ne.symm hj⟩, Nat.le_refl _, by simp⟩
    unfold Db.slot?; simp only []; rw [List.getElem?_set_ne (Ne.symm hj)]
  · exact keep_setSlot_ne j a b s idx _ hj

theorem keep_dataWrite (j a b : Nat) (s s' : Db) (off : Nat) (d : List UInt8) (h : s.dataWrite off d = some s')
    (hav : off + d.length ≤ a ∨ b ≤ off) : Keep j a b s s' := by
  unfold Db.dataWrite at h
  split at h
  · cases h
    exact ⟨rfl, ⟨[_], rfl, by intro x hx; simp at hx; rw [hx]; exact hav⟩, Nat.le_refl _, Nat.le_refl _⟩
  · cases h

theorem keep_setMinLen (j a b : Nat) (s : Db) (n : Nat) (hb : b ≤ s.fileLen) : Keep j a b s (s.setMinLen n) := by
  unfold Db.setMinLen
  simp only []
  split
  · exact Keep.refl _ _ _ _
  · rename_i hlt
    have h2 := le_ceilPage2 (max (max (ceilPage n) (s.fileLen * Gen.GROW_FACTOR)) Gen.GROW_FLOOR)
    have key : b ≤ ceilPage (max (max (ceilPage n) (s.fileLen * Gen.GROW_FACTOR)) Gen.GROW_FLOOR) := by omega
    have key2 : s.fileLen ≤ ceilPage (max (max (ceilPage n) (s.fileLen * Gen.GROW_FACTOR)) Gen.GROW_FLOOR) := by omega
    refine ⟨rfl, ⟨[_], rfl, ?_⟩, key2, Nat.le_refl _⟩
    intro x hx; rw [List.mem_singleton] at hx; rw [hx]; exact key

theorem keep_regionsSetMinSlots (j a b : Nat) (s : Db) (n : Nat) (hjr : j < s.rfile.length) : Keep j a b s (s.regionsSetMinSlots n) := by
  unfold Db.regionsSetMinSlots
  split
  · rename_i hlt
    refine ⟨rfl, ⟨[_], rfl, ?_⟩, Nat.le_refl _, by simp⟩
    intro x hx; rw [List.mem_singleton] at hx; rw [hx]
    show (j + 1) * Gen.SIZE_OF_REGION_METADATA ≤ n * Gen.SIZE_OF_REGION_METADATA
    exact Nat.mul_le_mul_right _ (by omega)
  · exact Keep.refl _ _ _ _

theorem keep_dataCopy (j a b : Nat) (s s' : Db) (src dst n : Nat) (h : s.dataCopy src dst n = .ok s')
    (hav : dst + n ≤ a ∨ b ≤ dst) : Keep j a b s s' := by
  unfold Db.dataCopy at h
  split at h
  · cases h; exact Keep.refl _ _ _ _
  · split at h
    · cases h
    · split at h
      · cases h
      · rename_i hin
        split at h
        · rename_i hw; cases h
          have hsl : (s.mem.slice src n).length = n := slice_length s.mem src n (by omega)
          exact keep_dataWrite j a b s _ dst _ hw (by rw [hsl]; exact hav)
        · cases h

theorem keep_punchIfData (j a b : Nat) (acc : Db × Nat) (off len : Nat) (hav : off + len ≤ a ∨ b ≤ off) :
    Keep j a b acc.1 (punchIfData acc off len).1 := by
  unfold punchIfData; split
  · exact ⟨rfl, ⟨[_], rfl, by intro x hx; simp at hx; rw [hx]; exact hav⟩, Nat.le_refl _, Nat.le_refl _⟩
  · exact Keep.refl _ _ _ _

end AnyDB.C05r
