import AnyDB.Lemmas.RegionGrowFine
namespace AnyDB.C01r
open AnyDB Conc Db C02r Mem

theorem fine_ok : Fine .ok := ⟨by simp [IsPanic], by simp⟩
theorem fine_okN (n : Nat) : Fine (.okN n) := ⟨by simp [IsPanic], by simp⟩
theorem fine_err (k : ErrKind) (h : k ≠ .regionSizeOverflow) : Fine (.err k) := ⟨by simp [IsPanic], by simpa using h⟩

theorem writeWith_fine (s : Db) (hinv : RInv s) (hi : InF s) (idx : Nat) (d : List UInt8) (at_ : Option Nat) (tr : Bool)
    (hsmall : ∀ sl, s.slot? idx = some sl → Db.outOfBounds at_ sl.md.len = false → Db.newLenOf at_ tr sl.md.len d.length ≤ MAX_LEN) :
    Fine (s.writeWith idx d at_ tr).2 := by
  unfold Db.writeWith
  cases hs : s.slot? idx with
  | none => exact fine_err _ (by simp)
  | some sl =>
    simp only
    by_cases hoob : Db.outOfBounds at_ sl.md.len = true
    · rw [if_pos hoob]; exact fine_err _ (by simp)
    · rw [if_neg hoob]
      have hoob' : Db.outOfBounds at_ sl.md.len = false := by simpa using hoob
      have hsm := hsmall sl hs hoob'
      have h1 : at_.getD sl.md.len + d.length ≤ Db.newLenOf at_ tr sl.md.len d.length := by
        unfold Db.newLenOf
        cases at_ with
        | none => simp
        | some a => simp only [Option.getD_some]; split <;> omega
      split
      · rename_i hfit
        exact ⟨writeFits_nopanic s idx sl d _ _ hi hs h1 hfit, Db.writeFits_out _ _ _ _ _ _ _⟩
      · rename_i hn
        have hcl : (if tr = true then at_.getD sl.md.len else sl.md.len) ≤ sl.md.len := by
          split
          · cases at_ with
            | none => simp
            | some a => simp only [Option.getD_some]; exact (oob_some a _).mp hoob'
          · exact Nat.le_refl _
        exact writeGrow_fine s hinv hi idx sl d _ _ _ hs (by omega) hcl h1 hsm

theorem withRegion_fine (s : Db) (id : RegionId) (f : Nat → Db × Out) (h : ∀ idx, s.findId id = some idx → Fine (f idx).2) :
    Fine (s.withRegion id f).2 := by
  unfold Db.withRegion
  cases hf : s.findId id with
  | none => exact fine_err _ (by simp)
  | some idx => exact h idx hf

theorem create_fine (s : Db) (h : LInv s) (id : RegionId) (hv : idValid id = true) : Fine (s.create id).2 := by
  refine ⟨?_, create_noerr s h id _⟩
  unfold Db.create
  split
  · simp [IsPanic]
  · simp only
    generalize (if (bestFit s.holes Gen.PAGE_SIZE).isNone = true then s.setMinLen (s.layoutLen + Gen.PAGE_SIZE) else s) = s0
    cases hb : bestFit s0.holes Gen.PAGE_SIZE with
    | none => simp only []; split; (rename_i hc; simp [hv] at hc); exact fun h => h
    | some hstart =>
      simp only
      cases hrc : removeOrCompress s0.holes hstart Gen.PAGE_SIZE with
      | error e => simp [IsPanic]
      | ok hs => simp only []; split; (rename_i hc; simp [hv] at hc); exact fun h => h

theorem truncate_fine (s : Db) (idx n : Nat) : Fine (s.truncate idx n).2 := by
  unfold Db.truncate
  split
  · exact fine_err _ (by simp)
  · split
    · exact fine_ok
    · split
      · exact fine_err _ (by simp)
      · exact fine_ok

theorem rename_fine (s : Db) (idx : Nat) (nid : RegionId) (hv : idValid nid = true) : Fine (s.rename idx nid).2 := by
  unfold Db.rename
  split
  · exact fine_err _ (by simp)
  · split
    · exact fine_err _ (by simp)
    · rw [if_neg (by simp [hv])]; exact fine_ok

theorem remove_fine (s : Db) (idx : Nat) (x : Bool) : Fine (s.remove idx x).2 := by
  unfold Db.remove
  split
  · exact fine_err _ (by simp)
  · simp only; split
    · exact fine_err _ (by simp)
    · split
      · exact fine_err _ (by simp)
      · exact fine_ok

theorem removeId_fine (s : Db) (id : RegionId) (x : Bool) : Fine (s.removeId id x).2 := by
  unfold Db.removeId
  split
  · exact fine_err _ (by simp)
  · exact remove_fine _ _ _

theorem retain_fine (s : Db) (keep : List RegionId) : Fine (s.retain keep).2 := by
  unfold Db.retain
  generalize (List.range s.slots.length).filter _ = victims
  suffices hh : ∀ (acc : Db × Out), Fine acc.2 →
      Fine (victims.foldl (fun (acc : Db × Out) i => match acc.2 with | .ok => acc.1.remove i false | _ => acc) acc).2 from hh (s, .ok) fine_ok
  induction victims with
  | nil => intro acc ha; exact ha
  | cons v t ih =>
    intro acc ha
    simp only [List.foldl_cons]
    split
    · exact ih _ (remove_fine _ _ _)
    · exact ih _ ha

theorem flush_out (s : Db) : ∃ n, s.flush.2 = .okN n := by
  unfold Db.flush
  simp only []
  split
  · exact ⟨_, rfl⟩
  · exact ⟨_, rfl⟩

theorem flush_fine (s : Db) : Fine s.flush.2 := by
  obtain ⟨n, h⟩ := flush_out s; rw [h]; exact fine_okN n

theorem compact_fine (s : Db) : Fine s.compact.2 := by
  unfold Db.compact
  obtain ⟨n, h⟩ := flush_out s
  generalize s.flush = r at h
  obtain ⟨s1, o⟩ := r
  simp only at h ⊢
  subst h
  exact fine_ok

theorem regionFlush_fine (s : Db) (idx : Nat) : Fine (s.regionFlush idx).2 := by
  unfold Db.regionFlush
  cases hs : s.slot? idx with
  | none => exact fine_err _ (by simp)
  | some sl =>
    simp only
    by_cases hb : sl.dmin < sl.dmax
    · simp only [hb, if_true, Option.isSome_some]
      cases hst : sl.st <;> first | exact fine_ok | exact fine_okN _ | exact fine_err _ (by simp)
    · simp only [hb, if_false, Option.isSome_none, Bool.false_eq_true]
      cases hst : sl.st <;> first | exact fine_ok | exact fine_okN _ | exact fine_err _ (by simp)

end AnyDB.C01r
