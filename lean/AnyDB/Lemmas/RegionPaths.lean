import AnyDB.Lemmas.RegionWrite
namespace AnyDB.C01r
open AnyDB Conc Db C02r Mem

/-! ## metadata setters, slot writes, data writes: what they leave behind -/

theorem md_metaSetLen (sl : Slot) (n : Nat) : (metaSetLen sl n).md = { sl.md with len := n } := by
  unfold metaSetLen; split
  · rename_i h; cases sl with | mk md st a b => cases md; simp_all
  · rfl
theorem md_metaSetReserved (sl : Slot) (n : Nat) : (metaSetReserved sl n).md = { sl.md with reserved := n } := by
  unfold metaSetReserved; split
  · rename_i h; cases sl with | mk md st a b => cases md; simp_all
  · rfl
theorem md_metaSetStart (sl : Slot) (n : Nat) : (metaSetStart sl n).md = { sl.md with start := n } := by
  unfold metaSetStart; split
  · rename_i h; cases sl with | mk md st a b => cases md; simp_all
  · rfl
theorem md_metaSetId (sl : Slot) (n : RegionId) : (metaSetId sl n).md = { sl.md with id := n } := by
  unfold metaSetId; split
  · rename_i h; cases sl with | mk md st a b => cases md; simp_all
  · rfl
theorem md_markDirty (sl : Slot) (a b : Nat) : (markDirty sl a b).md = sl.md := rfl

/-- `write_if_dirty` stores a slot with the given metadata and touches nothing else that a reader sees -/
theorem writeIfDirty_shape (s : Db) (idx : Nat) (sl : Slot) :
    ∃ X, X.md = sl.md ∧ (s.writeIfDirty idx sl).slots = s.slots.set idx (some X) ∧ (s.writeIfDirty idx sl).mem = s.mem := by
  unfold Db.writeIfDirty
  split
  · exact ⟨{ sl with st := .needsFlush }, rfl, rfl, rfl⟩
  · exact ⟨sl, rfl, rfl, rfl⟩

theorem finishWrite_shape (s : Db) (idx : Nat) (sl : Slot) (wo dl nl : Nat) :
    ∃ X, X.md = { sl.md with len := nl } ∧ (s.finishWrite idx sl wo dl nl).slots = s.slots.set idx (some X) ∧
      (s.finishWrite idx sl wo dl nl).mem = s.mem := by
  unfold Db.finishWrite
  obtain ⟨X, h1, h2, h3⟩ := writeIfDirty_shape s idx (metaSetLen (markDirty sl wo dl) nl)
  exact ⟨X, by rw [h1, md_metaSetLen, md_markDirty], h2, h3⟩

theorem dataWrite_some (s s' : Db) (off : Nat) (d : List UInt8) (h : s.dataWrite off d = some s') :
    s.mem.writeAt off d = some s'.mem ∧ s'.slots = s.slots := by
  unfold Db.dataWrite at h
  cases hw : s.mem.writeAt off d with
  | none => simp [hw] at h
  | some m => simp [hw] at h; subst h; exact ⟨rfl, rfl⟩

theorem setMinLen_shape (s : Db) (n : Nat) :
    (s.setMinLen n).slots = s.slots ∧ s.mem.size ≤ (s.setMinLen n).mem.size ∧
      ∀ x, x < s.mem.size → (s.setMinLen n).mem.get? x = s.mem.get? x := by
  unfold Db.setMinLen
  simp only []
  split
  · exact ⟨rfl, Nat.le_refl _, fun _ _ => rfl⟩
  · exact ⟨rfl, by simp only [size_grow]; omega, fun x hx => by simp only [get?_grow, if_pos hx]⟩

theorem writeAt_bound {m m' : Mem} {off : Nat} {d : List UInt8} (h : m.writeAt off d = some m') : off + d.length ≤ m.size := by
  unfold Mem.writeAt at h
  split at h
  · assumption
  · cases h

/-- `wo + |d| ≤ newLen` and `newLen ≤ max (wo+|d|) len` -/
theorem newLen_bounds (at_ : Option Nat) (tr : Bool) (len dl : Nat) :
    at_.getD len + dl ≤ Db.newLenOf at_ tr len dl ∧ Db.newLenOf at_ tr len dl ≤ max (at_.getD len + dl) len := by
  unfold Db.newLenOf
  cases at_ with
  | none => simp
  | some a => cases tr <;> simp <;> omega

/-- what a successful `write_with` leaves behind, in the terms `rel_write_generic` asks for -/
def Shape (s s' : Db) (idx : Nat) (sl : Slot) (d : List UInt8) (at_ : Option Nat) (tr : Bool) : Prop :=
  ∃ new : Slot, s'.slots = s.slots.set idx (some new) ∧ new.md.id = sl.md.id ∧
    new.md.len = Db.newLenOf at_ tr sl.md.len d.length ∧ new.md.len ≤ new.md.reserved ∧
    new.md.start + new.md.len ≤ s'.mem.size ∧ MemFrame s.mem s'.mem new.md.start new.md.reserved ∧
    (∀ i, at_.getD sl.md.len ≤ i → i < at_.getD sl.md.len + d.length → s'.mem.get? (new.md.start + i) = d[i - at_.getD sl.md.len]?) ∧
    (∀ i, i < sl.md.len → i < new.md.len → ¬(at_.getD sl.md.len ≤ i ∧ i < at_.getD sl.md.len + d.length) →
      s'.mem.get? (new.md.start + i) = s.mem.get? (sl.md.start + i))

/-- the three in-place paths: the slot keeps its start, memory is grown (or not) and then written once -/
theorem shape_in_place (s s' : Db) (idx : Nat) (sl X : Slot) (d : List UInt8) (at_ : Option Nat) (tr : Bool) (m1 : Mem) (nr : Nat)
    (hb : 0 < sl.md.len → sl.md.start + sl.md.len ≤ s.mem.size)
    (hslots : s'.slots = s.slots.set idx (some X))
    (hX : X.md = { sl.md with len := Db.newLenOf at_ tr sl.md.len d.length, reserved := nr })
    (hnr : Db.newLenOf at_ tr sl.md.len d.length ≤ nr)
    (hg1 : s.mem.size ≤ m1.size) (hg2 : ∀ x, x < s.mem.size → m1.get? x = s.mem.get? x)
    (hw : m1.writeAt (sl.md.start + at_.getD sl.md.len) d = some s'.mem) :
    Shape s s' idx sl d at_ tr := by
  have hnb := newLen_bounds at_ tr sl.md.len d.length
  have hwb := writeAt_bound hw
  have hsz := size_writeAt hw
  refine ⟨X, hslots, by rw [hX], by rw [hX], by rw [hX]; exact hnr, ?_, ?_, ?_, ?_⟩
  · rw [hX]; simp only; omega
  · rw [hX]; simp only
    refine ⟨by omega, fun x hx hn => ?_⟩
    rw [get?_writeAt hw, if_neg (by omega), hg2 x hx]
  · intro i h1 h2
    rw [hX]; simp only
    rw [get?_writeAt hw, if_pos (by omega)]
    congr 1; omega
  · intro i h1 _ h3
    rw [hX]; simp only
    rw [get?_writeAt hw, if_neg (by omega), hg2 _ (by omega)]


theorem shape_writeFits (s : Db) (idx : Nat) (sl : Slot) (d : List UInt8) (at_ : Option Nat) (tr : Bool)
    (hb : 0 < sl.md.len → sl.md.start + sl.md.len ≤ s.mem.size) (hfit : Db.newLenOf at_ tr sl.md.len d.length ≤ sl.md.reserved)
    (hok : (s.writeFits idx sl d (at_.getD sl.md.len) (Db.newLenOf at_ tr sl.md.len d.length)).2 = .ok) :
    Shape s (s.writeFits idx sl d (at_.getD sl.md.len) (Db.newLenOf at_ tr sl.md.len d.length)).1 idx sl d at_ tr := by
  unfold Db.writeFits at hok ⊢
  cases hw : s.dataWrite (sl.md.start + at_.getD sl.md.len) d with
  | none => simp [hw] at hok
  | some s1 =>
    simp only [hw]
    obtain ⟨hm, hsl1⟩ := dataWrite_some s s1 _ _ hw
    split
    · obtain ⟨X, x1, x2, x3⟩ := writeIfDirty_shape s1 idx
        (metaSetLen (markDirty sl (at_.getD sl.md.len) d.length) (Db.newLenOf at_ tr sl.md.len d.length))
      refine shape_in_place s _ idx sl X d at_ tr s.mem sl.md.reserved hb (by rw [x2, hsl1]) (by rw [x1, md_metaSetLen, md_markDirty]) hfit
        (Nat.le_refl _) (fun _ _ => rfl) (by rw [x3]; exact hm)
    · rename_i hne
      have hnl : Db.newLenOf at_ tr sl.md.len d.length = sl.md.len := by simpa [Db.markDirty] using hne
      refine shape_in_place s _ idx sl (markDirty sl (at_.getD sl.md.len) d.length) d at_ tr s.mem sl.md.reserved hb
        (by simp only [Db.setSlot, hsl1]) (by rw [md_markDirty, hnl]) hfit (Nat.le_refl _) (fun _ _ => rfl) hm

theorem shape_writeExtendLast (s : Db) (idx : Nat) (sl : Slot) (d : List UInt8) (at_ : Option Nat) (tr : Bool) (nr : Nat)
    (hb : 0 < sl.md.len → sl.md.start + sl.md.len ≤ s.mem.size) (hnr : Db.newLenOf at_ tr sl.md.len d.length ≤ nr)
    (hok : (s.writeExtendLast idx sl d (at_.getD sl.md.len) (Db.newLenOf at_ tr sl.md.len d.length) nr).2 = .ok) :
    Shape s (s.writeExtendLast idx sl d (at_.getD sl.md.len) (Db.newLenOf at_ tr sl.md.len d.length) nr).1 idx sl d at_ tr := by
  unfold Db.writeExtendLast at hok ⊢
  split at hok
  · cases hok
  · rename_i hmax
    rw [if_neg hmax]
    simp only [] at hok ⊢
    have hst : (metaSetReserved sl nr).md.start = sl.md.start := by rw [md_metaSetReserved]
    rw [hst] at hok ⊢
    obtain ⟨g1, g2, g3⟩ := setMinLen_shape (s.setSlot idx (some (metaSetReserved sl nr))) (sl.md.start + nr)
    cases hw : ((s.setSlot idx (some (metaSetReserved sl nr))).setMinLen (sl.md.start + nr)).dataWrite (sl.md.start + at_.getD sl.md.len) d with
    | none => simp [hw] at hok
    | some s3 =>
      simp only [hw]
      obtain ⟨hm, hsl3⟩ := dataWrite_some _ s3 _ _ hw
      obtain ⟨X, x1, x2, x3⟩ := finishWrite_shape s3 idx (metaSetReserved sl nr) (at_.getD sl.md.len) d.length (Db.newLenOf at_ tr sl.md.len d.length)
      refine shape_in_place s _ idx sl X d at_ tr _ nr hb ?_ (by rw [x1, md_metaSetReserved]) hnr g2 g3 (by rw [x3]; exact hm)
      rw [x2, hsl3, g1]
      simp only [Db.setSlot, List.set_set]

theorem shape_writeExpand (s : Db) (idx : Nat) (sl : Slot) (d : List UInt8) (at_ : Option Nat) (tr : Bool) (nr : Nat)
    (hb : 0 < sl.md.len → sl.md.start + sl.md.len ≤ s.mem.size) (hnr : Db.newLenOf at_ tr sl.md.len d.length ≤ nr)
    (hok : (s.writeExpand idx sl d (at_.getD sl.md.len) (Db.newLenOf at_ tr sl.md.len d.length) nr).2 = .ok) :
    Shape s (s.writeExpand idx sl d (at_.getD sl.md.len) (Db.newLenOf at_ tr sl.md.len d.length) nr).1 idx sl d at_ tr := by
  unfold Db.writeExpand at hok ⊢
  cases hrc : removeOrCompress s.holes (sl.md.start + sl.md.reserved) (nr - sl.md.reserved) with
  | error e => simp [hrc] at hok
  | ok hs =>
    simp only [hrc] at hok ⊢
    split at hok
    · cases hok
    · rename_i hmax
      rw [if_neg hmax]
      have hst : (metaSetReserved sl nr).md.start = sl.md.start := by rw [md_metaSetReserved]
      rw [hst] at hok ⊢
      cases hw : (({ s with holes := hs } : Db).setSlot idx (some (metaSetReserved sl nr))).dataWrite (sl.md.start + at_.getD sl.md.len) d with
      | none => simp [hw] at hok
      | some s3 =>
        simp only [hw]
        obtain ⟨hm, hsl3⟩ := dataWrite_some _ s3 _ _ hw
        obtain ⟨X, x1, x2, x3⟩ := finishWrite_shape s3 idx (metaSetReserved sl nr) (at_.getD sl.md.len) d.length (Db.newLenOf at_ tr sl.md.len d.length)
        refine shape_in_place s _ idx sl X d at_ tr s.mem nr hb ?_ (by rw [x1, md_metaSetReserved]) hnr (Nat.le_refl _) (fun _ _ => rfl)
          (by rw [x3]; exact hm)
        rw [x2, hsl3]
        simp only [Db.setSlot, List.set_set]


/-- `Database::copy`: the destination shows the source, nothing else changes -/
theorem dataCopy_shape (p s1 : Db) (src dst len : Nat) (h : p.dataCopy src dst len = .ok s1) :
    s1.slots = p.slots ∧ s1.mem.size = p.mem.size ∧
    (∀ i, i < len → s1.mem.get? (dst + i) = p.mem.get? (src + i)) ∧
    (∀ x, ¬(dst ≤ x ∧ x < dst + len) → s1.mem.get? x = p.mem.get? x) ∧ (len = 0 ∨ dst + len ≤ p.mem.size) := by
  have hcp := fun hin => C01.C01_copy_preserves p s1 src dst len h hin
  unfold Db.dataCopy at h
  by_cases h0 : len = 0
  · simp [h0] at h; subst h
    exact ⟨rfl, rfl, by intro i hi; omega, fun _ _ => rfl, Or.inl h0⟩
  · simp only [h0, if_false] at h
    split at h
    · cases h
    · split at h
      · cases h
      · rename_i _ hin
        have hin' : src + len ≤ p.mem.size := by omega
        have hsl : (p.mem.slice src len).length = len := by
          unfold Mem.slice Mem.size at *; simp; omega
        cases hw : p.dataWrite dst (p.mem.slice src len) with
        | none => simp [hw] at h
        | some s' =>
          simp [hw] at h; subst h
          obtain ⟨hm, hsl1⟩ := dataWrite_some p s' _ _ hw
          refine ⟨hsl1, size_writeAt hm, (hcp hin').1, fun x hx => ?_, Or.inr ?_⟩
          · rw [get?_writeAt hm, hsl, if_neg hx]
          · have := writeAt_bound hm; rw [hsl] at this; exact this

theorem shape_writeRelocate (s p : Db) (idx : Nat) (sl : Slot) (d : List UInt8) (at_ : Option Nat) (tr : Bool) (nr ns : Nat)
    (hb : 0 < sl.md.len → sl.md.start + sl.md.len ≤ s.mem.size) (hlr : sl.md.len ≤ nr) (hnr : Db.newLenOf at_ tr sl.md.len d.length ≤ nr)
    (hoob : Db.outOfBounds at_ sl.md.len = false)
    (hp1 : p.slots = s.slots) (hp2 : s.mem.size ≤ p.mem.size) (hp3 : ∀ x, x < s.mem.size → p.mem.get? x = s.mem.get? x)
    (hok : (p.writeRelocate idx sl d (at_.getD sl.md.len) (Db.newLenOf at_ tr sl.md.len d.length) nr
      (if tr then at_.getD sl.md.len else sl.md.len) ns).2 = .ok) :
    Shape s (p.writeRelocate idx sl d (at_.getD sl.md.len) (Db.newLenOf at_ tr sl.md.len d.length) nr
      (if tr then at_.getD sl.md.len else sl.md.len) ns).1 idx sl d at_ tr := by
  have hnb := newLen_bounds at_ tr sl.md.len d.length
  have hwo : at_.getD sl.md.len ≤ sl.md.len := by
    cases at_ with
    | none => simp
    | some a => exact (oob_some _ _).mp hoob
  generalize hcl : (if tr then at_.getD sl.md.len else sl.md.len) = cl at hok ⊢
  have hcl1 : cl ≤ sl.md.len := by rw [← hcl]; split <;> omega
  have hcl2 : ∀ i, i < sl.md.len → i < Db.newLenOf at_ tr sl.md.len d.length →
      ¬(at_.getD sl.md.len ≤ i ∧ i < at_.getD sl.md.len + d.length) → i < cl := by
    intro i h1 h2 h3
    rw [← hcl]
    cases tr with
    | false => simpa using h1
    | true =>
      simp only [if_true]
      unfold Db.newLenOf at h2
      cases at_ with
      | none => simp at h2 h3 ⊢; omega
      | some a => simp at h2 h3 ⊢; omega
  have hcl3 : Db.newLenOf at_ tr sl.md.len d.length ≤ max (at_.getD sl.md.len + d.length) cl := by
    rw [← hcl]
    unfold Db.newLenOf
    cases at_ with
    | none => cases tr <;> simp
    | some a => cases tr <;> simp <;> omega
  unfold Db.writeRelocate at hok ⊢
  cases hc : p.dataCopy sl.md.start ns cl with
  | error o =>
    simp [hc] at hok; subst hok
    rcases Db.dataCopy_err p _ _ _ _ hc with h | ⟨m, h⟩ <;> cases h
  | ok s1 =>
    simp only [hc] at hok ⊢
    obtain ⟨c1, c2, c3, c4, c5⟩ := dataCopy_shape p s1 _ _ _ hc
    cases hw : s1.dataWrite (ns + at_.getD sl.md.len) d with
    | none => simp [hw] at hok
    | some s2 =>
      simp only [hw] at hok ⊢
      obtain ⟨hm, hsl2⟩ := dataWrite_some s1 s2 _ _ hw
      have hwb := writeAt_bound hm
      have hsz2 := size_writeAt hm
      split at hok
      · cases hok
      · rename_i hr
        rw [if_neg hr]
        split at hok
        · cases hok
        · rename_i hres
          rw [if_neg hres]
          split at hok
          · cases hok
          · rename_i hmax
            rw [if_neg hmax]
            simp only [] at hok ⊢
            obtain ⟨X, x1, x2, x3⟩ := writeIfDirty_shape
              ({ ({ (s2.layoutRemoveRegion idx sl.md.start sl.md.reserved).1 with
                    regions := (s2.layoutRemoveRegion idx sl.md.start sl.md.reserved).1.regions ++ [(ns, idx)] } : Db) with
                  reserved := alErase (s2.layoutRemoveRegion idx sl.md.start sl.md.reserved).1.reserved ns } : Db) idx
              (metaSetLen (metaSetReserved (metaSetStart (markDirty sl 0 (Db.newLenOf at_ tr sl.md.len d.length)) ns) nr) (Db.newLenOf at_ tr sl.md.len d.length))
            have hlr_slots : (s2.layoutRemoveRegion idx sl.md.start sl.md.reserved).1.slots = s2.slots := by
              unfold Db.layoutRemoveRegion; simp only []; split <;> (try split) <;> rfl
            have hlr_mem : (s2.layoutRemoveRegion idx sl.md.start sl.md.reserved).1.mem = s2.mem := by
              unfold Db.layoutRemoveRegion; simp only []; split <;> (try split) <;> rfl
            have hXmd : X.md = { start := ns, len := Db.newLenOf at_ tr sl.md.len d.length, reserved := nr, id := sl.md.id } := by
              rw [x1, md_metaSetLen, md_metaSetReserved, md_metaSetStart, md_markDirty]
            refine ⟨X, ?_, by rw [hXmd], by rw [hXmd], by rw [hXmd]; exact hnr, ?_, ?_, ?_, ?_⟩
            · rw [x2]; simp only [hlr_slots, hsl2, c1, hp1]
            · rw [x3, hXmd]; simp only [hlr_mem]
              rcases c5 with c5 | c5 <;> omega
            · rw [x3, hXmd]; simp only [hlr_mem]
              refine ⟨by omega, fun x hx hn => ?_⟩
              rw [get?_writeAt hm, if_neg (by omega), c4 x (by omega), hp3 x hx]
            · intro i h1 h2
              rw [x3, hXmd]; simp only [hlr_mem]
              rw [get?_writeAt hm, if_pos (by omega)]
              congr 1; omega
            · intro i h1 h2 h3
              rw [x3, hXmd]; simp only [hlr_mem]
              rw [hXmd] at h2
              rw [get?_writeAt hm, if_neg (by omega), c3 i (hcl2 i h1 h2 h3), hp3 _ (by omega)]


theorem placeRelocation_shape (s p : Db) (nr ns : Nat) (h : s.placeRelocation nr = .ok (p, ns)) :
    p.slots = s.slots ∧ s.mem.size ≤ p.mem.size ∧ ∀ x, x < s.mem.size → p.mem.get? x = s.mem.get? x := by
  unfold Db.placeRelocation at h
  split at h
  · split at h
    · cases h
    · simp only [Except.ok.injEq, Prod.mk.injEq] at h
      obtain ⟨rfl, _⟩ := h
      exact ⟨rfl, Nat.le_refl _, fun _ _ => rfl⟩
  · simp only [Except.ok.injEq, Prod.mk.injEq] at h
    obtain ⟨rfl, _⟩ := h
    exact setMinLen_shape _ _

theorem shape_writeGrow (s : Db) (idx : Nat) (sl : Slot) (d : List UInt8) (at_ : Option Nat) (tr : Bool)
    (hb : sl.md.len ≤ sl.md.reserved ∧ (0 < sl.md.len → sl.md.start + sl.md.len ≤ s.mem.size)) (hoob : Db.outOfBounds at_ sl.md.len = false)
    (hok : (s.writeGrow idx sl d (at_.getD sl.md.len) (Db.newLenOf at_ tr sl.md.len d.length) (if tr then at_.getD sl.md.len else sl.md.len)).2 = .ok) :
    Shape s (s.writeGrow idx sl d (at_.getD sl.md.len) (Db.newLenOf at_ tr sl.md.len d.length) (if tr then at_.getD sl.md.len else sl.md.len)).1
      idx sl d at_ tr := by
  unfold Db.writeGrow at hok ⊢
  simp only [] at hok ⊢
  split at hok
  · cases hok
  · rename_i h0
    rw [if_neg h0]
    cases hg : growReserved 64 sl.md.reserved (Db.newLenOf at_ tr sl.md.len d.length) with
    | none => simp [hg] at hok
    | some nr =>
      simp only [hg] at hok ⊢
      have hge := growReserved_ge 64 _ _ _ hg
      have hneed := growReserved_need 64 _ _ _ hg
      split at hok
      · rename_i hl
        rw [if_pos hl]
        exact shape_writeExtendLast s idx sl d at_ tr nr hb.2 hneed hok
      · rename_i hl
        rw [if_neg hl]
        split at hok
        · rename_i hc
          rw [if_pos hc]
          exact shape_writeExpand s idx sl d at_ tr nr hb.2 hneed hok
        · rename_i hc
          rw [if_neg hc]
          cases hp : s.placeRelocation nr with
          | error e => simp [hp] at hok
          | ok r =>
            obtain ⟨p, ns⟩ := r
            simp only [hp] at hok ⊢
            obtain ⟨p1, p2, p3⟩ := placeRelocation_shape s p nr ns hp
            exact shape_writeRelocate s p idx sl d at_ tr nr ns hb.2 (by omega) hneed hoob p1 p2 p3 hok

theorem shape_writeWith (s : Db) (idx : Nat) (sl : Slot) (d : List UInt8) (at_ : Option Nat) (tr : Bool)
    (hs : s.slot? idx = some sl) (hb : sl.md.len ≤ sl.md.reserved ∧ (0 < sl.md.len → sl.md.start + sl.md.len ≤ s.mem.size))
    (hok : (s.writeWith idx d at_ tr).2 = .ok) :
    Db.outOfBounds at_ sl.md.len = false ∧ Shape s (s.writeWith idx d at_ tr).1 idx sl d at_ tr := by
  unfold Db.writeWith at hok ⊢
  simp only [hs] at hok ⊢
  split at hok
  · cases hok
  · rename_i hoob
    have hoob' : Db.outOfBounds at_ sl.md.len = false := by simpa using hoob
    refine ⟨hoob', ?_⟩
    rw [if_neg hoob]
    split at hok
    · rename_i hfit
      rw [if_pos hfit]
      exact shape_writeFits s idx sl d at_ tr hb.2 hfit hok
    · rename_i hfit
      rw [if_neg hfit]
      exact shape_writeGrow s idx sl d at_ tr hb hoob' hok

/-- a successful `write_with` on slot `idx`: the reference's byte vector of that slot gets the same write, every other slot
shows what it showed, and the invariant is kept -/
theorem rel_writeWith (s : Db) (r : Ref) (idx : Nat) (d : List UInt8) (at_ : Option Nat) (tr : Bool) (sl : Slot)
    (hrel : Rel s r) (hinv : RInv s) (hs : s.slot? idx = some sl) (hok : (s.writeWith idx d at_ tr).2 = .ok) :
    Db.outOfBounds at_ sl.md.len = false ∧
    ∃ e, r[idx]?.join = some e ∧ Rel (s.writeWith idx d at_ tr).1 (r.set idx (some (e.1, refWrite e.2 at_ tr d))) ∧
      RInv (s.writeWith idx d at_ tr).1 := by
  obtain ⟨hoob, new, h1, h2, h3, h4, h5, h6, h7, h8⟩ := shape_writeWith s idx sl d at_ tr hs (hinv.bnd idx sl hs) hok
  have hlay : LInv (s.writeWith idx d at_ tr).1 := by
    rcases linv_writeWith s hinv.lay idx d at_ tr with hp | hl
    · rw [hok] at hp; exact absurd hp (by simp [IsPanic])
    · exact hl
  exact ⟨hoob, rel_write_generic s _ r idx sl new d at_ tr hrel hinv hlay hs hoob h1 h2 h3 h4 h5 h6 h7 h8⟩

end AnyDB.C01r
