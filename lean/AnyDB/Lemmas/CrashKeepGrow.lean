import AnyDB.Lemmas.CrashKeepWrite
namespace AnyDB.C05r
open AnyDB Conc Db C02r C01r Mem

theorem slot_pos (s : Db) (h : LInv s) (j : Nat) (sl : Slot) (hs : s.slot? j = some sl) : 0 < sl.md.reserved := by
  have hm1 : extOf sl ∈ exts s.slots := (mem_exts s.slots _).mpr ⟨j, sl, (slot_iff s j sl).mp hs, rfl⟩
  exact h.pos _ ((mem_claimed s _).mpr (Or.inl hm1))

/-- the last region: every other live region lies entirely before it -/
theorem last_after (s : Db) (h : LInv s) (idx j : Nat) (sl slj : Slot) (hs : s.slot? idx = some sl) (hsj : s.slot? j = some slj)
    (hj : j ≠ idx) (hl : s.isLastAnything idx = true) : slj.md.start + slj.md.reserved ≤ sl.md.start := by
  have hap := slots_apart s h j idx slj sl hj hsj hs
  rcases hap with h1 | h1
  · exact h1
  · exfalso
    have hfree := isLast_free s h idx sl hs hl slj.md.start h1
    have hm1 : extOf slj ∈ exts s.slots := (mem_exts s.slots _).mpr ⟨j, slj, (slot_iff s j slj).mp hsj, rfl⟩
    have hc1 : extOf slj ∈ claimedDb s := (mem_claimed s _).mpr (Or.inl hm1)
    have := ind_le_cnt (claimedDb s) (extOf slj) slj.md.start hc1
    have hp := slot_pos s h j slj hsj
    rw [show extOf slj = (slj.md.start, slj.md.reserved) from rfl, ind_pos _ _ _ (by omega)] at this
    omega

theorem keep_writeGrow (j : Nat) (s : Db) (hinv : RInv s) (hi : InF s) (idx : Nat) (sl slj : Slot) (d : List UInt8) (wo nl cl : Nat)
    (hs : s.slot? idx = some sl) (hsj : s.slot? j = some slj) (hj : j ≠ idx) (b : Nat) (hb : b ≤ slj.md.start + slj.md.reserved)
    (hnl : sl.md.reserved < nl) (hcl : cl ≤ sl.md.len) (h1 : wo + d.length ≤ nl) :
    Keep j slj.md.start b s (s.writeGrow idx sl d wo nl cl).1 := by
  have hbi := hinv.bnd idx sl hs
  have hfile : b ≤ s.fileLen := by have := inE_slot s hi j slj hsj; rw [hi.1]; omega
  have hap := slots_apart s hinv.lay j idx slj sl hj hsj hs
  have hpj := slot_pos s hinv.lay j slj hsj
  unfold Db.writeGrow
  simp only []
  split
  · exact Keep.refl _ _ _ _
  · cases hg : growReserved 64 sl.md.reserved nl with
    | none => exact Keep.refl _ _ _ _
    | some nr =>
      simp only []
      have hge := growReserved_ge 64 _ _ _ hg
      have hneed := growReserved_need 64 _ _ _ hg
      split
      · rename_i hl
        have := last_after s hinv.lay idx j sl slj hs hsj hj hl
        exact keep_writeExtendLast j _ b s idx sl d wo nl nr hj hfile (by omega)
      · split
        · rename_i hce
          obtain ⟨gap, hgp, hgap⟩ := canExpand_spec s sl nr hce
          have hh := hole_apart s hinv.lay _ (mem_of_alGet s.holes _ gap hgp) j slj hsj
          simp only [] at hh
          exact keep_writeExpand j _ b s idx sl d wo nl nr hj (by omega)
        · cases hp : s.placeRelocation nr with
          | error e => exact Keep.refl _ _ _ _
          | ok r =>
            obtain ⟨p, ns⟩ := r
            simp only []
            obtain ⟨p1, p2, p3, p4⟩ := linv_placeRelocation s p hinv.lay nr ns (by omega) hp
            have kp := keep_placeRelocation j slj.md.start b s p nr ns hfile hp
            obtain ⟨slj', hsj', hmd⟩ := md_of_keep kp slj hsj
            have hra := reserved_apart p p1 (ns, nr) p2 j slj' hsj'
            rw [hmd] at hra
            simp only [] at hra
            exact kp.trans (keep_writeRelocate j _ b p idx sl d wo nl nr cl ns hj (by omega) (by omega))

theorem keep_writeWith (j : Nat) (s : Db) (hinv : RInv s) (hi : InF s) (idx : Nat) (slj : Slot) (d : List UInt8) (at_ : Option Nat) (tr : Bool)
    (hsj : s.slot? j = some slj) (hj : j ≠ idx) (b : Nat) (hb : b ≤ slj.md.start + slj.md.reserved) :
    Keep j slj.md.start b s (s.writeWith idx d at_ tr).1 := by
  unfold Db.writeWith
  cases hs : s.slot? idx with
  | none => exact Keep.refl _ _ _ _
  | some sl =>
    simp only []
    by_cases hoob : Db.outOfBounds at_ sl.md.len = true
    · rw [if_pos hoob]; exact Keep.refl _ _ _ _
    · rw [if_neg hoob]
      have hoob' : Db.outOfBounds at_ sl.md.len = false := by simpa using hoob
      have h1 := (newLen_bounds at_ tr sl.md.len d.length).1
      have hap := slots_apart s hinv.lay j idx slj sl hj hsj hs
      split
      · rename_i hfit
        exact keep_writeFits j _ b s idx sl d _ _ hj (by omega)
      · rename_i hn
        have hcl : (if tr = true then at_.getD sl.md.len else sl.md.len) ≤ sl.md.len := by
          split
          · cases at_ with
            | none => simp
            | some a => simp only [Option.getD_some]; exact (oob_some a _).mp hoob'
          · exact Nat.le_refl _
        exact keep_writeGrow j s hinv hi idx sl slj d _ _ _ hs hsj hj b hb (by omega) hcl h1

end AnyDB.C05r
