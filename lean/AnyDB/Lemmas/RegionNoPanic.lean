import AnyDB.Lemmas.RegionErrors
import AnyDB.Lemmas.LayoutInFileStep
namespace AnyDB.C01r
open AnyDB Conc Db C02r Mem

/-! # no request panics: every write lands inside the mapping -/

theorem dataWrite_fits (s : Db) (off : Nat) (d : List UInt8) (h : off + d.length ≤ s.mem.size) : ∃ s', s.dataWrite off d = some s' := by
  unfold Db.dataWrite Mem.writeAt; rw [if_pos h]; exact ⟨_, rfl⟩

theorem writeFits_nopanic (s : Db) (idx : Nat) (sl : Slot) (d : List UInt8) (wo nl : Nat) (hi : InF s) (hs : s.slot? idx = some sl)
    (h1 : wo + d.length ≤ nl) (h2 : nl ≤ sl.md.reserved) : ¬IsPanic (s.writeFits idx sl d wo nl).2 := by
  have := inE_slot s hi idx sl hs
  obtain ⟨s', hw⟩ := dataWrite_fits s (sl.md.start + wo) d (by omega)
  unfold Db.writeFits; rw [hw]; simp only; split <;> simp [IsPanic]

theorem metaSetReserved_start (sl : Slot) (nr : Nat) : (metaSetReserved sl nr).md.start = sl.md.start := by
  have := extOf_metaSetReserved sl nr
  simp only [extOf, Prod.mk.injEq] at this; exact this.1

theorem writeExtendLast_nopanic (s : Db) (idx : Nat) (sl : Slot) (d : List UInt8) (wo nl nr : Nat) (hi : InF s)
    (h1 : wo + d.length ≤ nl) (h2 : nl ≤ nr) (hmax : nr ≤ Gen.MAX_RESERVED_SIZE) : ¬IsPanic (s.writeExtendLast idx sl d wo nl nr).2 := by
  unfold Db.writeExtendLast
  rw [if_neg (by omega)]
  simp only []
  have hfl : (s.setSlot idx (some (metaSetReserved sl nr))).fileLen = (s.setSlot idx (some (metaSetReserved sl nr))).mem.size := hi.1
  obtain ⟨g1, g2, g3⟩ := setMinLen_inf (s.setSlot idx (some (metaSetReserved sl nr))) ((metaSetReserved sl nr).md.start + nr) hfl
  obtain ⟨s', hw⟩ := dataWrite_fits ((s.setSlot idx (some (metaSetReserved sl nr))).setMinLen ((metaSetReserved sl nr).md.start + nr))
    ((metaSetReserved sl nr).md.start + wo) d (by omega)
  rw [hw]; simp [IsPanic]

theorem writeExpand_nopanic (s : Db) (idx : Nat) (sl : Slot) (d : List UInt8) (wo nl nr : Nat) (hi : InF s)
    (hce : s.canExpand sl nr = true) (hr : sl.md.reserved ≤ nr)
    (h1 : wo + d.length ≤ nl) (h2 : nl ≤ nr) (hmax : nr ≤ Gen.MAX_RESERVED_SIZE) : ¬IsPanic (s.writeExpand idx sl d wo nl nr).2 := by
  unfold Db.writeExpand
  cases hrc : removeOrCompress s.holes (sl.md.start + sl.md.reserved) (nr - sl.md.reserved) with
  | error e => simp [IsPanic]
  | ok hs' =>
    simp only
    rw [if_neg (by omega)]
    obtain ⟨a1, a2, a3, a4⟩ := (inf_parts s _).mp hi.2
    obtain ⟨gap, hg, hgap⟩ := canExpand_spec s sl nr hce
    have hm := a3 _ (mem_of_alGet s.holes _ gap hg)
    simp only at hm
    have hst := metaSetReserved_start sl nr
    obtain ⟨s', hw⟩ := dataWrite_fits (({ s with holes := hs' } : Db).setSlot idx (some (metaSetReserved sl nr)))
      ((metaSetReserved sl nr).md.start + wo) d (by show _ ≤ s.mem.size; omega)
    rw [hw]; simp [IsPanic]

theorem slice_length (m : Mem) (src len : Nat) (h : src + len ≤ m.size) : (m.slice src len).length = len := by
  unfold Mem.slice Mem.size at *; simp; omega

theorem writeRelocate_nopanic (p : Db) (h : LInv p) (hi : InF p) (idx : Nat) (sl cur : Slot) (d : List UInt8) (wo nl nr cl ns : Nat)
    (hs : p.slot? idx = some cur) (hcur : extOf cur = extOf sl) (hres : (ns, nr) ∈ p.reserved)
    (hcl : cl ≤ sl.md.len) (hlen : sl.md.len ≤ sl.md.reserved) (hr : sl.md.reserved ≤ nr)
    (h1 : wo + d.length ≤ nl) (h2 : nl ≤ nr) (hmax : nr ≤ Gen.MAX_RESERVED_SIZE) :
    ¬IsPanic (p.writeRelocate idx sl d wo nl nr cl ns).2 := by
  obtain ⟨a1, a2, a3, a4⟩ := (inf_parts p _).mp hi.2
  have hnew : ns + nr ≤ p.mem.size := a2 _ hres
  have hold : sl.md.start + sl.md.reserved ≤ p.mem.size := by
    have := inE_slot p hi idx cur hs
    simp only [extOf, Prod.mk.injEq] at hcur
    rw [hcur.1, hcur.2] at this; exact this
  have hcopy : (∃ s1, p.dataCopy sl.md.start ns cl = .ok s1) ∨ (∃ k, p.dataCopy sl.md.start ns cl = .error (.err k)) := by
    unfold Db.dataCopy
    by_cases h0 : cl = 0
    · left; rw [if_pos h0]; exact ⟨_, rfl⟩
    · rw [if_neg h0]
      split
      · right; exact ⟨_, rfl⟩
      · rw [if_neg (by omega)]
        have hsl := slice_length p.mem sl.md.start cl (by omega)
        obtain ⟨s', hw⟩ := dataWrite_fits p ns (p.mem.slice sl.md.start cl) (by omega)
        left; rw [hw]; exact ⟨_, rfl⟩
  unfold Db.writeRelocate
  rcases hcopy with ⟨s1, hc⟩ | ⟨k, hc⟩
  · rw [hc]
    simp only
    have h1s := same_dataCopy p s1 _ _ _ hc
    have m1 := ms_dataCopy p s1 _ _ _ hc
    obtain ⟨s2, hw⟩ := dataWrite_fits s1 (ns + wo) d (by rw [m1.2]; omega)
    rw [hw]
    simp only
    have h2s := h1s.trans (same_dataWrite s1 s2 _ _ hw)
    have hl2 := h2s.linv h
    obtain ⟨c2, hc2, he2⟩ := same_slot p s2 h2s idx cur hs
    have hext : extOf c2 = (sl.md.start, sl.md.reserved) := by rw [he2, hcur]; rfl
    have hv2 : (vs s2)[idx]? = some (some (sl.md.start, sl.md.reserved)) := (vs_get s2 idx _).mpr ⟨c2, hc2, hext⟩
    have hg := regions_get s2 hl2 idx _ _ hv2
    have hres2 : (ns, nr) ∈ s2.reserved := by rw [h2s.2.2.1]; exact hres
    obtain ⟨rp, ro⟩ := reserved_pos_one s2 hl2
    have hga := alGet_of_mem s2.reserved (ns, nr) rp ro hres2
    unfold Db.layoutRemoveRegion
    simp only [hg, if_true, Bool.not_true, Bool.false_eq_true, if_false, hga, bne_self_eq_false]
    rw [if_neg (by omega)]
    simp [IsPanic]
  · rw [hc]; simp [IsPanic]

end AnyDB.C01r
